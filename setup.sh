#!/bin/sh
# Offline setup: pre-build every registered check once so later runs hit a warm build cache.
cd "$(dirname "$0")" || exit 1
export GOFLAGS=-mod=mod GOPROXY=off GOSUMDB=off GOTOOLCHAIN=local
mkdir -p .build .cache evidence replays
ids=$(python3 -c "import json;print(' '.join(json.load(open('checks.json')).keys()))")
rc=0
for id in $ids; do
  ./vcheck "$id" --build-only >/dev/null 2>.build/setup-$id.log || { echo "setup: build of $id failed (see .build/setup-$id.log)"; rc=1; }
done
exit $rc
