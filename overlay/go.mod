module verifoverlay

go 1.26.0
