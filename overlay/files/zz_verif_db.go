//go:build verif

package NoKV

// Verification accessors (injected through -overlay by /verif/vcheck; never part of
// the repository build). They only call existing unexported functions.

import (
	"sort"

	"github.com/feichai0017/NoKV/kv"
	"github.com/feichai0017/NoKV/lsm"
)

// VerifLSM exposes the LSM handle.
func (db *DB) VerifLSM() *lsm.LSM { return db.lsm }

// VerifRotate seals the active memtable if it holds data. Reports whether it did.
func (db *DB) VerifRotate() bool {
	if db.lsm.VerifActiveEmpty() {
		return false
	}
	db.lsm.Rotate()
	return true
}

// VerifGC runs the real value-log GC decision + rewrite on one chosen file.
func (db *DB) VerifGC(bucket, fid uint32, discardRatio float64) error {
	return db.vlog.doRunGC(bucket, fid, discardRatio)
}

// VerifVlogFiles lists, per bucket, the existing value-log file ids (sorted) and the active id.
func (db *DB) VerifVlogFiles() (files map[uint32][]uint32, active map[uint32]uint32) {
	files = map[uint32][]uint32{}
	active = map[uint32]uint32{}
	for b, mgr := range db.vlog.managers {
		if mgr == nil {
			continue
		}
		fids := append([]uint32(nil), mgr.ListFIDs()...)
		sort.Slice(fids, func(i, j int) bool { return fids[i] < fids[j] })
		files[uint32(b)] = fids
		active[uint32(b)] = mgr.ActiveFID()
	}
	return files, active
}

// VerifBatchSet pushes entries (internal keys already built) through the real commit pipeline.
func (db *DB) VerifBatchSet(entries []*kv.Entry) error { return db.batchSet(entries) }

// VerifSetExpiring writes key=value with an absolute expiry through the plain (max-version) path.
func (db *DB) VerifSetExpiring(cf kv.ColumnFamily, key, value []byte, expiresAt uint64) error {
	e := kv.NewEntryWithCF(cf, kv.InternalKey(cf, key, nonTxnMaxVersion), value)
	e.ExpiresAt = expiresAt
	e.IncrRef()
	if err := db.batchSet([]*kv.Entry{e}); err != nil {
		e.DecrRef()
		return err
	}
	return nil
}

// VerifSetThrottle toggles the write throttle exactly as the LSM callback does.
func (db *DB) VerifSetThrottle(on bool) { db.applyThrottle(on) }

// VerifSetHeadLogDelta overrides the value-log head persistence interval.
func (db *DB) VerifSetHeadLogDelta(d uint32) { db.headLogDelta = d }
