//go:build verif

// C26 — PD routes every key to the unique region containing it.
//
// Explicit-state search over the real PD service (pd/server.Service + pd/core.Cluster +
// pd/storage.LocalStore on a real manifest) and the real restart path of `nokv pd`
// (OpenLocalStore → Load → restorePDRegions → NewService/SetStorage; this file is injected
// into package main of cmd/nokv for that reason).
//
// State = region table {id -> (start,end,ver,conf)} for ids 1..3 with endpoints in
// {"",a,b,c} and epochs in {1,2}². Two complementary explorations:
//
//	graph: every candidate table (65³) is built on a fresh instance by real heartbeats;
//	       from every table the real code accepts, EVERY operation of the alphabet (192
//	       heartbeats, 3 removals, restart) is applied, judged, and reverted by real
//	       operations (remove + re-heartbeat, each judged as well); in the thorough tier
//	       the whole alphabet is applied a second time on the restarted instance.
//	       Closure is checked: every successor state must itself have been expanded.
//	seq:   seqmc DFS without state pruning over all operation sequences up to a small
//	       depth on fresh instances (history independence of the state key is not assumed).
//
// After every single operation the snapshot is compared with the model table and the keys
// {"","0","a","ab","b","c","z"} are looked up through Service.GetRegionByKey.
package main

import (
	"context"
	"encoding/json"
	"fmt"
	"os"
	"sort"
	"strconv"
	"strings"
	"testing"

	"github.com/feichai0017/NoKV/pb"
	"github.com/feichai0017/NoKV/pd/core"
	pdserver "github.com/feichai0017/NoKV/pd/server"
	pdstorage "github.com/feichai0017/NoKV/pd/storage"
	"github.com/feichai0017/NoKV/pd/tso"

	"verif/lib/seqmc"
	"verif/lib/vr"
)

var (
	c26Ends    = []string{"", "a", "b", "c"}
	c26Lookups = []string{"", "0", "a", "ab", "b", "c", "z"}
)

const c26IDs = 3
const c26PerID = 64 // 4 starts × 4 ends × 2 versions × 2 conf versions

type c26Meta struct {
	Start, End string
	Ver, Conf  uint64
}

func (m c26Meta) empty() bool            { return m.End != "" && m.End <= m.Start }
func (m c26Meta) contains(k string) bool { return m.Start <= k && (m.End == "" || k < m.End) }
func (m c26Meta) String() string {
	e := m.End
	if e == "" {
		e = "+inf"
	}
	s := m.Start
	if s == "" {
		s = "-inf"
	}
	return fmt.Sprintf("[%s,%s)@v%d.c%d", s, e, m.Ver, m.Conf)
}

func c26Overlap(a, b c26Meta) bool {
	if a.empty() || b.empty() {
		return false
	}
	if a.End != "" && a.End <= b.Start {
		return false
	}
	if b.End != "" && b.End <= a.Start {
		return false
	}
	return true
}

func c26MetaByIndex(m int) c26Meta { // m in [0,64)
	return c26Meta{Start: c26Ends[m/16], End: c26Ends[(m/4)%4], Ver: uint64(1 + (m/2)%2), Conf: uint64(1 + m%2)}
}

func c26Enc(s string) string {
	if s == "" {
		return "-"
	}
	return s
}
func c26Dec(s string) string {
	if s == "-" {
		return ""
	}
	return s
}

func c26HbOp(id uint64, m c26Meta) string {
	return fmt.Sprintf("hb:%d:%s:%s:%d:%d", id, c26Enc(m.Start), c26Enc(m.End), m.Ver, m.Conf)
}

var c26Alphabet = func() []string {
	ops := []string{"restart"}
	for id := 1; id <= c26IDs; id++ {
		ops = append(ops, fmt.Sprintf("rm:%d", id))
	}
	for id := 1; id <= c26IDs; id++ {
		for m := 0; m < c26PerID; m++ {
			ops = append(ops, c26HbOp(uint64(id), c26MetaByIndex(m)))
		}
	}
	return ops
}()

type c26Table map[uint64]c26Meta

func (t c26Table) key() string {
	ids := make([]int, 0, len(t))
	for id := range t {
		ids = append(ids, int(id))
	}
	sort.Ints(ids)
	var sb strings.Builder
	for _, id := range ids {
		fmt.Fprintf(&sb, "%d=%s;", id, t[uint64(id)])
	}
	return sb.String()
}

func (t c26Table) clone() c26Table {
	o := c26Table{}
	for k, v := range t {
		o[k] = v
	}
	return o
}

func (t c26Table) hasDegenerate() bool {
	for _, m := range t {
		if m.empty() {
			return true
		}
	}
	return false
}

// c26Inst is one PD process image: service + cluster + local store on a scratch dir,
// together with the reference model (a plain table).
type c26Inst struct {
	dir     string
	store   *pdstorage.LocalStore
	cluster *core.Cluster
	svc     *pdserver.Service
	model   c26Table
	history []string
	sig     string
	desc    string
	stats   *c26Stats
}

type c26Stats struct {
	hb, hbAccepted, hbLegal, hbLegalRejected int64
	rm, restarts, lookups                    int64
	outcomes                                 map[string]bool
}

func newC26Stats() *c26Stats { return &c26Stats{outcomes: map[string]bool{}} }

var c26Seq int

func c26New(base string, st *c26Stats) *c26Inst {
	c26Seq++
	in := &c26Inst{dir: fmt.Sprintf("%s/%d", base, c26Seq), model: c26Table{}, stats: st}
	if err := os.MkdirAll(in.dir, 0o755); err != nil {
		vr.Fatalf("mkdir: %v", err)
	}
	if err := in.boot(); err != nil {
		vr.Fatalf("initial PD boot: %v", err)
	}
	return in
}

// boot mirrors runPDCmd's start-up with --workdir: open the local store, load the
// snapshot, restore regions into a new cluster through restorePDRegions, wire the service.
func (in *c26Inst) boot() error {
	localStore, err := pdstorage.OpenLocalStore(in.dir, nil)
	if err != nil {
		return fmt.Errorf("open storage: %w", err)
	}
	snapshot, err := localStore.Load()
	if err != nil {
		_ = localStore.Close()
		return fmt.Errorf("load snapshot: %w", err)
	}
	idStart, tsStart := pdstorage.ResolveAllocatorStarts(1, 1, snapshot.Allocator)
	cluster := core.NewCluster()
	if _, err := restorePDRegions(cluster, snapshot.Regions); err != nil {
		_ = localStore.Close()
		return fmt.Errorf("restore regions: %w", err)
	}
	svc := pdserver.NewService(cluster, core.NewIDAllocator(idStart), tso.NewAllocator(tsStart))
	svc.SetStorage(localStore)
	in.store, in.cluster, in.svc = localStore, cluster, svc
	return nil
}

func (in *c26Inst) Close() {
	if in.store != nil {
		_ = in.store.Close()
		in.store = nil
	}
	_ = os.RemoveAll(in.dir)
}

func (in *c26Inst) snapshot() c26Table {
	t := c26Table{}
	for _, ri := range in.cluster.RegionSnapshot() {
		t[ri.Meta.ID] = c26Meta{Start: string(ri.Meta.StartKey), End: string(ri.Meta.EndKey), Ver: ri.Meta.Epoch.Version, Conf: ri.Meta.Epoch.ConfVersion}
	}
	return t
}

func (in *c26Inst) fail(sig, desc string) {
	if in.sig == "" {
		in.sig, in.desc = sig, desc
	}
}

func c26Parse(op string) (kind string, id uint64, m c26Meta, err error) {
	f := strings.Split(op, ":")
	kind = f[0]
	switch kind {
	case "restart":
		return
	case "rm":
		if len(f) != 2 {
			err = fmt.Errorf("bad op %q", op)
			return
		}
		id, err = strconv.ParseUint(f[1], 10, 64)
		return
	case "hb":
		if len(f) != 6 {
			err = fmt.Errorf("bad op %q", op)
			return
		}
		id, err = strconv.ParseUint(f[1], 10, 64)
		if err != nil {
			return
		}
		m.Start, m.End = c26Dec(f[2]), c26Dec(f[3])
		if m.Ver, err = strconv.ParseUint(f[4], 10, 64); err != nil {
			return
		}
		m.Conf, err = strconv.ParseUint(f[5], 10, 64)
		return
	}
	err = fmt.Errorf("unknown op %q", op)
	return
}

// Apply performs one operation on the real service, updates the model by what the service
// answered and judges the step. It reports whether the state (model table) changed.
func (in *c26Inst) Apply(op string) (bool, error) {
	kind, id, m, err := c26Parse(op)
	if err != nil {
		return false, err
	}
	in.history = append(in.history, op)
	before := in.model.key()
	ctx := context.Background()
	switch kind {
	case "hb":
		in.stats.hb++
		cur, exists := in.model[id]
		// "epoch-stale": the incoming epoch is dominated by the known one (no component
		// larger, at least one smaller) — the weakest reading of the statement.
		stale := exists && m.Ver <= cur.Ver && m.Conf <= cur.Conf && (m.Ver < cur.Ver || m.Conf < cur.Conf)
		overlapWith := uint64(0)
		for oid, o := range in.model {
			if oid != id && c26Overlap(m, o) {
				overlapWith = oid
			}
		}
		legal := !stale && overlapWith == 0
		if legal {
			in.stats.hbLegal++
		}
		resp, herr := in.svc.RegionHeartbeat(ctx, &pb.RegionHeartbeatRequest{Region: &pb.RegionMeta{
			Id: id, StartKey: []byte(m.Start), EndKey: []byte(m.End), EpochVersion: m.Ver, EpochConfVersion: m.Conf}})
		acc := herr == nil && resp.GetAccepted()
		in.stats.outcomes[fmt.Sprintf("hb legal=%v accepted=%v", legal, acc)] = true
		if acc {
			in.stats.hbAccepted++
			if stale {
				in.fail(fmt.Sprintf("accept-stale incoming=v%d.c%d known=v%d.c%d", m.Ver, m.Conf, cur.Ver, cur.Conf),
					fmt.Sprintf("heartbeat %s for region %d accepted although PD knows %s; table %s", m, id, cur, before))
			} else if overlapWith != 0 {
				in.fail("accept-overlap "+c26OverlapShape(m, in.model[overlapWith]),
					fmt.Sprintf("heartbeat %s for region %d accepted although it overlaps known region %d %s; table %s", m, id, overlapWith, in.model[overlapWith], before))
			}
			in.model[id] = m
		} else if legal {
			in.stats.hbLegalRejected++
		}
	case "rm":
		in.stats.rm++
		resp, rerr := in.svc.RemoveRegion(ctx, &pb.RemoveRegionRequest{RegionId: id})
		_, known := in.model[id]
		in.stats.outcomes[fmt.Sprintf("rm known=%v removed=%v", known, rerr == nil && resp.GetRemoved())] = true
		if rerr != nil {
			return false, fmt.Errorf("RemoveRegion(%d): %v", id, rerr)
		}
		delete(in.model, id)
	case "restart":
		in.stats.restarts++
		_ = in.store.Close()
		in.store = nil
		if err := in.boot(); err != nil {
			in.fail("reload-error", fmt.Sprintf("PD restart failed on table %s: %v", before, err))
			// keep going on an empty image so Close works
			in.cluster = core.NewCluster()
			in.svc = pdserver.NewService(in.cluster, nil, nil)
			return true, nil
		}
		in.stats.outcomes["restart"] = true
	}
	in.judgeState(op)
	return in.model.key() != before, nil
}

func c26OverlapShape(a, b c26Meta) string {
	f := func(m c26Meta) string {
		if m.End == "" {
			return "unbounded"
		}
		return "bounded"
	}
	rel := "partial"
	switch {
	case a.Start == b.Start && a.End == b.End:
		rel = "identical"
	case a.Start == b.Start:
		rel = "same-start"
	case a.End == b.End:
		rel = "same-end"
	}
	return fmt.Sprintf("incoming=%s known=%s rel=%s", f(a), f(b), rel)
}

// judgeState compares the service's snapshot and its lookups with the model.
func (in *c26Inst) judgeState(op string) {
	want := in.model.key()
	if got := in.snapshot().key(); got != want {
		kind := "catalog-differs"
		if op == "restart" {
			kind = "reload-differs"
		}
		in.fail(kind+" after="+strings.SplitN(op, ":", 2)[0], fmt.Sprintf("after %s PD's region snapshot is %s, the accepted heartbeats/removals give %s", op, got, want))
		return
	}
	for _, k := range c26Lookups {
		in.stats.lookups++
		var owners []uint64
		for id, m := range in.model {
			if m.contains(k) {
				owners = append(owners, id)
			}
		}
		if len(owners) > 1 {
			continue // only below an accept-overlap violation, which is reported on its own
		}
		resp, err := in.svc.GetRegionByKey(context.Background(), &pb.GetRegionByKeyRequest{Key: []byte(k)})
		if err != nil {
			in.fail("lookup-error", fmt.Sprintf("GetRegionByKey(%q): %v", k, err))
			return
		}
		gotNone := resp.GetNotFound() || resp.GetRegion() == nil
		after := "op"
		if op == "restart" {
			after = "restart"
		}
		if len(owners) == 0 {
			in.stats.outcomes["lookup none"] = true
			if !gotNone {
				in.fail(fmt.Sprintf("lookup want=none got=region degenerate-known=%v after=%s", in.model.hasDegenerate(), after),
					fmt.Sprintf("lookup %q returned region %d [%q,%q) but no known region contains the key; table %s (after %s)", k, resp.GetRegion().GetId(), resp.GetRegion().GetStartKey(), resp.GetRegion().GetEndKey(), want, op))
				return
			}
			continue
		}
		in.stats.outcomes["lookup region"] = true
		w := in.model[owners[0]]
		if gotNone {
			// classify: is the owner hidden behind an empty-range region that sorts after it
			// (by start key, then id) and still starts at or before the key?
			cause := "unexplained"
			for did, dm := range in.model {
				if dm.empty() && dm.Start <= k && (dm.Start > w.Start || (dm.Start == w.Start && did > owners[0])) {
					cause = "empty-range-region-sorts-between-owner-and-key"
				}
			}
			in.fail(fmt.Sprintf("lookup want=region got=none cause=%s", cause),
				fmt.Sprintf("lookup %q found nothing but known region %d %s contains the key; table %s (after %s)", k, owners[0], w, want, op))
			return
		}
		g := resp.GetRegion()
		if g.GetId() != owners[0] || string(g.GetStartKey()) != w.Start || string(g.GetEndKey()) != w.End || g.GetEpochVersion() != w.Ver || g.GetEpochConfVersion() != w.Conf {
			in.fail(fmt.Sprintf("lookup want=region got=other degenerate-known=%v after=%s", in.model.hasDegenerate(), after),
				fmt.Sprintf("lookup %q returned region %d [%q,%q)@v%d.c%d, expected region %d %s; table %s (after %s)", k, g.GetId(), g.GetStartKey(), g.GetEndKey(), g.GetEpochVersion(), g.GetEpochConfVersion(), owners[0], w, want, op))
			return
		}
	}
}

// --- seqmc adapter (sequence exploration without state pruning) -----------------------

type c26SeqInst struct{ *c26Inst }

func (s c26SeqInst) Enabled() []string { return c26Alphabet }
func (s c26SeqInst) Apply(op string) (bool, error) {
	_, err := s.c26Inst.Apply(op)
	return true, err // no cut: every sequence is executed
}
func (s c26SeqInst) Check() (string, string) { return s.sig, s.desc }
func (s c26SeqInst) Key() string             { return "" }

// --- graph exploration --------------------------------------------------------------------

func c26Digits(i int) [c26IDs]int {
	var d [c26IDs]int
	for k := 0; k < c26IDs; k++ {
		d[k] = i % (c26PerID + 1)
		i /= c26PerID + 1
	}
	return d
}

type c26Graph struct {
	base   string
	st     *c26Stats
	p      *vr.Partial
	passes int // 1: alphabet on the built instance; 2: again after a restart
	confirmed map[string]bool
}

func (g *c26Graph) report(in *c26Inst, minimal []string) {
	sig, desc := in.sig, in.desc
	if g.confirmed[sig] {
		g.p.Viol(sig, "", "")
		return
	}
	g.confirmed[sig] = true
	// reproduce on fresh instances with the minimal path; fall back to the full history
	path := minimal
	if s := c26Rerun(g.base, path, ""); s != sig {
		path = append([]string(nil), in.history...)
	}
	for n := 0; n < 5; n++ {
		if s := c26Rerun(g.base, path, sig); s != sig {
			vr.Fatalf("C26 violation %q did not reproduce on path %v (got %q)", sig, path, s)
		}
	}
	blob, _ := json.Marshal(path)
	g.p.Viol(sig, desc+"\n  path: "+strings.Join(path, " ; "), string(blob))
}

// c26Rerun replays path on a fresh image. With want == "" it returns the first violation
// signature met; otherwise it reports whether some step fails with exactly want (other
// signatures on the way — e.g. an already reported one — are passed over, as the walker does).
func c26Rerun(base string, path []string, want string) string {
	in := c26New(base, newC26Stats())
	defer in.Close()
	for _, op := range path {
		if _, err := in.Apply(op); err != nil {
			return "error: " + err.Error()
		}
		if in.sig != "" {
			if want == "" || in.sig == want {
				return in.sig
			}
			in.sig, in.desc = "", ""
		}
	}
	return ""
}

// expand builds candidate table #idx and, if the real code accepts it, applies the whole
// alphabet from it.
func (g *c26Graph) expand(idx int) {
	d := c26Digits(idx)
	in := c26New(g.base, g.st)
	defer func() { in.Close() }()
	var build []string
	for k := 0; k < c26IDs; k++ {
		if d[k] == 0 {
			continue
		}
		m := c26MetaByIndex(d[k] - 1)
		op := c26HbOp(uint64(k+1), m)
		build = append(build, op)
		_, err := in.Apply(op)
		if err != nil {
			vr.Fatalf("build %v: %v", build, err)
		}
		if in.sig != "" {
			// a violating state: reported, not expanded (as everywhere: nothing is explored below a violation)
			g.p.Mark("states", in.model.key())
			g.p.Mark("violating", in.model.key())
			g.report(in, build)
			return
		}
		if _, ok := in.model[uint64(k+1)]; !ok || in.model[uint64(k+1)] != m {
			g.p.Add("candidates_rejected", 1)
			return // the real code does not accept this table in id order
		}
	}
	g.p.Add("candidates_built", 1)
	state := in.model.clone()
	skey := state.key()
	g.p.Mark("states", skey)
	g.p.Mark("expanded", skey)
	prefix := build
	rebuild := func() {
		in.Close()
		in = c26New(g.base, g.st)
		for _, b := range prefix {
			if _, err := in.Apply(b); err != nil || in.sig != "" {
				vr.Fatalf("rebuild of %v failed: %v %s", prefix, err, in.sig)
			}
		}
		if in.model.key() != skey {
			vr.Fatalf("rebuild of %v reached %s, not %s", prefix, in.model.key(), skey)
		}
	}
	for pass := 0; pass < g.passes; pass++ {
		if pass == 1 {
			prefix = append(append([]string(nil), build...), "restart")
		}
		// pass 0: every operation on the built image, the restart last; pass 1: every
		// operation again on the restarted image
		order := append(append([]string(nil), c26Alphabet[1:]...), c26Alphabet[0])
		if pass == 1 {
			order = c26Alphabet[1:]
		}
		for _, op := range order {
			changed, err := in.Apply(op)
			if err != nil {
				vr.Fatalf("apply %q on %s: %v", op, skey, err)
			}
			g.p.Add("transitions", 1)
			if in.sig != "" {
				// report, then go on with the next operation from a rebuilt image of this state
				g.report(in, append(append([]string(nil), prefix...), op))
				in.sig, in.desc = "", "" // then walk back by real operations like after any other step
			}
			if !changed {
				continue
			}
			g.p.Add("state_changing", 1)
			nk := in.model.key()
			g.p.Mark("states", nk)
			g.p.Mark("successors", nk)
			// revert by real operations: remove the touched region, re-announce the old one
			_, id, _, _ := c26Parse(op)
			var undo []string
			if _, still := in.model[id]; still {
				undo = append(undo, fmt.Sprintf("rm:%d", id))
			}
			if old, had := state[id]; had {
				undo = append(undo, c26HbOp(id, old))
			}
			for _, u := range undo {
				if _, err := in.Apply(u); err != nil {
					vr.Fatalf("revert %q: %v", u, err)
				}
				g.p.Add("transitions", 1)
				if in.sig != "" {
					g.report(in, append(append(append([]string(nil), prefix...), op), undo...))
					break
				}
			}
			if in.sig != "" || in.model.key() != skey {
				// a violation on the way back, or the real code refused it: rebuild the state from scratch
				g.p.Add("revert_rebuilds", 1)
				rebuild()
			}
		}
	}
}

func TestVerifC26(t *testing.T) {
	r := vr.Start("C26")
	if r.ReplayPath != "" {
		var path []string
		r.LoadReplay(&path)
		in := c26New(r.Scratch(), newC26Stats())
		defer in.Close()
		for i, op := range path {
			if _, err := in.Apply(op); err != nil {
				vr.Fatalf("replay step %d %q: %v", i, op, err)
			}
			fmt.Printf("replay: %-16s -> %s\n", op, in.snapshot().key())
			if in.sig != "" {
				fmt.Printf("replay: violation after step %d: %s\n", i, in.desc)
				if r.Violation(in.sig, in.desc, path[:i+1]) {
					break
				}
				in.sig, in.desc = "", "" // a listed known finding: keep replaying
			}
		}
		r.Finish(vr.Coverage{Level: "model_checking", Evaluations: 1, Distinct: 2, States: 1, Transitions: int64(len(path)), Rule: "replay", Samples: []any{path}})
	}
	base := r.Scratch()
	maxPresent := r.Pick(2, 3) // quick: expand every table with <=2 known regions (successors with 3 are judged, not expanded)
	passes := r.Pick(1, 2)
	seqDepth := r.Pick(2, 3)
	total := r.RunSharded(vr.Workers(), func(sh vr.ShardInfo, p *vr.Partial) {
		st := newC26Stats()
		g := &c26Graph{base: fmt.Sprintf("%s/g%d", base, sh.Index), st: st, p: p, passes: passes, confirmed: map[string]bool{}}
		n := 1
		for k := 0; k < c26IDs; k++ {
			n *= c26PerID + 1
		}
		item := 0
		for idx := 0; idx < n; idx++ {
			d := c26Digits(idx)
			present := 0
			for _, x := range d {
				if x != 0 {
					present++
				}
			}
			if present > maxPresent {
				continue
			}
			item++
			if !sh.Owns(item) {
				continue
			}
			if r.Expired() {
				p.TimedOut = true
				break
			}
			g.expand(idx)
			p.Add("candidates", 1)
		}
		// sequence exploration on fresh instances, no pruning
		sub := vr.NewPartial()
		sbase := fmt.Sprintf("%s/q%d", base, sh.Index)
		seqmc.Explore(seqmc.Config{New: func() seqmc.Instance { return c26SeqInst{c26New(sbase, st)} }, MaxDepth: seqDepth, Shard: sh, ShardAt: 1, Expired: r.Expired}, sub)
		for i := range sub.Violations {
			var path []string
			_ = json.Unmarshal([]byte(sub.Violations[i].Replay), &path)
			for n := 0; n < 5; n++ {
				if s := c26Rerun(sbase, path, ""); s != sub.Violations[i].Sig {
					vr.Fatalf("C26 sequence violation %q did not reproduce on %v (got %q)", sub.Violations[i].Sig, path, s)
				}
			}
		}
		p.Add("seq_executions", sub.Counters["executions"])
		p.Add("seq_transitions", sub.Counters["transitions"])
		sub.Counters = map[string]int64{}
		sub.Samples = nil
		p.Merge(sub)
		p.Add("hb", st.hb)
		p.Add("hb_accepted", st.hbAccepted)
		p.Add("hb_legal", st.hbLegal)
		p.Add("hb_legal_rejected", st.hbLegalRejected)
		p.Add("rm", st.rm)
		p.Add("restarts", st.restarts)
		p.Add("lookups", st.lookups)
		for o := range st.outcomes {
			p.Mark("outcomes", o)
		}
		if len(p.Samples) == 0 {
			p.Sample("hb:1:-:b:1:1 ; hb:2:b:-:2:1 ; restart ; hb:3:a:c:1:1 (rejected) ; rm:1")
		}
	})
	states := total.Card("states")
	r.RequireOutcomes(total.Card("outcomes"), 6)
	// closure: every state reached as a successor must have been expanded itself
	unexpanded := int64(0)
	for h := range total.Sets["successors"] {
		_, ex := total.Sets["expanded"][h]
		_, bad := total.Sets["violating"][h]
		if !ex && !bad {
			unexpanded++
		}
	}
	closed := unexpanded == 0
	if !closed && r.Thorough() && !total.TimedOut {
		r.Note("%d successor states were reached that the canonical construction did not build; they were judged but not expanded", unexpanded)
	}
	r.Finish(vr.Coverage{
		Level:       "model_checking",
		Evaluations: total.Counters["candidates"] + total.Counters["seq_executions"],
		Distinct:    states,
		Rule: "graph: every table over ids 1..3 × endpoints {\"\",a,b,c}² × epochs {1,2}² is built by real heartbeats on a fresh PD image; from every table the real code accepts, every operation (192 heartbeats, 3 removals, restart) is applied, judged and reverted by real operations; " +
			"seq: every operation sequence up to the depth bound on fresh images without pruning; after every operation: snapshot == model table, 7 lookups == unique containing model region",
		Samples:     total.SamplesAny(),
		States:      states,
		Transitions: total.Counters["transitions"] + total.Counters["seq_transitions"],
		Validated:   total.Counters["candidates_built"] + total.Counters["seq_executions"],
		Exhaustive:  !total.TimedOut && (closed || r.Quick()),
		Outcomes:    total.Card("outcomes"),
		Bounds: map[string]any{"ids": c26IDs, "endpoints": c26Ends, "epochs": "{1,2}x{1,2}", "lookup_keys": c26Lookups,
			"graph_expand_tables_with_at_most_regions": maxPresent, "graph_alphabet_passes": passes, "seq_depth": seqDepth},
		Extra: map[string]any{
			"candidate_tables": total.Counters["candidates"], "tables_accepted_by_real_code": total.Counters["candidates_built"],
			"tables_rejected_by_real_code": total.Counters["candidates_rejected"], "expanded_states": total.Card("expanded"),
			"successor_states": total.Card("successors"), "successors_not_expanded": unexpanded, "violating_states_reported_not_expanded": total.Card("violating"), "state_changing_transitions": total.Counters["state_changing"],
			"revert_rebuilds": total.Counters["revert_rebuilds"],
			"heartbeats": total.Counters["hb"], "heartbeats_accepted": total.Counters["hb_accepted"],
			"heartbeats_legal_by_model": total.Counters["hb_legal"], "legal_heartbeats_rejected(measured_only)": total.Counters["hb_legal_rejected"],
			"removals": total.Counters["rm"], "restarts": total.Counters["restarts"], "lookups": total.Counters["lookups"],
			"seq_executions": total.Counters["seq_executions"],
		},
		Assumptions: []string{
			"epoch-stale = the incoming epoch is dominated by the known one (no component larger, one smaller); overlap = the two half-open ranges share a key (an empty end key is +inf, a range with end <= start is empty)",
			"graph mode reverts a state-changing step by real remove/heartbeat operations and verifies the table is back; PD's behaviour is assumed to depend on the region table only (the seq mode does not assume this up to its depth)",
			"the restart is OpenLocalStore+Load+ResolveAllocatorStarts+restorePDRegions+NewService+SetStorage exactly as runPDCmd does, without the gRPC listener",
		},
	})
}
