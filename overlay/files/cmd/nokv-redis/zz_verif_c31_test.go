//go:build verif

// C31 — the RESP parser is total and allocation-bounded.
//
// enum: ALL token sequences of length <= L over the alphabet below are turned into byte
// streams and fed to the real parseRESP in a loop (exactly like handleConn does) and, for
// the streams of length <= L-1, to the real handleConn through an in-memory net.Conn.
// Oracle per stream: no panic, no fatal error, runtime.MemStats.TotalAlloc delta
// <= 64*len(stream)+64KiB; result independent of how the bytes are fragmented.
// A generator of well-formed array / inline frames checks the round-trip clause.
//
// `fatal error: out of memory` cannot be recovered, so all cases run in a worker
// subprocess under `ulimit -v`; the worker publishes (case index, bytes consumed by the
// parser) in a MAP_SHARED file, so when it dies the parent knows the exact input and the
// exact header line the parser had just read: that death is the violation evidence.
package main

import (
	"bufio"
	"bytes"
	"encoding/binary"
	"encoding/json"
	"errors"
	"fmt"
	"io"
	"net"
	"os"
	"os/exec"
	"runtime"
	"runtime/debug"
	"strconv"
	"strings"
	"syscall"
	"testing"
	"time"

	"verif/lib/vr"
)

var c31Tokens = []string{
	"*", "$", "+",
	"0", "1", "2", "-1", "-2", "3", "1048576", "536870912", "1000000000", "2147483647", "9223372036854775807", "99999999999999999999",
	"\r\n", "\n", "a", "ab",
	// the empty token of the design's alphabet only shortens a sequence; enumerating every
	// length 0..L covers it. 1048576 and 536870912 are the largest multibulk count / bulk
	// length redis-server (and the gateway since 2034b78) accepts: declared sizes that are
	// legal but far larger than the bytes that follow.
}

const (
	c31AllocPerByte = 64
	c31AllocSlack   = 64 << 10
	c31VMemKB       = 2000000 // ulimit -v for the worker
)

// ---- enumeration -------------------------------------------------------------------

// c31Total returns the number of token sequences of length <= L.
func c31Total(L int) int64 {
	n, p := int64(0), int64(1)
	for l := 0; l <= L; l++ {
		n += p
		p *= int64(len(c31Tokens))
	}
	return n
}

// c31Prefixes put the enumeration inside an array frame, where bulk headers are parsed:
// after each prefix every token sequence of length <= L-2 is appended.
var c31Prefixes = []string{"*1\r\n", "*2\r\n$1\r\na\r\n", "*1\r\n$1\r\na\r\n"}

// c31Cases is the number of cases for bound L: all sequences of length <= L, plus the
// prefixed enumerations.
func c31Cases(L int) int64 {
	n := c31Total(L)
	if L >= 2 {
		n += int64(len(c31Prefixes)) * c31Total(L-2)
	}
	return n
}

// c31Case decodes case index i for bound L.
func c31Case(i int64, L int, buf []byte, toks []int) ([]byte, []int) {
	if i < c31Total(L) {
		return c31Stream(i, "", buf, toks)
	}
	i -= c31Total(L)
	per := c31Total(L - 2)
	return c31Stream(i%per, c31Prefixes[i/per], buf, toks)
}

// c31Stream decodes sequence index i (sequences ordered by length, then lexicographically).
func c31Stream(i int64, prefix string, buf []byte, toks []int) ([]byte, []int) {
	k := int64(len(c31Tokens))
	l, p := 0, int64(1)
	for i >= p {
		i -= p
		p *= k
		l++
	}
	toks = toks[:0]
	for j := 0; j < l; j++ {
		toks = append(toks, 0)
	}
	for j := l - 1; j >= 0; j-- {
		toks[j] = int(i % k)
		i /= k
	}
	buf = append(buf[:0], prefix...)
	for _, t := range toks {
		buf = append(buf, c31Tokens[t]...)
	}
	return buf, toks
}

// ---- shared progress page -----------------------------------------------------------

const (
	c31OffIdx       = 0  // case being executed
	c31OffConsumed  = 8  // bytes the parser pulled from the source so far
	c31OffMode      = 16 // 1 parse, 2 handleConn, 3 roundtrip
	c31OffEvals     = 24
	c31OffFrames    = 32
	c31OffNontriv   = 40
	c31OffMaxAlloc  = 48
	c31OffConnEvals = 56
	c31OffRT        = 64
	c31OffDone      = 72
	c31OffSkipP     = 80 // parse cases not run because a consumed prefix is already known to be fatal
	c31OffSkipC     = 88
	c31OffBitmap    = 128
	c31BitmapBytes  = 8192
	c31PageSize     = c31OffBitmap + c31BitmapBytes
)

type c31Page struct{ b []byte }

func c31OpenPage(path string, create bool) *c31Page {
	fl := os.O_RDWR
	if create {
		fl |= os.O_CREATE | os.O_TRUNC
	}
	f, err := os.OpenFile(path, fl, 0o644)
	if err != nil {
		vr.Fatalf("c31 page: %v", err)
	}
	defer f.Close()
	if create {
		if err := f.Truncate(c31PageSize); err != nil {
			vr.Fatalf("c31 page: %v", err)
		}
	}
	b, err := syscall.Mmap(int(f.Fd()), 0, c31PageSize, syscall.PROT_READ|syscall.PROT_WRITE, syscall.MAP_SHARED)
	if err != nil {
		vr.Fatalf("c31 mmap: %v", err)
	}
	return &c31Page{b}
}
func (p *c31Page) get(off int) int64    { return int64(binary.LittleEndian.Uint64(p.b[off:])) }
func (p *c31Page) set(off int, v int64) { binary.LittleEndian.PutUint64(p.b[off:], uint64(v)) }
func (p *c31Page) add(off int, v int64) { p.set(off, p.get(off)+v) }
func (p *c31Page) max(off int, v int64) {
	if v > p.get(off) {
		p.set(off, v)
	}
}
func (p *c31Page) mark(s string) {
	h := vr.Hash64(s) % (c31BitmapBytes * 8)
	p.b[c31OffBitmap+int(h/8)] |= 1 << (h % 8)
}
func (p *c31Page) outcomes() int64 {
	n := int64(0)
	for _, x := range p.b[c31OffBitmap : c31OffBitmap+c31BitmapBytes] {
		for ; x != 0; x &= x - 1 {
			n++
		}
	}
	return n
}

// ---- sources ------------------------------------------------------------------------

// c31Src hands the stream to the parser chunk bytes at a time and publishes how much was
// pulled. With chunk==1 "pulled" is exactly what the parser consumed.
type c31Src struct {
	data  []byte
	pos   int
	chunk int
	page  *c31Page
}

func (s *c31Src) Read(p []byte) (int, error) {
	if s.pos >= len(s.data) {
		return 0, io.EOF
	}
	n := len(s.data) - s.pos
	if s.chunk > 0 && n > s.chunk {
		n = s.chunk
	}
	if n > len(p) {
		n = len(p)
	}
	copy(p, s.data[s.pos:s.pos+n])
	s.pos += n
	if s.page != nil {
		s.page.set(c31OffConsumed, int64(s.pos))
	}
	return n, nil
}

// c31Conn is an in-memory net.Conn: reads come from a c31Src, writes are collected.
type c31Conn struct {
	src    *c31Src
	out    bytes.Buffer
	closed bool
}

func (c *c31Conn) Read(p []byte) (int, error)       { return c.src.Read(p) }
func (c *c31Conn) Write(p []byte) (int, error)      { return c.out.Write(p) }
func (c *c31Conn) Close() error                     { c.closed = true; return nil }
func (c *c31Conn) LocalAddr() net.Addr              { return c31Addr{} }
func (c *c31Conn) RemoteAddr() net.Addr             { return c31Addr{} }
func (c *c31Conn) SetDeadline(time.Time) error      { return nil }
func (c *c31Conn) SetReadDeadline(time.Time) error  { return nil }
func (c *c31Conn) SetWriteDeadline(time.Time) error { return nil }

type c31Addr struct{}

func (c31Addr) Network() string { return "mem" }
func (c31Addr) String() string  { return "mem" }

// c31NoBackend: nothing the alphabet can spell reaches the backend.
type c31NoBackend struct{}

func (c31NoBackend) Get([]byte) (*redisValue, error)      { panic("c31: backend reached") }
func (c31NoBackend) Set(setArgs) (bool, error)            { panic("c31: backend reached") }
func (c31NoBackend) Del([][]byte) (int64, error)          { panic("c31: backend reached") }
func (c31NoBackend) MGet([][]byte) ([]*redisValue, error) { panic("c31: backend reached") }
func (c31NoBackend) MSet([][2][]byte) error               { panic("c31: backend reached") }
func (c31NoBackend) Exists([][]byte) (int64, error)       { panic("c31: backend reached") }
func (c31NoBackend) IncrBy([]byte, int64) (int64, error)  { panic("c31: backend reached") }
func (c31NoBackend) Close() error                         { return nil }

// ---- running one stream through the real code ------------------------------------------

type c31Result struct {
	Frames   [][][]byte // every frame parseRESP returned (nil frame = no command)
	Err      string     // error that ended the loop ("" only if the step cap was hit)
	Panic    string
	Alloc    int64
	Consumed int
}

func (r *c31Result) summary() string {
	var sb strings.Builder
	for _, f := range r.Frames {
		if f == nil {
			sb.WriteString("nil|")
			continue
		}
		sb.WriteString(strconv.Itoa(len(f)))
		sb.WriteByte('|')
	}
	sb.WriteString(c31ErrClass(r.Err))
	if r.Panic != "" {
		sb.WriteString("!panic")
	}
	return sb.String()
}

func (r *c31Result) full() string {
	var sb strings.Builder
	for _, f := range r.Frames {
		if f == nil {
			sb.WriteString("<nil>;")
			continue
		}
		sb.WriteString("[")
		for _, a := range f {
			if a == nil {
				sb.WriteString("<nil>,")
			} else {
				sb.WriteString(strconv.Quote(string(a)) + ",")
			}
		}
		sb.WriteString("];")
	}
	sb.WriteString("err=" + r.Err + " panic=" + r.Panic)
	return sb.String()
}

func c31ErrClass(e string) string {
	for i, c := range e {
		if c == '"' { // drop quoted payloads ("invalid bulk length \"...\"")
			return e[:i]
		}
	}
	return e
}

var c31MS runtime.MemStats

func c31TotalAlloc() int64 {
	runtime.ReadMemStats(&c31MS)
	return int64(c31MS.TotalAlloc)
}

// c31Parse runs the handleConn read loop (parseRESP until error) on data.
func c31Parse(rd *bufio.Reader, src *c31Src, keep, measure bool) (res c31Result) {
	rd.Reset(src)
	var m0 int64
	if measure {
		m0 = c31TotalAlloc()
	}
	func() {
		defer func() {
			if p := recover(); p != nil {
				res.Panic = fmt.Sprint(p)
			}
		}()
		for steps := 0; steps <= len(src.data)+1; steps++ {
			args, err := parseRESP(rd)
			if err != nil {
				res.Err = err.Error()
				return
			}
			if keep {
				res.Frames = append(res.Frames, args)
			} else if args == nil {
				res.Frames = append(res.Frames, nil)
			} else {
				res.Frames = append(res.Frames, make([][]byte, len(args)))
			}
		}
		res.Err = "c31:no-progress"
	}()
	if measure {
		res.Alloc = c31TotalAlloc() - m0
	}
	res.Consumed = src.pos
	return res
}

// c31Handle runs the real handleConn on data; returns reply bytes.
func c31Handle(srv *redisServer, src *c31Src) (out []byte, alloc int64, pan string) {
	conn := &c31Conn{src: src}
	m0 := c31TotalAlloc()
	func() {
		defer func() {
			if p := recover(); p != nil {
				pan = fmt.Sprint(p)
			}
		}()
		srv.handleConn(conn)
	}()
	alloc = c31TotalAlloc() - m0
	return conn.out.Bytes(), alloc, pan
}

func c31Bound(n int) int64 { return int64(c31AllocPerByte*n + c31AllocSlack) }

// c31Culprit names the last length header inside the consumed prefix: the declaration the
// parser acted on when things went wrong.
func c31Culprit(stream []byte, consumed int) string {
	if consumed > len(stream) {
		consumed = len(stream)
	}
	pre := stream[:consumed]
	out := "no-length-header"
	for i := 0; i < len(pre); i++ {
		if (pre[i] != '*' && pre[i] != '$') || (i > 0 && pre[i-1] != '\n') {
			continue
		}
		j := bytes.IndexByte(pre[i:], '\n')
		if j < 2 || pre[i+j-1] != '\r' {
			continue
		}
		n, err := strconv.Atoi(string(pre[i+1 : i+j-1]))
		if err != nil {
			continue
		}
		// canonical magnitude class (the alphabet concatenates digit tokens into many values)
		class := "<=64Ki"
		if n < 0 {
			class = "<0"
		} else if n > 64<<10 {
			class = ">64Ki"
		}
		if pre[i] == '*' {
			out = "declared-array-len" + class
		} else {
			out = "declared-bulk-len" + class
		}
	}
	return out
}

type c31Viol struct {
	Sig, Desc string
	Mode      string
	Stream    string // quoted Go string
	Index     int64
}

// ---- worker subprocess ----------------------------------------------------------------

type c31Job struct {
	L        int
	ConnL    int
	Shard    int
	Shards   int
	Resume   int64 // first case index to run (parse mode); -1: parse phase finished
	ResumeC  int64 // same for the handleConn phase
	ResumeRT int64
	Page     string
	ViolOut  string
	Deadline int64 // unix seconds
	// replay of one literal stream (strconv-quoted) in mode parse|conn
	OnlyStream, OnlyMode string
	// FatalFile lists byte prefixes after whose consumption a worker died (shared by all
	// shards). The parser only ever sees the bytes it consumed (one byte per Read), so every
	// stream starting with such a prefix dies identically; those are counted, not re-run.
	FatalFile string
}

type c31Fatal struct {
	path string
	size int64
	set  [3]map[string]struct{}
	lens [3]map[int]struct{}
}

type c31FatalLine struct {
	M int    `json:"m"`
	P string `json:"p"`
}

func (f *c31Fatal) refresh() {
	if f.path == "" {
		return
	}
	st, err := os.Stat(f.path)
	if err != nil || st.Size() == f.size {
		return
	}
	data, err := os.ReadFile(f.path)
	if err != nil {
		return
	}
	f.size = int64(len(data))
	for _, ln := range strings.Split(string(data), "\n") {
		var fl c31FatalLine
		if ln == "" || json.Unmarshal([]byte(ln), &fl) != nil || fl.M < 1 || fl.M > 2 {
			continue
		}
		if f.set[fl.M] == nil {
			f.set[fl.M] = map[string]struct{}{}
			f.lens[fl.M] = map[int]struct{}{}
		}
		f.set[fl.M][fl.P] = struct{}{}
		f.lens[fl.M][len(fl.P)] = struct{}{}
	}
}

func (f *c31Fatal) hit(mode int, buf []byte) bool {
	for l := range f.lens[mode] {
		if l <= len(buf) {
			if _, ok := f.set[mode][string(buf[:l])]; ok {
				return true
			}
		}
	}
	return false
}

const c31Block = 1024

func c31Owns(j *c31Job, i int64) bool { return int((i/c31Block)%int64(j.Shards)) == j.Shard }

func c31Worker(j *c31Job) {
	debug.SetGCPercent(400)
	page := c31OpenPage(j.Page, false)
	vf, err := os.OpenFile(j.ViolOut, os.O_WRONLY|os.O_APPEND|os.O_CREATE, 0o644)
	if err != nil {
		vr.Fatalf("c31 viol out: %v", err)
	}
	emit := func(v c31Viol) {
		b, _ := json.Marshal(v)
		_, _ = vf.Write(append(b, '\n'))
	}
	expired := func() bool { return time.Now().Unix() > j.Deadline }
	rd := bufio.NewReader(bytes.NewReader(nil))
	var buf []byte
	var toks []int
	fatal := &c31Fatal{path: j.FatalFile}
	fatal.refresh()

	if j.OnlyStream != "" {
		data, err := strconv.Unquote(j.OnlyStream)
		if err != nil {
			vr.Fatalf("c31 replay stream: %v", err)
		}
		buf = []byte(data)
		page.set(c31OffIdx, -1)
		page.set(c31OffConsumed, 0)
		q := j.OnlyStream
		if j.OnlyMode == "conn" {
			page.set(c31OffMode, 2)
			_, alloc, pan := c31Handle(newServer(c31NoBackend{}), &c31Src{data: buf, chunk: 1, page: page})
			cul := c31Culprit(buf, int(page.get(c31OffConsumed)))
			if pan != "" {
				emit(c31Viol{Sig: "panic " + cul, Desc: "handleConn panicked: " + pan + " on stream " + q, Mode: "conn", Stream: q, Index: -1})
			}
			if alloc > c31Bound(len(buf)) {
				emit(c31Viol{Sig: "alloc-exceeds-bound " + cul, Desc: fmt.Sprintf("handleConn allocated %d bytes for a %d-byte stream %s", alloc, len(buf), q), Mode: "conn", Stream: q, Index: -1})
			}
		} else {
			page.set(c31OffMode, 1)
			r1 := c31Parse(rd, &c31Src{data: buf, chunk: 1, page: page}, true, true)
			if r1.Panic != "" {
				emit(c31Viol{Sig: "panic " + c31Culprit(buf, r1.Consumed), Desc: "parseRESP panicked: " + r1.Panic + " on stream " + q, Mode: "parse", Stream: q, Index: -1})
			}
			if r1.Alloc > c31Bound(len(buf)) {
				emit(c31Viol{Sig: "alloc-exceeds-bound " + c31Culprit(buf, r1.Consumed), Desc: fmt.Sprintf("parseRESP allocated %d bytes for a %d-byte stream %s", r1.Alloc, len(buf), q), Mode: "parse", Stream: q, Index: -1})
			}
			fmt.Fprintf(os.Stderr, "replay result: %s alloc=%d\n", r1.full(), r1.Alloc)
		}
		page.set(c31OffDone, 1)
		os.Exit(0)
	}
	// phase 1: parseRESP loop, one byte per Read (exact consumption) + whole-buffer delivery
	if j.Resume >= 0 {
		page.set(c31OffMode, 1)
		total := c31Cases(j.L)
		for i := j.Resume; i < total; i++ {
			if !c31Owns(j, i) {
				i += c31Block - 1 - i%c31Block
				continue
			}
			if i%c31Block == 0 {
				if expired() {
					page.set(c31OffDone, -1)
					os.Exit(0)
				}
				fatal.refresh()
			}
			buf, toks = c31Case(i, j.L, buf, toks)
			if fatal.hit(1, buf) {
				page.add(c31OffSkipP, 1)
				continue
			}
			page.set(c31OffIdx, i)
			page.set(c31OffConsumed, 0)
			r1 := c31Parse(rd, &c31Src{data: buf, chunk: 1, page: page}, true, true)
			page.add(c31OffEvals, 1)
			page.add(c31OffFrames, int64(len(r1.Frames)))
			page.max(c31OffMaxAlloc, r1.Alloc)
			nt := false
			for _, f := range r1.Frames {
				if len(f) > 0 {
					nt = true
				}
			}
			if nt {
				page.add(c31OffNontriv, 1)
			}
			page.mark(r1.summary())
			q := strconv.Quote(string(buf))
			if r1.Panic != "" {
				emit(c31Viol{Sig: "panic " + c31Culprit(buf, r1.Consumed), Desc: "parseRESP panicked: " + r1.Panic + " on stream " + q, Mode: "parse", Stream: q, Index: i})
			}
			if r1.Alloc > c31Bound(len(buf)) {
				emit(c31Viol{Sig: "alloc-exceeds-bound " + c31Culprit(buf, r1.Consumed), Desc: fmt.Sprintf("parseRESP allocated %d bytes for a %d-byte stream %s (bound %d)", r1.Alloc, len(buf), q, c31Bound(len(buf))), Mode: "parse", Stream: q, Index: i})
			}
			if r1.Err == "c31:no-progress" {
				emit(c31Viol{Sig: "no-progress", Desc: "parseRESP keeps succeeding without consuming input on " + q, Mode: "parse", Stream: q, Index: i})
			}
			// fragmentation independence: the same bytes delivered at once
			if r1.Panic == "" && r1.Alloc <= c31Bound(len(buf)) {
				r2 := c31Parse(rd, &c31Src{data: buf}, true, false)
				if r2.full() != r1.full() {
					emit(c31Viol{Sig: "fragmentation-dependent-result", Desc: "stream " + q + " byte-wise: " + r1.full() + " at once: " + r2.full(), Mode: "parse", Stream: q, Index: i})
				}
			}
		}
	}
	// phase 2: real handleConn on an in-memory connection
	if j.ResumeC >= 0 {
		page.set(c31OffMode, 2)
		srv := newServer(c31NoBackend{})
		total := c31Cases(j.ConnL)
		for i := j.ResumeC; i < total; i++ {
			if !c31Owns(j, i) {
				i += c31Block - 1 - i%c31Block
				continue
			}
			if i%c31Block == 0 {
				if expired() {
					page.set(c31OffDone, -1)
					os.Exit(0)
				}
				fatal.refresh()
			}
			buf, toks = c31Case(i, j.ConnL, buf, toks)
			if fatal.hit(2, buf) {
				page.add(c31OffSkipC, 1)
				continue
			}
			page.set(c31OffIdx, i)
			page.set(c31OffConsumed, 0)
			out, alloc, pan := c31Handle(srv, &c31Src{data: buf, chunk: 1, page: page})
			page.add(c31OffConnEvals, 1)
			page.max(c31OffMaxAlloc, alloc)
			page.mark("conn:" + c31ReplyClass(out))
			q := strconv.Quote(string(buf))
			cul := c31Culprit(buf, int(page.get(c31OffConsumed)))
			if pan != "" {
				emit(c31Viol{Sig: "panic " + cul, Desc: "handleConn panicked: " + pan + " on stream " + q, Mode: "conn", Stream: q, Index: i})
			}
			if alloc > c31Bound(len(buf)) {
				emit(c31Viol{Sig: "alloc-exceeds-bound " + cul, Desc: fmt.Sprintf("handleConn allocated %d bytes for a %d-byte stream %s (bound %d)", alloc, len(buf), q, c31Bound(len(buf))), Mode: "conn", Stream: q, Index: i})
			}
		}
	}
	// phase 3: well-formed frames round-trip (shard 0 only; small)
	if j.ResumeRT >= 0 && j.Shard == 0 {
		page.set(c31OffMode, 3)
		c31RoundTrip(j, page, emit)
	}
	page.set(c31OffDone, 1)
	os.Exit(0)
}

func c31ReplyClass(out []byte) string {
	// replies to garbage are error lines / PONG-less; classify by the sequence of first bytes + error text class
	var sb strings.Builder
	for _, ln := range strings.Split(string(out), "\r\n") {
		if ln == "" {
			continue
		}
		sb.WriteString(c31ErrClass(ln))
		sb.WriteByte('|')
	}
	return sb.String()
}

// ---- round trip of well-formed frames ---------------------------------------------------

var c31Args = []string{"", "a", "ab", "\r\n", "\n", "$1", "*2", " ", "a b", "\x00", "\xff", "-1", "+OK"}
var c31Words = []string{"a", "ab", "GET", "k1", "$", "-1", "\x00"}
var c31Seps = []string{" ", "  ", "\t"}

type c31Frame struct {
	wire string
	args []string // nil = frame yields no command
	none bool
}

func c31ArrayFrame(args []string) c31Frame {
	var sb strings.Builder
	sb.WriteString("*" + strconv.Itoa(len(args)) + "\r\n")
	for _, a := range args {
		sb.WriteString("$" + strconv.Itoa(len(a)) + "\r\n" + a + "\r\n")
	}
	return c31Frame{wire: sb.String(), args: args}
}

// c31Frames enumerates well-formed frames: arrays of 0..maxN bulk strings over c31Args and
// inline commands of 1..maxW words. Inline commands are terminated by CRLF (the RESP
// specification's form; bare-LF termination is accepted by redis-server but not required
// by the specification, so it is not demanded here).
func c31Frames(maxN, maxW int) []c31Frame {
	var out []c31Frame
	var rec func(cur []string, n int)
	rec = func(cur []string, n int) {
		out = append(out, c31ArrayFrame(append([]string{}, cur...)))
		if n == 0 {
			return
		}
		for _, a := range c31Args {
			rec(append(cur, a), n-1)
		}
	}
	rec(nil, maxN)
	out = append(out, c31Frame{wire: "*-1\r\n", none: true}) // null array: no command
	var recw func(cur []string, line string, n int)
	recw = func(cur []string, line string, n int) {
		if len(cur) > 0 && line[0] != '*' {
			out = append(out, c31Frame{wire: line + "\r\n", args: append([]string{}, cur...)})
		}
		if n == 0 {
			return
		}
		for _, w := range c31Words {
			if len(cur) == 0 {
				recw(append(cur, w), w, n-1)
				continue
			}
			for _, s := range c31Seps {
				recw(append(cur, w), line+s+w, n-1)
			}
		}
	}
	recw(nil, "", maxW)
	return out
}

func c31RoundTrip(j *c31Job, page *c31Page, emit func(c31Viol)) {
	maxN, maxW := 2, 2
	if j.L >= 6 {
		maxN, maxW = 3, 3
	}
	frames := c31Frames(maxN, maxW)
	rd := bufio.NewReader(bytes.NewReader(nil))
	check := func(idx int64, fs []c31Frame) {
		var wire strings.Builder
		for _, f := range fs {
			wire.WriteString(f.wire)
		}
		data := []byte(wire.String())
		page.set(c31OffIdx, idx)
		page.set(c31OffConsumed, 0)
		for _, chunk := range []int{1, 0, 3} {
			r := c31Parse(rd, &c31Src{data: data, chunk: chunk, page: page}, true, true)
			page.add(c31OffRT, 1)
			q := strconv.Quote(string(data))
			bad := ""
			if r.Panic != "" {
				bad = "panic " + r.Panic
			} else if r.Err != io.EOF.Error() {
				bad = "loop ended with " + r.Err
			} else if len(r.Frames) != len(fs) {
				bad = fmt.Sprintf("%d frames parsed, %d sent", len(r.Frames), len(fs))
			} else {
				for k, f := range fs {
					got := r.Frames[k]
					if f.none {
						if got != nil {
							bad = fmt.Sprintf("frame %d: got %d args for a null array", k, len(got))
						}
						continue
					}
					if len(got) != len(f.args) {
						bad = fmt.Sprintf("frame %d: %d args parsed, want %d", k, len(got), len(f.args))
						break
					}
					for a := range got {
						if got[a] == nil || string(got[a]) != f.args[a] {
							bad = fmt.Sprintf("frame %d arg %d: got %q want %q", k, a, got[a], f.args[a])
						}
					}
				}
			}
			if bad != "" {
				kind := "array"
				if fs[len(fs)-1].wire[0] != '*' {
					kind = "inline"
				}
				emit(c31Viol{Sig: "roundtrip-mismatch " + kind, Desc: "well-formed stream " + q + ": " + bad + " (parsed " + r.full() + ")", Mode: "roundtrip", Stream: q, Index: idx})
			}
			if r.Alloc > c31Bound(len(data)) {
				emit(c31Viol{Sig: "alloc-exceeds-bound well-formed", Desc: fmt.Sprintf("well-formed stream %s: %d bytes allocated", q, r.Alloc), Mode: "roundtrip", Stream: q, Index: idx})
			}
			page.mark("rt:" + r.summary())
		}
	}
	idx := int64(0)
	for _, f := range frames {
		if idx >= j.ResumeRT {
			check(idx, []c31Frame{f})
		}
		idx++
	}
	// pairs from a reduced set: framing must resynchronise exactly at frame boundaries
	small := c31Frames(1, 1)
	for _, a := range small {
		for _, b := range small {
			if idx >= j.ResumeRT {
				check(idx, []c31Frame{a, b})
			}
			idx++
		}
	}
	// large payloads (around typical buffer sizes): exactly the declared bytes, bounded allocation
	for _, n := range []int{4095, 4096, 4097, 8192, 70000} {
		big := strings.Repeat("x", n-2) + "\r\n"
		check(idx, []c31Frame{c31ArrayFrame([]string{"a", big}), c31ArrayFrame([]string{big, ""})})
		idx++
	}
	// ECHO through handleConn: the argument comes back verbatim
	srv := newServer(c31NoBackend{})
	for _, a := range c31Args {
		for _, chunk := range []int{1, 0} {
			data := []byte(c31ArrayFrame([]string{"ECHO", a}).wire + c31ArrayFrame([]string{"echo", a}).wire)
			out, _, pan := c31Handle(srv, &c31Src{data: data, chunk: chunk})
			page.add(c31OffRT, 1)
			want := "$" + strconv.Itoa(len(a)) + "\r\n" + a + "\r\n"
			if pan != "" || string(out) != want+want {
				emit(c31Viol{Sig: "roundtrip-mismatch echo", Desc: fmt.Sprintf("ECHO %q x2 over handleConn replied %q (panic %q)", a, out, pan), Mode: "roundtrip", Stream: strconv.Quote(string(data)), Index: -1})
			}
		}
	}
}

// ---- parent side ---------------------------------------------------------------------

// c31RunWorker runs the job in subprocesses under ulimit -v, restarting after every death.
func c31RunWorker(r *vr.Run, job c31Job, p *vr.Partial) {
	exe := os.Args[0]
	deaths := 0
	for {
		page := c31OpenPage(job.Page, false)
		page.set(c31OffDone, 0)
		jb, _ := json.Marshal(job)
		sh := fmt.Sprintf("ulimit -v %d; exec \"$0\" -test.run '^TestVerifC31$' -test.timeout 0 -test.count 1", c31VMemKB)
		cmd := exec.Command("sh", "-c", sh, exe)
		cmd.Env = append(os.Environ(), "VERIF_C31_JOB="+string(jb), "GOMAXPROCS=2", "GOTRACEBACK=single")
		var stderr bytes.Buffer
		cmd.Stdout = io.Discard
		cmd.Stderr = &stderr
		err := cmd.Run()
		done := page.get(c31OffDone)
		if err == nil && done != 0 {
			if done < 0 {
				p.TimedOut = true
			}
			return
		}
		// the worker died: the page says on which input
		deaths++
		mode := page.get(c31OffMode)
		idx := page.get(c31OffIdx)
		consumed := int(page.get(c31OffConsumed))
		msg := stderr.String()
		first := msg
		if i := strings.IndexByte(first, '\n'); i >= 0 {
			first = first[:i]
		}
		var ee *exec.ExitError
		if !errors.As(err, &ee) && err != nil {
			vr.Fatalf("c31 worker could not run: %v", err)
		}
		if mode == 3 || mode == 0 {
			vr.Fatalf("c31 worker died outside the enumeration (mode %d): %v\n%s", mode, err, tail(msg, 2000))
		}
		var stream []byte
		if mode == 2 {
			stream, _ = c31Case(idx, job.ConnL, nil, nil)
		} else {
			stream, _ = c31Case(idx, job.L, nil, nil)
		}
		if job.OnlyStream != "" {
			us, _ := strconv.Unquote(job.OnlyStream)
			stream = []byte(us)
		}
		kind := "died"
		switch {
		case strings.Contains(msg, "out of memory") || strings.Contains(msg, "cannot allocate memory"):
			kind = "oom-fatal"
		case strings.Contains(msg, "panic:"):
			kind = "panic" // an unrecovered panic on another goroutine
		case strings.Contains(msg, "fatal error:"):
			kind = "fatal"
		}
		q := strconv.Quote(string(stream))
		modeName := map[int64]string{1: "parse", 2: "conn"}[mode]
		v := c31Viol{Sig: kind + " " + c31Culprit(stream, consumed), Mode: modeName, Stream: q, Index: idx,
			Desc: fmt.Sprintf("worker process (ulimit -v %d KiB) died in %s mode on the %d-byte stream %s after the parser consumed %d bytes: %s", c31VMemKB, modeName, len(stream), q, consumed, first)}
		rp, _ := json.Marshal(v)
		p.Viol(v.Sig, v.Desc, string(rp))
		p.Add("worker_deaths", 1)
		if job.OnlyStream != "" {
			return
		}
		if job.FatalFile != "" && consumed > 0 && consumed <= len(stream) {
			if ff, err := os.OpenFile(job.FatalFile, os.O_WRONLY|os.O_APPEND|os.O_CREATE, 0o644); err == nil {
				b, _ := json.Marshal(c31FatalLine{M: int(mode), P: string(stream[:consumed])})
				_, _ = ff.Write(append(b, '\n'))
				_ = ff.Close()
			}
		}
		if mode == 1 {
			job.Resume = idx + 1
			p.Add("parse_evals_died", 1)
		} else {
			job.Resume = -1
			job.ResumeC = idx + 1
			p.Add("conn_evals_died", 1)
		}
		if r.Expired() {
			p.TimedOut = true
			return
		}
		if deaths > 200000 {
			vr.Fatalf("c31: too many worker deaths")
		}
	}
}

func tail(s string, n int) string {
	if len(s) > n {
		return s[len(s)-n:]
	}
	return s
}

func c31ReplayOne(r *vr.Run, v c31Viol, L, connL int) {
	dir := r.Scratch()
	page := dir + "/replay.page"
	c31OpenPage(page, true)
	fmt.Printf("replaying %s-mode stream %s\n", v.Mode, v.Stream)
	p := vr.NewPartial()
	job := c31Job{L: L, ConnL: connL, Shard: 0, Shards: 1, Resume: -1, ResumeC: -1, ResumeRT: -1, Page: page, ViolOut: dir + "/viol.jsonl", Deadline: time.Now().Unix() + 600}
	if v.Mode == "roundtrip" {
		job.ResumeRT = 0
	} else {
		job.OnlyStream, job.OnlyMode = v.Stream, v.Mode
	}
	c31RunWorker(r, job, p)
	c31Collect(dir+"/viol.jsonl", p)
	for _, pv := range p.Violations {
		fmt.Printf("replay: %s\n  %s\n", pv.Sig, pv.Desc)
		r.Violation(pv.Sig, pv.Desc, json.RawMessage(pv.Replay))
	}
}

func c31Collect(path string, p *vr.Partial) {
	data, err := os.ReadFile(path)
	if err != nil {
		return
	}
	for _, ln := range strings.Split(string(data), "\n") {
		if ln == "" {
			continue
		}
		var v c31Viol
		if err := json.Unmarshal([]byte(ln), &v); err != nil {
			vr.Fatalf("c31 viol line: %v", err)
		}
		p.Viol(v.Sig, v.Desc, ln)
	}
}

func TestVerifC31(t *testing.T) {
	if js := os.Getenv("VERIF_C31_JOB"); js != "" {
		var job c31Job
		if err := json.Unmarshal([]byte(js), &job); err != nil {
			vr.Fatalf("c31 job: %v", err)
		}
		c31Worker(&job)
		return
	}
	r := vr.Start("C31")
	L := r.Pick(5, 6)
	connL := L - 1
	if r.ReplayPath != "" {
		var v c31Viol
		r.LoadReplay(&v)
		c31ReplayOne(r, v, L, connL)
		r.Finish(vr.Coverage{Level: "exploration", Evaluations: 1, Distinct: 2, Rule: "replay of one recorded stream in a ulimit -v worker", Samples: []any{v.Stream}})
	}
	base := r.Scratch()
	// the list of fatal prefixes is shared by all shard processes (parent's directory,
	// handed down through the environment; each shard has its own private scratch)
	fatalFile := os.Getenv("VERIF_C31_FATAL")
	if fatalFile == "" {
		fatalFile = base + "/fatal-prefixes"
		_ = os.Setenv("VERIF_C31_FATAL", fatalFile)
	}
	deadline := time.Now().Add(r.Remaining()).Unix()
	total := r.RunSharded(vr.Workers(), func(sh vr.ShardInfo, p *vr.Partial) {
		pagePath := fmt.Sprintf("%s/page-%d", base, sh.Index)
		violPath := fmt.Sprintf("%s/viol-%d.jsonl", base, sh.Index)
		page := c31OpenPage(pagePath, true)
		job := c31Job{L: L, ConnL: connL, Shard: sh.Index, Shards: sh.Count, Page: pagePath, ViolOut: violPath, Deadline: deadline, FatalFile: fatalFile}
		c31RunWorker(r, job, p)
		c31Collect(violPath, p)
		p.Add("parse_evals", page.get(c31OffEvals))
		p.Add("conn_evals", page.get(c31OffConnEvals))
		p.Add("roundtrip_evals", page.get(c31OffRT))
		p.Add("parse_equiv_fatal", page.get(c31OffSkipP))
		p.Add("conn_equiv_fatal", page.get(c31OffSkipC))
		p.Add("frames", page.get(c31OffFrames))
		p.Add("nontrivial", page.get(c31OffNontriv))
		p.Max("max_alloc", page.get(c31OffMaxAlloc))
		// outcome bitmap -> set
		for i := 0; i < c31BitmapBytes*8; i++ {
			if page.b[c31OffBitmap+i/8]&(1<<(i%8)) != 0 {
				p.Mark("outcomes", strconv.Itoa(i))
			}
		}
	})
	c := total.Counters
	parseN := c["parse_evals"] + c["parse_evals_died"] + c["parse_equiv_fatal"]
	connN := c["conn_evals"] + c["conn_evals_died"] + c["conn_equiv_fatal"]
	exhaustive := !total.TimedOut && parseN == c31Cases(L) && connN == c31Cases(connL)
	if !total.TimedOut && !exhaustive {
		vr.Fatalf("c31: enumerated %d parse and %d conn cases, expected %d and %d", parseN, connN, c31Cases(L), c31Cases(connL))
	}
	evals := parseN + connN + c["roundtrip_evals"]
	outcomes := total.Card("outcomes")
	r.RequireOutcomes(outcomes, 10)
	samples := []any{}
	for _, i := range []int64{c31Total(2) + 5, c31Total(3) + 1234, c31Total(4) + 77777, c31Total(L) + 4321} {
		if i < c31Cases(L) {
			s, _ := c31Case(i, L, nil, nil)
			samples = append(samples, strconv.Quote(string(s)))
		}
	}
	r.Finish(vr.Coverage{
		Level:       "exploration",
		Evaluations: evals,
		Distinct:    c["nontrivial"],
		Rule:        fmt.Sprintf("every token sequence of length <= %d over %d tokens {* $ + twelve boundary integers CRLF LF a ab} (plus, after each of 3 array-frame prefixes, every sequence of length <= L-2) fed byte-wise and at once to the real parseRESP loop; the same for length <= %d fed to the real handleConn; generated well-formed array/inline frames (and pairs) for the round trip; non-trivial = streams from which the parser produced at least one command with arguments", L, len(c31Tokens), connL),
		Samples:     samples,
		Exhaustive:  exhaustive,
		Outcomes:    outcomes,
		Bounds:      map[string]any{"tokens": c31Tokens, "max_len_parse": L, "max_len_conn": connL, "prefixes": c31Prefixes, "alloc_bound": "64*len+65536", "worker_ulimit_v_kib": c31VMemKB},
		Extra: map[string]any{"parse_streams": parseN, "conn_streams": connN, "roundtrip_streams": c["roundtrip_evals"],
			"streams_not_rerun_because_a_consumed_prefix_already_killed_a_worker": c["parse_equiv_fatal"] + c["conn_equiv_fatal"],
			"frames_parsed": c["frames"], "worker_deaths": c["worker_deaths"], "max_alloc_bytes_surviving_case": c["max_alloc"]},
		Assumptions: []string{"allocation is measured as the runtime.MemStats.TotalAlloc delta around the parse loop / handleConn call in a GOMAXPROCS=2 worker with nothing else running",
			"handleConn is driven through an in-memory net.Conn (deterministic; no goroutine), parseRESP through bufio.Reader exactly as handleConn builds it"},
	})
}
