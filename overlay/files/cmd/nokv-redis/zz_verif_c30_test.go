//go:build verif

// C30 — concurrent Redis clients never lose updates (embedded deployment).
//
// The REAL main() runs in-process (listener / signal / exit / default-options seams are
// package variables), so the option set under test is exactly the deployed one. 2-3 client
// connections each send one INCR-family or SET NX command. A cooperative step scheduler
// owns the interleaving: the named verifhook.Points in the transaction path (snapshot
// taken, commit timestamp assigned, ...) park the serving goroutine until the scheduler
// resumes it, exactly one client runs at a time, and ALL interleavings of the clients'
// transaction steps are enumerated (stateless DFS over choice sequences, every schedule
// re-executed from scratch on a fresh key).
//
// Oracle: final counter == initial + sum of the deltas of the commands that replied with
// an integer; at most one +OK among concurrent SET NX on an absent key.
package main

import (
	"bufio"
	"context"
	"encoding/json"
	"flag"
	"fmt"
	"io"
	"log"
	"net"
	"os"
	"runtime"
	"strconv"
	"strings"
	"sync"
	"testing"
	"time"

	NoKV "github.com/feichai0017/NoKV"
	"github.com/feichai0017/NoKV/pb"
	"github.com/feichai0017/NoKV/raftstore/client"
	"github.com/feichai0017/NoKV/utils/verifhook"

	"verif/lib/vr"
)

// ---- the real main(), in-process ---------------------------------------------------------

type c30Listener struct {
	conns  chan net.Conn
	closed chan struct{}
	once   sync.Once
}

func (l *c30Listener) Accept() (net.Conn, error) {
	select {
	case c := <-l.conns:
		return c, nil
	case <-l.closed:
		return nil, net.ErrClosed
	}
}
func (l *c30Listener) Close() error   { l.once.Do(func() { close(l.closed) }); return nil }
func (l *c30Listener) Addr() net.Addr { return &net.TCPAddr{} }

type c30Gateway struct {
	ln       *c30Listener
	sig      chan<- os.Signal
	opts     *NoKV.Options
	mainDone chan struct{}
	restore  func()
	raft     *redisServer // non-nil: raft-backed gateway (no main(), no DB)
}

// c30StartMain runs main() with the embedded backend on dir and returns once it listens.
func c30StartMain(dir string) *c30Gateway {
	if err := os.MkdirAll(dir, 0o755); err != nil {
		vr.Fatalf("c30: %v", err)
	}
	g := &c30Gateway{ln: &c30Listener{conns: make(chan net.Conn), closed: make(chan struct{})}, mainDone: make(chan struct{})}
	origArgs, origFlags := os.Args, flag.CommandLine
	origListen, origNotify, origExit, origOpts := listen, signalNotify, exit, newDefaultOptions
	g.restore = func() {
		os.Args, flag.CommandLine = origArgs, origFlags
		listen, signalNotify, exit, newDefaultOptions = origListen, origNotify, origExit, origOpts
	}
	flag.CommandLine = flag.NewFlagSet("nokv-redis", flag.ContinueOnError)
	flag.CommandLine.SetOutput(io.Discard)
	os.Args = []string{"nokv-redis", "-workdir", dir, "-addr", "in-memory"}
	listening := make(chan struct{})
	gotSig := make(chan struct{})
	listen = func(network, address string) (net.Listener, error) {
		close(listening)
		return g.ln, nil
	}
	signalNotify = func(ch chan<- os.Signal, _ ...os.Signal) {
		g.sig = ch
		close(gotSig)
	}
	exit = func(code int) { vr.Fatalf("c30: main() called exit(%d)", code) }
	newDefaultOptions = func() *NoKV.Options {
		g.opts = origOpts() // main() mutates and opens exactly this value
		return g.opts
	}
	go func() {
		defer close(g.mainDone)
		main()
	}()
	for _, ch := range []chan struct{}{listening, gotSig} {
		if !c30Wait(ch, 300) {
			vr.Fatalf("c30: main() did not come up")
		}
	}
	return g
}

func (g *c30Gateway) stop() {
	// main() waits for every connection handler to return: all client ends are closed by now
	g.sig <- os.Interrupt
	if !c30Wait(g.mainDone, 300) {
		vr.Fatalf("c30: main() did not shut down")
	}
	g.restore()
}

// c30Wait waits for ch for at most n one-second ticks (robust against clock jumps).
func c30Wait(ch <-chan struct{}, n int) bool {
	for i := 0; i < n; i++ {
		select {
		case <-ch:
			return true
		case <-time.After(time.Second):
		}
	}
	return false
}

type c30Client struct {
	conn net.Conn
	rd   *bufio.Reader
}

func (g *c30Gateway) dial() *c30Client {
	cli, srv := net.Pipe()
	if g.raft != nil {
		// raft-backed deployment: the real server + raftBackend over the harness-owned store
		rs := g.raft
		go rs.handleConn(vrespServerConn{srv})
	} else {
		accepted := false
		for ticks := 0; !accepted && ticks < 300; ticks++ {
			select {
			case g.ln.conns <- vrespServerConn{srv}:
				accepted = true
			case <-time.After(time.Second):
			}
		}
		if !accepted {
			vr.Fatalf("c30: gateway does not accept")
		}
	}
	return &c30Client{conn: cli, rd: bufio.NewReader(cli)}
}

func (c *c30Client) do(args ...string) vrespReply {
	if _, err := c.conn.Write(vrespEncode(args)); err != nil {
		vr.Fatalf("c30: write %v: %v", args, err)
	}
	rep, err := vrespRead(c.rd)
	if err != nil {
		vr.Fatalf("c30: reply to %v: %v", args, err)
	}
	return rep
}

// ---- raft-backed deployment: real raftBackend over a harness-owned store ------------------
//
// raftBackend talks to the cluster through two interfaces (raftClient, timestampAllocator).
// The harness supplies a minimal store that honours the Percolator contract the real
// raftstore client/TinyKv provide: monotonically increasing timestamps; BatchGet(v) returns
// the newest version committed at or below v; Mutate(start, commit) is atomic and is
// refused with a write-conflict KeyError if any touched key has a version committed at or
// after start. Every call into the store is a scheduling point, so the interleavings are
// those of the gateway's RPCs.

type c30Version struct {
	commit uint64
	val    []byte
	del    bool
}

type c30RaftStore struct {
	mu       sync.Mutex
	ts       uint64
	versions map[string][]c30Version
}

func (s *c30RaftStore) Reserve(n uint64) (uint64, error) {
	c30Point("raft.tso")
	s.mu.Lock()
	defer s.mu.Unlock()
	first := s.ts + 1
	s.ts += n
	return first, nil
}

func (s *c30RaftStore) BatchGet(_ context.Context, keys [][]byte, version uint64) (map[string]*pb.GetResponse, error) {
	c30Point("raft.get")
	s.mu.Lock()
	defer s.mu.Unlock()
	out := map[string]*pb.GetResponse{}
	for _, k := range keys {
		resp := &pb.GetResponse{NotFound: true}
		var best *c30Version
		for i := range s.versions[string(k)] {
			v := &s.versions[string(k)][i]
			if v.commit <= version && (best == nil || v.commit > best.commit) {
				best = v
			}
		}
		if best != nil && !best.del {
			resp = &pb.GetResponse{Value: append([]byte{}, best.val...)}
		}
		out[string(k)] = resp
	}
	return out, nil
}

func (s *c30RaftStore) Mutate(_ context.Context, primary []byte, muts []*pb.Mutation, start, commit, _ uint64) error {
	c30Point("raft.mutate")
	s.mu.Lock()
	defer s.mu.Unlock()
	var conflicts []*pb.KeyError
	for _, m := range muts {
		for _, v := range s.versions[string(m.GetKey())] {
			if v.commit >= start {
				conflicts = append(conflicts, &pb.KeyError{WriteConflict: &pb.WriteConflict{Key: m.GetKey(), Primary: primary, ConflictTs: v.commit, CommitTs: start}})
				break
			}
		}
	}
	if len(conflicts) > 0 {
		return &client.KeyConflictError{Errors: conflicts}
	}
	for _, m := range muts {
		s.versions[string(m.GetKey())] = append(s.versions[string(m.GetKey())],
			c30Version{commit: commit, val: append([]byte{}, m.GetValue()...), del: m.GetOp() == pb.Mutation_Delete})
	}
	return nil
}

func (s *c30RaftStore) CheckTxnStatus(context.Context, []byte, uint64, uint64) (*pb.CheckTxnStatusResponse, error) {
	return nil, fmt.Errorf("c30 store: no locks exist")
}
func (s *c30RaftStore) ResolveLocks(context.Context, uint64, uint64, [][]byte) (uint64, error) {
	return 0, fmt.Errorf("c30 store: no locks exist")
}
func (s *c30RaftStore) Close() error { return nil }

func c30StartRaft() *c30Gateway {
	st := &c30RaftStore{versions: map[string][]c30Version{}}
	return &c30Gateway{raft: newServer(&raftBackend{client: st, ts: st})}
}

// ---- cooperative step scheduler -------------------------------------------------------

type c30Thread struct {
	id      int
	cmd     []string
	cli     *c30Client
	gid     uint64
	started bool
	done    bool
	parked  string
	resume  chan struct{}
	replyCh chan vrespReply
	reply   vrespReply
}

type c30Event struct {
	th   *c30Thread
	name string
}

type c30Sched struct {
	mu      sync.Mutex
	points  map[string]bool
	byGID   map[uint64]*c30Thread
	current *c30Thread
	events  chan c30Event
}

var c30S = &c30Sched{events: make(chan c30Event, 8)}

func c30GID() (uint64, string) {
	var buf [4096]byte
	n := runtime.Stack(buf[:], false)
	s := string(buf[:n])
	f := strings.Fields(s) // "goroutine 123 [running]:"
	if len(f) < 2 {
		return 0, s
	}
	id, _ := strconv.ParseUint(f[1], 10, 64)
	return id, s
}

// c30Point is the verifhook handler: a controlled goroutine parks at scheduling points.
func c30Point(name string) {
	s := c30S
	s.mu.Lock()
	if !s.points[name] || s.current == nil {
		s.mu.Unlock()
		return
	}
	gid, stack := c30GID()
	th := s.byGID[gid]
	if th == nil {
		// first point of the client that is running right now: it is served by a
		// handleConn goroutine; anything else (background work) passes through
		if s.current.gid != 0 || !strings.Contains(stack, "handleConn") {
			s.mu.Unlock()
			return
		}
		th = s.current
		th.gid = gid
		s.byGID[gid] = th
	}
	if th != s.current {
		s.mu.Unlock()
		vr.Fatalf("c30: client %d reached %s while client %d holds the token", th.id, name, s.current.id)
	}
	s.mu.Unlock()
	s.events <- c30Event{th, name}
	<-th.resume
}

type c30Exec struct {
	g       *c30Gateway
	key     string
	admin   *c30Client
	threads []*c30Thread
	trace   []string
}

// blocksSnapshots: a transaction between "commit timestamp assigned" and "commit marked
// done" makes every new transaction wait in oracle.readTs(); a client that has not taken
// its snapshot yet is therefore not enabled while another one is parked there. (If this
// model of the implementation's blocking were wrong the step guard turns the resulting
// hang into a harness error, never into a verdict.)
func c30BlocksSnapshots(p string) bool {
	return p == "txn.commit.tsAssigned" || p == "txn.commit.applied"
}

// c30PreSnapshot is reached by every transaction (also the re-run of one that lost a
// conflict) right before it takes its snapshot. It is not a choice point of its own: a
// transaction arriving there continues at once unless the snapshot would block.
const c30PreSnapshot = "txn.start"

// windowBusy: some other client is parked between timestamp assignment and commit completion.
func (e *c30Exec) windowBusy(t *c30Thread) bool {
	for _, o := range e.threads {
		if o != t && !o.done && c30BlocksSnapshots(o.parked) {
			return true
		}
	}
	return false
}

func (e *c30Exec) enabled() []int {
	var out []int
	for _, t := range e.threads {
		if t.done {
			continue
		}
		if (!t.started || t.parked == c30PreSnapshot) && e.windowBusy(t) {
			continue
		}
		out = append(out, t.id)
	}
	return out
}

// step lets client i run until its next scheduling point or until its reply arrived.
func (e *c30Exec) step(i int) {
	t := e.threads[i]
	s := c30S
	s.mu.Lock()
	s.current = t
	s.mu.Unlock()
	from := t.parked
	if !t.started {
		t.started = true
		from = "start"
		go func() {
			if _, err := t.cli.conn.Write(vrespEncode(t.cmd)); err != nil {
				vr.Fatalf("c30: write: %v", err)
			}
			rep, err := vrespRead(t.cli.rd)
			if err != nil {
				vr.Fatalf("c30: client %d reply: %v", t.id, err)
			}
			t.replyCh <- rep
		}()
	} else {
		t.parked = ""
		t.resume <- struct{}{}
	}
	// guard: counts one-second ticks (a suspended sandbox makes clocks jump: that costs one
	// tick here, whereas a single long deadline would fire spuriously)
	guard := time.NewTicker(time.Second)
	defer guard.Stop()
	ticks := 0
	for again := true; again; {
		again = false
		select {
		case ev := <-s.events:
			if ev.th != t {
				vr.Fatalf("c30: event from client %d while stepping client %d", ev.th.id, t.id)
			}
			if ev.name == c30PreSnapshot && !e.windowBusy(t) {
				t.resume <- struct{}{} // the snapshot cannot block: not a choice point
				again = true
				continue
			}
			t.parked = ev.name
			e.trace = append(e.trace, fmt.Sprintf("%d:%s->%s", i, from, ev.name))
		case rep := <-t.replyCh:
			t.done, t.reply, t.parked = true, rep, ""
			e.trace = append(e.trace, fmt.Sprintf("%d:%s->reply(%s)", i, from, strings.TrimSpace(rep.Raw)))
		case <-guard.C:
			if ticks++; ticks >= 300 {
				vr.Fatalf("c30: client %d neither parked nor replied (schedule so far %v)", i, e.trace)
			}
			again = true
		}
	}
	s.mu.Lock()
	s.current = nil
	s.mu.Unlock()
}

func (e *c30Exec) close() {
	for _, t := range e.threads {
		_ = t.cli.conn.Close()
	}
	_ = e.admin.conn.Close()
}

// ---- scenarios -----------------------------------------------------------------------

type c30Scenario struct {
	Name    string
	Initial string // "" = key absent
	Cmds    [][]string
	Points  []string
	Raft    bool
}

var c30RaftAll = []string{"raft.tso", "raft.get", "raft.mutate"}
var c30RaftCore = []string{"raft.get", "raft.mutate"}

func c30RaftScenarios(thorough bool) []c30Scenario {
	sc := []c30Scenario{
		{"raft/incr,incr", "", [][]string{{"INCR", "K"}, {"INCR", "K"}}, c30RaftAll, true},
		{"raft/incr,incrby5@10", "10", [][]string{{"INCR", "K"}, {"INCRBY", "K", "5"}}, c30RaftAll, true},
		{"raft/setnx,setnx", "", [][]string{{"SET", "K", "a", "NX"}, {"SET", "K", "b", "NX"}}, c30RaftAll, true},
		{"raft/incr,incr,incr", "", [][]string{{"INCR", "K"}, {"INCR", "K"}, {"INCR", "K"}}, c30RaftCore, true},
	}
	if thorough {
		sc = append(sc,
			c30Scenario{"raft/setnx,setnx,setnx", "", [][]string{{"SET", "K", "a", "NX"}, {"SET", "K", "b", "NX"}, {"SET", "K", "c", "NX"}}, c30RaftCore, true},
			c30Scenario{"raft/decr,incrby7,incr@-3", "-3", [][]string{{"DECR", "K"}, {"INCRBY", "K", "7"}, {"INCR", "K"}}, c30RaftCore, true},
		)
	}
	return sc
}

var c30CorePoints = []string{"txn.begin", "txn.commit.tsAssigned"}
var c30AllPoints = []string{"txn.begin", "txn.get", "txn.commit.tsAssigned", "txn.commit.applied"}

func c30Scenarios(thorough bool) []c30Scenario {
	sc := []c30Scenario{
		{"incr,incr", "", [][]string{{"INCR", "K"}, {"INCR", "K"}}, c30CorePoints, false},
		{"incr,incrby5@10", "10", [][]string{{"INCR", "K"}, {"INCRBY", "K", "5"}}, c30CorePoints, false},
		{"decr,incrby7@-3", "-3", [][]string{{"DECR", "K"}, {"INCRBY", "K", "7"}}, c30CorePoints, false},
		{"setnx,setnx", "", [][]string{{"SET", "K", "a", "NX"}, {"SET", "K", "b", "NX"}}, c30CorePoints, false},
		{"incr,incr,incr", "", [][]string{{"INCR", "K"}, {"INCR", "K"}, {"INCR", "K"}}, c30CorePoints, false},
		{"setnx,setnx,setnx", "", [][]string{{"SET", "K", "a", "NX"}, {"SET", "K", "b", "NX"}, {"SET", "K", "c", "NX"}}, c30CorePoints, false},
		{"incr,incr/all-points", "1", [][]string{{"INCR", "K"}, {"INCR", "K"}}, c30AllPoints, false},
	}
	if thorough {
		sc = append(sc,
			c30Scenario{"incr,decrby2,incrby5@100", "100", [][]string{{"INCR", "K"}, {"DECRBY", "K", "2"}, {"INCRBY", "K", "5"}}, c30CorePoints, false},
			c30Scenario{"setnx,setnx/all-points", "", [][]string{{"SET", "K", "a", "NX"}, {"SET", "K", "b", "NX"}}, c30AllPoints, false},
			c30Scenario{"incr,incrby3,decr/+applied@5", "5", [][]string{{"INCR", "K"}, {"INCRBY", "K", "3"}, {"DECR", "K"}}, []string{"txn.begin", "txn.commit.tsAssigned", "txn.commit.applied"}, false},
		)
	}
	return sc
}

type c30Replay struct {
	Scenario string
	Schedule []int
	Trace    []string
}

type c30Runner struct {
	g      *c30Gateway
	keySeq int
	p      *vr.Partial
	shard  vr.ShardInfo
}

func (rn *c30Runner) newExec(sc c30Scenario) *c30Exec {
	rn.keySeq++
	e := &c30Exec{g: rn.g, key: fmt.Sprintf("c30:%d:%d", rn.shard.Index, rn.keySeq), admin: rn.g.dial()}
	pts := map[string]bool{c30PreSnapshot: true}
	for _, p := range sc.Points {
		pts[p] = true
	}
	c30S.mu.Lock()
	c30S.points, c30S.byGID, c30S.current = pts, map[uint64]*c30Thread{}, nil
	c30S.mu.Unlock()
	if sc.Initial != "" {
		if rep := e.admin.do("SET", e.key, sc.Initial); rep.Raw != "+OK\r\n" {
			vr.Fatalf("c30: initial SET replied %q", rep.Raw)
		}
	}
	for i, cmd := range sc.Cmds {
		args := append([]string{}, cmd...)
		for j := range args {
			if args[j] == "K" {
				args[j] = e.key
			}
		}
		e.threads = append(e.threads, &c30Thread{id: i, cmd: args, cli: rn.g.dial(), resume: make(chan struct{}), replyCh: make(chan vrespReply, 1)})
	}
	return e
}

// run executes one complete schedule: the given prefix, then always the lowest enabled
// client. It returns the full choice sequence and, for every position at or after
// len(prefix), the alternatives that were enabled but not taken.
func (rn *c30Runner) run(sc c30Scenario, prefix []int) (sched []int, alts [][]int, e *c30Exec, valid bool) {
	e = rn.newExec(sc)
	for {
		en := e.enabled()
		if len(en) == 0 {
			break
		}
		pos := len(sched)
		choice := en[0]
		if pos < len(prefix) {
			choice = -1
			for _, x := range en {
				if x == prefix[pos] {
					choice = x
				}
			}
			if choice < 0 {
				// not a schedule: drain the execution deterministically and drop it
				for len(e.enabled()) > 0 {
					e.step(e.enabled()[0])
				}
				return nil, nil, e, false
			}
			alts = append(alts, nil)
		} else {
			var a []int
			for _, x := range en {
				if x != choice {
					a = append(a, x)
				}
			}
			alts = append(alts, a)
		}
		e.step(choice)
		sched = append(sched, choice)
	}
	for _, t := range e.threads {
		if !t.done {
			vr.Fatalf("c30: no client enabled but client %d unfinished (parked at %q); schedule %v", t.id, t.parked, e.trace)
		}
	}
	return sched, alts, e, true
}

// verdict evaluates the oracle on a finished execution.
func (rn *c30Runner) verdict(sc c30Scenario, e *c30Exec) (sig, desc, outcome string) {
	final := e.admin.do("GET", e.key)
	dc := "unknown"
	if rn.g.opts != nil {
		dc = strconv.FormatBool(rn.g.opts.DetectConflicts)
	}
	suffix := "deployed_detect_conflicts=" + dc
	if sc.Raft {
		suffix = "backend=raft"
	}
	var replies []string
	for _, t := range e.threads {
		replies = append(replies, strings.TrimSpace(t.reply.Raw))
	}
	outcome = fmt.Sprintf("%s replies=%v final=%q", sc.Name, replies, final.Str)
	if sc.Cmds[0][0] == "SET" {
		oks := 0
		for _, t := range e.threads {
			if t.reply.Raw == "+OK\r\n" {
				oks++
			}
		}
		if oks > 1 {
			return fmt.Sprintf("setnx-multiple-ok scenario=%s oks=%d %s", sc.Name, oks, suffix),
				fmt.Sprintf("%d concurrent SET NX on an absent key replied +OK (replies %v, final value %q)", oks, replies, final.Str), outcome
		}
		return "", "", outcome
	}
	want := int64(0)
	if sc.Initial != "" {
		want, _ = strconv.ParseInt(sc.Initial, 10, 64)
	}
	for _, t := range e.threads {
		if t.reply.Kind != ':' {
			continue // only commands that replied with an integer count
		}
		d := int64(1)
		switch strings.ToUpper(t.cmd[0]) {
		case "DECR":
			d = -1
		case "INCRBY":
			d, _ = strconv.ParseInt(t.cmd[2], 10, 64)
		case "DECRBY":
			d, _ = strconv.ParseInt(t.cmd[2], 10, 64)
			d = -d
		}
		want += d
	}
	got, err := strconv.ParseInt(final.Str, 10, 64)
	if final.Kind != '$' || err != nil || got != want {
		return fmt.Sprintf("lost-update scenario=%s final=%q want=%d %s", sc.Name, final.Str, want, suffix),
			fmt.Sprintf("counter ends at %q but initial %q plus the deltas of the commands that replied with an integer (%v) is %d", final.Str, sc.Initial, replies, want), outcome
	}
	return "", "", outcome
}

// ---- retry exhaustion: a controlled rival wins the race k times in a row -------------------
//
// The embedded backend re-runs a read-modify-write command whose commit lost an
// optimistic-concurrency race (embeddedBackend.update, 1+maxConflictRetries attempts).
// Two or three one-shot clients can make a command lose at most twice, so this family
// drives ONE victim command and, while it is parked right after taking its snapshot
// (txn.begin), lets a rival connection commit to the same key: the victim's attempt is
// then doomed. For every k in 0..maxConflictRetries+2 the rival wins the first k attempts
// (only prefixes exist: an attempt that is not beaten commits and ends the command), so
// "succeeds after k lost attempts" and "gives up after all attempts" are both covered
// deterministically. Everything is sequential in real time (the rival's reply arrives
// before the victim is resumed), so the oracle is exact.

type c30Victim struct {
	Name    string
	Initial string
	Cmd     []string // the victim command ("K" = key)
	Rival   []string // the rival's command, committed once per beaten attempt
}

func c30Victims() []c30Victim {
	return []c30Victim{
		{"exhaust/incr", "", []string{"INCR", "K"}, []string{"INCRBY", "K", "1000"}},
		{"exhaust/decrby3@7", "7", []string{"DECRBY", "K", "3"}, []string{"INCRBY", "K", "1000"}},
		{"exhaust/incrby5-vs-set@1", "1", []string{"INCRBY", "K", "5"}, []string{"SET", "K", "#"}},
		{"exhaust/setxx@a", "a", []string{"SET", "K", "victim", "XX"}, []string{"SET", "K", "#"}},
		{"exhaust/del@a", "a", []string{"DEL", "K"}, []string{"SET", "K", "#"}},
	}
}

// exhaust runs victim v with the rival winning the first k attempts; it returns the number
// of attempts the victim made and the verdict.
func (rn *c30Runner) exhaust(v c30Victim, k int) (attempts int, sig, desc, outcome string, trace []string) {
	sc := c30Scenario{Name: v.Name, Initial: v.Initial, Cmds: [][]string{v.Cmd}, Points: []string{"txn.begin"}}
	e := rn.newExec(sc)
	defer e.close()
	t := e.threads[0]
	// model of the key: numeric counter or plain string, driven only by ACKNOWLEDGED commands
	val, present := v.Initial, v.Initial != ""
	var ackedInts []string
	apply := func(cmd []string, rep vrespReply) {
		switch strings.ToUpper(cmd[0]) {
		case "INCR", "DECR", "INCRBY", "DECRBY":
			if rep.Kind != ':' {
				return // an error reply must leave no effect
			}
			d := int64(1)
			switch strings.ToUpper(cmd[0]) {
			case "DECR":
				d = -1
			case "INCRBY":
				d, _ = strconv.ParseInt(cmd[2], 10, 64)
			case "DECRBY":
				d, _ = strconv.ParseInt(cmd[2], 10, 64)
				d = -d
			}
			cur := int64(0)
			if present {
				cur, _ = strconv.ParseInt(val, 10, 64)
			}
			val, present = strconv.FormatInt(cur+d, 10), true
			ackedInts = append(ackedInts, strings.TrimSpace(rep.Raw))
		case "SET":
			if rep.Raw == "+OK\r\n" {
				val, present = cmd[2], true
			}
		case "DEL":
			if rep.Kind == ':' && rep.Int > 0 {
				val, present = "", false
			}
		}
	}
	wins := 0
	e.step(0)
	for !t.done {
		if t.parked != "txn.begin" {
			vr.Fatalf("c30 exhaust: victim parked at %q", t.parked)
		}
		attempts++
		if wins < k {
			// rival: a complete command on another connection, between the victim's
			// snapshot and its commit. "#" is replaced by a value unique to this win.
			args := make([]string, len(v.Rival))
			for i, a := range v.Rival {
				switch a {
				case "K":
					args[i] = e.key
				case "#":
					args[i] = strconv.Itoa(100 + wins)
				default:
					args[i] = a
				}
			}
			rep := e.admin.do(args...)
			if rep.Kind == '-' {
				vr.Fatalf("c30 exhaust: uncontended rival %v failed: %s", args, rep.Str)
			}
			model := append([]string{}, args...)
			model[1] = "K"
			apply(model, rep)
			wins++
			e.trace = append(e.trace, fmt.Sprintf("rival:%s->%s", strings.Join(v.Rival, " "), strings.TrimSpace(rep.Raw)))
		}
		e.step(0)
		if attempts > maxConflictRetries+8 {
			vr.Fatalf("c30 exhaust: victim still retrying after %d attempts", attempts)
		}
	}
	apply(v.Cmd, t.reply) // the victim's reply arrives last in real time
	final := e.admin.do("GET", e.key)
	dc := "unknown"
	if rn.g.opts != nil {
		dc = strconv.FormatBool(rn.g.opts.DetectConflicts)
	}
	kind := "int"
	switch {
	case t.reply.Kind == '-':
		kind = "error"
	case t.reply.Kind == '+':
		kind = "ok"
	case t.reply.Kind == '_':
		kind = "nil"
	}
	outcome = fmt.Sprintf("%s k=%d attempts=%d victim=%s", v.Name, k, attempts, kind)
	got, gotPresent := final.Str, final.Kind == '$'
	if gotPresent != present || (present && got != val) {
		w := "absent"
		if present {
			w = strconv.Quote(val)
		}
		g := "absent"
		if gotPresent {
			g = strconv.Quote(got)
		}
		sig = fmt.Sprintf("ack-without-effect scenario=%s rival_wins=%d attempts=%d victim_reply=%s deployed_detect_conflicts=%s", v.Name, wins, attempts, kind, dc)
		desc = fmt.Sprintf("victim %v lost %d attempt(s) to a rival commit and finally replied %q, but the key ends as %s while the acknowledged commands (rival x%d, then the victim) give %s",
			v.Cmd, wins, strings.TrimSpace(t.reply.Raw), g, wins, w)
	}
	seen := map[string]bool{}
	for _, a := range ackedInts {
		if seen[a] && sig == "" {
			sig = fmt.Sprintf("duplicate-ack scenario=%s rival_wins=%d attempts=%d deployed_detect_conflicts=%s", v.Name, wins, attempts, dc)
			desc = fmt.Sprintf("two acknowledged increments of one counter replied the same value %s (replies %v)", a, ackedInts)
		}
		seen[a] = true
	}
	return attempts, sig, desc, outcome, e.trace
}

func (rn *c30Runner) exploreExhaust(r *vr.Run) {
	idx := 0
	for _, v := range c30Victims() {
		for k := 0; k <= maxConflictRetries+2; k++ {
			idx++
			if !rn.shard.Owns(idx) {
				continue
			}
			if r.Expired() {
				rn.p.TimedOut = true
				return
			}
			attempts, sig, desc, outcome, trace := rn.exhaust(v, k)
			rn.p.Add("executions", 1)
			rn.p.Add("exhaust_runs", 1)
			rn.p.Add("steps", int64(attempts+k+1))
			rn.p.Max("max_attempts_of_one_command", int64(attempts))
			rn.p.Mark("outcomes", outcome)
			rn.p.Mark("schedules", fmt.Sprintf("%s k=%d", v.Name, k))
			rn.p.Mark("states", v.Name+"|"+strings.Join(trace, " "))
			if k == maxConflictRetries+1 {
				rn.p.Sample(fmt.Sprintf("%s: rival wins all %d attempts: %s", v.Name, attempts, outcome))
			}
			if sig != "" {
				for i := 0; i < 2; i++ { // must fail identically from scratch
					_, sig2, _, _, _ := rn.exhaust(v, k)
					rn.p.Add("validated", 1)
					if sig2 != sig {
						vr.Fatalf("c30 exhaust: %s k=%d is not reproducible (%q vs %q)", v.Name, k, sig, sig2)
					}
				}
				rp, _ := json.Marshal(c30Replay{Scenario: v.Name, Schedule: []int{k}, Trace: trace})
				rn.p.Viol(sig, desc+"\n  schedule: "+strings.Join(trace, " "), string(rp))
			}
		}
	}
}

// explore enumerates every schedule of sc below the given root prefixes.
func (rn *c30Runner) explore(r *vr.Run, sc c30Scenario) {
	// root prefixes of length 3 are distributed over the shards (every client has >= 2
	// steps, so every schedule has at least 4 choices and extends exactly one root)
	n := len(sc.Cmds)
	var roots [][]int
	for a := 0; a < n; a++ {
		for b := 0; b < n; b++ {
			for c := 0; c < n; c++ {
				roots = append(roots, []int{a, b, c})
			}
		}
	}
	for ri, root := range roots {
		if !rn.shard.Owns(ri) {
			continue
		}
		stack := [][]int{root}
		for len(stack) > 0 {
			if r.Expired() {
				rn.p.TimedOut = true
				return
			}
			prefix := stack[len(stack)-1]
			stack = stack[:len(stack)-1]
			sched, alts, e, valid := rn.run(sc, prefix)
			if !valid {
				e.close()
				continue
			}
			rn.p.Add("executions", 1)
			rn.p.Add("steps", int64(len(sched)))
			sig, desc, outcome := rn.verdict(sc, e)
			trace := e.trace
			e.close()
			rn.p.Mark("outcomes", outcome)
			rn.p.Mark("schedules", sc.Name+fmt.Sprint(sched))
			rn.p.Mark("states", sc.Name+"|"+strings.Join(trace, " "))
			if len(sched) > 0 {
				rn.p.Sample(sc.Name + ": " + strings.Join(trace, " "))
			}
			for pos := len(sched) - 1; pos >= len(prefix); pos-- {
				for _, a := range alts[pos] {
					stack = append(stack, append(append([]int{}, sched[:pos]...), a))
				}
			}
			if sig != "" {
				// the schedule is re-executed twice from scratch and must fail identically
				for k := 0; k < 2; k++ {
					s2, _, e2, ok := rn.run(sc, sched)
					sig2, _, _ := "", "", ""
					if ok {
						sig2, _, _ = rn.verdict(sc, e2)
					}
					e2.close()
					rn.p.Add("validated", 1)
					if !ok || fmt.Sprint(s2) != fmt.Sprint(sched) || sig2 != sig {
						vr.Fatalf("c30: schedule %v of %s is not reproducible (%q vs %q)", sched, sc.Name, sig, sig2)
					}
				}
				rp, _ := json.Marshal(c30Replay{Scenario: sc.Name, Schedule: sched, Trace: trace})
				rn.p.Viol(sig, desc+"\n  schedule: "+strings.Join(trace, " "), string(rp))
			}
		}
	}
}

func TestVerifC30(t *testing.T) {
	log.SetOutput(io.Discard)
	r := vr.Start("C30")
	verifhook.SetPointHandler(c30Point)
	scs := c30Scenarios(r.Thorough())
	if r.ReplayPath != "" {
		var rp c30Replay
		r.LoadReplay(&rp)
		var g *c30Gateway
		if strings.HasPrefix(rp.Scenario, "raft/") {
			g = c30StartRaft()
		} else {
			g = c30StartMain(r.Scratch() + "/replay")
		}
		rn := &c30Runner{g: g, p: vr.NewPartial()}
		wu := rn.g.dial()
		wu.do("SET", "c30:warmup", "1")
		_ = wu.conn.Close()
		for _, v := range c30Victims() {
			if v.Name != rp.Scenario || len(rp.Schedule) != 1 {
				continue
			}
			attempts, sig, desc, outcome, trace := rn.exhaust(v, rp.Schedule[0])
			fmt.Printf("replay: %s rival wins %d, victim made %d attempts\n  %s\n  %s\n", v.Name, rp.Schedule[0], attempts, strings.Join(trace, " "), outcome)
			if sig != "" {
				r.Violation(sig, desc, rp)
			}
		}
		for _, sc := range append(c30Scenarios(true), c30RaftScenarios(true)...) {
			if sc.Name != rp.Scenario {
				continue
			}
			sched, _, e, ok := rn.run(sc, rp.Schedule)
			if !ok {
				vr.Fatalf("c30 replay: schedule %v is not executable", rp.Schedule)
			}
			sig, desc, outcome := rn.verdict(sc, e)
			fmt.Printf("replay: %s\n  schedule %v: %s\n  %s\n", sc.Name, sched, strings.Join(e.trace, " "), outcome)
			e.close()
			if sig != "" {
				r.Violation(sig, desc, rp)
			}
		}
		if g.raft == nil {
			g.stop()
		}
		r.Finish(vr.Coverage{Level: "model_checking", Evaluations: 1, Distinct: 2, States: 1, Transitions: int64(len(rp.Schedule)), Rule: "replay of one schedule", Samples: []any{rp.Trace}})
	}
	base := r.Scratch()
	total := r.RunSharded(vr.Workers(), func(sh vr.ShardInfo, p *vr.Partial) {
		g := c30StartMain(fmt.Sprintf("%s/s%d", base, sh.Index))
		rn := &c30Runner{g: g, p: p, shard: sh}
		// one committed write first: transactions then start from a non-zero timestamp, as
		// in any running deployment (key namespaces keep the executions independent)
		wu := g.dial()
		if rep := wu.do("SET", fmt.Sprintf("c30:warmup:%d", sh.Index), "1"); rep.Raw != "+OK\r\n" {
			vr.Fatalf("c30: warm-up SET replied %q", rep.Raw)
		}
		_ = wu.conn.Close()
		for _, sc := range scs {
			rn.explore(r, sc)
		}
		rn.exploreExhaust(r)
		if sh.Index == 0 && g.opts != nil {
			p.Add("deployed_detect_conflicts", map[bool]int64{false: 0, true: 1}[g.opts.DetectConflicts])
		}
		g.stop()
		// raft-backed deployment: real server + raftBackend, harness-owned store
		rrn := &c30Runner{g: c30StartRaft(), p: p, shard: sh}
		for _, sc := range c30RaftScenarios(r.Thorough()) {
			rrn.explore(r, sc)
		}
	})
	c := total.Counters
	if c["executions"] == 0 {
		vr.Fatalf("c30: no schedule executed (are the txn.* hook points present in %s/txn.go? see hooks-pending/c30-txn-points.diff)", r.Repo)
	}
	if total.Card("schedules") < 50 && !total.TimedOut {
		vr.Fatalf("c30: only %d schedules: the txn.* scheduling points are not being hit (hooks-pending/c30-txn-points.diff not applied to %s?)", total.Card("schedules"), r.Repo)
	}
	outcomes := total.Card("outcomes")
	r.RequireOutcomes(outcomes, 2)
	var names []string
	for _, sc := range append(scs, c30RaftScenarios(r.Thorough())...) {
		names = append(names, fmt.Sprintf("%s(points=%d)", sc.Name, len(sc.Points)))
	}
	for _, v := range c30Victims() {
		names = append(names, fmt.Sprintf("%s(rival wins k=0..%d consecutive attempts)", v.Name, maxConflictRetries+2))
	}
	r.Finish(vr.Coverage{
		Level:       "model_checking",
		Evaluations: c["executions"],
		Distinct:    total.Card("schedules"),
		Rule:        "all interleavings of 2-3 concurrent client commands at transaction-step granularity (embedded: coarse cooperative scheduling at verifhook points txn.begin / txn.get / txn.commit.tsAssigned / txn.commit.applied inside the real main()+handleConn+DB; raft-backed: at every TSO / BatchGet / Mutate call the real raftBackend makes into a harness-owned Percolator-contract store), every schedule executed from scratch on a fresh key; plus the retry-exhaustion family: one victim command (INCR / DECRBY / INCRBY / SET XX / DEL) parked after each snapshot while a rival connection commits to its key, for every number k = 0..maxConflictRetries+2 of consecutive lost attempts; a state is a distinct trace of (client, step, reply)",
		Samples:     total.SamplesAny(),
		States:      total.Card("states"),
		Transitions: c["steps"],
		Validated:   c["executions"] + c["validated"],
		Exhaustive:  !total.TimedOut,
		Outcomes:    outcomes,
		Bounds:      map[string]any{"scenarios": names, "clients": "2-3", "commands_per_client": 1},
		Extra: map[string]any{"deployed_detect_conflicts": c["deployed_detect_conflicts"] == 1, "violating_schedules_rerun_twice": c["validated"] / 2,
			"retry_exhaustion_runs": c["exhaust_runs"], "max_attempts_of_one_command": c["max_attempts_of_one_command"], "max_conflict_retries_const": maxConflictRetries},
		Assumptions: []string{"code between two scheduling points runs atomically (coarse mode): the read of a transaction is determined by its snapshot, the conflict check + timestamp assignment are atomic under the oracle lock",
			"a client that has not taken its snapshot is treated as not enabled while another client is parked between commit-timestamp assignment and commit completion (oracle.readTs waits there); a wrong blocking model would surface as a harness error through the step guard",
			"one long-lived main() per worker process, fresh key per schedule, one warm-up write so timestamps are non-zero",
			"raft-backed scenarios: the cluster behind raftBackend is replaced by a harness-owned store that honours the Percolator contract (monotone TSO, snapshot reads, atomic Mutate refused on a version committed at or after its start timestamp) and never leaves locks; the real raftstore client, RPC layer and TinyKv service are not in the loop"},
	})
}
