//go:build verif

// RESP client-side helpers shared by the C29 / C30 harnesses (client encoding and reply
// decoding are written here independently of the gateway's own writer/parser).
package main

import (
	"bufio"
	"fmt"
	"io"
	"net"
	"strconv"
	"strings"
	"time"
)

// vrespServerConn is the server end handed to handleConn: the gateway's 5-minute idle
// read deadline is a wall-clock behaviour outside the properties checked here, and a
// suspended sandbox would fire it spuriously, so deadlines are ignored.
type vrespServerConn struct{ net.Conn }

func (vrespServerConn) SetDeadline(time.Time) error      { return nil }
func (vrespServerConn) SetReadDeadline(time.Time) error  { return nil }
func (vrespServerConn) SetWriteDeadline(time.Time) error { return nil }

// vrespEncode renders a command as a RESP array of bulk strings.
func vrespEncode(args []string) []byte {
	var sb strings.Builder
	sb.WriteString("*" + strconv.Itoa(len(args)) + "\r\n")
	for _, a := range args {
		sb.WriteString("$" + strconv.Itoa(len(a)) + "\r\n" + a + "\r\n")
	}
	return []byte(sb.String())
}

// vrespReply is one decoded server reply; Raw holds its exact bytes.
type vrespReply struct {
	Kind byte // '+', '-', ':', '$' (bulk), '_' (null bulk), '*' (array), 'N' (null array), 'X' (connection closed, no reply)
	Str  string
	Int  int64
	Arr  []vrespReply
	Raw  string
}

func vrespReadLine(r *bufio.Reader) (string, string, error) {
	line, err := r.ReadString('\n')
	if err != nil {
		return "", line, err
	}
	if len(line) < 2 || line[len(line)-2] != '\r' {
		return "", line, fmt.Errorf("reply line without CRLF: %q", line)
	}
	return line[:len(line)-2], line, nil
}

// vrespRead decodes exactly one reply.
func vrespRead(r *bufio.Reader) (vrespReply, error) {
	line, raw, err := vrespReadLine(r)
	if err != nil {
		return vrespReply{Kind: 'X', Raw: raw}, err
	}
	if line == "" {
		return vrespReply{Raw: raw}, fmt.Errorf("empty reply line")
	}
	rep := vrespReply{Kind: line[0], Str: line[1:], Raw: raw}
	switch line[0] {
	case '+', '-':
		return rep, nil
	case ':':
		n, err := strconv.ParseInt(line[1:], 10, 64)
		if err != nil {
			return rep, fmt.Errorf("bad integer reply %q", line)
		}
		rep.Int = n
		return rep, nil
	case '$':
		n, err := strconv.Atoi(line[1:])
		if err != nil || n < -1 {
			return rep, fmt.Errorf("bad bulk header %q", line)
		}
		if n == -1 {
			rep.Kind, rep.Str = '_', ""
			return rep, nil
		}
		buf := make([]byte, n+2)
		if _, err := io.ReadFull(r, buf); err != nil {
			return rep, err
		}
		if buf[n] != '\r' || buf[n+1] != '\n' {
			return rep, fmt.Errorf("bulk payload not followed by CRLF")
		}
		rep.Str = string(buf[:n])
		rep.Raw += string(buf)
		return rep, nil
	case '*':
		n, err := strconv.Atoi(line[1:])
		if err != nil || n < -1 {
			return rep, fmt.Errorf("bad array header %q", line)
		}
		if n == -1 {
			rep.Kind = 'N'
			return rep, nil
		}
		rep.Str = ""
		for i := 0; i < n; i++ {
			el, err := vrespRead(r)
			if err != nil {
				return rep, err
			}
			rep.Arr = append(rep.Arr, el)
			rep.Raw += el.Raw
		}
		return rep, nil
	}
	return rep, fmt.Errorf("unknown reply type %q", line)
}

// vrespShow renders a command for reports: bare words stay bare, everything else is quoted.
func vrespShow(args []string) string {
	var sb strings.Builder
	for i, a := range args {
		if i > 0 {
			sb.WriteByte(' ')
		}
		bare := a != ""
		for _, c := range []byte(a) {
			if !(c >= 'a' && c <= 'z' || c >= 'A' && c <= 'Z' || c >= '0' && c <= '9' || c == '-') {
				bare = false
			}
		}
		if bare {
			sb.WriteString(a)
		} else {
			sb.WriteString(strconv.Quote(a))
		}
	}
	return sb.String()
}
