//go:build verif

// C29 — Redis gateway commands follow Redis semantics.
//
// seqmc over command sequences from ONE client, sent as RESP bytes over a net.Pipe to the
// real redisServer.handleConn on the embedded backend over a real DB (opened with the
// option recipe of main()). After every command the reply bytes and the stored data
// (value + expiry of every key, read straight from the DB) are compared with a reference
// Redis model written from the Redis command documentation.
//
// Two explorations per tier:
//   - "wide":  large alphabet (every SET option combination, all listed commands, bad
//     arity / bad integers), explicit-state breadth-first search: a command that leaves
//     model AND stored state unchanged is a self-loop, states are deduplicated on
//     (model, stored state); each level's states are split over the worker processes,
//     which exchange the newly found states through files (barrier per level).
//   - "seq":   smaller core alphabet, NO cut and NO deduplication: literally every command
//     sequence up to the depth bound (cross-checks the state abstraction of "wide").
//
// The clock is owned: EXAT/PXAT use absolute times far in the past / future, EX/PX only
// values >= 10^6 s (their stored deadline is checked against [t0+N, t1+N] with t0/t1 read
// around the command — a containment check, not a timing oracle).
package main

import (
	"bufio"
	"encoding/json"
	"errors"
	"fmt"
	"io"
	"log"
	"math"
	"net"
	"os"
	"sort"
	"strconv"
	"strings"
	"sync/atomic"
	"testing"
	"time"

	NoKV "github.com/feichai0017/NoKV"
	"github.com/feichai0017/NoKV/kv"
	"github.com/feichai0017/NoKV/utils"

	"verif/lib/seqmc"
	"verif/lib/vr"
)

// ---------------------------------------------------------------------------------------
// Reference model (from the Redis command reference: GET SET DEL MGET MSET EXISTS INCR DECR
// INCRBY DECRBY PING ECHO QUIT)
// ---------------------------------------------------------------------------------------

type c29Val struct {
	v   string
	tag string // "" no expiry | "abs" absolute | "ex:N" / "px:N" relative (deadline pinned on first observation)
	exp uint64 // absolute deadline in unix seconds (0 = none / not yet pinned)
}

type c29Model struct {
	keys map[string]*c29Val
}

// c29Want is the model's expected reply.
type c29Want struct {
	raw    string   // exact bytes for non-error replies
	err    string   // error class: arity | syntax | notint | overflow | expire
	strict bool     // the error class itself is part of the property ("non-integer and overflow errors")
	closes bool     // QUIT: connection is closed after the reply
	elems  []string // MGET: the raw bytes of each element (for element-wise signatures)
}

func c29Bulk(s string) string { return "$" + strconv.Itoa(len(s)) + "\r\n" + s + "\r\n" }
func c29Int(n int64) string   { return ":" + strconv.FormatInt(n, 10) + "\r\n" }

const (
	c29Nil = "$-1\r\n"
	c29OK  = "+OK\r\n"
)

// c29ParseLL is redis' string2ll: optional '-', no '+', no leading zeros, no blanks, in range.
func c29ParseLL(s string) (int64, bool) {
	if s == "" {
		return 0, false
	}
	if s == "0" {
		return 0, true
	}
	i := 0
	if s[0] == '-' {
		i = 1
	}
	if i >= len(s) || s[i] < '1' || s[i] > '9' {
		return 0, false
	}
	for _, c := range []byte(s[i:]) {
		if c < '0' || c > '9' {
			return 0, false
		}
	}
	n, err := strconv.ParseInt(s, 10, 64)
	if err != nil {
		return 0, false
	}
	return n, true
}

const (
	c29Past    = 1          // EXAT 1: 1970, long expired
	c29Future  = 4102444800 // 2100-01-01
	c29Future2 = 4102444801
)

func (m *c29Model) get(k string) *c29Val { return m.keys[k] }

func (m *c29Model) exec(args []string) c29Want {
	cmd := strings.ToUpper(args[0])
	arity := c29Want{err: "arity"}
	switch cmd {
	case "PING": // PING [message]
		switch len(args) {
		case 1:
			return c29Want{raw: "+PONG\r\n"}
		case 2:
			return c29Want{raw: c29Bulk(args[1])}
		}
		return arity
	case "ECHO":
		if len(args) != 2 {
			return arity
		}
		return c29Want{raw: c29Bulk(args[1])}
	case "QUIT":
		return c29Want{raw: c29OK, closes: true}
	case "GET":
		if len(args) != 2 {
			return arity
		}
		if v := m.get(args[1]); v != nil {
			return c29Want{raw: c29Bulk(v.v)}
		}
		return c29Want{raw: c29Nil}
	case "SET":
		return m.set(args)
	case "DEL":
		if len(args) < 2 {
			return arity
		}
		n := int64(0)
		for _, k := range args[1:] {
			if m.get(k) != nil {
				delete(m.keys, k)
				n++
			}
		}
		return c29Want{raw: c29Int(n)}
	case "EXISTS":
		if len(args) < 2 {
			return arity
		}
		n := int64(0)
		for _, k := range args[1:] { // a key named twice is counted twice
			if m.get(k) != nil {
				n++
			}
		}
		return c29Want{raw: c29Int(n)}
	case "MGET":
		if len(args) < 2 {
			return arity
		}
		raw := "*" + strconv.Itoa(len(args)-1) + "\r\n"
		var elems []string
		for _, k := range args[1:] {
			el := c29Nil
			if v := m.get(k); v != nil {
				el = c29Bulk(v.v)
			}
			raw += el
			elems = append(elems, el)
		}
		return c29Want{raw: raw, elems: elems}
	case "MSET":
		if len(args) < 3 || len(args)%2 != 1 {
			return arity
		}
		for i := 1; i < len(args); i += 2 { // later pairs win; any TTL is discarded
			m.keys[args[i]] = &c29Val{v: args[i+1]}
		}
		return c29Want{raw: c29OK}
	case "INCR", "DECR":
		if len(args) != 2 {
			return arity
		}
		d := int64(1)
		if cmd == "DECR" {
			d = -1
		}
		return m.incr(args[1], d)
	case "INCRBY", "DECRBY":
		if len(args) != 3 {
			return arity
		}
		d, ok := c29ParseLL(args[2])
		if !ok {
			return c29Want{err: "notint", strict: true}
		}
		if cmd == "DECRBY" {
			if d == math.MinInt64 { // -d is not representable: "decrement would overflow"
				return c29Want{err: "overflow", strict: true}
			}
			d = -d
		}
		return m.incr(args[1], d)
	}
	return c29Want{err: "unknown"}
}

func (m *c29Model) incr(k string, d int64) c29Want {
	cur := int64(0)
	v := m.get(k)
	if v != nil {
		n, ok := c29ParseLL(v.v)
		if !ok {
			return c29Want{err: "notint", strict: true}
		}
		cur = n
	}
	if (d > 0 && cur > math.MaxInt64-d) || (d < 0 && cur < math.MinInt64-d) {
		return c29Want{err: "overflow", strict: true}
	}
	cur += d
	if v == nil {
		m.keys[k] = &c29Val{v: strconv.FormatInt(cur, 10)}
	} else {
		v.v = strconv.FormatInt(cur, 10) // TTL is kept
	}
	return c29Want{raw: c29Int(cur)}
}

func (m *c29Model) set(args []string) c29Want {
	if len(args) < 3 {
		return c29Want{err: "arity"}
	}
	key, val := args[1], args[2]
	nx, xx := false, false
	expOpt, expArg := "", ""
	for i := 3; i < len(args); i++ {
		opt := strings.ToUpper(args[i])
		switch {
		case opt == "NX" && !xx:
			nx = true
		case opt == "XX" && !nx:
			xx = true
		case (opt == "EX" || opt == "PX" || opt == "EXAT" || opt == "PXAT") && i+1 < len(args) && expOpt == "":
			expOpt, expArg = opt, args[i+1]
			i++
		default:
			return c29Want{err: "syntax"}
		}
	}
	var n int64
	if expOpt != "" {
		var ok bool
		if n, ok = c29ParseLL(expArg); !ok {
			return c29Want{err: "notint"}
		}
		if n <= 0 {
			return c29Want{err: "expire"}
		}
	}
	found := m.get(key) != nil
	if (nx && found) || (xx && !found) {
		return c29Want{raw: c29Nil}
	}
	nv := &c29Val{v: val}
	switch expOpt {
	case "EX":
		nv.tag = "ex:" + expArg
	case "PX":
		nv.tag = "px:" + expArg
	case "EXAT":
		nv.tag, nv.exp = "abs", uint64(n)
	case "PXAT":
		nv.tag, nv.exp = "abs", uint64(n/1000)
	}
	if nv.tag == "abs" && nv.exp <= c29Past+1 {
		delete(m.keys, key) // deadline already passed: the key behaves as absent
	} else {
		m.keys[key] = nv
	}
	return c29Want{raw: c29OK}
}

func (m *c29Model) clone() *c29Model {
	c := &c29Model{keys: map[string]*c29Val{}}
	for k, v := range m.keys {
		vv := *v
		c.keys[k] = &vv
	}
	return c
}

func (m *c29Model) canon() string {
	ks := make([]string, 0, len(m.keys))
	for k := range m.keys {
		ks = append(ks, k)
	}
	sort.Strings(ks)
	var sb strings.Builder
	for _, k := range ks {
		v := m.keys[k]
		sb.WriteString(k + "=" + strconv.Quote(v.v))
		switch {
		case v.tag == "abs":
			sb.WriteString("@" + strconv.FormatUint(v.exp, 10))
		case v.tag != "":
			sb.WriteString("@" + v.tag)
		}
		sb.WriteByte(' ')
	}
	return sb.String()
}

// sigState renders, for violation signatures, the state of exactly the keys a command
// names (value; "@ttl" when a deadline is attached).
func (m *c29Model) sigState(args []string) string {
	var sb strings.Builder
	for _, k := range c29Keys {
		named := false
		for _, a := range args[1:] {
			named = named || a == k
		}
		if !named {
			continue
		}
		if sb.Len() > 0 {
			sb.WriteByte(',')
		}
		v := m.keys[k]
		switch {
		case v == nil:
			sb.WriteString(k + ":absent")
		case v.tag != "":
			sb.WriteString(k + ":" + strconv.Quote(v.v) + "@ttl")
		default:
			sb.WriteString(k + ":" + strconv.Quote(v.v))
		}
	}
	if sb.Len() == 0 {
		return "-"
	}
	return sb.String()
}

func (m *c29Model) show(keys []string) string {
	var sb strings.Builder
	for i, k := range keys {
		if i > 0 {
			sb.WriteByte(',')
		}
		v := m.keys[k]
		if v == nil {
			sb.WriteString(k + ":absent")
			continue
		}
		sb.WriteString(k + ":" + strconv.Quote(v.v))
		if v.tag == "abs" {
			sb.WriteString("@" + strconv.FormatUint(v.exp, 10))
		} else if v.tag != "" {
			sb.WriteString("@" + v.tag)
		}
	}
	return sb.String()
}

// ---------------------------------------------------------------------------------------
// Alphabets
// ---------------------------------------------------------------------------------------

var c29Values = []string{"", "0", "1", "-1", "9223372036854775807", "-9223372036854775808", "abc", " 1"}
var c29Keys = []string{"k1", "k2"}

const (
	c29Max = "9223372036854775807"
	c29Min = "-9223372036854775808"
)

type c29Alphabet struct {
	names []string
	args  map[string][]string
}

func (a *c29Alphabet) add(args ...string) {
	n := vrespShow(args)
	if _, dup := a.args[n]; dup {
		return
	}
	a.names = append(a.names, n)
	a.args[n] = append([]string{}, args...)
}

func c29ExpOpts() [][]string {
	return [][]string{nil, {"EXAT", strconv.Itoa(c29Future)}, {"EXAT", strconv.Itoa(c29Past)}, {"PXAT", strconv.Itoa(c29Future2) + "000"},
		{"PXAT", strconv.Itoa(c29Past) + "000"}, {"EX", "1000000"}, {"PX", "1000000000"}}
}

// c29Core: alphabet of the literal (no cut, no dedup) sequence enumeration, simplest first.
func c29Core(thorough bool) *c29Alphabet {
	a := &c29Alphabet{args: map[string][]string{}}
	a.add("GET", "k1")
	a.add("SET", "k1", "1")
	a.add("DEL", "k1")
	a.add("INCR", "k1")
	a.add("SET", "k1", "abc")
	a.add("SET", "k1", "")
	a.add("SET", "k1", c29Max)
	a.add("SET", "k1", c29Min)
	a.add("SET", "k1", "0", "NX")
	a.add("SET", "k1", "-1", "XX")
	a.add("SET", "k1", "1", "EXAT", strconv.Itoa(c29Future))
	a.add("SET", "k1", "0", "EXAT", strconv.Itoa(c29Past))
	a.add("SET", "k1", "1", "XX", "PXAT", strconv.Itoa(c29Future2)+"000")
	a.add("SET", "k1", " 1", "EX", "1000000")
	a.add("DECR", "k1")
	a.add("INCRBY", "k1", c29Max)
	a.add("INCRBY", "k1", c29Min)
	a.add("DECRBY", "k1", "1")
	a.add("DECRBY", "k1", c29Max)
	a.add("INCRBY", "k1", "abc")
	a.add("EXISTS", "k1", "k2")
	a.add("MGET", "k1", "k2")
	a.add("MSET", "k1", "1", "k2", "abc")
	a.add("DEL", "k1", "k2")
	a.add("INCR", "k2")
	a.add("GET", "k2")
	a.add("PING")
	a.add("GET")
	if thorough {
		a.add("SET", "k2", "1", "NX")
		a.add("SET", "k1", "0")
		a.add("SET", "k1", "-1")
		a.add("SET", "k1", "1", "PX", "1000000000")
		a.add("DECRBY", "k1", "-1")
		a.add("ECHO", "abc")
		a.add("EXISTS", "k1", "k1")
		a.add("DEL", "k1", "k1")
		a.add("QUIT")
	}
	return a
}

// c29Wide: every listed command with every option combination, bad arity, bad integers.
// full=false (quick tier) keeps the complete option matrix on k1 and a reduced one on k2.
func c29Wide(full bool) *c29Alphabet {
	a := &c29Alphabet{args: map[string][]string{}}
	for _, k := range c29Keys {
		a.add("GET", k)
	}
	// SET key value [NX|XX] [EX|PX|EXAT|PXAT n]
	for _, k := range c29Keys {
		for _, v := range c29Values {
			for _, cond := range []string{"", "NX", "XX"} {
				for ei, e := range c29ExpOpts() {
					if !full && k == "k2" && (ei > 1 || (v != "1" && v != "abc")) {
						continue
					}
					args := []string{"SET", k, v}
					if cond != "" {
						args = append(args, cond)
					}
					args = append(args, e...)
					a.add(args...)
				}
			}
		}
	}
	// option order, case, repetition of NX/XX
	a.add("SET", "k1", "1", "EX", "1000000", "NX")
	a.add("SET", "k1", "1", "EXAT", strconv.Itoa(c29Future), "XX")
	a.add("set", "k1", "1", "nx")
	a.add("SET", "k1", "1", "xx", "exat", strconv.Itoa(c29Future))
	a.add("SET", "k1", "1", "NX", "NX")
	// SET errors
	a.add("SET", "k1")
	a.add("SET")
	a.add("SET", "k1", "1", "NX", "XX")
	a.add("SET", "k1", "1", "XX", "NX")
	a.add("SET", "k1", "1", "EX")
	a.add("SET", "k1", "1", "NX", "PXAT")
	a.add("SET", "k1", "1", "FOO")
	a.add("SET", "k1", "1", "EX", "1000000", "PX", "1000000000")
	a.add("SET", "k1", "1", "EXAT", strconv.Itoa(c29Future), "EX", "1000000")
	for _, opt := range []string{"EX", "PX", "EXAT", "PXAT"} {
		for _, bad := range []string{"abc", "", "0", "-1", " 1", "9223372036854775808"} {
			a.add("SET", "k1", "1", opt, bad)
		}
	}
	a.add("SET", "k1", "1", "XX", "EX", "0")
	a.add("SET", "k1", "1", "NX", "EXAT", "abc")
	a.add("SET", "k1", "1", "PXAT", "999") // 0.999 s after the epoch: a valid (long past) deadline
	for _, ks := range [][]string{{"k1"}, {"k2"}, {"k1", "k2"}, {"k1", "k1"}, {"k2", "k1", "k2"}, {}} {
		a.add(append([]string{"DEL"}, ks...)...)
		a.add(append([]string{"EXISTS"}, ks...)...)
		a.add(append([]string{"MGET"}, ks...)...)
	}
	for _, k := range c29Keys {
		for _, v := range c29Values {
			if full || k == "k1" {
				a.add("MSET", k, v)
			}
		}
	}
	a.add("MSET", "k1", "1", "k2", "abc")
	a.add("MSET", "k2", "", "k1", "0")
	a.add("MSET", "k1", c29Max, "k2", c29Min)
	a.add("MSET", "k1", "abc", "k1", "1") // the last assignment wins
	a.add("MSET")
	a.add("MSET", "k1")
	a.add("MSET", "k1", "1", "k2")
	for _, k := range c29Keys {
		a.add("INCR", k)
		a.add("DECR", k)
	}
	a.add("INCR")
	a.add("INCR", "k1", "k2")
	a.add("DECR")
	a.add("DECR", "k1", "1")
	deltas := []string{"1", "-1", "0", "2", c29Max, c29Min, "9223372036854775806", "-9223372036854775807"}
	bad := []string{"abc", "", " 1", "9223372036854775808", "-9223372036854775809", "1.0"}
	for _, c := range []string{"INCRBY", "DECRBY"} {
		for _, d := range deltas {
			a.add(c, "k1", d)
		}
		for _, d := range bad {
			a.add(c, "k1", d)
		}
		a.add(c, "k2", "1")
		a.add(c, "k2", c29Min)
		a.add(c, "k2", "abc")
		a.add(c)
		a.add(c, "k1")
		a.add(c, "k1", "1", "2")
	}
	a.add("PING")
	a.add("PING", "abc")
	a.add("PING", "")
	a.add("PING", "a", "b")
	a.add("ECHO", "abc")
	a.add("ECHO", "")
	a.add("ECHO")
	a.add("ECHO", "a", "b")
	a.add("get", "k1")
	a.add("incr", "k1")
	a.add("Del", "k1")
	a.add("ping")
	a.add("QUIT")
	return a
}

// ---------------------------------------------------------------------------------------
// Environment: one long-lived DB + gateway per worker process, per-instance key namespaces
// ---------------------------------------------------------------------------------------

type c29Env struct {
	base      string
	db        *NoKV.DB
	srv       *redisServer
	dbSeq     int
	instances int
	nsSeq     int
	partial   *vr.Partial
	progress  atomic.Int64
	watching  bool
}

const c29ReopenEvery = 40000

// watchdog turns a hang into a harness error. It counts one-second ticks without any
// command completing instead of using one long deadline: a suspended sandbox makes clocks
// jump, which costs at most one tick here but would fire every pending deadline at once.
func (e *c29Env) watchdog() {
	last, idle := e.progress.Load(), 0
	for range time.Tick(time.Second) {
		if cur := e.progress.Load(); cur != last {
			last, idle = cur, 0
			continue
		}
		if idle++; idle >= 900 {
			vr.Fatalf("c29: no command completed for %d ticks (gateway hung?)", idle)
		}
	}
}

func (e *c29Env) open() {
	if !e.watching {
		e.watching = true
		go e.watchdog()
	}
	e.dbSeq++
	dir := fmt.Sprintf("%s/db%d", e.base, e.dbSeq)
	if err := os.MkdirAll(dir, 0o755); err != nil {
		vr.Fatalf("c29 mkdir: %v", err)
	}
	// the option recipe of main()
	opt := newDefaultOptions()
	opt.WorkDir = dir
	if opt.MaxBatchCount <= 0 {
		opt.MaxBatchCount = int64(opt.WriteBatchMaxCount)
		if opt.MaxBatchCount <= 0 {
			opt.MaxBatchCount = 1024
		}
	}
	if opt.MaxBatchSize <= 0 {
		opt.MaxBatchSize = opt.WriteBatchMaxSize
		if opt.MaxBatchSize <= 0 {
			opt.MaxBatchSize = 16 << 20
		}
	}
	opt.DetectConflicts = true // as main() does since 18584ec
	// the 200us commit-coalescing sleep only delays a lone writer; it has no effect on results
	opt.WriteBatchWait = 0
	e.db = NoKV.Open(opt)
	e.srv = newServer(newEmbeddedBackend(e.db))
}

func (e *c29Env) close() {
	if e.db != nil {
		_ = e.db.Close()
		_ = os.RemoveAll(fmt.Sprintf("%s/db%d", e.base, e.dbSeq))
		e.db = nil
	}
}

// fresh is called when no instance is alive (seqmc keeps at most one).
func (e *c29Env) fresh() {
	if e.db == nil {
		e.open()
	} else if e.instances >= c29ReopenEvery {
		e.close()
		e.open()
		e.instances = 0
	}
	e.instances++
}

// raw reads the newest stored version of key, bypassing deletion/expiry filtering.
func (e *c29Env) raw(key string) (val string, expiresAt uint64, state byte) {
	ent, err := e.db.GetVersionedEntry(kv.CFDefault, []byte(key), math.MaxUint64)
	if err != nil {
		if errors.Is(err, utils.ErrKeyNotFound) {
			return "", 0, '-'
		}
		vr.Fatalf("c29 raw read %q: %v", key, err)
	}
	if ent.Meta&kv.BitDelete != 0 {
		return "", 0, 'D'
	}
	return string(ent.Value), ent.ExpiresAt, 'V'
}

// ---------------------------------------------------------------------------------------
// seqmc instance
// ---------------------------------------------------------------------------------------

type c29Inst struct {
	env   *c29Env
	alpha *c29Alphabet
	exact bool // literal sequence mode: no cut, no dedup
	ns    string
	cli   net.Conn
	rd    *bufio.Reader
	done  chan struct{}
	model *c29Model
	quit  bool
	sig   string
	desc  string
	rawK  string
	steps int

	panicked string // set by the serving goroutine before it closes the pipe
}

func c29New(env *c29Env, alpha *c29Alphabet, exact bool) *c29Inst {
	env.fresh()
	env.nsSeq++
	in := &c29Inst{env: env, alpha: alpha, exact: exact, ns: fmt.Sprintf("{%d.%d}", env.dbSeq, env.nsSeq),
		model: &c29Model{keys: map[string]*c29Val{}}, done: make(chan struct{})}
	cli, srvEnd := net.Pipe()
	in.cli = cli
	in.rd = bufio.NewReader(cli)
	go func() {
		defer close(in.done)
		defer func() {
			// a panic while serving a command would take the whole gateway down; keep the
			// worker alive and report it as that command's (missing) reply
			if p := recover(); p != nil {
				in.panicked = fmt.Sprint(p)
				_ = srvEnd.Close()
			}
		}()
		env.srv.handleConn(vrespServerConn{srvEnd})
	}()
	in.rawK = in.rawKey()
	return in
}

func (in *c29Inst) Enabled() []string {
	if in.quit {
		return nil
	}
	return in.alpha.names
}

func (in *c29Inst) wire(args []string) []string {
	out := make([]string, len(args))
	for i, a := range args {
		if a == "k1" || a == "k2" {
			out[i] = in.ns + a
		} else {
			out[i] = a
		}
	}
	return out
}

func c29ErrClass(msg string) string {
	switch {
	case !strings.HasPrefix(msg, "ERR "):
		return "other"
	case strings.Contains(msg, "wrong number of arguments"):
		return "arity"
	case strings.Contains(msg, "syntax error"):
		return "syntax"
	case strings.Contains(msg, "not an integer"):
		return "notint"
	case strings.Contains(msg, "overflow"):
		return "overflow"
	case strings.Contains(msg, "invalid expire"):
		return "expire"
	case strings.Contains(msg, "unknown command"):
		return "unknown"
	}
	return "other"
}

func c29ShowReply(r vrespReply, err error) string {
	if r.Kind == 'P' {
		return "<panic>"
	}
	if err != nil {
		return "<no reply>"
	}
	if r.Kind == '-' {
		return "error(" + c29ErrClass(r.Str) + ")"
	}
	return strconv.Quote(r.Raw)
}

func c29ShowWant(w c29Want) string {
	if w.err != "" {
		return "error(" + w.err + ")"
	}
	return strconv.Quote(w.raw)
}

// rawKey is the canonical stored state of both keys.
func (in *c29Inst) rawKey() string {
	var sb strings.Builder
	for _, k := range c29Keys {
		v, exp, st := in.env.raw(in.ns + k)
		sb.WriteByte(st)
		if st == 'V' {
			sb.WriteString(strconv.Quote(v))
			if exp != 0 {
				if mv := in.model.keys[k]; mv != nil && mv.tag != "" && mv.tag != "abs" && mv.exp == exp {
					sb.WriteString("@" + mv.tag) // relative deadline: canonical by its option, not by the clock
				} else {
					sb.WriteString("@" + strconv.FormatUint(exp, 10))
				}
			}
		}
		sb.WriteByte(' ')
	}
	return sb.String()
}

func (in *c29Inst) fail(sig, desc string) {
	if in.sig == "" {
		in.sig, in.desc = sig, desc
	}
}

func (in *c29Inst) Apply(op string) (bool, error) {
	args, ok := in.alpha.args[op]
	if !ok {
		return false, fmt.Errorf("unknown op %q", op)
	}
	if in.quit {
		return false, fmt.Errorf("command after QUIT")
	}
	in.steps++
	in.env.progress.Add(1)
	in.env.partial.Add("commands", 1)
	pre := in.model.show(c29Keys)
	preSig := in.model.sigState(args)
	preCanon := in.model.canon()
	preModel := in.model.clone()
	want := in.model.exec(args)

	t0 := time.Now().Unix()
	if _, err := in.cli.Write(vrespEncode(in.wire(args))); err != nil {
		return false, fmt.Errorf("write %s: %v", op, err)
	}
	got, rerr := vrespRead(in.rd)
	t1 := time.Now().Unix()
	if ne, ok := rerr.(net.Error); ok && ne.Timeout() {
		return false, fmt.Errorf("no reply to %s within the harness guard", op)
	}

	// ---- reply
	bad := ""
	switch {
	case rerr != nil:
		bad = "no well-formed reply"
		if errors.Is(rerr, io.EOF) || errors.Is(rerr, io.ErrClosedPipe) || errors.Is(rerr, io.ErrUnexpectedEOF) {
			<-in.done // the connection is gone, so the serving goroutine has finished: panicked is settled
			in.quit = true
			if in.panicked != "" {
				bad = "gateway panicked (" + in.panicked + ")"
				got = vrespReply{Kind: 'P'}
			}
		}
	case want.err != "":
		if got.Kind != '-' {
			bad = "reply is not an error"
		} else if cls := c29ErrClass(got.Str); cls == "other" || (want.strict && cls != want.err) {
			bad = "wrong error"
		}
	case got.Raw != want.raw:
		bad = "wrong reply"
	}
	if bad != "" && rerr == nil && got.Kind == '*' && len(want.elems) > 0 && len(got.Arr) == len(want.elems) {
		// array reply of the right shape: name the first wrong element and the key it belongs to
		for i, el := range got.Arr {
			if el.Raw != want.elems[i] {
				in.fail(fmt.Sprintf("reply cmd=%s elem=%d pre=%s got=%q want=%q", op, i, preModel.sigState([]string{"", args[1+i]}), el.Raw, want.elems[i]),
					fmt.Sprintf("%s: %s replied %q, Redis replies %q; model state before: %s", bad, op, got.Raw, want.raw, pre))
				break
			}
		}
	}
	if bad != "" {
		in.fail(fmt.Sprintf("reply cmd=%s pre=%s got=%s want=%s", op, preSig, c29ShowReply(got, rerr), c29ShowWant(want)),
			fmt.Sprintf("%s: %s replied %s (raw %q), Redis replies %s; model state before: %s", bad, op, c29ShowReply(got, rerr), got.Raw, c29ShowWant(want), pre))
	}
	if want.closes && bad == "" {
		in.quit = true
		if _, err := in.rd.ReadByte(); err == nil {
			in.fail("quit-not-closed", "QUIT replied +OK but the connection stays open")
		} else if ne, ok := err.(net.Error); ok && ne.Timeout() {
			return false, fmt.Errorf("QUIT: connection neither closed nor readable within the harness guard")
		} else if !errors.Is(err, io.EOF) && !errors.Is(err, io.ErrClosedPipe) {
			in.fail("quit-not-closed", fmt.Sprintf("after QUIT the connection returned %v", err))
		}
	}

	// ---- stored data
	now := uint64(time.Now().Unix())
	for _, k := range c29Keys {
		v, exp, st := in.env.raw(in.ns + k)
		mv := in.model.keys[k]
		gotS := "absent"
		live := st == 'V' && (exp == 0 || exp > now)
		if st == 'V' {
			gotS = strconv.Quote(v)
			if exp != 0 {
				gotS += "@" + strconv.FormatUint(exp, 10)
			}
		}
		wantS, okData := "absent", true
		if mv == nil {
			okData = !live
		} else {
			wantS = strconv.Quote(mv.v)
			switch {
			case mv.tag == "":
				okData = live && v == mv.v && exp == 0
			case mv.tag == "abs":
				wantS += "@" + strconv.FormatUint(mv.exp, 10)
				okData = live && v == mv.v && exp == mv.exp
			case mv.exp != 0: // relative deadline pinned when it was set: must be kept exactly
				wantS += "@kept-" + mv.tag
				okData = live && v == mv.v && exp == mv.exp
			default: // relative deadline set by this very command: now+N for some now in [t0,t1]
				n, _ := strconv.ParseInt(mv.tag[3:], 10, 64)
				lo, hi := uint64(t0)+uint64(n), uint64(t1)+uint64(n)
				if strings.HasPrefix(mv.tag, "px:") {
					lo, hi = uint64(t0)+uint64(n/1000), uint64(t1)+uint64((n+999)/1000)+1
				}
				wantS += fmt.Sprintf("@now+%s", mv.tag)
				okData = live && v == mv.v && exp >= lo && exp <= hi
				if okData {
					mv.exp = exp
				}
			}
		}
		if !okData && bad == "" {
			if mv != nil && mv.tag != "" && mv.tag != "abs" && st == 'V' && v == mv.v {
				gotS = strconv.Quote(v) + "@wrong-deadline" // keep the signature clock-free
			}
			in.fail(fmt.Sprintf("data cmd=%s pre=%s key=%s stored=%s want=%s", op, preSig, k, gotS, wantS),
				fmt.Sprintf("after %s (model state before: %s) the DB holds %s=%s (exp %d), Redis would hold %s", op, pre, k, gotS, exp, wantS))
		}
	}
	in.env.partial.Mark("mstates", in.model.canon())
	in.env.partial.Mark("outcomes", op+"\x00"+got.Raw)
	rk := in.rawKey()
	changed := rk != in.rawK || in.model.canon() != preCanon || in.quit
	in.rawK = rk
	if in.exact || in.sig != "" {
		return true, nil
	}
	return changed, nil
}

func (in *c29Inst) Check() (string, string) { return in.sig, in.desc }

func (in *c29Inst) Key() string {
	if in.exact {
		return ""
	}
	q := ""
	if in.quit {
		q = "QUIT "
	}
	return q + in.model.canon() + "|" + in.rawK
}

func (in *c29Inst) Close() {
	_ = in.cli.Close()
	<-in.done
}

// c29Rerun replays path on a fresh namespace and returns the first violation signature.
func c29Rerun(env *c29Env, alpha *c29Alphabet, path []string) string {
	in := c29New(env, alpha, true)
	defer in.Close()
	for _, op := range path {
		if _, err := in.Apply(op); err != nil {
			vr.Fatalf("c29 re-run of %v: %v", path, err)
		}
		if in.sig != "" {
			return in.sig
		}
	}
	return ""
}

// ---------------------------------------------------------------------------------------
// Breadth-first explicit-state search, levels split over the worker processes
// ---------------------------------------------------------------------------------------

type c29Node struct {
	Key  string
	Path []string
}

type c29Level struct {
	Nodes    []c29Node
	TimedOut bool
}

func c29PathLess(a, b []string) bool {
	if len(a) != len(b) {
		return len(a) < len(b)
	}
	return strings.Join(a, "\x00") < strings.Join(b, "\x00")
}

func c29BFS(r *vr.Run, env *c29Env, c c29Cfg, sh vr.ShardInfo, dir string, p *vr.Partial) {
	build := func(path []string) *c29Inst {
		in := c29New(env, c.Alpha, false)
		p.Add("executions", 1)
		for _, op := range path {
			if _, err := in.Apply(op); err != nil {
				vr.Fatalf("c29 replay of %v: %v", path, err)
			}
			p.Add("replayed_steps", 1)
			if in.sig != "" {
				vr.Fatalf("c29: prefix %v verified earlier now fails with %q (nondeterminism)", path, in.sig)
			}
		}
		return in
	}
	root := build(nil)
	frontier := []c29Node{{Key: root.Key()}}
	root.Close()
	seen := map[string]bool{frontier[0].Key: true}
	p.Mark("states", frontier[0].Key)
	for d := 0; d < c.Depth; d++ {
		lvl := c29Level{}
		local := map[string][]string{}
		for i, n := range frontier {
			if !sh.Owns(i) {
				continue
			}
			if r.Expired() {
				lvl.TimedOut = true
				break
			}
			var in *c29Inst
			for _, op := range c.Alpha.names {
				if in == nil {
					in = build(n.Path)
				}
				changed, err := in.Apply(op)
				if err != nil {
					vr.Fatalf("c29 apply %q after %v: %v", op, n.Path, err)
				}
				child := append(append([]string{}, n.Path...), op)
				if in.sig != "" {
					pj, _ := json.Marshal(child)
					p.Viol(in.sig, in.desc+"\n  path: "+strings.Join(child, " ; "), string(pj))
					in.Close()
					in = nil
					continue
				}
				if !changed {
					p.Add("cut_noop", 1)
					continue
				}
				p.Add("transitions", 1)
				k := in.Key()
				p.Mark("states", k)
				if !in.quit {
					if old, ok := local[k]; !ok || c29PathLess(child, old) {
						local[k] = child
					}
				}
				if len(child) == c.Depth {
					p.Sample(strings.Join(child, " ; "))
				}
				in.Close()
				in = nil
			}
			if in != nil {
				in.Close()
			}
			p.Add("expanded_states", 1)
		}
		p.Max("max_depth", int64(d+1))
		if d+1 == c.Depth {
			p.TimedOut = p.TimedOut || lvl.TimedOut
			return // successors of the last level were verified; nothing left to expand
		}
		// publish this worker's discoveries, wait for everybody's, merge deterministically
		for k, path := range local {
			lvl.Nodes = append(lvl.Nodes, c29Node{k, path})
		}
		blob, _ := json.Marshal(lvl)
		name := fmt.Sprintf("%s/%s-L%d-w%d.json", dir, c.Name, d, sh.Index)
		if err := os.WriteFile(name+".tmp", blob, 0o644); err != nil {
			vr.Fatalf("c29 bfs: %v", err)
		}
		if err := os.Rename(name+".tmp", name); err != nil {
			vr.Fatalf("c29 bfs: %v", err)
		}
		merged := map[string][]string{}
		anyTimeout := false
		n := sh.Count
		if n < 1 {
			n = 1
		}
		for w := 0; w < n; w++ {
			fn := fmt.Sprintf("%s/%s-L%d-w%d.json", dir, c.Name, d, w)
			var data []byte
			for {
				var err error
				if data, err = os.ReadFile(fn); err == nil {
					break
				}
				if r.Expired() {
					p.TimedOut = true
					return
				}
				time.Sleep(5 * time.Millisecond)
			}
			var other c29Level
			if err := json.Unmarshal(data, &other); err != nil {
				vr.Fatalf("c29 bfs level file %s: %v", fn, err)
			}
			anyTimeout = anyTimeout || other.TimedOut
			for _, nd := range other.Nodes {
				if seen[nd.Key] {
					continue
				}
				if old, ok := merged[nd.Key]; !ok || c29PathLess(nd.Path, old) {
					merged[nd.Key] = nd.Path
				}
			}
		}
		if anyTimeout {
			p.TimedOut = true
			return
		}
		frontier = frontier[:0]
		for k, path := range merged {
			seen[k] = true
			frontier = append(frontier, c29Node{k, path})
		}
		sort.Slice(frontier, func(i, j int) bool { return frontier[i].Key < frontier[j].Key })
		if sh.Index == 0 {
			p.Add(fmt.Sprintf("level%d_states", d+1), int64(len(frontier)))
		}
	}
}

// ---------------------------------------------------------------------------------------

type c29Cfg struct {
	Name  string
	Alpha *c29Alphabet
	Exact bool
	Depth int
}

func c29Cfgs(r *vr.Run) []c29Cfg {
	if r.Quick() {
		return []c29Cfg{{"wide", c29Wide(false), false, 3}, {"seq", c29Core(false), true, 3}}
	}
	return []c29Cfg{{"wide", c29Wide(true), false, 4}, {"seq", c29Core(true), true, 4}}
}

func TestVerifC29(t *testing.T) {
	log.SetOutput(io.Discard)
	r := vr.Start("C29")
	cfgs := c29Cfgs(r)
	if r.ReplayPath != "" {
		var rp struct {
			Config string
			Path   []string
		}
		r.LoadReplay(&rp)
		env := &c29Env{base: r.Scratch(), partial: vr.NewPartial()}
		all := c29Wide(true)
		for _, n := range c29Core(true).names {
			all.add(c29Core(true).args[n]...)
		}
		in := c29New(env, all, true)
		for i, op := range rp.Path {
			if _, err := in.Apply(op); err != nil {
				vr.Fatalf("replay step %d %q: %v", i, op, err)
			}
			fmt.Printf("replay: %-50s model now %s\n", op, in.model.show(c29Keys))
			if sig, desc := in.Check(); sig != "" {
				fmt.Printf("replay: violation after step %d: %s\n", i, desc)
				r.Violation(sig, desc, map[string]any{"Config": rp.Config, "Path": rp.Path[:i+1]})
				break
			}
		}
		in.Close()
		env.close()
		r.Finish(vr.Coverage{Level: "model_checking", Evaluations: 1, Distinct: 2, States: 1, Transitions: int64(len(rp.Path)), Rule: "replay", Samples: []any{rp.Path}})
	}
	base := r.Scratch()
	// the level files must be visible to every worker process: the parent's directory is
	// handed down through the environment (each worker has its own private scratch)
	shared := os.Getenv("VERIF_C29_SHARED")
	if shared == "" {
		shared = base + "/bfs"
		if err := os.MkdirAll(shared, 0o755); err != nil {
			vr.Fatalf("c29: %v", err)
		}
		_ = os.Setenv("VERIF_C29_SHARED", shared)
	}
	total := r.RunSharded(vr.Workers(), func(sh vr.ShardInfo, p *vr.Partial) {
		env := &c29Env{base: fmt.Sprintf("%s/s%d", base, sh.Index)}
		for _, c := range cfgs {
			sub := vr.NewPartial()
			env.partial = sub
			if c.Exact {
				seqmc.Explore(seqmc.Config{New: func() seqmc.Instance { return c29New(env, c.Alpha, true) }, MaxDepth: c.Depth,
					Shard: sh, Expired: r.Expired}, sub)
			} else {
				c29BFS(r, env, c, sh, shared, sub)
			}
			// every failing path is re-run twice from scratch and must fail identically
			kept := sub.Violations[:0]
			for _, v := range sub.Violations {
				var path []string
				if err := json.Unmarshal([]byte(v.Replay), &path); err != nil {
					vr.Fatalf("c29 violation path: %v", err)
				}
				for round := 0; round < 2; round++ {
					if sig := c29Rerun(env, c.Alpha, path); sig != v.Sig {
						vr.Fatalf("c29: violation %q on path %v is not reproducible (re-run gave %q)", v.Sig, path, sig)
					}
				}
				v.Replay = fmt.Sprintf(`{"Config":%q,"Path":%s}`, c.Name, v.Replay)
				v.Desc = "config=" + c.Name + " " + v.Desc
				kept = append(kept, v)
			}
			sub.Violations = kept
			p.Merge(sub)
		}
		env.close()
	})
	if dump := os.Getenv("VERIF_C29_DUMP"); dump != "" { // debugging aid: every violation signature of the run
		var sb strings.Builder
		for _, v := range total.Violations {
			sb.WriteString(fmt.Sprintf("%d\t%s\n", v.Count, v.Sig))
		}
		_ = os.WriteFile(dump, []byte(sb.String()), 0o644)
	}
	c := total.Counters
	mstates := total.Card("mstates")
	outcomes := total.Card("outcomes")
	r.RequireOutcomes(outcomes, 20)
	var bounds []string
	for _, cf := range cfgs {
		mode := "explicit-state (self-loops cut, dedup on model+stored state)"
		if cf.Exact {
			mode = "every literal sequence (no cut, no dedup)"
		}
		bounds = append(bounds, fmt.Sprintf("%s: %d commands, sequences<=%d, %s", cf.Name, len(cf.Alpha.names), cf.Depth, mode))
	}
	r.Finish(vr.Coverage{
		Level:       "model_checking",
		Evaluations: c["executions"],
		Distinct:    mstates,
		Rule:        "DFS over single-client command sequences through the real handleConn (RESP over net.Pipe) on the embedded backend; after every command reply bytes and the stored value+deadline of k1,k2 are compared with a reference Redis model; a state is a distinct reference-model state (values and expiry class of k1,k2)",
		Samples:     total.SamplesAny(),
		States:      mstates,
		Transitions: c["transitions"] + c["cut_noop"],
		Validated:   c["executions"],
		Exhaustive:  !total.TimedOut,
		Outcomes:    outcomes,
		Bounds:      map[string]any{"configs": bounds, "keys": c29Keys, "values": c29Values},
		Extra: map[string]any{"commands_sent_including_replays": c["commands"], "states_model_x_stored": total.Card("states"), "pruned_by_state_key": c["pruned"],
			"selfloop_cut": c["cut_noop"], "replayed_steps": c["replayed_steps"], "max_depth": c["max_depth"], "bfs_states_expanded": c["expanded_states"],
			"bfs_new_states_per_level": []int64{1, c["level1_states"], c["level2_states"], c["level3_states"]}},
		Assumptions: []string{"the DB is opened with the option recipe copied from main() (newDefaultOptions + batch limits); one long-lived DB per worker with a fresh key namespace per sequence, reopened on a fresh directory every 40000 sequences",
			"error replies are compared by class; the class itself is demanded only for the non-integer / overflow errors of INCR DECR INCRBY DECRBY (named by the property), otherwise any ERR-prefixed recognised error is accepted where Redis returns an error",
			"traces_validated_against_impl counts fresh-namespace replays of path prefixes (each re-executes the real code and the model side by side)"},
	})
}
