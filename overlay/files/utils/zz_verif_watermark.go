//go:build verif

package utils

// Verification accessors for WaterMark. This file is only used together with the
// instrumented copy of watermarker.go (sync/atomic replaced by the vatomic shim), hence
// the explicit shim import: the slot type must match.

import (
	"fmt"

	atomic "verif/shim/vatomic"
)

// VerifSetWindow installs a small slot window so that window rebuilds are reachable.
func (w *WaterMark) VerifSetWindow(base uint64, size int) {
	w.window.Store(&watermarkWindow{base: base, slots: make([]atomic.Int32, size)})
}

// VerifInit initialises the watermark like Init but with a small slot window (the
// default 65536-slot window costs a 256 KiB allocation per fresh instance).
func (w *WaterMark) VerifInit(size int) {
	w.waiters = make(map[uint64]chan struct{}, 8)
	w.window.Store(&watermarkWindow{base: 1, slots: make([]atomic.Int32, size)})
}

// VerifWindowString renders done-until, last index and the window position.
func (w *WaterMark) VerifWindowString() string {
	win := w.loadWindow()
	return fmt.Sprintf("{done=%d last=%d base=%d size=%d}", w.DoneUntil(), w.LastIndex(), win.base, len(win.slots))
}
