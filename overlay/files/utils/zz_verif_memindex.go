//go:build verif

package utils

import (
	"fmt"
	"unsafe"
)

// Harness-owned nondeterminism for the memtable indexes (C07). The instrumented copies of
// skiplist.go / arena.go (see checks.json "instr".subst) route the skiplist tower height and
// the assertion failures through these hooks; nothing here changes behaviour unless a
// harness sets the hooks.

// VerifHeight, when set and returning >0, decides the tower height of the node created for
// key (otherwise Skiplist.randomHeight draws it from runtime.fastrand).
var VerifHeight func(key []byte) int

func verifRandomHeight(s *Skiplist, key []byte) int {
	if f := VerifHeight; f != nil {
		if h := f(key); h > 0 {
			if h > maxHeight {
				h = maxHeight
			}
			return h
		}
	}
	return s.randomHeight()
}

// verifFatalf replaces log.Fatalf (process exit) in AssertTrue/AssertTruef by a panic so an
// assertion failure is attributable to the schedule that caused it.
func verifFatalf(format string, args ...any) {
	panic("assertion failed: " + fmt.Sprintf(format, args...))
}

// VerifSkiplistHeight exposes the current list height.
func VerifSkiplistHeight(s *Skiplist) int32 { return s.getHeight() }

// ---- arena chunk recycling (harness-side allocator for the first arena chunk) ----
//
// Every index instance owns a fresh, zeroed 1 MiB chunk; a bounded-exhaustive run creates
// millions of instances and the page-faulting memclr of make([]byte, 1<<20) dominated its
// cost. The instrumented copy of arena.go obtains the first chunk from verifChunk, which
// hands out chunks of dead instances again after re-zeroing the part that was used.
// Semantically this is make(): zeroed memory that nothing else references (the harness
// releases an index only after it has copied everything it observed).

// VerifRecycleChunks enables the pool (single-goroutine harnesses only).
var VerifRecycleChunks bool

var verifChunkPool [][]byte

func verifChunk(n int) []byte {
	if VerifRecycleChunks {
		for l := len(verifChunkPool); l > 0; l = len(verifChunkPool) {
			b := verifChunkPool[l-1]
			verifChunkPool = verifChunkPool[:l-1]
			if len(b) == n {
				return b
			}
		}
	}
	return make([]byte, n)
}

// VerifReleaseIndex returns the first arena chunk of a dead *Skiplist / *ART to the pool.
func VerifReleaseIndex(x any) {
	if !VerifRecycleChunks {
		return
	}
	var a *Arena
	switch v := x.(type) {
	case *Skiplist:
		a = v.arena
	case *ART:
		if v.tree != nil {
			a = v.tree.arena
		}
	}
	if a == nil || len(a.chunks) == 0 {
		return
	}
	const slack = 4096
	used := int(a.size())
	if used+2*slack > int(a.chunkSize) {
		return // (nearly) more than one chunk in use: leave it to the garbage collector
	}
	p := a.chunks[0].Load()
	if p == nil {
		return
	}
	b := unsafe.Slice(p, int(a.chunkSize))
	clear(b[:used+slack])
	for _, c := range b[used+slack : used+2*slack] {
		if c != 0 {
			return // something wrote beyond the allocated part: do not reuse this chunk
		}
	}
	verifChunkPool = append(verifChunkPool, b)
}
