//go:build verif

package NoKV

import (
	"fmt"

	"github.com/feichai0017/NoKV/utils"
)

// VerifSmallOracleWindows gives both oracle watermarks a slot window of the given size starting
// right above their current done-until mark, so that a handful of transactions cross the window
// end and force a rebuild (the default window has 65536 slots). Must be called while no
// transaction is in flight. Needs the instrumented utils/watermarker.go + zz_verif_watermark.go.
func (db *DB) VerifSmallOracleWindows(size int) {
	for _, w := range []*utils.WaterMark{db.orc.txnMark, db.orc.readMark} {
		w.VerifSetWindow(w.DoneUntil()+1, size)
	}
}

// VerifOracleState renders the oracle's timestamp state (for outcomes and debugging).
func (db *DB) VerifOracleState() string {
	return fmt.Sprintf("next=%d txnMark=%s readMark=%s", db.orc.nextTxnTs.Load(), db.orc.txnMark.VerifWindowString(), db.orc.readMark.VerifWindowString())
}
