//go:build verif

package store

// Verification accessors for the clustermc engine (C22/C23). Injected through -overlay by
// /verif/vcheck; never part of the repository build. Read-only views of existing state.

import "sort"

// VerifPendingProposals lists the request ids of proposals still waiting for their apply
// result (sorted) and the last request id handed out by this store.
func (s *Store) VerifPendingProposals() (ids []uint64, seq uint64) {
	cp := s.command
	if cp == nil {
		return nil, 0
	}
	cp.mu.Lock()
	defer cp.mu.Unlock()
	for id := range cp.proposals {
		ids = append(ids, id)
	}
	sort.Slice(ids, func(i, j int) bool { return ids[i] < ids[j] })
	return ids, cp.seq
}
