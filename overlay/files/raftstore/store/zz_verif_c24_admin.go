//go:build verif

package store

import "github.com/feichai0017/NoKV/pb"

// VerifApplyAdmin applies an admin command (split / merge) to the store exactly as
// the raft apply path does (peer.applyAdminCommand -> Store.handleAdminCommand).
func (s *Store) VerifApplyAdmin(cmd *pb.AdminCommand) error {
	return s.handleAdminCommand(cmd)
}
