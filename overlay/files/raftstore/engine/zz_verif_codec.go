//go:build verif

package engine

// Verification accessors for the raft WAL payload codecs (C16). They only call the unexported functions.

import myraft "github.com/feichai0017/NoKV/raft"

func VerifEncodeRaftEntries(g uint64, es []myraft.Entry) ([]byte, error) {
	return encodeRaftEntries(g, es)
}
func VerifDecodeRaftEntries(b []byte) (uint64, []myraft.Entry, error) { return decodeRaftEntries(b) }
func VerifEncodeRaftHardState(g uint64, st myraft.HardState) ([]byte, error) {
	return encodeRaftHardState(g, st)
}
func VerifDecodeRaftHardState(b []byte) (uint64, myraft.HardState, error) {
	return decodeRaftHardState(b)
}
func VerifEncodeRaftSnapshot(g uint64, s myraft.Snapshot) ([]byte, error) {
	return encodeRaftSnapshot(g, s)
}
func VerifDecodeRaftSnapshot(b []byte) (uint64, myraft.Snapshot, error) { return decodeRaftSnapshot(b) }
