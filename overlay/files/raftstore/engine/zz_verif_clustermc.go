//go:build verif

package engine

// Verification accessor for the clustermc engine (C22/C23): what a reopen of this storage
// would recover as hard state, read back from the WAL files with the same decoder
// OpenWALStorage uses. Read-only.

import (
	myraft "github.com/feichai0017/NoKV/raft"
	"github.com/feichai0017/NoKV/wal"
)

// VerifDurableHardState replays the WAL and returns the last hard state recorded for this group.
func (ws *WALStorage) VerifDurableHardState() (myraft.HardState, error) {
	var last myraft.HardState
	err := ws.wal.Replay(func(info wal.EntryInfo, payload []byte) error {
		if info.Type != wal.RecordTypeRaftState {
			return nil
		}
		gid, st, err := decodeRaftHardState(payload)
		if err != nil {
			return err
		}
		if gid == ws.groupID {
			last = st
		}
		return nil
	})
	return last, err
}
