//go:build verif

package peer

// Verification accessors for the clustermc engine (C22/C23). Injected through -overlay by
// /verif/vcheck; never part of the repository build. Read-only views of existing state.

import (
	myraft "github.com/feichai0017/NoKV/raft"
	"github.com/feichai0017/NoKV/raftstore/engine"
)

// VerifDurableHardState returns the hard state a restart of this peer would recover (WAL-backed
// storage only; ok=false otherwise).
func (p *Peer) VerifDurableHardState() (hs myraft.HardState, ok bool, err error) {
	ws, isWAL := p.storage.(*engine.WALStorage)
	if !isWAL {
		return hs, false, nil
	}
	hs, err = ws.VerifDurableHardState()
	return hs, true, err
}

// VerifLog returns the peer's persisted raft log (entries the storage still holds) and
// the persisted hard state.
func (p *Peer) VerifLog() (ents []myraft.Entry, hs myraft.HardState, err error) {
	hs, _, err = p.storage.InitialState()
	if err != nil {
		return nil, hs, err
	}
	first, err := p.storage.FirstIndex()
	if err != nil {
		return nil, hs, err
	}
	last, err := p.storage.LastIndex()
	if err != nil {
		return nil, hs, err
	}
	if last+1 > first {
		ents, err = p.storage.Entries(first, last+1, 1<<30)
	}
	return ents, hs, err
}

// VerifAppliedMark returns the apply watermark (highest index whose apply finished).
func (p *Peer) VerifAppliedMark() uint64 { return p.applyMark.DoneUntil() }

// VerifPendingReads returns the number of ReadIndex requests still waiting for a ReadState.
func (p *Peer) VerifPendingReads() int {
	p.readMu.Lock()
	defer p.readMu.Unlock()
	return len(p.pendingReads)
}
