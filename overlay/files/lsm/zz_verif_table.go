//go:build verif

package lsm

// Verification accessors for a single SSTable outside a full LSM (C35, C14). They only call the
// existing builder / openTable / Search / iterator code with a minimal levelManager (options + cache).

import (
	"errors"
	"fmt"
	"runtime"
	"time"

	"github.com/feichai0017/NoKV/kv"
	"github.com/feichai0017/NoKV/utils"
)

// VerifTableOpts are the knobs a table depends on.
type VerifTableOpts struct {
	BlockSize  int
	Bloom      float64 // false-positive rate; 0 = no bloom filter
	BlockCache int     // block cache capacity; 0 = no block cache
}

// VerifTable is one open SSTable.
type VerifTable struct {
	lm *levelManager
	t  *table
}

// VerifEntry is a copied entry as served by the table.
type VerifEntry struct {
	Key       []byte
	Value     []byte
	Meta      byte
	ExpiresAt uint64
}

func verifLM(dir string, o VerifTableOpts) *levelManager {
	opt := &Options{WorkDir: dir, SSTableMaxSz: 1 << 20, BlockSize: o.BlockSize, BloomFalsePositive: o.Bloom, BlockCacheSize: o.BlockCache, BloomCacheSize: 0}
	return &levelManager{opt: opt, cache: newCache(opt)}
}

// VerifBuildTable builds <dir>/<fid>.sst from entries (in the given order) with the real builder and opens it.
func VerifBuildTable(dir string, fid uint64, o VerifTableOpts, entries []VerifEntry) (vt *VerifTable, err error) {
	defer func() {
		if r := recover(); r != nil {
			err = fmt.Errorf("panic: %v", r)
		}
	}()
	lm := verifLM(dir, o)
	b := newTableBuiler(lm.opt)
	for _, e := range entries {
		ent := kv.NewEntry(e.Key, e.Value)
		ent.Meta = e.Meta
		ent.ExpiresAt = e.ExpiresAt
		b.AddKey(ent)
	}
	t := openTable(lm, utils.FileNameSSTable(dir, fid), b)
	if t == nil {
		_ = lm.cache.close()
		return nil, errors.New("openTable returned nil")
	}
	return &VerifTable{lm: lm, t: t}, nil
}

// VerifOpenTable opens an existing <dir>/<fid>.sst with a fresh cache. A panic while opening is returned as an error.
func VerifOpenTable(dir string, fid uint64, o VerifTableOpts) (vt *VerifTable, err error) {
	defer func() {
		if r := recover(); r != nil {
			err = fmt.Errorf("panic: %v", r)
		}
	}()
	lm := verifLM(dir, o)
	t := openTable(lm, utils.FileNameSSTable(dir, fid), nil)
	if t == nil {
		_ = lm.cache.close()
		return nil, errors.New("openTable returned nil")
	}
	return &VerifTable{lm: lm, t: t}, nil
}

// Prefetching iterators hand loadBlock tasks to a worker pool; tableIterator.Close does not wait for tasks that
// are already running, and in the engine the table's reference count keeps the mapping alive for them. This
// harness closes the file handle directly (it must not DecrRef to zero: that deletes the file), so it has to
// wait until no prefetch task is running before it unmaps - otherwise a late task reads unmapped memory and
// the process dies with SIGSEGV. The pool publishes its number of running tasks.
var verifPrefetchActive = utils.GetOrCreateInt("NoKV.Pool.IteratorPrefetch.Active")

// VerifLeakedHandles counts tables whose handle was left open because prefetch tasks did not drain in time.
var VerifLeakedHandles int

func verifPrefetchIdle() bool {
	if verifPrefetchActive.Value() <= 0 {
		return true
	}
	deadline := time.Now().Add(5 * time.Second)
	for verifPrefetchActive.Value() > 0 {
		if time.Now().After(deadline) {
			return false
		}
		runtime.Gosched()
	}
	return true
}

// Close unmaps and closes the file WITHOUT deleting it (DecrRef to zero would remove the file).
func (vt *VerifTable) Close() {
	if verifPrefetchIdle() {
		_ = vt.t.closeHandle()
	} else {
		VerifLeakedHandles++ // keep the mapping: a straggling prefetch task may still read it
	}
	_ = vt.lm.cache.close()
}

func (vt *VerifTable) NumBlocks() int {
	if idx := vt.t.index(); idx != nil {
		return len(idx.GetOffsets())
	}
	return 0
}

// BlockBaseKeys returns the first key of every data block (from the table index).
func (vt *VerifTable) BlockBaseKeys() [][]byte {
	var out [][]byte
	if idx := vt.t.index(); idx != nil {
		for _, o := range idx.GetOffsets() {
			out = append(out, append([]byte{}, o.GetKey()...))
		}
	}
	return out
}

// BlockExtents returns (offset, length) of every data block inside the file (from the table index).
func (vt *VerifTable) BlockExtents() [][2]int {
	var out [][2]int
	if idx := vt.t.index(); idx != nil {
		for _, o := range idx.GetOffsets() {
			out = append(out, [2]int{int(o.GetOffset()), int(o.GetLen())})
		}
	}
	return out
}
func (vt *VerifTable) HasBloom() bool   { return vt.t.HasBloomFilter() }
func (vt *VerifTable) MinKey() []byte   { return vt.t.MinKey() }
func (vt *VerifTable) MaxKey() []byte   { return vt.t.MaxKey() }
func (vt *VerifTable) KeyCount() uint32 { return vt.t.KeyCount() }

func copyEntry(e *kv.Entry) *VerifEntry {
	return &VerifEntry{Key: append([]byte{}, e.Key...), Value: append([]byte{}, e.Value...), Meta: e.Meta, ExpiresAt: e.ExpiresAt}
}

// Search is table.Search with no version floor (maxVs = 0), as the level handlers call it first.
func (vt *VerifTable) Search(key []byte) (out *VerifEntry, err error) {
	defer func() {
		if r := recover(); r != nil {
			out, err = nil, fmt.Errorf("panic: %v", r)
		}
	}()
	var maxVs uint64
	e, err := vt.t.Search(key, &maxVs)
	if err != nil {
		return nil, err
	}
	out = copyEntry(e)
	e.DecrRef()
	return out, nil
}

// Scan positions a table iterator (seek == nil: Rewind, else Seek(seek)) and returns every entry up to
// exhaustion, in the iterator's direction. iterErr is the terminal state reported by a panic, if any.
func (vt *VerifTable) Scan(asc bool, seek []byte, prefetch int) (out []VerifEntry, err error) {
	defer func() {
		if r := recover(); r != nil {
			err = fmt.Errorf("panic: %v", r)
		}
	}()
	it := vt.t.NewIterator(&utils.Options{IsAsc: asc, PrefetchBlocks: prefetch})
	defer func() {
		_ = it.Close()
		if prefetch > 0 {
			verifPrefetchIdle()
		}
	}()
	if seek == nil {
		it.Rewind()
	} else {
		it.Seek(seek)
	}
	for n := 0; it.Valid(); it.Next() {
		item := it.Item()
		if item == nil || item.Entry() == nil {
			return out, errors.New("valid iterator without item")
		}
		out = append(out, *copyEntry(item.Entry()))
		if n++; n > 1<<16 {
			return out, errors.New("iterator does not terminate")
		}
	}
	return out, nil
}

// VerifIter is one long-lived table iterator (as merge / level iterators hold them): it can be
// re-positioned any number of times. Every operation returns the entry the iterator points at
// afterwards (nil when it is not valid); a panic is returned as an error.
type VerifIter struct {
	it utils.Iterator
}

func (vt *VerifTable) NewIter(asc bool, prefetch int) *VerifIter {
	return &VerifIter{it: vt.t.NewIterator(&utils.Options{IsAsc: asc, PrefetchBlocks: prefetch})}
}

func (vi *VerifIter) cur() *VerifEntry {
	if !vi.it.Valid() {
		return nil
	}
	item := vi.it.Item()
	if item == nil || item.Entry() == nil {
		return nil
	}
	return copyEntry(item.Entry())
}

func (vi *VerifIter) do(f func()) (out *VerifEntry, err error) {
	defer func() {
		if r := recover(); r != nil {
			out, err = nil, fmt.Errorf("panic: %v", r)
		}
	}()
	f()
	return vi.cur(), nil
}

func (vi *VerifIter) Rewind() (*VerifEntry, error)         { return vi.do(vi.it.Rewind) }
func (vi *VerifIter) Next() (*VerifEntry, error)           { return vi.do(vi.it.Next) }
func (vi *VerifIter) Seek(key []byte) (*VerifEntry, error) { return vi.do(func() { vi.it.Seek(key) }) }
func (vi *VerifIter) Close() {
	_ = vi.it.Close()
	verifPrefetchIdle()
}
