//go:build verif

package lsm

// Verification accessor for the crash explorers (injected through -overlay).

// VerifSegmentsAndTables returns the WAL segment ids of the non-empty memtables (active and
// immutable) and the file ids of all tables currently installed in the levels.
func (lsm *LSM) VerifSegmentsAndTables() (segments []uint32, tables []uint64) {
	lsm.lock.RLock()
	if lsm.memTable != nil && lsm.memTable.walSize > 0 {
		segments = append(segments, lsm.memTable.segmentID)
	}
	for _, mt := range lsm.immutables {
		if mt != nil {
			segments = append(segments, mt.segmentID)
		}
	}
	lsm.lock.RUnlock()
	for _, lh := range lsm.levels.levels {
		lh.RLock()
		for _, t := range lh.tables {
			tables = append(tables, t.fid)
		}
		for _, t := range lh.ingest.allTables() {
			tables = append(tables, t.fid)
		}
		lh.RUnlock()
	}
	return segments, tables
}
