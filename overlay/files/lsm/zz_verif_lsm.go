//go:build verif

package lsm

// Verification accessors (injected through -overlay by /verif/vcheck; never part of
// the repository build). They only call existing unexported functions.

import (
	"fmt"
	"sort"
	"strings"
	"sync/atomic"
	"time"

	"github.com/feichai0017/NoKV/kv"
	"github.com/feichai0017/NoKV/lsm/compact"
	"github.com/feichai0017/NoKV/utils"
)

// VerifActiveEmpty reports whether the active memtable holds no entry.
func (lsm *LSM) VerifActiveEmpty() bool {
	lsm.lock.RLock()
	defer lsm.lock.RUnlock()
	return lsm.memTable == nil || atomic.LoadInt64(&lsm.memTable.walSize) == 0
}

// VerifNumImmutables returns the number of sealed, not yet flushed memtables.
func (lsm *LSM) VerifNumImmutables() int {
	lsm.lock.RLock()
	defer lsm.lock.RUnlock()
	return len(lsm.immutables)
}

// VerifWaitFlushIdle blocks until no flush task is pending/active and no immutable remains
// (or the timeout elapses; returns false then).
func (lsm *LSM) VerifWaitFlushIdle(timeout time.Duration) bool {
	deadline := time.Now().Add(timeout)
	for {
		st := lsm.flushMgr.Stats()
		if st.Pending == 0 && st.Active == 0 && lsm.VerifNumImmutables() == 0 {
			return true
		}
		if time.Now().After(deadline) {
			return false
		}
		time.Sleep(50 * time.Microsecond)
	}
}

// VerifAgeTables moves the creation time of every table into the past so that the
// age filters of the planners ("younger than 10s/1h") behave as after a long wait.
func (lsm *LSM) VerifAgeTables(by time.Duration) {
	for _, lh := range lsm.levels.levels {
		lh.Lock()
		for _, t := range lh.tables {
			t.createdAt = t.createdAt.Add(-by)
		}
		for _, t := range lh.ingest.allTables() {
			t.createdAt = t.createdAt.Add(-by)
		}
		lh.Unlock()
	}
}

// VerifBaseLevel returns the current base level computed by the real target builder.
func (lsm *LSM) VerifBaseLevel() int { return lsm.levels.levelTargets().BaseLevel }

// VerifCompact runs one compaction of the requested kind through the real
// doCompact/runCompactDef with a hand-built priority. The real fillTables*
// planners choose the tables. Returns utils.ErrFillTables when there is nothing to do.
//
//	l0-base      L0 -> base level (move into the base level's ingest buffer)
//	l0-l0        L0 -> L0 merge (needs >=4 eligible tables; compactor id 0)
//	ingest-drain ingest buffer of `level` -> main tables of `level`
//	ingest-keep  ingest-buffer merge inside `level`
//	regular      level -> level+1 (or max-level rewrite)
func (lsm *LSM) VerifCompact(kind string, level int) error {
	lm := lsm.levels
	t := lm.levelTargets()
	switch kind {
	case "l0-base":
		return lm.doCompact(1, compact.Priority{Level: 0, Score: 1, Adjusted: 1, Target: t})
	case "l0-l0":
		// adjusted in (0,1) makes fillTablesL0ToLbase decline, exactly as the
		// picker's low-score path does; compactor 0 may then merge L0 into L0.
		return lm.doCompact(0, compact.Priority{Level: 0, Score: 0.5, Adjusted: 0.5, Target: t})
	case "ingest-drain":
		return lm.doCompact(0, compact.Priority{Level: level, Score: 2, Adjusted: 2, Target: t, IngestMode: compact.IngestDrain})
	case "ingest-keep":
		return lm.doCompact(0, compact.Priority{Level: level, Score: 2, Adjusted: 2, Target: t, IngestMode: compact.IngestKeep, StatsTag: "ingest-merge"})
	case "regular":
		return lm.doCompact(1, compact.Priority{Level: level, Score: 2, Adjusted: 2, Target: t})
	}
	return fmt.Errorf("verif: unknown compaction kind %q", kind)
}

// VerifLevelCounts returns per level (main tables, ingest tables).
func (lsm *LSM) VerifLevelCounts() [][2]int {
	out := make([][2]int, len(lsm.levels.levels))
	for i, lh := range lsm.levels.levels {
		lh.RLock()
		out[i] = [2]int{len(lh.tables), lh.ingest.tableCount()}
		lh.RUnlock()
	}
	return out
}

func verifDumpIter(it utils.Iterator, sb *strings.Builder) {
	if it == nil {
		return
	}
	defer func() { _ = it.Close() }()
	for it.Rewind(); it.Valid(); it.Next() {
		e := it.Item().Entry()
		cf, uk, ts := kv.SplitInternalKey(e.Key)
		val := fmt.Sprintf("%x", e.Value)
		if e.Meta&kv.BitValuePointer != 0 {
			var vp kv.ValuePtr
			vp.Decode(e.Value)
			val = fmt.Sprintf("vp(b%d,f%d,o%d,l%d)", vp.Bucket, vp.Fid, vp.Offset, vp.Len)
		} else if len(val) > 24 {
			val = fmt.Sprintf("%s..(%d)", val[:24], len(e.Value))
		}
		fmt.Fprintf(sb, "  %d/%q@%d m=%d x=%d v=%s\n", cf, uk, ts, e.Meta, e.ExpiresAt, val)
	}
}

// VerifShape dumps the ordered list of containers with their entries: active memtable,
// immutables oldest->newest, per level: main tables in list order, ingest shards in list
// order. File ids are replaced by their rank so that equal shapes reached through
// different histories compare equal.
func (lsm *LSM) VerifShape(withFids bool) string {
	var sb strings.Builder
	lsm.lock.RLock()
	mem := lsm.memTable
	imms := append([]*memTable(nil), lsm.immutables...)
	lsm.lock.RUnlock()
	opt := &utils.Options{IsAsc: true}
	sb.WriteString("mem:\n")
	if mem != nil {
		verifDumpIter(mem.NewIterator(opt), &sb)
	}
	for i, imm := range imms {
		fmt.Fprintf(&sb, "imm[%d]:\n", i)
		verifDumpIter(imm.NewIterator(opt), &sb)
	}
	var fids []uint64
	for _, lh := range lsm.levels.levels {
		lh.RLock()
		for _, t := range lh.tables {
			fids = append(fids, t.fid)
		}
		for _, t := range lh.ingest.allTables() {
			fids = append(fids, t.fid)
		}
		lh.RUnlock()
	}
	sort.Slice(fids, func(i, j int) bool { return fids[i] < fids[j] })
	rank := map[uint64]int{}
	for i, f := range fids {
		rank[f] = i
	}
	name := func(t *table) string {
		if withFids {
			return fmt.Sprintf("f%d", t.fid)
		}
		return fmt.Sprintf("r%d", rank[t.fid])
	}
	for _, lh := range lsm.levels.levels {
		lh.RLock()
		for i, t := range lh.tables {
			fmt.Fprintf(&sb, "L%d.t[%d]=%s:\n", lh.levelNum, i, name(t))
			verifDumpIter(t.NewIterator(opt), &sb)
		}
		for si, sh := range lh.ingest.shards {
			for i, t := range sh.tables {
				fmt.Fprintf(&sb, "L%d.ing[%d][%d]=%s:\n", lh.levelNum, si, i, name(t))
				verifDumpIter(t.NewIterator(opt), &sb)
			}
		}
		lh.RUnlock()
	}
	return sb.String()
}
