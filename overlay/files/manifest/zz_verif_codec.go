//go:build verif

package manifest

// Verification accessors for the edit codec (C16). They only call the unexported functions.

import (
	"bufio"
	"io"
)

func VerifWriteEdit(w io.Writer, e Edit) error     { return writeEdit(w, e) }
func VerifReadEdit(r *bufio.Reader) (Edit, error)  { return readEdit(r) }
func VerifDecodeEdit(payload []byte) (Edit, error) { return decodeEdit(payload) }
