//go:build verif

package NoKV

// Verification accessor for the crash explorers (injected through -overlay).

// VerifStatsEpoch returns the most recently exported stats snapshot pointer. Stats.run
// collects once right after Open in its own goroutine (walking the memtable index); the
// harness waits for the pointer to change before issuing the first write so that this
// collection is not concurrent with anything.
func VerifStatsEpoch() *StatsSnapshot { return exportedStatsSnapshot.Load() }
