//go:build verif

package NoKV

import (
	"sync/atomic"

	"github.com/feichai0017/NoKV/kv"
)

// Verification accessors for the transaction oracle (injected through -overlay by
// /verif/vcheck; never part of the repository build). They only read existing state.

// VerifNextTxnTs returns the timestamp the oracle will hand to the next commit.
func (db *DB) VerifNextTxnTs() uint64 { return db.orc.nextTxnTs.Load() }

// VerifOracleInfo dumps the oracle's conflict bookkeeping: next commit ts, read/txn
// watermarks, last cleanup ts and the commit timestamps still held for conflict checks.
func (db *DB) VerifOracleInfo() (next, readDone, txnDone, lastCleanup uint64, committed []uint64) {
	o := db.orc
	o.Lock()
	defer o.Unlock()
	for _, c := range o.committedTxns {
		committed = append(committed, c.ts)
	}
	return o.nextTxnTs.Load(), o.readMark.DoneUntil(), o.txnMark.DoneUntil(), o.lastCleanupTs, committed
}

// VerifThrottled reports whether the write throttle is currently engaged.
func (db *DB) VerifThrottled() bool { return atomic.LoadInt32(&db.blockWrites) == 1 }

// VerifReadValuePtr resolves an encoded value pointer through the value log, exactly as
// the read path does after an LSM lookup (no lookup involved).
func (db *DB) VerifReadValuePtr(encoded []byte) ([]byte, error) {
	var vp kv.ValuePtr
	vp.Decode(encoded)
	val, cb, err := db.vlog.read(&vp)
	if cb != nil {
		defer kv.RunCallback(cb)
	}
	if err != nil {
		return nil, err
	}
	return append([]byte{}, val...), nil
}

// VerifCommitQueueLen returns the number of commit requests waiting in the commit queue.
func (db *DB) VerifCommitQueueLen() int64 { return atomic.LoadInt64(&db.commitQueue.queueLen) }

// VerifCommitQueueItems returns the number of wake-up tokens published for queued commit
// requests (a request is only visible to the commit worker's drain loop once its token is
// published, which happens right after queueLen is incremented).
func (db *DB) VerifCommitQueueItems() int { return len(db.commitQueue.items) }
