//go:build verif

// C36 — WAL segment cleanup never removes data still needed.
//
// A real NoKV.DB (lib/dbh: flush worker gated, compaction paused, SyncWrites on so that every
// acknowledged write has reached the OS) runs on lib/crashfs together with 1-2 raft groups
// (engine.WALStorage on the DB's shared wal.Manager + manifest.Manager) and a wal.Watchdog built
// exactly like NoKV.Open builds it (MinRemovable 1, MaxBatch 4, raft pointers from the
// manifest) but driven by RunOnce. Every enabled sequence (bounded depth) of
//
//	set (new key), rotate memtable, flush oldest immutable, raft Append (followed by WAL Sync),
//	raft MaybeCompact(retain 1), Watchdog.RunOnce
//
// is executed; every crash point of the LAST operation (vfs calls + named hook points
// lsm.flush.*, db.commit.*; prefixes are histories of their own) is materialized, the DB is
// reopened with the real recovery (which itself removes segments below the log pointer) and the
// raft storages are reopened on it.
//
// Oracle (property text): every write acknowledged before the crash is readable; every raft
// entry above the group's truncated index is recovered; reopening succeeds. The raft oracle of
// a group is skipped while that group's own Append is in flight (the unflushed-buffer window
// belongs to C21).
package main

import (
	"bytes"
	"encoding/json"
	"errors"
	"fmt"
	"math"
	"os"
	"path/filepath"
	"regexp"
	"runtime/debug"
	"sort"
	"strconv"
	"strings"

	"github.com/feichai0017/NoKV/manifest"
	myraft "github.com/feichai0017/NoKV/raft"
	"github.com/feichai0017/NoKV/raftstore/engine"
	"github.com/feichai0017/NoKV/utils"
	"github.com/feichai0017/NoKV/wal"

	"verif/lib/crashfs"
	"verif/lib/dbh"
	"verif/lib/vr"
)

// ---------- static model used to enumerate enabled histories and as oracle ----------

type group struct {
	Last  uint64
	Trunc uint64
	Data  map[uint64]string
}

type model struct {
	Sets       int
	ActiveData bool
	Imm        int
	Rotations  int
	Groups     map[uint64]*group
	Acked      map[string]string
}

func newModel() *model {
	return &model{Groups: map[uint64]*group{1: {Data: map[uint64]string{}}, 2: {Data: map[uint64]string{}}}, Acked: map[string]string{}}
}

func (m *model) clone() *model {
	n := *m
	n.Groups = map[uint64]*group{}
	for g, v := range m.Groups {
		c := *v
		c.Data = map[uint64]string{}
		for k, d := range v.Data {
			c.Data[k] = d
		}
		n.Groups[g] = &c
	}
	n.Acked = map[string]string{}
	for k, v := range m.Acked {
		n.Acked[k] = v
	}
	return &n
}

func gid(op string) uint64 {
	g, _ := strconv.ParseUint(op[strings.Index(op, ":")+1:], 10, 64)
	return g
}

func (m *model) enabled(op string, maxSets, maxApp int) bool {
	switch {
	case op == "set":
		return m.Sets < maxSets
	case op == "rotate":
		return m.ActiveData
	case op == "flush":
		return m.Imm > 0
	case strings.HasPrefix(op, "rapp:"):
		return int(m.Groups[gid(op)].Last) < maxApp
	case strings.HasPrefix(op, "rcompact:"):
		g := m.Groups[gid(op)]
		return g.Last >= 2 && g.Last-1 > g.Trunc
	case op == "watchdog":
		return m.Rotations > 0
	}
	return false
}

func (m *model) apply(op string, step int) {
	switch {
	case op == "set":
		m.Sets++
		m.ActiveData = true
		m.Acked[fmt.Sprintf("k%d", step)] = fmt.Sprintf("v%d", step)
	case op == "rotate":
		m.ActiveData = false
		m.Imm++
		m.Rotations++
	case op == "flush":
		m.Imm--
	case strings.HasPrefix(op, "rapp:"):
		g := m.Groups[gid(op)]
		g.Last++
		g.Data[g.Last] = fmt.Sprintf("g%d.e%d.s%d", gid(op), g.Last, step)
	case strings.HasPrefix(op, "rcompact:"):
		g := m.Groups[gid(op)]
		g.Trunc = g.Last - 1
	}
}

// ---------- harness ----------

type Hist struct {
	Ops []string `json:"ops"`
}

func (h Hist) String() string { return "[" + strings.Join(h.Ops, " ") + "]" }

var dbCfg = dbh.Config{Engine: "skiplist", Buckets: 1, SyncWrites: true, ValueThreshold: 1 << 20}

type recovered struct {
	DBErr   string
	Det     string
	Vals    map[string]string // key -> value, "<absent>", or "<error:..>"
	RaftErr map[uint64]string
	Raft    map[uint64]map[uint64]string
	First   map[uint64]uint64
	Last    map[uint64]uint64
}

var digits = regexp.MustCompile(`[0-9]+`)

func norm(s string) string {
	if i := strings.Index(s, "/dev/shm"); i >= 0 {
		j := strings.LastIndex(s, "/")
		s = s[:i] + s[j+1:]
	}
	s = digits.ReplaceAllString(s, "N")
	if len(s) > 70 {
		s = s[:70]
	}
	return strings.ReplaceAll(s, " ", "_")
}

func openRaft(db *dbh.H, g uint64) (ws *engine.WALStorage, err error) {
	defer func() {
		if r := recover(); r != nil {
			err = fmt.Errorf("panic: %v", r)
		}
	}()
	return engine.OpenWALStorage(engine.WALStorageConfig{GroupID: g, WAL: db.DB.WAL(), Manifest: db.DB.Manifest()})
}

func recoverImage(dir string, im *crashfs.Image, keys []string, groups []uint64) (out recovered) {
	_ = os.RemoveAll(dir)
	if err := im.Materialize(dir); err != nil {
		vr.Fatalf("materialize: %v", err)
	}
	defer os.RemoveAll(dir)
	out.Vals = map[string]string{}
	out.RaftErr = map[uint64]string{}
	out.Raft = map[uint64]map[uint64]string{}
	out.First = map[uint64]uint64{}
	out.Last = map[uint64]uint64{}
	h, err := dbh.Open(dir, dbCfg)
	if err != nil {
		out.DBErr, out.Det = norm(err.Error()), err.Error()
		return out
	}
	defer func() {
		defer func() { _ = recover() }()
		_ = h.Close()
	}()
	for _, k := range keys {
		func() {
			defer func() {
				if r := recover(); r != nil {
					out.Vals[k] = "<panic:" + norm(fmt.Sprint(r)) + ">"
				}
			}()
			e, err := h.DB.Get([]byte(k))
			switch {
			case errors.Is(err, utils.ErrKeyNotFound):
				out.Vals[k] = "<absent>"
			case err != nil:
				out.Vals[k] = "<error:" + norm(err.Error()) + ">"
			default:
				out.Vals[k] = string(e.Value)
			}
		}()
	}
	for _, g := range groups {
		ws, err := openRaft(h, g)
		if err != nil {
			out.RaftErr[g] = norm(err.Error())
			continue
		}
		first, _ := ws.FirstIndex()
		last, _ := ws.LastIndex()
		out.First[g], out.Last[g] = first, last
		ents := map[uint64]string{}
		if last >= first {
			es, err := ws.Entries(first, last+1, math.MaxUint64)
			if err != nil {
				out.RaftErr[g] = "entries:" + norm(err.Error())
				continue
			}
			for _, e := range es {
				ents[e.Index] = string(e.Data)
			}
		}
		out.Raft[g] = ents
	}
	return out
}

func walSegments(im *crashfs.Image) map[uint32]bool {
	out := map[uint32]bool{}
	for _, n := range im.Names() {
		var id uint32
		if strings.HasSuffix(n, ".wal") && !strings.Contains(n, "/") {
			if _, err := fmt.Sscanf(n, "%05d.wal", &id); err == nil {
				out[id] = true
			}
		}
	}
	return out
}

type runner struct {
	base      string
	p         *vr.Partial
	groups    []uint64
	curImg    *crashfs.Image
	curRec    *recovered
	curKeys   []string
	confirmed map[string]bool
}

// confirm re-recovers a failing image from a fresh copy and demands the identical result.
func (rn *runner) confirm() {
	first := *rn.curRec
	for i := 0; i < 2; i++ {
		again := recoverImage(filepath.Join(rn.base, "case"), rn.curImg, rn.curKeys, rn.groups)
		if again.DBErr != first.DBErr || fmt.Sprint(again.Vals) != fmt.Sprint(first.Vals) || fmt.Sprint(again.RaftErr) != fmt.Sprint(first.RaftErr) || fmt.Sprint(again.Raft) != fmt.Sprint(first.Raft) {
			vr.Fatalf("non-deterministic recovery of image %s", rn.curImg.Describe())
		}
	}
}

func (rn *runner) viol(h Hist, sig, desc string) {
	if rn.curImg != nil && !rn.confirmed[sig] {
		if rn.confirmed == nil {
			rn.confirmed = map[string]bool{}
		}
		rn.confirmed[sig] = true
		rn.confirm()
	}
	blob, _ := json.Marshal(h)
	rn.p.Viol(sig, "history "+h.String()+": "+desc, string(blob))
}

func opClass(op string) string {
	if i := strings.Index(op, ":"); i >= 0 {
		return op[:i]
	}
	return op
}

// run executes the history; crash points of the last op are recovered and checked.
func (rn *runner) run(h Hist) {
	p := rn.p
	dir := filepath.Join(rn.base, "db")
	_ = os.RemoveAll(dir)
	_ = os.MkdirAll(dir, 0o755)
	defer os.RemoveAll(dir)
	fs := crashfs.New(dir, crashfs.Options{Skip: func(rel string) bool { return rel == "LOCK" }})
	cfg := dbCfg
	cfg.FS = fs
	db, err := dbh.Open(dir, cfg)
	if err != nil {
		vr.Fatalf("open: %v", err)
	}
	closed := false
	defer func() {
		if !closed {
			_ = db.Close()
		}
	}()
	db.OnPoint = func(name string) { fs.Mark(name) }
	storages := map[uint64]*engine.WALStorage{}
	for _, g := range rn.groups {
		ws, err := openRaft(db, g)
		if err != nil {
			vr.Fatalf("raft open: %v", err)
		}
		storages[g] = ws
	}
	man := db.DB.Manifest()
	wd := wal.NewWatchdog(wal.WatchdogConfig{Manager: db.DB.WAL(), MinRemovable: 1, MaxBatch: 4,
		RaftPointers: func() map[uint64]manifest.RaftLogPointer { return man.RaftPointerSnapshot() }})
	m := newModel()
	// where each needed datum lives and which op removed which segment
	keySeg := map[string]uint32{}
	entSeg := map[uint64]map[uint64]uint32{1: {}, 2: {}}
	removedBy := map[uint32]string{}
	segsBefore := walSegments(fs.Snapshot())
	var before *model
	for k, op := range h.Ops {
		lastOp := k == len(h.Ops)-1
		if lastOp {
			before = m.clone()
			fs.Start()
		}
		switch {
		case op == "set":
			key, val := fmt.Sprintf("k%d", k), fmt.Sprintf("v%d", k)
			keySeg[key] = db.DB.WAL().ActiveSegment()
			if err := db.DB.Set([]byte(key), []byte(val)); err != nil {
				vr.Fatalf("%s: set: %v", h, err)
			}
		case op == "rotate" || op == "flush":
			changed, err := db.Maint(op)
			if err != nil {
				var ie *dbh.ImplError
				if errors.As(err, &ie) {
					vr.Fatalf("%s: %s failed inside the engine: %v", h, op, err)
				}
				vr.Fatalf("%s: %s: %v", h, op, err)
			}
			if !changed {
				vr.Fatalf("%s: %s had nothing to do (enumeration model out of sync)", h, op)
			}
		case strings.HasPrefix(op, "rapp:"):
			g := gid(op)
			idx := m.Groups[g].Last + 1
			entSeg[g][idx] = db.DB.WAL().ActiveSegment()
			data := fmt.Sprintf("g%d.e%d.s%d", g, idx, k)
			if err := storages[g].Append([]myraft.Entry{{Index: idx, Term: 1, Data: []byte(data)}}); err != nil {
				vr.Fatalf("%s: raft append: %v", h, err)
			}
			fs.Mark("raft.appended")
			if err := db.DB.WAL().Sync(); err != nil {
				vr.Fatalf("%s: wal sync: %v", h, err)
			}
		case strings.HasPrefix(op, "rcompact:"):
			g := gid(op)
			if err := storages[g].MaybeCompact(m.Groups[g].Last, 1); err != nil {
				vr.Fatalf("%s: raft compact: %v", h, err)
			}
		case op == "watchdog":
			wd.RunOnce()
		}
		m.apply(op, k)
		if lastOp {
			fs.Mark("done")
		}
		segsNow := walSegments(fs.Snapshot())
		for s := range segsBefore {
			if !segsNow[s] {
				removedBy[s] = opClass(op)
			}
		}
		segsBefore = segsNow
	}
	pts := fs.Stop()
	closed = true
	_ = db.Close()
	p.Add("histories", 1)
	p.Max("max_points", int64(len(pts)))
	last := h.Ops[len(h.Ops)-1]
	after := m
	var keys []string
	for k := range after.Acked {
		keys = append(keys, k)
	}
	sort.Strings(keys)
	seen := map[string]bool{}
	for _, pt := range pts {
		if pt.Image == nil || seen[pt.Image.Hash] {
			continue
		}
		seen[pt.Image.Hash] = true
		p.Add("points", 1)
		p.Mark("point_classes", pt.Class())
		done := pt.Op == "mark" && pt.Name == "done"
		rec := recoverImage(filepath.Join(rn.base, "case"), pt.Image, keys, rn.groups)
		rn.curImg, rn.curRec, rn.curKeys = pt.Image, &rec, keys
		segs := walSegments(pt.Image)
		by := func(seg uint32) string {
			if segs[seg] {
				return "recovery"
			}
			if b, ok := removedBy[seg]; ok {
				return b
			}
			return opClass(last) // removed during the running op
		}
		where := fmt.Sprintf("point %s image{%s}", pt.String(), pt.Image.Describe())
		if rec.DBErr != "" {
			rn.viol(h, fmt.Sprintf("db-reopen-refused during=%s got=%s", opClass(last), rec.DBErr), where+": "+rec.Det)
			p.Mark("outcomes", "db-refused")
			continue
		}
		bad := false
		// DB writes: everything acknowledged before the running op; the running set may or may not be there
		for _, k := range keys {
			want := after.Acked[k]
			inflight := false
			if _, ok := before.Acked[k]; !ok {
				inflight = !done
			}
			got := rec.Vals[k]
			if got == want || (inflight && got == "<absent>") {
				continue
			}
			kind := "lost"
			if got != "<absent>" {
				kind = "wrong:" + got
				if len(kind) > 40 {
					kind = kind[:40]
				}
			}
			rn.viol(h, fmt.Sprintf("db-write-%s segment-removed-by=%s", kind, by(keySeg[k])), fmt.Sprintf("%s: acknowledged %s=%s reads %s after reopen (written into WAL segment %d; segments in image %v)", where, k, want, got, keySeg[k], sortedSegs(segs)))
			bad = true
		}
		// raft entries above the truncated index
		for _, g := range rn.groups {
			if strings.HasPrefix(last, "rapp:") && gid(last) == g && !done {
				continue // this group's own append is in flight: C21's window
			}
			mg := after.Groups[g]
			// a MaybeCompact in flight was requested by the group itself: entries up to the new
			// truncation index are no longer needed whether or not the call had returned
			if mg.Last == 0 {
				continue
			}
			trunc := "none"
			if mg.Trunc > 0 {
				trunc = "some"
			}
			if e := rec.RaftErr[g]; e != "" {
				lowSeg := entSeg[g][mg.Trunc+1]
				rn.viol(h, fmt.Sprintf("raft-reopen-refused truncated=%s segment-removed-by=%s got=%s", trunc, by(lowSeg), e), fmt.Sprintf("%s: group %d (entries %d..%d needed, first needed entry in segment %d; segments in image %v): %s", where, g, mg.Trunc+1, mg.Last, lowSeg, sortedSegs(segs), e))
				bad = true
				continue
			}
			for i := mg.Trunc + 1; i <= mg.Last; i++ {
				if rec.Raft[g][i] != mg.Data[i] {
					rn.viol(h, fmt.Sprintf("raft-entries-lost truncated=%s segment-removed-by=%s", trunc, by(entSeg[g][i])), fmt.Sprintf("%s: group %d entry %d (segment %d) not recovered (recovered %d..%d; truncated index %d; segments in image %v)", where, g, i, entSeg[g][i], rec.First[g], rec.Last[g], mg.Trunc, sortedSegs(segs)))
					bad = true
					break
				}
			}
		}
		if bad {
			p.Mark("outcomes", "lost|"+opClass(last))
			continue
		}
		nseg := len(segs)
		p.Mark("outcomes", fmt.Sprintf("ok|%s|segs=%d", pt.Class(), nseg))
		if len(removedBy) > 0 || pt.Op == "remove" {
			p.Add("after_removal_cases", 1)
		}
	}
}

func sortedSegs(m map[uint32]bool) []int {
	var out []int
	for s := range m {
		out = append(out, int(s))
	}
	sort.Ints(out)
	return out
}

func enumerate(ops []string, depth, maxSets, maxApp int, fn func(ops []string)) {
	var rec func(path []string, m *model)
	rec = func(path []string, m *model) {
		if len(path) > 0 {
			fn(append([]string(nil), path...))
		}
		if len(path) == depth {
			return
		}
		for _, o := range ops {
			if !m.enabled(o, maxSets, maxApp) {
				continue
			}
			if o == "watchdog" && len(path) > 0 && path[len(path)-1] == "watchdog" {
				continue
			}
			n := m.clone()
			n.apply(o, len(path))
			rec(append(path, o), n)
		}
	}
	rec(nil, newModel())
}

var _ = bytes.Equal

func main() {
	r := vr.Start("C36")
	debug.SetGCPercent(400)
	if r.ReplayPath != "" {
		var h Hist
		r.LoadReplay(&h)
		p := vr.NewPartial()
		rn := &runner{base: r.Scratch(), p: p, groups: []uint64{1, 2}}
		rn.run(h)
		for _, v := range p.Violations {
			fmt.Printf("replay: %s\n  %s\n", v.Sig, v.Desc)
			r.Violation(v.Sig, v.Desc, h)
		}
		r.Finish(vr.Coverage{Level: "fault_enumeration", Evaluations: p.Counters["points"], Distinct: 2, Rule: "replay of one history", Samples: []any{h.String()}})
	}
	type plan struct {
		Ops             []string
		Depth           int
		MaxSets, MaxApp int
		Groups          []uint64
	}
	one := []string{"set", "rotate", "flush", "rapp:1", "rcompact:1", "watchdog"}
	two := []string{"set", "rotate", "flush", "rapp:1", "rcompact:1", "rapp:2", "rcompact:2", "watchdog"}
	plans := []plan{{one, 7, 2, 3, []uint64{1}}, {two, 5, 1, 2, []uint64{1, 2}}}
	if r.Thorough() {
		plans = []plan{{one, 9, 3, 4, []uint64{1}}, {two, 7, 2, 2, []uint64{1, 2}}}
	}
	total := r.RunSharded(vr.Workers(), func(sh vr.ShardInfo, p *vr.Partial) {
		item := 0
		seen := map[string]bool{}
		for _, pl := range plans {
			rn := &runner{base: r.Scratch(), p: p, groups: pl.Groups}
			enumerate(pl.Ops, pl.Depth, pl.MaxSets, pl.MaxApp, func(ops []string) {
				key := strings.Join(ops, " ")
				if seen[key] {
					return
				}
				seen[key] = true
				item++
				if !sh.Owns(item) || r.Expired() {
					return
				}
				h := Hist{Ops: ops}
				rn.run(h)
				if item%53 == 0 {
					p.Sample(h.String())
				}
			})
		}
	})
	out := total.Card("outcomes")
	r.RequireOutcomes(out, 5)
	var pd []string
	for _, pl := range plans {
		pd = append(pd, fmt.Sprintf("ops=%v depth<=%d sets<=%d appends/group<=%d", pl.Ops, pl.Depth, pl.MaxSets, pl.MaxApp))
	}
	r.Finish(vr.Coverage{
		Level:       "fault_enumeration",
		Evaluations: total.Counters["points"],
		Distinct:    total.Counters["after_removal_cases"],
		Rule:        "every enabled sequence of {set new key, rotate, flush oldest immutable, raft Append+Sync, raft MaybeCompact(retain 1), Watchdog.RunOnce} up to the depth on a real DB sharing its WAL/manifest with raft WALStorage groups; every distinct crash image of the last operation (vfs calls + named flush/commit hook points) is reopened with the real DB recovery and OpenWALStorage; acknowledged keys and un-truncated raft entries must be recovered. distinct_nontrivial = accepted recoveries from images taken after at least one WAL segment had been removed",
		Samples:     total.SamplesAny(),
		Exhaustive:  !total.TimedOut,
		Outcomes:    out,
		Bounds:      map[string]any{"plans": pd},
		Extra: map[string]any{"histories": total.Counters["histories"], "max_points_per_history": total.Counters["max_points"], "point_classes": total.Card("point_classes"),
			"after_removal_cases": total.Counters["after_removal_cases"]},
		Assumptions: []string{"process-crash model; DB runs with SyncWrites so that acknowledged writes have reached the OS; the harness syncs the WAL after each raft Append (the unflushed raft buffer is C21's finding) and skips the raft oracle of a group whose own Append is in flight",
			"flush worker gated and compaction paused (lib/dbh); the watchdog is the real wal.Watchdog configured as in NoKV.Open but triggered by RunOnce",
			"crash points of earlier operations of a history are covered by the shorter histories of the same enumeration"},
	})
}
