//go:build verif

// C19 — locks live exactly from prewrite until commit or rollback; removed locks never
// reappear regardless of flushes and compactions; check-txn-status only rolls back an
// expired primary lock; a commit below min_commit_ts is refused.
package main

import (
	"verif/lib/dbh"
	"verif/lib/percseq"
	"verif/lib/vr"
)

func main() {
	percseq.Main(percseq.Spec{
		Prop:     "C19",
		Families: []string{"lock"},
		Rule:     "explicit-state search over lock set/remove histories (prewrite, commit at min_commit_ts-1 and min_commit_ts, rollback, resolve, re-prewrite by a later transaction, check-txn-status with current_ts on both sides of lock.ts+ttl, min_commit_ts push) applied through kv.Apply, interleaved in the placement configurations with every enabled maintenance transition of the real DB (memtable rotation, flush, L0->base ingest move, ingest drain/merge, L0->L0, close+reopen); a state is distinct if (reference model, stored entries / LSM shape) differs; after every transition reader.GetLock on every key, lock errors of prewrite/GET/SCAN and the answers are compared with the model",
		Assumptions: []string{
			"background compaction paused and driven by the harness through the real doCompact; flush worker gated",
			"timestamps are logical (TTL is compared with the caller-supplied current_ts, as the handlers do)",
			"traces_validated_against_impl counts fresh-instance replays of path prefixes plus confirmation replays of violations",
		},
		Configs: func(r *vr.Run) []percseq.Config {
			small := dbh.Config{Engine: "skiplist", Buckets: 1}
			tx := map[int]percseq.TxnSpec{
				1: {Start: 10, Primary: "a", TTL: 20, Muts: map[string]byte{"a": 'p', "b": 'p'}},
				2: {Start: 20, Primary: "a", TTL: 20, MinCommit: 27, Muts: map[string]byte{"a": 'd', "b": 'p'}},
				3: {Start: 30, Primary: "b", TTL: 0, Muts: map[string]byte{"a": 'l', "b": 'p'}},
			}
			// T1: ttl 20 (expires at current_ts >= 30), min_commit_ts pushed to 25 by a caller at 24:
			//     commits at 24 (= min_commit_ts-1, refused) and 25 (accepted).
			// T2: prewritten with min_commit_ts 27: commits at 26 (refused) and 27; re-prewrite of the key by a later transaction.
			// T3: ttl 0 (never expires), primary b.
			life := []string{
				"pw:1:a", "cm:1:a:25", "rb:1:a", "cs:1:29:0:0", "cs:1:30:0:0", "cs:1:29:24:0", "cm:1:a:24",
				"pw:2:a", "cm:2:a:26", "cm:2:a:27", "rb:2:a", "rs:2:ab:0", "rs:2:ab:26",
				"pw:3:a", "rb:3:a", "cs:3:99:0:0",
				// callers whose current_ts lies BELOW the lock's start ts (start_ts-1 and 0): never expired
				"cs:1:9:0:0", "cs:1:0:0:0",
			}
			lifeWide := append(append([]string{}, life...),
				"cs:2:40:0:0", "cs:2:39:0:0", "rs:2:ab:27", "cm:3:a:39", "pw:1:b", "rb:1:ab", "pw:3:b", "cs:3:99:40:1", "cm:1:ab:25", "pw:2:ab",
				"cs:2:19:0:0", "cs:1:1:0:0", "cs:2:0:0:1")
			place := []string{"pw:1:a", "cm:1:a:25", "rb:1:a", "pw:2:a", "cs:1:29:24:0", "cm:2:a:27", "rb:2:a"}
			var cfgs []percseq.Config
			if r.Quick() {
				cfgs = []percseq.Config{
					{P: percseq.Params{Name: "lifetime", Cfg: small, Keys: []string{"a", "b"}, Txns: tx, Ops: life,
						MaxReq: 8, Namespaced: true, NSPerDB: 128, Dedup: true}, Depth: 8},
					{P: percseq.Params{Name: "lifetime-two-keys", Cfg: small, Keys: []string{"a", "b"}, Txns: tx, Ops: lifeWide,
						MaxReq: 5, Namespaced: true, NSPerDB: 128, Dedup: true}, Depth: 5},
					{P: percseq.Params{Name: "placement", Cfg: small, Keys: []string{"a"}, Txns: tx, Ops: place[:4],
						MaxReq: 3, MaxMaint: 3, Maint: []string{"rf", "l0-base", "ingest-drain", "reopen"}, Dedup: true}, Depth: 6},
				}
			} else {
				cfgs = []percseq.Config{
					{P: percseq.Params{Name: "lifetime", Cfg: small, Keys: []string{"a", "b"}, Txns: tx, Ops: life,
						MaxReq: 12, Namespaced: true, NSPerDB: 128, Dedup: true}, Depth: 12},
					{P: percseq.Params{Name: "lifetime-two-keys", Cfg: small, Keys: []string{"a", "b"}, Txns: tx, Ops: lifeWide,
						MaxReq: 10, Namespaced: true, NSPerDB: 128, Dedup: true}, Depth: 10},
					{P: percseq.Params{Name: "placement", Cfg: small, Keys: []string{"a"}, Txns: tx, Ops: place,
						MaxReq: 5, MaxMaint: 5, Maint: []string{"rf", "l0-base", "ingest-drain", "ingest-keep", "l0-l0", "reopen"}, Dedup: true}, Depth: 10},
					// enough flushes for the L0->L0 merge (needs >= 4 L0 tables) and what follows it
					{P: percseq.Params{Name: "placement-l0-l0", Cfg: small, Keys: []string{"a"}, Txns: tx, Ops: []string{"pw:1:a", "cm:1:a:25", "rb:1:a", "pw:2:a", "rb:2:a"},
						MaxReq: 5, MaxMaint: 7, Maint: []string{"rf", "l0-l0", "l0-base", "ingest-drain"}, Dedup: true}, Depth: 12},
					{P: percseq.Params{Name: "placement-fine-art", Cfg: dbh.Config{Engine: "art", Buckets: 2}, Keys: []string{"a"}, Txns: tx, Ops: place[:4],
						MaxReq: 4, MaxMaint: 5, Maint: []string{"rotate", "flush", "l0-base", "ingest-drain", "ingest-keep", "reopen"}, Dedup: true}, Depth: 9},
				}
			}
			return cfgs
		},
	})
}
