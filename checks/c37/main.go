//go:build verif

// C37 — operations and Close always finish.
// schedmc on a real DB (dbsched): writers, readers/iterators, a throttle toggler and a
// concurrent Close; the scheduler detects deadlock (no enabled thread), livelock (only
// polling threads beyond the fair-yield horizon) and calls that never return.
package main

import (
	"fmt"
	"os"
	"strings"

	NoKV "github.com/feichai0017/NoKV"
	"github.com/feichai0017/NoKV/utils"

	"verif/lib/dbh"
	"verif/lib/dbsched"
	"verif/lib/schedmc"
	"verif/lib/vr"
	"verif/shim/vsched"
)

type scen struct {
	name    string
	cfg     dbh.Config
	clients []string // scripts: comma separated ops: set,get,del,scan,txn,thr-on,thr-off,thr-hold
	closeCC bool     // Close runs concurrently with the clients
}

func scenarios(thorough bool) []scen {
	base := dbh.Config{Engine: "skiplist", QueueCap: 2}
	s := []scen{
		{"set|get,scan|close", base, []string{"set", "get,scan"}, true},
		{"set,set|set|close", base, []string{"set,set", "set"}, true},
		{"thr-hold|set|close", base, []string{"thr-on", "set"}, true},
		{"thr-on,thr-off|set,get", base, []string{"thr-on,thr-off", "set,get"}, false},
		{"txn|get|close", base, []string{"txn", "get"}, true},
		// a commit that fails because of Close must not leave later transactions waiting forever
		{"txn,txn|close", base, []string{"txn,txn"}, true},
		{"thr-hold|txn,view|close", base, []string{"thr-on", "txn,view"}, true},
		{"set|set|set(queue=2)", base, []string{"set", "set", "set"}, false},
		// a transaction begins (and waits for the commit watermark) while another one commits
		{"txn|view", base, []string{"txn", "view"}, false},
	}
	if thorough {
		s = append(s,
			scen{"set,get|txn,scan|close", base, []string{"set,get", "txn,scan"}, true},
			scen{"set|set|set|close", base, []string{"set", "set", "set"}, true},
		)
	}
	return s
}

func run(db *NoKV.DB, op string, n int, log *[]string, closed *bool) {
	key := []byte("a")
	var err error
	afterClose := *closed
	defer func() {
		// The statement only promises that a call issued after Close has returned does not
		// block; how such a use-after-close fails (error or panic) is not constrained.
		if r := recover(); r != nil {
			if !afterClose {
				panic(r)
			}
			*log = append(*log, op+":panic-after-close")
		}
	}()
	switch op {
	case "set":
		err = db.Set(key, []byte(fmt.Sprint("v", n)))
	case "del":
		err = db.Del(key)
	case "get":
		_, err = db.Get(key)
	case "scan":
		it := db.NewIterator(&utils.Options{IsAsc: true})
		if it != nil {
			for it.Rewind(); it.Valid(); it.Next() {
			}
			err = it.Close()
		}
	case "txn":
		txn := db.NewTransaction(true)
		_ = txn.Set(key, []byte("t"))
		err = txn.Commit()
	case "view":
		err = db.View(func(txn *NoKV.Txn) error { _, e := txn.Get(key); _ = e; return nil })
	case "thr-on":
		db.VerifSetThrottle(true)
	case "thr-off":
		db.VerifSetThrottle(false)
	}
	res := "ok"
	if err != nil {
		res = "err"
	}
	*log = append(*log, op+":"+res)
}

func setupFor(sc scen, base string) func() *schedmc.Exec {
	return func() *schedmc.Exec {
		var log []string
		finished := make([]bool, len(sc.clients))
		s := &dbsched.Scenario{Name: sc.name, Cfg: sc.cfg, CloseConcurrently: sc.closeCC}
		s.Prepare = func(db *NoKV.DB) { _ = db.Set([]byte("a"), []byte("0")) }
		for ci, script := range sc.clients {
			s.Clients = append(s.Clients, func(db *NoKV.DB) {
				for n, op := range strings.Split(script, ",") {
					run(db, op, ci*10+n, &log, &s.Closed)
				}
				finished[ci] = true
			})
		}
		final := func(res vsched.Result, closeErr error) (string, string) {
			for i, f := range finished {
				if !f {
					return "client-not-finished", fmt.Sprintf("client %d (%s) never returned; log: %s", i, sc.clients[i], strings.Join(log, " "))
				}
			}
			return "", ""
		}
		return dbsched.Exec(s, base, nil, final, func() string { return strings.Join(log, " ") })
	}
}

func main() {
	r := vr.Start("C37")
	bound := r.Pick(1, 2)
	if b := os.Getenv("VERIF_BOUND"); b != "" {
		fmt.Sscan(b, &bound)
	}
	opts := func(name string) schedmc.Options {
		return schedmc.Options{Name: name, Bound: bound, StartQuiet: true, MaxSteps: 2000000, YieldHorizon: 200}
	}
	if r.ReplayPath != "" {
		var rp struct {
			Harness string
			Choices []int
		}
		r.LoadReplay(&rp)
		for _, sc := range scenarios(true) {
			if sc.name == rp.Harness {
				sig, desc, tr := schedmc.Replay(setupFor(sc, r.Scratch()), opts(sc.name), rp.Choices)
				if len(tr) > 3000 {
					tr = "…" + tr[len(tr)-3000:]
				}
				fmt.Println("replay trace (tail):", tr)
				if sig != "" {
					r.Violation(sig, desc, rp)
				}
				r.Finish(vr.Coverage{Level: "model_checking", States: 1, Transitions: 1, Evaluations: 1, Distinct: 2, Samples: []any{"replay"}, Rule: "replay"})
			}
		}
		vr.Fatalf("unknown harness %q", rp.Harness)
	}
	scs := scenarios(r.Thorough())
	basedir := r.Scratch()
	total := r.RunSharded(vr.Workers(), func(sh vr.ShardInfo, p *vr.Partial) {
		dir := fmt.Sprintf("%s/w%d", basedir, sh.Index)
		var items []schedmc.Item
		for _, sc := range scs {
			items = append(items, schedmc.Item{Name: sc.name, Run: func(expired func() bool, sub *vr.Partial) {
				schedmc.Explore(setupFor(sc, dir), opts(sc.name), sh, sub, expired)
				for k := range sub.Violations {
					v := &sub.Violations[k]
					// canonical: scenario + mechanism (the mechanism alone would merge unrelated hangs)
					if i := strings.Index(v.Sig, "\n"); i > 0 {
						v.Sig = v.Sig[:i]
					}
				}
			}})
		}
		schedmc.ExploreAll(r, p, items)
	})
	r.RequireOutcomes(total.Card("outcomes"), 4)
	var names []string
	for _, sc := range scs {
		names = append(names, sc.name)
	}
	completed := schedmc.Completed(total, names)
	r.Finish(vr.Coverage{
		Level:       "model_checking",
		Evaluations: total.Counters["executions"],
		Distinct:    total.Card("outcomes"),
		Rule:        "every schedule with at most `bound` preemptions of 2-3 client threads (Set/Get/iterator scan/transaction commit/throttle on-off), the commit worker and a Close running concurrently, on a fresh real DB with a 2-slot commit queue; violation = deadlock (no enabled thread), livelock (only fair-yielding pollers enabled for 200 rounds), a client or Close that never returns, or a panic; distinct = distinct result logs",
		Samples:     total.SamplesAny(),
		States:      total.Counters["steps"],
		Transitions: total.Counters["steps"],
		Validated:   total.Counters["executions"],
		Exhaustive:  len(completed) == len(names),
		Outcomes:    total.Card("outcomes"),
		Bounds:      map[string]any{"preemption_bound": bound, "scenarios": names, "scenarios_enumerated_completely": completed, "commit_queue_capacity": 2, "yield_horizon": 200},
		Extra:       map[string]any{"schedules": total.Counters["executions"], "max_decisions_per_schedule": total.Counters["max_decisions"]},
		Assumptions: []string{"instrumented files: db.go, db_write.go, write_request.go, txn.go, utils/ringbuffer.go, utils/watermarker.go, utils/closer.go; LSM/WAL internals are atomic steps", "polling loops (time.Sleep / runtime.Gosched) are fair yields", "real-time based waits are not modelled"},
	})
}
