//go:build verif

// C10 — DB-level crash-point enumeration (crashmc); see lib/crashdb.
package main

import "verif/lib/crashdb"

func main() { crashdb.Main(crashdb.C10) }
