//go:build verif

// C27 — PD timestamps and IDs are unique and increasing across restarts.
// schedmc: preemption-bounded exploration of concurrent Tso/AllocID calls on the real
// pd/server.Service backed by a real LocalStore; after every scheduling step the
// persisted checkpoint is read back and compared with everything already handed out
// (a restart at that instant resumes from checkpoint+1).
package main

import (
	"context"
	"encoding/json"
	"fmt"
	"os"
	"path/filepath"
	"runtime"
	"sort"
	"strings"

	"github.com/feichai0017/NoKV/pb"
	"github.com/feichai0017/NoKV/pd/core"
	pdserver "github.com/feichai0017/NoKV/pd/server"
	pdstorage "github.com/feichai0017/NoKV/pd/storage"
	"github.com/feichai0017/NoKV/pd/tso"
	"github.com/feichai0017/NoKV/vfs"

	"verif/lib/schedmc"
	"verif/lib/vr"
	"verif/shim/vsched"
)

// pointFS makes the two persistence steps separate scheduling points (and therefore
// separate "restart here" instants for the monitor).
type pointFS struct{ vfs.FS }

func (f pointFS) WriteFile(name string, data []byte, perm os.FileMode) error {
	vsched.Named("fs.writefile")
	return f.FS.WriteFile(name, data, perm)
}

func (f pointFS) Rename(o, n string) error {
	vsched.Named("fs.rename")
	return f.FS.Rename(o, n)
}

type call struct {
	kind  string // tso | id
	count uint64
}

type resp struct {
	kind        string
	first, last uint64
	invokedAt   int // logical clock
	returnedAt  int
	thread      int
}

type scenario struct {
	name    string
	threads [][]call
	startID uint64
	startTS uint64
}

func (sc scenario) String() string { return sc.name }

func mk(name string, threads ...[]call) scenario { return scenario{name: name, threads: threads} }

func scenarios(thorough bool) []scenario {
	t1, t3, i1, i3 := call{"tso", 1}, call{"tso", 3}, call{"id", 1}, call{"id", 3}
	s := []scenario{
		mk("tso1|tso1", []call{t1}, []call{t1}),
		mk("tso3|tso1", []call{t3}, []call{t1}),
		mk("id1|id3", []call{i1}, []call{i3}),
		mk("tso1|id1", []call{t1}, []call{i1}),
		mk("tso1,tso1|tso1", []call{t1, t1}, []call{t1}),
		mk("tso1|tso1|tso1", []call{t1}, []call{t1}, []call{t1}),
		// mixed kinds on three threads: a checkpoint sample can be older in one counter and
		// newer in the other than what is already on disk
		mk("tso1|id1|tso1", []call{t1}, []call{i1}, []call{t1}),
		mk("id1|tso1|id1", []call{i1}, []call{t1}, []call{i1}),
	}
	if thorough {
		s = append(s,
			mk("tso1,id1|id1,tso1", []call{t1, i1}, []call{i1, t1}),
			mk("tso1,tso3|tso3,tso1", []call{t1, t3}, []call{t3, t1}),
			mk("tso1|id1|tso3", []call{t1}, []call{i1}, []call{t3}),
			mk("id1,id1|id3|id1", []call{i1, i1}, []call{i3}, []call{i1}),
		)
	}
	return s
}

var execSeq int

func setupFor(sc scenario, base string) func() *schedmc.Exec {
	return func() *schedmc.Exec {
		execSeq++
		dir := filepath.Join(base, fmt.Sprintf("e%d", execSeq%4))
		_ = os.RemoveAll(dir)
		_ = os.MkdirAll(dir, 0o755)
		store, err := pdstorage.OpenLocalStore(dir, pointFS{vfs.OSFS{}})
		if err != nil {
			vr.Fatalf("open local store: %v", err)
		}
		snap, err := store.Load()
		if err != nil {
			vr.Fatalf("load: %v", err)
		}
		idStart, tsStart := pdstorage.ResolveAllocatorStarts(1, 1, snap.Allocator)
		svc := pdserver.NewService(core.NewCluster(), core.NewIDAllocator(idStart), tso.NewAllocator(tsStart))
		svc.SetStorage(store)
		clock := 0
		var resps []resp
		maxOut := map[string]uint64{}
		var bodies []func()
		for ti, calls := range sc.threads {
			bodies = append(bodies, func() {
				for _, c := range calls {
					inv := 0
					if !schedmc.FreeRunning {
						clock++
						inv = clock
					}
					var first, n uint64
					if c.kind == "tso" {
						r, err := svc.Tso(context.Background(), &pb.TsoRequest{Count: c.count})
						if err != nil {
							continue // an error hands nothing out
						}
						first, n = r.GetTimestamp(), r.GetCount()
					} else {
						r, err := svc.AllocID(context.Background(), &pb.AllocIDRequest{Count: c.count})
						if err != nil {
							continue
						}
						first, n = r.GetFirstId(), r.GetCount()
					}
					if schedmc.FreeRunning {
						continue // free-running -race pass: no oracle bookkeeping
					}
					clock++
					resps = append(resps, resp{c.kind, first, first + n - 1, inv, clock, ti})
					if first+n-1 > maxOut[c.kind] {
						maxOut[c.kind] = first + n - 1
					}
				}
			})
		}
		readCheckpoint := func() pdstorage.AllocatorState {
			var st pdstorage.AllocatorState
			data, err := os.ReadFile(filepath.Join(dir, pdstorage.StateFileName))
			if err == nil && len(data) > 0 {
				if err := json.Unmarshal(data, &st); err != nil {
					return pdstorage.AllocatorState{IDCurrent: ^uint64(0) - 1, TSCurrent: ^uint64(0) - 1} // unreadable: handled by Load() error path, not here
				}
			}
			return st
		}
		return &schedmc.Exec{
			Threads: bodies,
			Monitor: func() (string, string) {
				// uniqueness / order of what was handed out
				for i := range resps {
					for j := i + 1; j < len(resps); j++ {
						a, b := resps[i], resps[j]
						if a.kind != b.kind {
							continue
						}
						if a.first <= b.last && b.first <= a.last {
							return a.kind + "-duplicate", fmt.Sprintf("%s ranges overlap: [%d,%d] and [%d,%d]", a.kind, a.first, a.last, b.first, b.last)
						}
						if a.returnedAt < b.invokedAt && b.first <= a.last {
							return a.kind + "-not-increasing", fmt.Sprintf("%s [%d,%d] was returned before the call that got [%d,%d] started", a.kind, a.first, a.last, b.first, b.last)
						}
						if b.returnedAt < a.invokedAt && a.first <= b.last {
							return a.kind + "-not-increasing", fmt.Sprintf("%s [%d,%d] was returned before the call that got [%d,%d] started", b.kind, b.first, b.last, a.first, a.last)
						}
					}
				}
				// restart safety: a restart now resumes at checkpoint+1
				st := readCheckpoint()
				idNext, tsNext := pdstorage.ResolveAllocatorStarts(1, 1, st)
				if maxOut["tso"] >= tsNext {
					return "tso-reissued-after-restart", fmt.Sprintf("timestamp %d was already returned to a client but the checkpoint on disk is %d: a restart now hands out %d again", maxOut["tso"], st.TSCurrent, tsNext)
				}
				if maxOut["id"] >= idNext {
					return "id-reissued-after-restart", fmt.Sprintf("id %d was already returned to a client but the checkpoint on disk is %d: a restart now hands out %d again", maxOut["id"], st.IDCurrent, idNext)
				}
				return "", ""
			},
			Outcome: func() string {
				var parts []string
				for _, r := range resps {
					parts = append(parts, fmt.Sprintf("T%d:%s[%d,%d]", r.thread, r.kind, r.first, r.last))
				}
				sort.Strings(parts)
				st := readCheckpoint()
				return strings.Join(parts, " ") + fmt.Sprintf(" ckpt=%d/%d", st.IDCurrent, st.TSCurrent)
			},
			Cleanup: func() { _ = store.Close() },
		}
	}
}

func main() {
	if os.Getenv("VERIF_PROP") == "C27-race" {
		// supporting pass: the same thread bodies, free-running under the race detector
		r := vr.Start("C27-race")
		var scs []schedmc.Scenario
		for _, sc := range scenarios(true) {
			scs = append(scs, schedmc.Scenario{Name: sc.name, Setup: setupFor(sc, r.Scratch())})
		}
		schedmc.FreeRunMain(r, scs, r.Pick(100, 1000))
	}
	r := vr.Start("C27")
	bound := r.Pick(3, 5)
	if r.ReplayPath != "" {
		var rp struct {
			Harness string
			Choices []int
		}
		r.LoadReplay(&rp)
		for _, sc := range scenarios(true) {
			if sc.name == rp.Harness {
				sig, desc, tr := schedmc.Replay(setupFor(sc, r.Scratch()), schedmc.Options{Name: sc.name, Exclusive: true}, rp.Choices)
				fmt.Println("replay trace:", tr)
				if sig != "" {
					r.Violation(sig, desc, rp)
				}
				r.Finish(vr.Coverage{Level: "model_checking", States: 1, Transitions: 1, Evaluations: 1, Distinct: 2, Samples: []any{tr}, Rule: "replay"})
			}
		}
		vr.Fatalf("unknown harness %q", rp.Harness)
	}
	scs := scenarios(r.Thorough())
	base := r.Scratch()
	total := r.RunSharded(vr.Workers(), func(sh vr.ShardInfo, p *vr.Partial) {
		runtime.GOMAXPROCS(1)
		dir := filepath.Join(base, fmt.Sprintf("w%d", sh.Index))
		for _, sc := range scs {
			sub := vr.NewPartial()
			schedmc.Explore(setupFor(sc, dir), schedmc.Options{Name: sc.name, Bound: bound, Exclusive: true}, sh, sub, r.Expired)
			for k := range sub.Violations {
				v := &sub.Violations[k]
				v.Sig = v.Sig[strings.Index(v.Sig, ": ")+2:] // canonical: mechanism only; the scenario stays in the replay
			}
			p.Merge(sub)
		}
	})
	r.RequireOutcomes(total.Card("outcomes"), 4)
	var names []string
	for _, sc := range scs {
		names = append(names, sc.name)
	}
	r.Finish(vr.Coverage{
		Level:       "model_checking",
		Evaluations: total.Counters["executions"],
		Distinct:    total.Card("outcomes"),
		Rule:        "every schedule with at most `bound` preemptions of 2-3 client threads issuing 1-2 Tso/AllocID calls (counts 1 and 3) against the real PD service with a real file-backed LocalStore; scheduling points: every atomic/mutex operation of pd/tso, pd/core, pd/storage, pd/server plus the WriteFile and Rename steps of the checkpoint; after every step: handed-out ranges pairwise disjoint, increasing in real-time order, and max handed out <= checkpoint on disk; distinct = distinct (responses, final checkpoint) outcomes",
		Samples:     total.SamplesAny(),
		States:      total.Counters["steps"],
		Transitions: total.Counters["steps"],
		Validated:   total.Counters["executions"],
		Exhaustive:  !total.TimedOut,
		Outcomes:    total.Card("outcomes"),
		Bounds:      map[string]any{"preemption_bound": bound, "scenarios": names},
		Extra:       map[string]any{"schedules": total.Counters["executions"], "max_decisions_per_schedule": total.Counters["max_decisions"]},
		Assumptions: []string{"process-crash model: the checkpoint a restart sees is the state file as the OS has it at that instant", "sequentially consistent atomics"},
	})
}
