//go:build verif

// C21 — persisted raft state and log survive a process crash.
//
// Part A: engine.WALStorage over a real wal.Manager + manifest.Manager (shared directory, all
// I/O through lib/crashfs) is driven exactly the way Peer.handleReady drives it: per simulated
// Ready SetHardState -> ApplySnapshot -> Append -> MaybeCompact, then a "messages sent" mark (from
// that instant the peer has acted on the state). Readys are generated from a reference model of
// the raft state: election (term+1, vote self), term raised without a vote, a vote granted in the
// current term (vote-only change), commit-only change, proposals (1 or 2 entries), a conflicting
// overwrite of the uncommitted suffix by a new leader (term+1), commit+compaction, snapshot
// install; interleaved with the two things the DB does to the shared WAL (Sync, segment
// switch). Every vfs crash point incl. torn writes is recovered with the real
// manifest.Verify/Open + wal.VerifyDir/Open + OpenWALStorage.
// WAL configurations: buffered (what NoKV.Open uses: SyncOnWrite=false, default 256 KiB bufio),
// buffered with a 64-byte bufio (records reach the OS in pieces), and SyncOnWrite=true.
//
// Part B (cross-check): a real peer.Peer (2 voters, recording transport) runs scripted
// campaigns / vote grants / appends; an image is taken inside every transport.Send and the
// recovered storage must hold what the message promises (vote, term, acknowledged entries).
//
// Oracle (property text): reopening succeeds; with S = state after the last Ready whose
// messages were sent before the crash: term' >= S.term, vote' == S.vote when term' == S.term
// (and S.vote != 0), commit' >= S.commit; the recovered log equals the log after some prefix of the storage calls
// made since S (every entry of S present, later overwrites winning, nothing invented), compared
// above the truncation/snapshot index. After a clean close the state is recovered exactly.
package main

import (
	"encoding/json"
	"fmt"
	"math"
	"os"
	"path/filepath"
	"regexp"
	"runtime/debug"
	"strconv"
	"strings"

	"github.com/feichai0017/NoKV/manifest"
	myraft "github.com/feichai0017/NoKV/raft"
	"github.com/feichai0017/NoKV/raftstore/engine"
	"github.com/feichai0017/NoKV/vfs"
	"github.com/feichai0017/NoKV/wal"
	raftpb "go.etcd.io/raft/v3/raftpb"

	"verif/lib/crashfs"
	"verif/lib/vr"
)

// ---------- reference model ----------

type ent struct {
	Term uint64
	Data string
}

type mstate struct {
	Term, Vote, Commit uint64
	SnapIdx, SnapTerm  uint64
	Trunc              uint64 // in-memory compaction point (never below SnapIdx)
	Last               uint64
	Log                map[uint64]ent // indexes > SnapIdx
}

func (s mstate) clone() mstate {
	n := s
	n.Log = make(map[uint64]ent, len(s.Log))
	for k, v := range s.Log {
		n.Log[k] = v
	}
	return n
}

func (s mstate) String() string {
	var sb strings.Builder
	fmt.Fprintf(&sb, "term=%d vote=%d commit=%d snap=%d@%d trunc=%d last=%d log[", s.Term, s.Vote, s.Commit, s.SnapIdx, s.SnapTerm, s.Trunc, s.Last)
	for i := s.SnapIdx + 1; i <= s.Last; i++ {
		if e, ok := s.Log[i]; ok {
			fmt.Fprintf(&sb, "%d:%d/%s ", i, e.Term, e.Data)
		}
	}
	sb.WriteString("]")
	return sb.String()
}

// call is one storage call of a Ready.
type call struct {
	Kind    string // hs snap app compact
	HS      myraft.HardState
	Snap    myraft.Snapshot
	Entries []myraft.Entry
	Applied uint64
}

func (c call) String() string {
	switch c.Kind {
	case "hs":
		return fmt.Sprintf("SetHardState{t%d v%d c%d}", c.HS.Term, c.HS.Vote, c.HS.Commit)
	case "snap":
		return fmt.Sprintf("ApplySnapshot{%d@%d}", c.Snap.Metadata.Index, c.Snap.Metadata.Term)
	case "app":
		return fmt.Sprintf("Append{%d..%d@t%d}", c.Entries[0].Index, c.Entries[len(c.Entries)-1].Index, c.Entries[0].Term)
	}
	return fmt.Sprintf("MaybeCompact{applied=%d,retain=1}", c.Applied)
}

func (s mstate) apply(c call) mstate {
	n := s.clone()
	switch c.Kind {
	case "hs":
		n.Term, n.Vote, n.Commit = c.HS.Term, c.HS.Vote, c.HS.Commit
	case "snap":
		n.SnapIdx, n.SnapTerm = c.Snap.Metadata.Index, c.Snap.Metadata.Term
		n.Log = map[uint64]ent{}
		n.Last = n.SnapIdx
		n.Trunc = n.SnapIdx
	case "app":
		first := c.Entries[0].Index
		for i := range n.Log {
			if i >= first {
				delete(n.Log, i)
			}
		}
		for _, e := range c.Entries {
			n.Log[e.Index] = ent{e.Term, string(e.Data)}
		}
		n.Last = c.Entries[len(c.Entries)-1].Index
	case "compact":
		if c.Applied > 1 && c.Applied-1 > n.Trunc {
			n.Trunc = c.Applied - 1
		}
	}
	return n
}

// ready builds the storage calls of Ready kind `op` from state s (nil = not enabled).
func ready(op string, s mstate, step int) []call {
	mk := func(idx, term uint64, k int) myraft.Entry {
		return myraft.Entry{Index: idx, Term: term, Type: myraft.EntryNormal, Data: []byte(fmt.Sprintf("d%d.%d", step, k))}
	}
	switch op {
	case "elect": // candidate: term+1, vote for self -> MsgVote
		return []call{{Kind: "hs", HS: myraft.HardState{Term: s.Term + 1, Vote: 1, Commit: s.Commit}}}
	case "termup": // a higher-term non-vote message arrives: term+1, no vote cast -> response sent
		return []call{{Kind: "hs", HS: myraft.HardState{Term: s.Term + 1, Vote: 0, Commit: s.Commit}}}
	case "grant": // vote granted in the CURRENT term (vote-only hard-state change) -> MsgVoteResp
		if s.Term == 0 || s.Vote != 0 {
			return nil
		}
		return []call{{Kind: "hs", HS: myraft.HardState{Term: s.Term, Vote: 2, Commit: s.Commit}}}
	case "commitonly": // commit index advances, nothing else (commit-only hard-state change)
		if s.Last <= s.Commit {
			return nil
		}
		return []call{{Kind: "hs", HS: myraft.HardState{Term: s.Term, Vote: s.Vote, Commit: s.Commit + 1}}}
	case "prop": // leader appends one proposal -> MsgApp
		if s.Term == 0 {
			return nil
		}
		return []call{{Kind: "app", Entries: []myraft.Entry{mk(s.Last+1, s.Term, 0)}}}
	case "prop2":
		if s.Term == 0 {
			return nil
		}
		return []call{{Kind: "app", Entries: []myraft.Entry{mk(s.Last+1, s.Term, 0), mk(s.Last+2, s.Term, 1)}}}
	case "ovw": // follower of a new leader: term+1, vote 2, uncommitted suffix overwritten -> MsgAppResp
		low := s.Commit
		if s.SnapIdx > low {
			low = s.SnapIdx
		}
		if s.Last <= low {
			return nil
		}
		return []call{{Kind: "hs", HS: myraft.HardState{Term: s.Term + 1, Vote: 2, Commit: s.Commit}},
			{Kind: "app", Entries: []myraft.Entry{mk(low+1, s.Term+1, 0)}}}
	case "commit": // commit index advances to last, entries applied, log compacted (retain 1)
		if s.Last <= s.Commit {
			return nil
		}
		return []call{{Kind: "hs", HS: myraft.HardState{Term: s.Term, Vote: s.Vote, Commit: s.Last}}, {Kind: "compact", Applied: s.Last}}
	case "snap": // snapshot from the leader beyond our log
		t := s.Term
		if t == 0 {
			t = 1
		}
		idx := s.Last + 2
		return []call{{Kind: "hs", HS: myraft.HardState{Term: t, Vote: s.Vote, Commit: idx}},
			{Kind: "snap", Snap: myraft.Snapshot{Data: []byte(fmt.Sprintf("snap%d", step)), Metadata: raftpb.SnapshotMetadata{Index: idx, Term: t, ConfState: raftpb.ConfState{Voters: []uint64{1, 2}}}}}}
	}
	return nil
}

// readyAll is the full alphabet; readyCore drops the two kinds that add length but no new kind of
// hard-state/log change (prop2, commitonly) and is used for the deepest level.
var readyAll = []string{"elect", "termup", "grant", "prop", "ovw", "commit", "commitonly", "prop2", "snap"}
var readyCore = []string{"elect", "termup", "grant", "prop", "ovw", "commit", "snap"}
var extOps = []string{"walsync", "rotate"}

// ---------- configurations ----------

type Cfg struct {
	Name        string
	SyncOnWrite bool
	Buf         int
	Seg         int64 // WAL segment size (0 = default 64 MiB)
	NoManifest  bool  // WALStorage without a manifest (no raft pointer is logged or validated)
}

var cfgs = []Cfg{{Name: "buffered"}, {Name: "buffered64", Buf: 64}, {Name: "sync", SyncOnWrite: true}}

// rollCfgs: minimum segment size, used by the roll-over plan in which a filler record (an LSM
// write on the shared WAL) brings the active segment to a chosen fill level right before a Ready.
var rollCfgs = []Cfg{{Name: "roll", Seg: 64 << 10, Buf: 8192}, {Name: "roll-nomanifest", Seg: 64 << 10, Buf: 8192, NoManifest: true}}

func (c Cfg) wal(dir string, fs vfs.FS, recovery bool) wal.Config {
	b := c.Buf
	if recovery {
		b = 4096
	}
	return wal.Config{Dir: dir, SyncOnWrite: c.SyncOnWrite, BufferSize: b, SegmentSize: c.Seg, FS: fs}
}

// ---------- recovery ----------

type recovered struct {
	Err, Det            string
	Term, Vote, Commit  uint64
	First, Last, SnapIx uint64
	SnapTerm            uint64
	Log                 map[uint64]ent
}

var digits = regexp.MustCompile(`[0-9]+`)

func norm(s string) string {
	if i := strings.Index(s, "/dev/shm"); i >= 0 {
		j := strings.LastIndex(s, "/")
		s = s[:i] + s[j+1:]
	}
	s = digits.ReplaceAllString(s, "N")
	if len(s) > 70 {
		s = s[:70]
	}
	return strings.ReplaceAll(s, " ", "_")
}

func openStorage(dir string, cfg Cfg, group uint64) (ws *engine.WALStorage, w *wal.Manager, m *manifest.Manager, stage string, err error) {
	defer func() {
		if r := recover(); r != nil {
			err = fmt.Errorf("panic: %v", r)
		}
	}()
	stage = "manifest-verify"
	if !cfg.NoManifest {
		if e := manifest.Verify(dir, nil); e != nil && !os.IsNotExist(e) && !strings.Contains(e.Error(), "no such file") {
			return nil, nil, nil, stage, e
		}
	}
	stage = "wal-verify"
	if e := wal.VerifyDir(dir, nil); e != nil {
		return nil, nil, nil, stage, e
	}
	stage = "wal-open"
	w, err = wal.Open(cfg.wal(dir, nil, true))
	if err != nil {
		return nil, nil, nil, stage, err
	}
	if !cfg.NoManifest {
		stage = "manifest-open"
		m, err = manifest.Open(dir, nil)
		if err != nil {
			_ = w.Close()
			return nil, nil, nil, stage, err
		}
	}
	stage = "storage-open"
	ws, err = engine.OpenWALStorage(engine.WALStorageConfig{GroupID: group, WAL: w, Manifest: m})
	if err != nil {
		_ = w.Close()
		if m != nil {
			_ = m.Close()
		}
		return nil, nil, nil, stage, err
	}
	return ws, w, m, "", nil
}

func readState(ws *engine.WALStorage) (out recovered, err error) {
	defer func() {
		if r := recover(); r != nil {
			err = fmt.Errorf("panic reading state: %v", r)
		}
	}()
	hs, _, e := ws.InitialState()
	if e != nil {
		return out, e
	}
	out.Term, out.Vote, out.Commit = hs.Term, hs.Vote, hs.Commit
	out.First, _ = ws.FirstIndex()
	out.Last, _ = ws.LastIndex()
	if snap, e := ws.Snapshot(); e == nil {
		out.SnapIx, out.SnapTerm = snap.Metadata.Index, snap.Metadata.Term
	}
	out.Log = map[uint64]ent{}
	if out.Last >= out.First {
		ents, e := ws.Entries(out.First, out.Last+1, math.MaxUint64)
		if e != nil {
			return out, e
		}
		for _, en := range ents {
			out.Log[en.Index] = ent{en.Term, string(en.Data)}
		}
	}
	return out, nil
}

func recoverImage(dir string, im *crashfs.Image, cfg Cfg) (out recovered) {
	_ = os.RemoveAll(dir)
	if err := im.Materialize(dir); err != nil {
		vr.Fatalf("materialize: %v", err)
	}
	defer os.RemoveAll(dir)
	ws, w, m, stage, err := openStorage(dir, cfg, 1)
	if err != nil {
		out.Err = stage + ":" + norm(err.Error())
		out.Det = err.Error()
		return out
	}
	defer w.Close()
	if m != nil {
		defer m.Close()
	}
	st, err := readState(ws)
	if err != nil {
		st.Err = "read:" + norm(err.Error())
		st.Det = err.Error()
	}
	return st
}

// matchLog reports whether the recovered log equals the model log of t above the truncation point.
func matchLog(r recovered, t mstate) bool {
	if r.Last != t.Last {
		return false
	}
	if t.SnapIdx > 0 && (r.SnapIx != t.SnapIdx || r.SnapTerm != t.SnapTerm) {
		return false
	}
	low := t.Trunc
	if t.SnapIdx > low {
		low = t.SnapIdx
	}
	for i := low + 1; i <= t.Last; i++ {
		e, ok := r.Log[i]
		if !ok || e != t.Log[i] {
			return false
		}
	}
	return true
}

// ---------- one history (part A) ----------

type Hist struct {
	Cfg  string   `json:"cfg"`
	Ops  []string `json:"ops"`
	Part string   `json:"part"`
	Roll *Roll    `json:"roll,omitempty"`
}

// Roll: before the last Ready a filler record is appended (and synced) to the shared WAL so that
// storage call number Call of that Ready finds the active segment in the given alignment class:
// "room" (fits, 16 bytes to spare), "exact" (fits exactly), "over" (one byte short: rolls over).
type Roll struct {
	Call  int    `json:"call"`
	Class string `json:"class"`
}

func (h Hist) String() string {
	s := fmt.Sprintf("%s [%s]", h.Cfg, strings.Join(h.Ops, " "))
	if h.Roll != nil {
		s += fmt.Sprintf(" fill-before-last-ready(call=%d,%s)", h.Roll.Call, h.Roll.Class)
	}
	return s
}

type runner struct {
	base      string
	cache     map[string]recovered
	p         *vr.Partial
	curImg    *crashfs.Image
	curRec    *recovered
	curCfg    Cfg
	confirmed map[string]bool
}

// confirm re-recovers a failing image from a fresh copy and demands the identical result.
func (rn *runner) confirm() {
	first := *rn.curRec
	for i := 0; i < 2; i++ {
		again := recoverImage(filepath.Join(rn.base, "case"), rn.curImg, rn.curCfg)
		if again.Err != first.Err || again.Term != first.Term || again.Vote != first.Vote || again.Last != first.Last || fmt.Sprint(again.Log) != fmt.Sprint(first.Log) {
			vr.Fatalf("non-deterministic recovery of image %s", rn.curImg.Describe())
		}
	}
}

func (rn *runner) recoverCached(im *crashfs.Image, cfg Cfg) recovered {
	key := cfg.Name + im.Hash
	if r, ok := rn.cache[key]; ok {
		rn.p.Add("cache_hits", 1)
		return r
	}
	r := recoverImage(filepath.Join(rn.base, "case"), im, cfg)
	rn.p.Add("recoveries", 1)
	if len(rn.cache) > 100000 {
		rn.cache = map[string]recovered{}
	}
	rn.cache[key] = r
	return r
}

func (rn *runner) viol(h Hist, sig, desc string) {
	if rn.curImg != nil && !rn.confirmed[sig] {
		if rn.confirmed == nil {
			rn.confirmed = map[string]bool{}
		}
		rn.confirmed[sig] = true
		rn.confirm()
	}
	blob, _ := json.Marshal(h)
	rn.p.Viol(sig, "history "+h.String()+": "+desc, string(blob))
}

func cfgByName(n string) Cfg {
	for _, c := range append(append([]Cfg(nil), cfgs...), rollCfgs...) {
		if c.Name == n {
			return c
		}
	}
	vr.Fatalf("unknown cfg %q", n)
	return Cfg{}
}

type opRec struct {
	Name   string
	Calls  []call
	States []mstate // States[0] = before the op, States[i] = after call i
	// accepted[i] = bytes the WAL manager had accepted per segment after call i (index 0: before)
	Accepted []map[uint32]int64
}

func walBytes(w *wal.Manager, acc map[uint32]int64) map[uint32]int64 {
	n := map[uint32]int64{}
	for k, v := range acc {
		n[k] = v
	}
	n[w.ActiveSegment()] = w.ActiveSize()
	return n
}

// imageLacks reports whether the image holds fewer WAL bytes than the manager had accepted.
func imageLacks(im *crashfs.Image, acc map[uint32]int64) bool {
	for seg, n := range acc {
		if int64(len(im.Files[fmt.Sprintf("%05d.wal", seg)])) < n {
			return true
		}
	}
	return false
}

// probeSizes runs the history without filler and crash recording and returns the active-segment
// size before the last Ready and the WAL record size of each of its storage calls.
func (rn *runner) probeSizes(h Hist) (used int64, sizes []int64) {
	ph := h
	ph.Roll = nil
	rn.exec(ph, true, 0, func(u int64, sz []int64) { used, sizes = u, sz })
	return used, sizes
}

func (rn *runner) run(h Hist) {
	fill := 0
	if h.Roll != nil {
		cfg := cfgByName(h.Cfg)
		used, sizes := rn.probeSizes(h)
		if h.Roll.Call >= len(sizes) || sizes[h.Roll.Call] == 0 {
			vr.Fatalf("%s: call %d writes no WAL record", h, h.Roll.Call)
		}
		spare := map[string]int64{"room": 16, "exact": 0, "over": -1}[h.Roll.Class]
		var prior int64
		for _, z := range sizes[:h.Roll.Call] {
			prior += z
		}
		f := cfg.Seg - spare - used - prior - sizes[h.Roll.Call]
		if f < 9 {
			vr.Fatalf("%s: no room for a filler (used=%d)", h, used)
		}
		fill = int(f)
	}
	rn.exec(h, false, fill, nil)
}

// exec runs one history. probe=true: plain fs, no recording, sizes of the last Ready reported.
func (rn *runner) exec(h Hist, probe bool, fill int, report func(used int64, sizes []int64)) {
	p := rn.p
	cfg := cfgByName(h.Cfg)
	dir := filepath.Join(rn.base, "main")
	_ = os.RemoveAll(dir)
	_ = os.MkdirAll(dir, 0o755)
	defer os.RemoveAll(dir)
	opt := crashfs.Options{Torn: true}
	if probe {
		opt = crashfs.Options{NoImages: true}
	}
	fs := crashfs.New(dir, opt)
	w, err := wal.Open(cfg.wal(dir, fs, false))
	if err != nil {
		vr.Fatalf("wal open: %v", err)
	}
	var m *manifest.Manager
	if !cfg.NoManifest {
		m, err = manifest.Open(dir, fs)
		if err != nil {
			vr.Fatalf("manifest open: %v", err)
		}
	}
	ws, err := engine.OpenWALStorage(engine.WALStorageConfig{GroupID: 1, WAL: w, Manifest: m})
	if err != nil {
		vr.Fatalf("storage open: %v", err)
	}
	if !probe && h.Roll == nil {
		fs.Start()
	}
	s := mstate{Log: map[uint64]ent{}}
	var recs []opRec
	var lastUsed int64
	var lastSizes []int64
	for k, name := range h.Ops {
		fs.SetLabel(strconv.Itoa(k))
		if k == len(h.Ops)-1 {
			lastUsed = w.ActiveSize()
			if !probe && h.Roll != nil {
				fs.Start() // crash points of the prefix are those of the shorter histories
				fs.SetLabel(strconv.Itoa(k))
			}
			if fill > 0 {
				// an LSM write of the DB sharing this WAL, made durable as a SyncWrites commit does
				if _, err := w.AppendRecords(wal.Record{Type: wal.RecordTypeEntry, Payload: make([]byte, fill-9)}); err != nil {
					vr.Fatalf("filler: %v", err)
				}
				if err := w.Sync(); err != nil {
					vr.Fatalf("filler sync: %v", err)
				}
			}
		}
		rec := opRec{Name: name, States: []mstate{s}}
		acc := map[uint32]int64{}
		if len(recs) > 0 {
			last := recs[len(recs)-1]
			acc = last.Accepted[len(last.Accepted)-1]
		}
		rec.Accepted = []map[uint32]int64{walBytes(w, acc)}
		switch name {
		case "walsync":
			if err := w.Sync(); err != nil {
				vr.Fatalf("sync: %v", err)
			}
		case "rotate":
			if err := w.SwitchSegment(w.ActiveSegment()+1, true); err != nil {
				vr.Fatalf("rotate: %v", err)
			}
		default:
			rec.Calls = ready(name, s, k)
			if rec.Calls == nil {
				vr.Fatalf("op %s not enabled in %s", name, s)
			}
			for _, c := range rec.Calls {
				var err error
				switch c.Kind {
				case "hs":
					err = ws.SetHardState(c.HS)
				case "snap":
					err = ws.ApplySnapshot(c.Snap)
				case "app":
					err = ws.Append(c.Entries)
				case "compact":
					err = ws.MaybeCompact(c.Applied, 1)
				}
				if err != nil {
					// the storage refused a call handleReady would make: outside the model, loud
					vr.Fatalf("%s: %s failed: %v", h, c, err)
				}
				s = s.apply(c)
				rec.States = append(rec.States, s)
				prevAcc := rec.Accepted[len(rec.Accepted)-1]
				rec.Accepted = append(rec.Accepted, walBytes(w, prevAcc))
				if k == len(h.Ops)-1 {
					lastSizes = append(lastSizes, w.ActiveSize()-prevAcc[w.ActiveSegment()])
				}
			}
			fs.Mark("sent")
		}
		recs = append(recs, rec)
	}
	pts := fs.Stop()
	// clean close: exact recovery
	_ = w.Close()
	if m != nil {
		_ = m.Close()
	}
	if probe {
		report(lastUsed, lastSizes)
		return
	}
	roll := ""
	if h.Roll != nil {
		last := recs[len(recs)-1]
		roll = fmt.Sprintf(" roll=%s.%s/%s", last.Name, last.Calls[h.Roll.Call].Kind, h.Roll.Class)
		if h.Roll.Class == "over" && len(last.Accepted[len(last.Accepted)-1]) < 2 {
			vr.Fatalf("%s: the filler did not make the WAL roll over", h)
		}
		p.Mark("roll_cases", roll)
	}
	if im, err := crashfs.Capture(dir, nil); err == nil {
		r := rn.recoverCached(im, cfg)
		rn.curImg, rn.curRec, rn.curCfg = im, &r, cfg
		switch {
		case r.Err != "":
			rn.viol(h, fmt.Sprintf("clean-reopen cfg=%s%s got=refused:%s", cfgClass(cfg), roll, r.Err), r.Det)
		case !matchLog(r, s) || r.Term != s.Term || r.Vote != s.Vote || r.Commit != s.Commit:
			rn.viol(h, fmt.Sprintf("clean-reopen cfg=%s%s got=state-differs", cfgClass(cfg), roll), fmt.Sprintf("model %s; recovered term=%d vote=%d commit=%d first=%d last=%d snap=%d log=%v", s, r.Term, r.Vote, r.Commit, r.First, r.Last, r.SnapIx, r.Log))
		}
	}
	p.Add("histories", 1)
	p.Max("max_points", int64(len(pts)))
	for _, pt := range pts {
		if pt.Label == "" || pt.Image == nil {
			continue
		}
		k, _ := strconv.Atoi(pt.Label)
		rec := recs[k]
		sent := pt.Op == "mark"
		var S mstate
		var allowed []mstate
		var acc map[uint32]int64
		at := "inflight"
		if sent {
			S = rec.States[len(rec.States)-1]
			allowed = []mstate{S}
			acc = rec.Accepted[len(rec.Accepted)-1]
			at = "sent"
		} else {
			S = rec.States[0]
			allowed = rec.States
			// bytes accepted by the WAL at this instant: unknown inside a call; the widest claim
			// (all calls of the running Ready) is used only to classify, never to excuse a loss of S
			acc = rec.Accepted[len(rec.Accepted)-1]
		}
		p.Add("points", 1)
		p.Mark("point_classes", pt.Class())
		unflushed := !cfg.SyncOnWrite && imageLacks(pt.Image, acc)
		r := rn.recoverCached(pt.Image, cfg)
		rn.curImg, rn.curRec, rn.curCfg = pt.Image, &r, cfg
		ctx := fmt.Sprintf("cfg=%s at=%s unflushed=%v%s", cfgClass(cfg), at, unflushed, roll)
		if r.Err != "" {
			rn.viol(h, fmt.Sprintf("%s got=reopen-refused:%s", ctx, r.Err), fmt.Sprintf("point %s image{%s}: %s", pt.String(), pt.Image.Describe(), r.Det))
			p.Mark("outcomes", ctx+"|refused")
			continue
		}
		kind := ""
		switch {
		case r.Term < S.Term:
			kind = "term-went-back"
		case r.Term == S.Term && S.Vote != 0 && r.Vote != S.Vote:
			kind = "vote-changed"
		case r.Commit < S.Commit:
			kind = "commit-went-back"
		default:
			ok := false
			for _, t := range allowed {
				if matchLog(r, t) {
					ok = true
				}
			}
			if !ok {
				kind = "log-not-a-call-prefix"
				if r.Last < S.Last {
					kind = "acted-entries-missing"
				}
			}
		}
		if kind != "" {
			rn.viol(h, fmt.Sprintf("%s got=%s", ctx, kind), fmt.Sprintf("point %s image{%s}: acted-on state %s; recovered term=%d vote=%d commit=%d first=%d last=%d snap=%d log=%v", pt.String(), pt.Image.Describe(), S, r.Term, r.Vote, r.Commit, r.First, r.Last, r.SnapIx, r.Log))
			p.Mark("outcomes", ctx+"|"+kind)
			continue
		}
		if pt.Phase == "torn" || unflushed {
			p.Add("nontrivial", 1)
		}
		p.Mark("outcomes", fmt.Sprintf("%s|ok|%s", ctx, pt.Class()))
	}
}

func cfgClass(c Cfg) string {
	switch {
	case c.SyncOnWrite:
		return "sync"
	case c.NoManifest:
		return "buffered-nomanifest"
	}
	return "buffered"
}

// lastCalls returns the storage calls of the last op of a path (nil for shared-WAL events).
func lastCalls(ops []string) []call {
	s := mstate{Log: map[uint64]ent{}}
	var calls []call
	for k, o := range ops {
		calls = ready(o, s, k)
		for _, c := range calls {
			s = s.apply(c)
		}
	}
	return calls
}

func enumerate(readyOps []string, depth int, fn func(ops []string)) {
	var rec func(path []string, s mstate)
	rec = func(path []string, s mstate) {
		if len(path) > 0 {
			fn(append([]string(nil), path...))
		}
		if len(path) == depth {
			return
		}
		for _, o := range readyOps {
			calls := ready(o, s, len(path))
			if calls == nil {
				continue
			}
			n := s
			for _, c := range calls {
				n = n.apply(c)
			}
			rec(append(path, o), n)
		}
		for _, o := range extOps {
			if len(path) == 0 || path[len(path)-1] == o {
				continue
			}
			rec(append(path, o), s)
		}
	}
	rec(nil, mstate{Log: map[uint64]ent{}})
}

func main() {
	r := vr.Start("C21")
	debug.SetGCPercent(800)
	if r.ReplayPath != "" {
		var h Hist
		r.LoadReplay(&h)
		p := vr.NewPartial()
		rn := &runner{base: r.Scratch(), cache: map[string]recovered{}, p: p}
		if h.Part == "B" {
			rn.runPeerScript(h)
		} else {
			rn.run(h)
		}
		for _, v := range p.Violations {
			fmt.Printf("replay: %s\n  %s\n", v.Sig, v.Desc)
			r.Violation(v.Sig, v.Desc, h)
		}
		r.Finish(vr.Coverage{Level: "fault_enumeration", Evaluations: p.Counters["points"], Distinct: 2, Rule: "replay of one history", Samples: []any{h.String()}})
	}
	type plan struct {
		Ops   []string
		Depth int
	}
	plans := []plan{{readyAll, 3}, {readyCore, 4}}
	if r.Thorough() {
		plans = []plan{{readyAll, 5}, {readyCore, 6}}
	}
	rollDepth := r.Pick(2, 3)
	total := r.RunSharded(vr.Workers(), func(sh vr.ShardInfo, p *vr.Partial) {
		rn := &runner{base: r.Scratch(), cache: map[string]recovered{}, p: p}
		item := 0
		seen := map[string]bool{}
		for _, pl := range plans {
			enumerate(pl.Ops, pl.Depth, func(ops []string) {
				key := strings.Join(ops, " ")
				if seen[key] {
					return
				}
				seen[key] = true
				item++
				if !sh.Owns(int(vr.Hash64(strings.Join(ops[:min(len(ops), max(pl.Depth-2, 1))], " "))%1000003)) || r.Expired() {
					return
				}
				for _, c := range cfgs {
					h := Hist{Cfg: c.Name, Ops: ops, Part: "A"}
					rn.run(h)
					if item%131 == 0 {
						p.Sample(h.String())
					}
				}
			})
		}
		// roll-over plan: every Ready kind, after every short prefix, with the segment filled so that
		// each of its WAL-writing storage calls in turn fits with room / fits exactly / rolls over
		rollPaths := [][]string{}
		enumerate(readyCore, rollDepth, func(ops []string) { rollPaths = append(rollPaths, ops) })
		if rollDepth < 3 {
			// the kinds that need a longer prefix to be enabled: conflicting overwrite, commit(+compact)
			rollPaths = append(rollPaths, []string{"elect", "prop", "ovw"}, []string{"termup", "prop", "ovw"}, []string{"elect", "prop", "commit"}, []string{"elect", "prop2", "ovw"})
		}
		for _, ops := range rollPaths {
			if os.Getenv("VERIF_C21_SKIP_ROLL") != "" { // timing experiments only
				break
			}
			calls := lastCalls(ops)
			for j, c := range calls {
				if c.Kind == "compact" {
					continue
				}
				for _, class := range []string{"room", "exact", "over"} {
					item++
					if !sh.Owns(item) || r.Expired() {
						continue
					}
					for _, c := range rollCfgs {
						h := Hist{Cfg: c.Name, Ops: ops, Part: "A", Roll: &Roll{Call: j, Class: class}}
						rn.run(h)
						p.Add("roll_histories", 1)
						if item%37 == 0 {
							p.Sample(h.String())
						}
					}
				}
			}
		}
		for i, sc := range peerScripts {
			if !sh.Owns(i) || r.Expired() {
				continue
			}
			for _, c := range cfgs {
				h := Hist{Cfg: c.Name, Ops: []string{sc.Name}, Part: "B"}
				rn.runPeerScript(h)
				p.Sample("peer: " + h.String())
			}
		}
	})
	out := total.Card("outcomes")
	r.RequireOutcomes(out, 6)
	var planDesc []string
	for _, pl := range plans {
		planDesc = append(planDesc, fmt.Sprintf("ready kinds %v + %v, depth<=%d", pl.Ops, extOps, pl.Depth))
	}
	r.Finish(vr.Coverage{
		Level:       "fault_enumeration",
		Evaluations: total.Counters["points"] + total.Counters["peer_points"],
		Distinct:    total.Counters["nontrivial"],
		Rule:        "A: every sequence (bounded depth) of model-generated Readys {elect (term+vote), term-up without vote, vote grant in the current term, prop, prop2, conflicting overwrite by a new leader, commit+compact, commit-only, snapshot} and shared-WAL events {Sync, segment switch}, applied to the real WALStorage in handleReady order with a 'messages sent' mark after each Ready, under 3 WAL configurations; every vfs crash point incl. torn writes recovered with manifest.Verify/Open + wal.VerifyDir/Open + OpenWALStorage; plus exact comparison after a clean close; roll-over plan: minimum (64 KiB) segments, a synced filler record places each WAL-writing storage call of the last Ready at 'fits with room' / 'fits exactly' / 'rolls over to a new segment', with and without a manifest. B: real Peer scripts with an image inside every transport.Send. distinct_nontrivial = accepted recoveries from torn-write images or images lacking WAL bytes the manager had accepted",
		Samples:     total.SamplesAny(),
		Exhaustive:  !total.TimedOut,
		Outcomes:    out,
		Bounds:      map[string]any{"plans": planDesc, "rollover_plan": fmt.Sprintf("64 KiB segments, with and without manifest; every history of length<=%d (core kinds + shared-WAL events; plus [elect|termup prop ovw], [elect prop2 ovw], [elect prop commit]) x every WAL-writing call of its last Ready x {fits with room, fits exactly, rolls over}", rollDepth), "ready_kinds": readyAll, "external_ops": extOps, "wal_configs": []string{"buffered(default bufio)", "buffered(64-byte bufio)", "SyncOnWrite"}, "peer_scripts": len(peerScripts)},
		Extra: map[string]any{"histories": total.Counters["histories"], "distinct_image_recoveries": total.Counters["recoveries"], "shared_recoveries": total.Counters["cache_hits"],
			"max_points_per_history": total.Counters["max_points"], "point_classes": total.Card("point_classes"), "peer_sends_checked": total.Counters["peer_points"], "rollover_histories": total.Counters["roll_histories"], "rollover_alignment_cases": total.Card("roll_cases")},
		Assumptions: []string{"process-crash model: completed write(2)s survive, bufio contents are lost", "the Ready sequences come from a reference model of raft state, not from etcd raft itself (part B uses the real RawNode)",
			"MaybeCompact is in-memory + manifest only; entries below the compaction point may reappear after a crash and are not compared"},
	})
}
