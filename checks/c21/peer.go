//go:build verif

package main

import (
	"fmt"
	"io"
	"log"
	"math"
	"os"
	"path/filepath"

	"github.com/feichai0017/NoKV/manifest"
	myraft "github.com/feichai0017/NoKV/raft"
	"github.com/feichai0017/NoKV/raftstore/peer"
	"github.com/feichai0017/NoKV/wal"

	"verif/lib/crashfs"
	"verif/lib/vr"
)

func init() {
	log.SetOutput(io.Discard)
	myraft.SetLogger(&myraft.DefaultLogger{Logger: log.New(io.Discard, "", 0)})
}

// recTransport marks a crash point inside every Send and remembers what was sent.
type recTransport struct {
	fs    *crashfs.FS
	w     *wal.Manager
	inj   map[uint64]ent // entries injected so far by the scripted leader (latest per index)
	sends []sendRec
}

type sendRec struct {
	Seq int
	Msg myraft.Message
	Inj map[uint64]ent
	Acc map[uint32]int64
}

func (t *recTransport) Send(msg myraft.Message) {
	inj := map[uint64]ent{}
	for k, v := range t.inj {
		inj[k] = v
	}
	acc := map[uint32]int64{t.w.ActiveSegment(): t.w.ActiveSize()}
	t.fs.Mark("send:" + msg.Type.String())
	t.sends = append(t.sends, sendRec{Seq: t.fs.Seq(), Msg: msg, Inj: inj, Acc: acc})
}

type peerScript struct {
	Name string
	Run  func(p *peer.Peer, t *recTransport) error
}

// After Bootstrap({1,2}) the log holds two conf-change entries (index 1,2, term 1), commit=2.
var peerScripts = []peerScript{
	{"candidate-then-leader", func(p *peer.Peer, t *recTransport) error {
		if err := p.Campaign(); err != nil { // term 2, vote self -> MsgVote
			return err
		}
		term := p.Status().Term
		if err := p.Step(myraft.Message{Type: myraft.MsgRequestVoteResponse, From: 2, To: 1, Term: term}); err != nil {
			return err // leader: empty entry appended -> MsgApp
		}
		if err := p.Propose([]byte("x")); err != nil {
			return err
		}
		last := p.Status().Progress[1].Match
		return p.Step(myraft.Message{Type: myraft.MsgAppendResponse, From: 2, To: 1, Term: term, Index: last})
	}},
	{"grant-vote", func(p *peer.Peer, t *recTransport) error {
		return p.Step(myraft.Message{Type: myraft.MsgRequestVote, From: 2, To: 1, Term: 5, LogTerm: 1, Index: 2})
	}},
	{"term-raised-then-vote-granted", func(p *peer.Peer, t *recTransport) error {
		// a stale candidate at term 5: we move to term 5 without voting and reject
		if err := p.Step(myraft.Message{Type: myraft.MsgRequestVote, From: 2, To: 1, Term: 5, LogTerm: 0, Index: 0}); err != nil {
			return err
		}
		// an up-to-date request in the same term: vote-only hard-state change, then the grant is sent
		return p.Step(myraft.Message{Type: myraft.MsgRequestVote, From: 2, To: 1, Term: 5, LogTerm: 1, Index: 2})
	}},
	{"follower-append-then-overwrite", func(p *peer.Peer, t *recTransport) error {
		t.inj[3], t.inj[4] = ent{3, "f3"}, ent{3, "f4"}
		if err := p.Step(myraft.Message{Type: myraft.MsgAppend, From: 2, To: 1, Term: 3, LogTerm: 1, Index: 2, Commit: 2,
			Entries: []myraft.Entry{{Index: 3, Term: 3, Data: []byte("f3")}, {Index: 4, Term: 3, Data: []byte("f4")}}}); err != nil {
			return err
		}
		t.inj[4], t.inj[5] = ent{4, "g4"}, ent{4, "g5"}
		return p.Step(myraft.Message{Type: myraft.MsgAppend, From: 2, To: 1, Term: 4, LogTerm: 3, Index: 3, Commit: 3,
			Entries: []myraft.Entry{{Index: 4, Term: 4, Data: []byte("g4")}, {Index: 5, Term: 4, Data: []byte("g5")}}})
	}},
}

func (rn *runner) runPeerScript(h Hist) {
	p := rn.p
	cfg := cfgByName(h.Cfg)
	var sc *peerScript
	for i := range peerScripts {
		if peerScripts[i].Name == h.Ops[0] {
			sc = &peerScripts[i]
		}
	}
	if sc == nil {
		vr.Fatalf("unknown peer script %q", h.Ops[0])
	}
	dir := filepath.Join(rn.base, "peer")
	_ = os.RemoveAll(dir)
	_ = os.MkdirAll(dir, 0o755)
	defer os.RemoveAll(dir)
	fs := crashfs.New(dir, crashfs.Options{})
	w, err := wal.Open(cfg.wal(dir, fs, false))
	if err != nil {
		vr.Fatalf("wal open: %v", err)
	}
	m, err := manifest.Open(dir, fs)
	if err != nil {
		vr.Fatalf("manifest open: %v", err)
	}
	tr := &recTransport{fs: fs, w: w, inj: map[uint64]ent{}}
	pr, err := peer.NewPeer(&peer.Config{
		RaftConfig: myraft.Config{ID: 1, ElectionTick: 10, HeartbeatTick: 1, MaxSizePerMsg: math.MaxUint64, MaxInflightMsgs: 256},
		Transport:  tr,
		Apply:      func([]myraft.Entry) error { return nil },
		WAL:        w,
		Manifest:   m,
		GroupID:    1,
	})
	if err != nil {
		vr.Fatalf("new peer: %v", err)
	}
	fs.Start()
	if err := pr.Bootstrap([]myraft.Peer{{ID: 1}, {ID: 2}}); err != nil {
		vr.Fatalf("bootstrap: %v", err)
	}
	if err := sc.Run(pr, tr); err != nil {
		vr.Fatalf("peer script %s: %v", sc.Name, err)
	}
	pts := fs.Stop()
	_ = pr.Close()
	_ = w.Close()
	_ = m.Close()
	bySeq := map[int]crashfs.Point{}
	for _, pt := range pts {
		if pt.Op == "mark" {
			bySeq[pt.Seq] = pt
		}
	}
	if len(tr.sends) == 0 {
		vr.Fatalf("peer script %s sent nothing", sc.Name)
	}
	for _, s := range tr.sends {
		pt, ok := bySeq[s.Seq]
		if !ok || pt.Image == nil {
			vr.Fatalf("no image for send #%d", s.Seq)
		}
		p.Add("peer_points", 1)
		unflushed := !cfg.SyncOnWrite && imageLacks(pt.Image, s.Acc)
		ctx := fmt.Sprintf("cfg=%s at=send:%s unflushed=%v", cfgClass(cfg), s.Msg.Type, unflushed)
		r := rn.recoverCached(pt.Image, cfg)
		rn.curImg, rn.curRec, rn.curCfg = pt.Image, &r, cfg
		desc := fmt.Sprintf("real Peer, script %s, crash inside transport.Send(%s term=%d index=%d reject=%v) image{%s}", sc.Name, s.Msg.Type, s.Msg.Term, s.Msg.Index, s.Msg.Reject, pt.Image.Describe())
		if r.Err != "" {
			rn.viol(h, ctx+" got=reopen-refused:"+r.Err, desc+": "+r.Det)
			p.Mark("outcomes", ctx+"|refused")
			continue
		}
		kind := ""
		switch {
		case r.Term < s.Msg.Term:
			kind = "term-went-back"
		case s.Msg.Type == myraft.MsgRequestVote && r.Term == s.Msg.Term && r.Vote != 1:
			kind = "vote-changed"
		case s.Msg.Type == myraft.MsgRequestVoteResponse && !s.Msg.Reject && r.Term == s.Msg.Term && r.Vote != s.Msg.To:
			kind = "vote-changed"
		case s.Msg.Type == myraft.MsgAppendResponse && !s.Msg.Reject:
			if r.Last < s.Msg.Index {
				kind = "acted-entries-missing"
			} else {
				for i, e := range s.Inj {
					if i <= s.Msg.Index && r.Log[i] != e {
						kind = "acted-entries-missing"
					}
				}
			}
		}
		if kind != "" {
			rn.viol(h, ctx+" got="+kind, fmt.Sprintf("%s: recovered term=%d vote=%d commit=%d last=%d log=%v", desc, r.Term, r.Vote, r.Commit, r.Last, r.Log))
			p.Mark("outcomes", ctx+"|"+kind)
			continue
		}
		if unflushed {
			p.Add("nontrivial", 1)
		}
		p.Mark("outcomes", ctx+"|ok")
	}
}
