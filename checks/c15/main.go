//go:build verif

// C15 — manifest reload equals the in-memory state, across rewrites and crashes.
//
// Every sequence (up to a depth) over an alphabet of real manifest edits — the 9 edit kinds with
// boundary field values, multi-edit batches as flush/compaction log them, and a clean
// close+reopen — is applied to a real manifest.Manager running on lib/crashfs, for each rewrite
// threshold {off, 1 byte (rewrite after every edit), 80 bytes (rewrite mid-history)}. Every vfs
// crash point of the history (create/write/sync/close/rename/remove of MANIFEST-*, CURRENT.tmp,
// CURRENT, incl. torn writes of the edit append, the snapshot file and CURRENT.tmp) is
// materialized and recovered with the real manifest.Verify + manifest.Open.
//
// Oracle (property text): after an edit call returned, reload == in-memory Current(); at a crash
// point inside call k the reloaded state equals the state after some prefix of the individual
// edits that contains every edit of calls 0..k-1 (those had returned nil) and at most the edits
// of call k. After recovery one more edit is logged and the directory reloaded again
// (reload == in-memory of the recovered manager).
package main

import (
	"encoding/json"
	"errors"
	"fmt"
	"math"
	"os"
	"path/filepath"
	"regexp"
	"runtime/debug"
	"sort"
	"strconv"
	"strings"

	"github.com/feichai0017/NoKV/manifest"

	"verif/lib/crashfs"
	"verif/lib/vr"
)

type opDef struct {
	Name  string
	Edits []manifest.Edit
	// enabled reports whether the op keeps the history realistic (no double add of a live file).
	Enabled func(live map[uint64]int) bool
	Apply   func(live map[uint64]int)
}

func fm(level int, fid uint64, boundary bool) *manifest.FileMeta {
	if boundary {
		return &manifest.FileMeta{Level: level, FileID: fid, Size: 1 << 63, Smallest: nil, Largest: []byte{}, CreatedAt: math.MaxUint64, ValueSize: 1 << 32, Ingest: true}
	}
	return &manifest.FileMeta{Level: level, FileID: fid, Size: 127, Smallest: []byte("a"), Largest: []byte("b\x00\xff"), CreatedAt: 128, ValueSize: 0}
}

func alphabet(full bool) []opDef {
	notLive := func(f uint64) func(map[uint64]int) bool {
		return func(l map[uint64]int) bool { _, ok := l[f]; return !ok }
	}
	liveAt := func(f uint64, lvl int) func(map[uint64]int) bool {
		return func(l map[uint64]int) bool { v, ok := l[f]; return ok && v == lvl }
	}
	add := func(f uint64, lvl int) func(map[uint64]int) { return func(l map[uint64]int) { l[f] = lvl } }
	ops := []opDef{
		{Name: "add0", Edits: []manifest.Edit{{Type: manifest.EditAddFile, File: fm(0, 1, false)}}, Enabled: notLive(1), Apply: add(1, 0)},
		{Name: "del0", Edits: []manifest.Edit{{Type: manifest.EditDeleteFile, File: fm(0, 1, false)}}, Apply: func(l map[uint64]int) {
			if l[1] == 0 {
				delete(l, 1)
			}
		}},
		{Name: "flush", Edits: []manifest.Edit{{Type: manifest.EditAddFile, File: fm(0, 3, false), LogSeg: 3}, {Type: manifest.EditLogPointer, LogSeg: 3, LogOffset: 200}}, Enabled: notLive(3), Apply: add(3, 0)},
		{Name: "move", Edits: []manifest.Edit{{Type: manifest.EditDeleteFile, File: fm(0, 1, false)}, {Type: manifest.EditAddFile, File: fm(6, 1, true)}}, Enabled: liveAt(1, 0), Apply: add(1, 6)},
		{Name: "logp", Edits: []manifest.Edit{{Type: manifest.EditLogPointer, LogSeg: math.MaxUint32, LogOffset: math.MaxUint64}}},
		{Name: "vhead", Edits: []manifest.Edit{{Type: manifest.EditValueLogHead, ValueLog: &manifest.ValueLogMeta{Bucket: 0, FileID: 1, Offset: 128, Valid: true}}}},
		{Name: "vdel", Edits: []manifest.Edit{{Type: manifest.EditDeleteValueLog, ValueLog: &manifest.ValueLogMeta{Bucket: 0, FileID: 1}}}},
		{Name: "vupd", Edits: []manifest.Edit{{Type: manifest.EditUpdateValueLog, ValueLog: &manifest.ValueLogMeta{Bucket: 0, FileID: 1, Offset: 1 << 32, Valid: true}}}},
		{Name: "raft1", Edits: []manifest.Edit{{Type: manifest.EditRaftPointer, Raft: &manifest.RaftLogPointer{GroupID: 1, Segment: 1, Offset: 128, AppliedIndex: 1, AppliedTerm: 1, Committed: 1}}}},
		{Name: "reg2", Edits: []manifest.Edit{{Type: manifest.EditRegion, Region: &manifest.RegionEdit{Meta: manifest.RegionMeta{ID: 2, StartKey: []byte("a"), EndKey: []byte("b\x00\xff"),
			Epoch: manifest.RegionEpoch{Version: 1 << 32, ConfVersion: 127}, Peers: []manifest.PeerMeta{{StoreID: 1, PeerID: 128}, {StoreID: math.MaxUint64, PeerID: 2}}, State: manifest.RegionStateTombstone}}}}},
		{Name: "regdel2", Edits: []manifest.Edit{{Type: manifest.EditRegion, Region: &manifest.RegionEdit{Meta: manifest.RegionMeta{ID: 2}, Delete: true}}}},
		{Name: "reopen"},
	}
	if full {
		ops = append(ops,
			opDef{Name: "add6", Edits: []manifest.Edit{{Type: manifest.EditAddFile, File: fm(6, 2, true)}}, Enabled: notLive(2), Apply: add(2, 6)},
			opDef{Name: "del6", Edits: []manifest.Edit{{Type: manifest.EditDeleteFile, File: fm(6, 2, true)}}, Apply: func(l map[uint64]int) {
				if v, ok := l[2]; ok && v == 6 {
					delete(l, 2)
				}
			}},
			opDef{Name: "logp0", Edits: []manifest.Edit{{Type: manifest.EditLogPointer, LogSeg: 1, LogOffset: 0}}},
			opDef{Name: "vhead2", Edits: []manifest.Edit{{Type: manifest.EditValueLogHead, ValueLog: &manifest.ValueLogMeta{Bucket: math.MaxUint32, FileID: 2, Offset: 0, Valid: true}}}},
			opDef{Name: "vhead1b", Edits: []manifest.Edit{{Type: manifest.EditValueLogHead, ValueLog: &manifest.ValueLogMeta{Bucket: 0, FileID: 2, Offset: 1, Valid: true}}}},
			opDef{Name: "vupdInv", Edits: []manifest.Edit{{Type: manifest.EditUpdateValueLog, ValueLog: &manifest.ValueLogMeta{Bucket: 0, FileID: 1, Offset: 7, Valid: false}}}},
			opDef{Name: "raft2", Edits: []manifest.Edit{{Type: manifest.EditRaftPointer, Raft: &manifest.RaftLogPointer{GroupID: 1 << 63, Segment: math.MaxUint32, Offset: math.MaxUint64, AppliedIndex: 127, AppliedTerm: 128,
				Committed: 1<<16 - 1, SnapshotIndex: 1 << 31, SnapshotTerm: 1<<32 - 1, TruncatedIndex: 1<<63 - 1, TruncatedTerm: 1 << 63, SegmentIndex: 2, TruncatedOffset: 1}}}},
			opDef{Name: "raft1b", Edits: []manifest.Edit{{Type: manifest.EditRaftPointer, Raft: &manifest.RaftLogPointer{GroupID: 1, Segment: 2, Offset: 9, AppliedIndex: 2, AppliedTerm: 1, Committed: 2, TruncatedIndex: 1, TruncatedTerm: 1, SegmentIndex: 1, TruncatedOffset: 64}}}},
			opDef{Name: "reg1", Edits: []manifest.Edit{{Type: manifest.EditRegion, Region: &manifest.RegionEdit{Meta: manifest.RegionMeta{ID: 1, State: manifest.RegionStateNew}}}}},
			opDef{Name: "reg2b", Edits: []manifest.Edit{{Type: manifest.EditRegion, Region: &manifest.RegionEdit{Meta: manifest.RegionMeta{ID: 2, StartKey: []byte{}, EndKey: []byte("c"),
				Epoch: manifest.RegionEpoch{Version: 2, ConfVersion: 1}, Peers: []manifest.PeerMeta{{StoreID: 3, PeerID: 3}}, State: manifest.RegionStateRunning}}}}},
			opDef{Name: "regdel1", Edits: []manifest.Edit{{Type: manifest.EditRegion, Region: &manifest.RegionEdit{Meta: manifest.RegionMeta{ID: 1}, Delete: true}}}},
		)
	}
	return ops
}

// ---- canonical form ----

type canonV struct {
	Levels   []string
	Log      string
	VLogs    []string
	VHead    []string
	Raft     []string
	Regions  []string
	vlogsRaw map[manifest.ValueLogID]manifest.ValueLogMeta
}

func canon(v manifest.Version) canonV {
	var c canonV
	var lv []int
	for l, files := range v.Levels {
		if len(files) > 0 {
			lv = append(lv, l)
		}
	}
	sort.Ints(lv)
	for _, l := range lv {
		var fs []string
		for _, f := range v.Levels[l] {
			fs = append(fs, fmt.Sprintf("L%d f%d size=%d [%x,%x] c=%d vs=%d ing=%v", l, f.FileID, f.Size, f.Smallest, f.Largest, f.CreatedAt, f.ValueSize, f.Ingest))
		}
		sort.Strings(fs)
		c.Levels = append(c.Levels, fs...)
	}
	c.Log = fmt.Sprintf("seg=%d off=%d", v.LogSegment, v.LogOffset)
	for id, m := range v.ValueLogs {
		c.VLogs = append(c.VLogs, fmt.Sprintf("%d/%d -> b=%d f=%d off=%d valid=%v", id.Bucket, id.FileID, m.Bucket, m.FileID, m.Offset, m.Valid))
	}
	sort.Strings(c.VLogs)
	for b, m := range v.ValueLogHead {
		c.VHead = append(c.VHead, fmt.Sprintf("%d -> b=%d f=%d off=%d valid=%v", b, m.Bucket, m.FileID, m.Offset, m.Valid))
	}
	sort.Strings(c.VHead)
	for g, p := range v.RaftPointers {
		c.Raft = append(c.Raft, fmt.Sprintf("%d -> %+v", g, p))
	}
	sort.Strings(c.Raft)
	for id, r := range v.Regions {
		c.Regions = append(c.Regions, fmt.Sprintf("%d -> id=%d [%x,%x] ep=%d/%d peers=%v st=%d", id, r.ID, r.StartKey, r.EndKey, r.Epoch.Version, r.Epoch.ConfVersion, r.Peers, r.State))
	}
	sort.Strings(c.Regions)
	c.vlogsRaw = v.ValueLogs
	return c
}

func (c canonV) String() string {
	return "levels{" + strings.Join(c.Levels, "; ") + "} log{" + c.Log + "} vlogs{" + strings.Join(c.VLogs, "; ") + "} vhead{" + strings.Join(c.VHead, "; ") +
		"} raft{" + strings.Join(c.Raft, "; ") + "} regions{" + strings.Join(c.Regions, "; ") + "}"
}

// diffClass names the sections in which two states differ.
func diffClass(mem, disk canonV) string {
	var d []string
	eq := func(a, b []string) bool { return strings.Join(a, "\n") == strings.Join(b, "\n") }
	if !eq(mem.Levels, disk.Levels) {
		d = append(d, "levels")
	}
	if mem.Log != disk.Log {
		d = append(d, "logpointer")
	}
	if !eq(mem.VLogs, disk.VLogs) {
		// special shape: only invalid entries whose offset was reset to 0 by the reload
		only := len(mem.vlogsRaw) == len(disk.vlogsRaw)
		if only {
			for id, m := range mem.vlogsRaw {
				dm, ok := disk.vlogsRaw[id]
				if !ok {
					only = false
					break
				}
				if m == dm {
					continue
				}
				m2 := m
				m2.Offset = 0
				if m.Valid || m2 != dm {
					only = false
					break
				}
			}
		}
		if only {
			d = append(d, "valuelog-invalid-offset-reset")
		} else {
			d = append(d, "valuelogs")
		}
	}
	if !eq(mem.VHead, disk.VHead) {
		d = append(d, "valueloghead")
	}
	if !eq(mem.Raft, disk.Raft) {
		d = append(d, "raftpointers")
	}
	if !eq(mem.Regions, disk.Regions) {
		d = append(d, "regions")
	}
	return strings.Join(d, "+")
}

// ---- recovery ----

type recovered struct {
	Err   string // "" or classification of a refused open / panic
	Det   string
	State canonV
	Post  string // "" or classification of the post-recovery append/reload failure
}

var digits = regexp.MustCompile(`[0-9]+`)

func norm(s string) string {
	if i := strings.Index(s, "/dev/shm"); i >= 0 {
		j := strings.LastIndex(s, "/")
		s = s[:i] + s[j+1:]
	}
	s = digits.ReplaceAllString(s, "N")
	if len(s) > 90 {
		s = s[:90]
	}
	return strings.ReplaceAll(s, " ", "_")
}

func recoverImage(dir string, im *crashfs.Image) (out recovered) {
	_ = os.RemoveAll(dir)
	if err := im.Materialize(dir); err != nil {
		vr.Fatalf("materialize: %v", err)
	}
	defer os.RemoveAll(dir)
	stage := "open"
	defer func() {
		if r := recover(); r != nil {
			if stage == "open" {
				out.Err, out.Det = "panic:"+norm(fmt.Sprint(r)), fmt.Sprint(r)
			} else {
				out.Post = "panic:" + norm(fmt.Sprint(r))
			}
		}
	}()
	open := func() (*manifest.Manager, string, string) {
		if err := manifest.Verify(dir, nil); err != nil && !errors.Is(err, os.ErrNotExist) {
			return nil, "verify-error:" + norm(err.Error()), err.Error()
		}
		m, err := manifest.Open(dir, nil)
		if err != nil {
			return nil, "open-error:" + norm(err.Error()), err.Error()
		}
		return m, "", ""
	}
	m, e, det := open()
	if e != "" {
		out.Err, out.Det = e, det
		return out
	}
	out.State = canon(m.Current())
	stage = "post"
	if err := m.LogEdit(manifest.Edit{Type: manifest.EditLogPointer, LogSeg: 77, LogOffset: 7777}); err != nil {
		out.Post = "append-error:" + norm(err.Error())
		_ = m.Close()
		return out
	}
	mem := canon(m.Current())
	_ = m.Close()
	m2, e, _ := open()
	if e != "" {
		out.Post = "reopen-" + e
		return out
	}
	disk := canon(m2.Current())
	_ = m2.Close()
	if mem.String() != disk.String() {
		out.Post = "reload-differs:" + diffClass(mem, disk)
	}
	return out
}

// ---- one history ----

type Hist struct {
	Threshold int64    `json:"threshold"`
	Ops       []string `json:"ops"`
	Full      bool     `json:"full"`
}

func (h Hist) String() string {
	return fmt.Sprintf("thr=%d [%s]", h.Threshold, strings.Join(h.Ops, " "))
}

func thrName(t int64) string {
	if t <= 0 {
		return "off"
	}
	return strconv.FormatInt(t, 10)
}

type runner struct {
	base      string
	cache     map[string]recovered
	p         *vr.Partial
	curImg    *crashfs.Image
	curRec    *recovered
	confirmed map[string]bool
}

func (rn *runner) recoverCached(im *crashfs.Image) recovered {
	if r, ok := rn.cache[im.Hash]; ok {
		rn.p.Add("cache_hits", 1)
		return r
	}
	r := recoverImage(filepath.Join(rn.base, "case"), im)
	rn.p.Add("recoveries", 1)
	if len(rn.cache) > 200000 {
		rn.cache = map[string]recovered{}
	}
	rn.cache[im.Hash] = r
	return r
}

// confirm re-recovers a failing image from a fresh copy and demands the identical result.
func (rn *runner) confirm(im *crashfs.Image, first recovered) {
	for i := 0; i < 2; i++ {
		again := recoverImage(filepath.Join(rn.base, "case"), im)
		if again.Err != first.Err || again.Post != first.Post || again.State.String() != first.State.String() {
			vr.Fatalf("non-deterministic recovery of image %s", im.Describe())
		}
	}
}

func (rn *runner) viol(h Hist, sig, desc string) {
	if rn.curImg != nil && !rn.confirmed[sig] {
		// first occurrence of a signature in this worker: re-run from scratch, demand the same result
		if rn.confirmed == nil {
			rn.confirmed = map[string]bool{}
		}
		rn.confirmed[sig] = true
		rn.confirm(rn.curImg, *rn.curRec)
	}
	blob, _ := json.Marshal(h)
	rn.p.Viol(sig, "history "+h.String()+": "+desc, string(blob))
}

func (rn *runner) run(h Hist, byName map[string]opDef) {
	p := rn.p
	rn.curImg, rn.curRec = nil, nil
	dir := filepath.Join(rn.base, "main")
	sdir := filepath.Join(rn.base, "shadow")
	_ = os.RemoveAll(dir)
	_ = os.RemoveAll(sdir)
	defer os.RemoveAll(dir)
	defer os.RemoveAll(sdir)
	_ = os.MkdirAll(dir, 0o755)
	fs := crashfs.New(dir, crashfs.Options{Torn: true, TornCuts: tornCuts})
	fs.Start()
	fs.SetLabel("open")
	m, err := manifest.Open(dir, fs)
	if err != nil {
		vr.Fatalf("open: %v", err)
	}
	m.SetRewriteThreshold(h.Threshold)
	shadow, err := manifest.Open(sdir, nil)
	if err != nil {
		vr.Fatalf("shadow open: %v", err)
	}
	shadow.SetRewriteThreshold(0)
	defer shadow.Close()
	states := []canonV{canon(shadow.Current())} // states[i] = after i individual edits
	lo := []int{}                               // per op: number of edits before it
	hi := []int{}                               // per op: number of edits after it
	broken := false
	for k, name := range h.Ops {
		op := byName[name]
		fs.SetLabel(strconv.Itoa(k))
		lo = append(lo, len(states)-1)
		if name == "reopen" {
			if err := m.Close(); err != nil {
				vr.Fatalf("close: %v", err)
			}
			if err := manifest.Verify(dir, fs); err != nil {
				rn.viol(h, fmt.Sprintf("clean-reopen-refused threshold=%s got=verify-error:%s", thrName(h.Threshold), norm(err.Error())), err.Error())
				broken = true
			}
			if !broken {
				m, err = manifest.Open(dir, fs)
				if err != nil {
					rn.viol(h, fmt.Sprintf("clean-reopen-refused threshold=%s got=open-error:%s", thrName(h.Threshold), norm(err.Error())), err.Error())
					broken = true
				} else {
					m.SetRewriteThreshold(h.Threshold)
				}
			}
		} else {
			if err := m.LogEdits(op.Edits...); err != nil {
				// an I/O failure is outside the model; nothing fails on tmpfs, so report loudly but not as a violation
				vr.Fatalf("LogEdits(%s) failed: %v", name, err)
			}
			for _, e := range op.Edits {
				if err := shadow.LogEdit(e); err != nil {
					vr.Fatalf("shadow: %v", err)
				}
				states = append(states, canon(shadow.Current()))
			}
		}
		hi = append(hi, len(states)-1)
		if broken {
			break
		}
		fs.Mark("done")
		// in-memory of the real manager must be the state after all edits so far
		if mem := canon(m.Current()); mem.String() != states[len(states)-1].String() {
			sig := fmt.Sprintf("memory-differs-after op=%s threshold=%s diff=%s", name, thrName(h.Threshold), diffClass(states[len(states)-1], mem))
			if name == "reopen" && diffClass(states[len(states)-1], mem) == "valuelog-invalid-offset-reset" {
				sig = "reload-differs diff=valuelog-invalid-offset-reset"
			}
			rn.viol(h, sig,
				"in-memory state of the manager differs from the same edits applied one by one (after a reopen: the reload changed the state)")
			broken = true
			break
		}
	}
	pts := fs.Stop()
	if m != nil {
		_ = m.Close()
	}
	p.Add("histories", 1)
	p.Max("max_points", int64(len(pts)))
	if broken {
		return
	}
	for _, pt := range pts {
		if pt.Label == "open" || pt.Image == nil {
			continue
		}
		k, _ := strconv.Atoi(pt.Label)
		if k >= len(lo) {
			continue
		}
		p.Add("points", 1)
		p.Mark("point_classes", pt.Class())
		rec := rn.recoverCached(pt.Image)
		rn.curImg, rn.curRec = pt.Image, &rec
		opName := h.Ops[k]
		done := pt.Op == "mark"
		a, b := lo[k], hi[k]
		if done {
			a = b
		}
		where := "crash=" + pt.Class()
		if rec.Err != "" {
			rn.viol(h, fmt.Sprintf("reopen-refused %s op=%s threshold=%s got=%s", where, opName, thrName(h.Threshold), rec.Err), fmt.Sprintf("point %s image{%s}: %s", pt.String(), pt.Image.Describe(), rec.Det))
			p.Mark("outcomes", "refused")
			continue
		}
		match := -1
		for j := a; j <= b; j++ {
			if states[j].String() == rec.State.String() {
				match = j
			}
		}
		if match < 0 {
			kind := "state-not-a-prefix"
			for j := 0; j < a; j++ {
				if states[j].String() == rec.State.String() {
					kind = "acked-edit-lost"
				}
			}
			var sig string
			onlyVlogReset := false
			for j := a; j <= b; j++ {
				if diffClass(states[j], rec.State) == "valuelog-invalid-offset-reset" {
					onlyVlogReset = true
				}
			}
			if onlyVlogReset {
				// one mechanism, independent of where it is observed
				sig = "reload-differs diff=valuelog-invalid-offset-reset"
			} else if done {
				sig = fmt.Sprintf("reload-differs after=%s threshold=%s diff=%s", opName, thrName(h.Threshold), diffClass(states[b], rec.State))
			} else {
				sig = fmt.Sprintf("%s %s op=%s threshold=%s diff=%s", kind, where, opName, thrName(h.Threshold), diffClass(states[b], rec.State))
			}
			rn.viol(h, sig, fmt.Sprintf("point %s image{%s}: reloaded %s; allowed prefixes %d..%d, newest allowed %s", pt.String(), pt.Image.Describe(), rec.State.String(), a, b, states[b].String()))
			p.Mark("outcomes", kind)
			continue
		}
		if rec.Post != "" {
			rn.viol(h, fmt.Sprintf("post-recovery %s op=%s threshold=%s got=%s", where, opName, thrName(h.Threshold), rec.Post), fmt.Sprintf("point %s image{%s}: after recovery, logging one more edit and reloading failed: %s", pt.String(), pt.Image.Describe(), rec.Post))
			continue
		}
		p.Mark("outcomes", fmt.Sprintf("%s|prefix%+d|%v", pt.Class(), match-b, done))
		if match != b {
			p.Add("rolled_back_cases", 1)
		}
		if pt.Phase == "torn" {
			p.Add("torn_cases", 1)
		}
		if match != b || pt.Phase == "torn" {
			p.Add("nontrivial_cases", 1) // counted once per crash point
		}
	}
}

func enumerate(alpha []opDef, depth int, fn func(ops []string)) {
	var rec func(path []string, live map[uint64]int)
	rec = func(path []string, live map[uint64]int) {
		if len(path) > 0 {
			fn(append([]string(nil), path...))
		}
		if len(path) == depth {
			return
		}
		for _, o := range alpha {
			if o.Enabled != nil && !o.Enabled(live) {
				continue
			}
			if o.Name == "reopen" && (len(path) == 0 || path[len(path)-1] == "reopen") {
				continue
			}
			nl := map[uint64]int{}
			for k, v := range live {
				nl[k] = v
			}
			if o.Apply != nil {
				o.Apply(nl)
			}
			rec(append(path, o.Name), nl)
		}
	}
	rec(nil, map[uint64]int{})
}

func main() {
	r := vr.Start("C15")
	debug.SetGCPercent(800)
	names := func(full bool) map[string]opDef {
		m := map[string]opDef{}
		for _, o := range alphabet(full) {
			m[o.Name] = o
		}
		return m
	}
	if r.ReplayPath != "" {
		var h Hist
		r.LoadReplay(&h)
		p := vr.NewPartial()
		rn := &runner{base: r.Scratch(), cache: map[string]recovered{}, p: p}
		rn.run(h, names(true))
		for _, v := range p.Violations {
			fmt.Printf("replay: %s\n  %s\n", v.Sig, v.Desc)
			r.Violation(v.Sig, v.Desc, h)
		}
		r.Finish(vr.Coverage{Level: "fault_enumeration", Evaluations: p.Counters["points"], Distinct: 2, Rule: "replay of one history", Samples: []any{h.String()}})
	}
	type plan struct {
		Full  bool
		Depth int
	}
	plans := []plan{{false, 3}, {true, 2}}
	if r.Thorough() {
		plans = []plan{{false, 4}, {true, 3}}
	}
	thresholds := []int64{0, 1, 80}
	total := r.RunSharded(vr.Workers(), func(sh vr.ShardInfo, p *vr.Partial) {
		rn := &runner{base: r.Scratch(), cache: map[string]recovered{}, p: p}
		seen := map[string]bool{}
		item := 0
		for _, pl := range plans {
			byName := names(pl.Full)
			enumerate(alphabet(pl.Full), pl.Depth, func(ops []string) {
				key := strings.Join(ops, " ")
				if seen[key] {
					return
				}
				seen[key] = true
				item++
				// a whole prefix family goes to one worker so that its image cache is effective
				if !sh.Owns(int(vr.Hash64(ops[0]+"/"+second(ops))%1000003)) || r.Expired() {
					return
				}
				for _, thr := range thresholds {
					h := Hist{Threshold: thr, Ops: ops, Full: pl.Full}
					rn.run(h, byName)
					if item%211 == 0 {
						p.Sample(h.String())
					}
				}
			})
		}
	})
	out := total.Card("outcomes")
	r.RequireOutcomes(out, 6)
	var pd []string
	for _, pl := range plans {
		pd = append(pd, fmt.Sprintf("alphabet=%d depth<=%d", len(alphabet(pl.Full)), pl.Depth))
	}
	r.Finish(vr.Coverage{
		Level:       "fault_enumeration",
		Evaluations: total.Counters["points"],
		Distinct:    total.Counters["nontrivial_cases"],
		Rule:        "every sequence over the edit alphabet (9 edit kinds with boundary values, flush/compaction-style batches, clean reopen; a file id is only added while not live) x rewrite thresholds {off,1,80}; every vfs crash point incl. torn writes (every byte of frames <=48 bytes, otherwise 1-6,8,len/2,len-8,len-5..len-1) recovered with manifest.Verify+Open; reloaded state must equal the state after a prefix of the individual edits between 'all returned calls' and 'the running call'; after each returned call exactly the in-memory state; then one more edit + reload. Recoveries of byte-identical images are shared. distinct_nontrivial = crash points that are a torn write or whose recovery legally rolled back to before the running call (each point counted once)",
		Samples:     total.SamplesAny(),
		Exhaustive:  !total.TimedOut,
		Outcomes:    out,
		Bounds:      map[string]any{"plans": pd, "thresholds": thresholds},
		Extra: map[string]any{"histories": total.Counters["histories"], "distinct_image_recoveries": total.Counters["recoveries"], "shared_recoveries": total.Counters["cache_hits"],
			"max_points_per_history": total.Counters["max_points"], "point_classes": total.Card("point_classes"), "torn_cases": total.Counters["torn_cases"], "rolled_back_cases": total.Counters["rolled_back_cases"]},
		Assumptions: []string{"process-crash model (completed write(2)/rename/remove survive; fsync irrelevant)", "open procedure = manifest.Verify (ErrNotExist tolerated, as DB.runRecoveryChecks does) then manifest.Open",
			"the in-memory reference for intermediate prefixes is a second real Manager fed the same edits one at a time (the property defines the reference as the in-memory state)"},
	})
}

func second(ops []string) string {
	if len(ops) > 1 {
		return ops[1]
	}
	return ""
}

// tornCuts: an appended edit frame is [4-byte length][payload][4-byte crc]; small buffers are
// cut at every byte, larger ones around both ends (length header, first payload bytes, crc)
// and in the middle.
func tornCuts(n int) []int {
	var c []int
	if n <= 48 {
		for k := 1; k < n; k++ {
			c = append(c, k)
		}
		return c
	}
	seen := map[int]bool{}
	for _, k := range []int{1, 2, 3, 4, 5, 6, 8, n / 2, n - 8, n - 5, n - 4, n - 3, n - 2, n - 1} {
		if k > 0 && k < n && !seen[k] {
			seen[k] = true
			c = append(c, k)
		}
	}
	sort.Ints(c)
	return c
}
