//go:build verif

// C38 — topology validation accepts exactly the well-formed configurations.
//
// Bounded-exhaustive enumeration of config.File values over a small ID domain; for every
// value the verdict of the real (*File).Validate is compared with an independent predicate
// written from the property statement (the set of defects present). A subset is also pushed
// through JSON + config.LoadFile so the documented path file -> LoadFile -> Validate is covered.
package main

import (
	"encoding/json"
	"fmt"
	"os"
	"path/filepath"
	"regexp"
	"strings"

	"github.com/feichai0017/NoKV/config"

	"verif/lib/vr"
)

// ---------------------------------------------------------------------------------------
// reference predicate (from the statement, not from the code)

// defects lists the defects named by the property statement that f exhibits, and reports
// whether the statement leaves the case undefined (a non-empty all-blank template: it is
// "no template" for every consumer in config.go, yet literally a string without {id}).
func defects(f *config.File) (ds []string, undefined bool) {
	mask, undef := defectMask(f)
	for i, n := range defectNames {
		if mask&(1<<i) != 0 {
			ds = append(ds, n)
		}
	}
	return ds, undef
}

var defectNames = []string{"docker-template-without-id", "peer-id-zero", "peer-store-zero", "region-id-zero", "region-leader-unknown-store",
	"region-peer-unknown-store", "store-id-duplicate", "store-id-zero", "workdir-template-without-id"}

const (
	dDockerTmpl = 1 << iota
	dPeerIDZero
	dPeerStoreZero
	dRegionIDZero
	dLeaderUnknown
	dPeerUnknown
	dStoreDup
	dStoreZero
	dWorkTmpl
)

// defectMask is the predicate proper (allocation-free: it is evaluated ~10^9 times).
func defectMask(f *config.File) (mask int, undefined bool) {
	tmpl := func(bit int, t string) {
		if t == "" {
			return
		}
		if strings.TrimSpace(t) == "" {
			undefined = true
			return
		}
		if !strings.Contains(t, "{id}") {
			mask |= bit
		}
	}
	tmpl(dWorkTmpl, f.StoreWorkDirTemplate)
	tmpl(dDockerTmpl, f.StoreDockerWorkDirTemplate)
	declared := func(id uint64) bool {
		for _, s := range f.Stores {
			if s.StoreID == id {
				return true
			}
		}
		return false
	}
	for i, s := range f.Stores {
		if s.StoreID == 0 {
			mask |= dStoreZero
		}
		for _, t := range f.Stores[:i] {
			if t.StoreID == s.StoreID {
				mask |= dStoreDup
			}
		}
	}
	for _, r := range f.Regions {
		if r.ID == 0 {
			mask |= dRegionIDZero
		}
		// leader_store_id is optional metadata: 0 = not given (docs/config.md)
		if r.LeaderStoreID != 0 && !declared(r.LeaderStoreID) {
			mask |= dLeaderUnknown
		}
		for _, p := range r.Peers {
			if p.StoreID == 0 {
				mask |= dPeerStoreZero
			} else if !declared(p.StoreID) {
				mask |= dPeerUnknown
			}
			if p.PeerID == 0 {
				mask |= dPeerIDZero
			}
		}
	}
	return mask, undefined
}

// ---------------------------------------------------------------------------------------
// domain

type domain struct {
	Name       string
	StoreIDs   []uint64
	MaxStores  int
	RegionIDs  []uint64
	LeaderIDs  []uint64
	PeerStores []uint64
	PeerIDs    []uint64
	MaxPeers   int
	MaxRegions int
	Templates  []string
	Decorate   bool // fill every field the statement does not mention with non-zero junk
	JSONUpTo   int  // configs with at most this many regions also go through JSON+LoadFile (-1: none)
}

func lists[T any](alpha []T, maxLen int) [][]T {
	out := [][]T{nil}
	prev := [][]T{nil}
	for l := 1; l <= maxLen; l++ {
		var next [][]T
		for _, p := range prev {
			for _, a := range alpha {
				n := append(append([]T{}, p...), a)
				next = append(next, n)
			}
		}
		out = append(out, next...)
		prev = next
	}
	return out
}

func (d domain) stores() [][]config.Store {
	var alpha []config.Store
	for _, id := range d.StoreIDs {
		s := config.Store{StoreID: id}
		if d.Decorate {
			s = config.Store{StoreID: id, Addr: "h:1", ListenAddr: " ", DockerAddr: "d", DockerListenAddr: "x", WorkDir: "/no-id-here", DockerWorkDir: "rel"}
		}
		alpha = append(alpha, s)
	}
	return lists(alpha, d.MaxStores)
}

func (d domain) regions() []config.Region {
	var peers []config.Peer
	for _, s := range d.PeerStores {
		for _, p := range d.PeerIDs {
			peers = append(peers, config.Peer{StoreID: s, PeerID: p})
		}
	}
	var out []config.Region
	for _, id := range d.RegionIDs {
		for _, l := range d.LeaderIDs {
			for _, ps := range lists(peers, d.MaxPeers) {
				r := config.Region{ID: id, LeaderStoreID: l, Peers: ps}
				if d.Decorate {
					r.StartKey, r.EndKey = "z", "a" // inverted range: not a defect named by the statement
					r.Epoch = config.RegionEpoch{Version: 0, ConfVersion: 7}
				}
				out = append(out, r)
			}
		}
	}
	return out
}

func pow(b, e int) int {
	n := 1
	for i := 0; i < e; i++ {
		n *= b
	}
	return n
}

var digits = regexp.MustCompile(`[0-9]+`)

type caseJSON struct {
	Domain string
	File   config.File
	ViaJS  bool
}

// verdict runs the real validator; via JSON it writes the file and uses LoadFile first.
func verdict(f *config.File, jsonPath string) (err error, harness error) {
	if jsonPath == "" {
		return f.Validate(), nil
	}
	blob, e := json.Marshal(f)
	if e != nil {
		return nil, e
	}
	if e := os.WriteFile(jsonPath, blob, 0o644); e != nil {
		return nil, e
	}
	g, e := config.LoadFile(jsonPath)
	if e != nil {
		return nil, fmt.Errorf("LoadFile of marshalled config: %v", e)
	}
	return g.Validate(), nil
}

// judge compares; returns signature ("" = fine) and the outcome class.
func judge(f *config.File, jsonPath string) (sig, desc, outcome string) {
	mask, undef := defectMask(f)
	err, herr := verdict(f, jsonPath)
	if herr != nil {
		vr.Fatalf("%v", herr)
	}
	code := mask << 2
	if err != nil {
		code |= 1
	}
	if undef {
		code |= 2
	}
	outcome = outcomeName[code]
	if outcome == "" {
		ds, _ := defects(f)
		res := "accept"
		if err != nil {
			res = "reject"
		}
		outcome = res + ":" + strings.Join(ds, "+")
		if undef {
			outcome = "undefined:" + outcome
		}
		outcomeName[code] = outcome
	}
	if undef {
		return "", "", outcome
	}
	via := ""
	if jsonPath != "" {
		via = " via=json"
	}
	switch {
	case mask != 0 && err == nil:
		ds, _ := defects(f)
		sig = "accepted-malformed defects=" + strings.Join(ds, "+") + via
		desc = "Validate returned nil for a topology with the listed defects"
	case mask == 0 && err != nil:
		sig = "rejected-wellformed err=" + digits.ReplaceAllString(err.Error(), "N") + via
		desc = "Validate returned an error for a topology with none of the defects in the statement: " + err.Error()
	}
	return sig, desc, outcome
}

var outcomeName = map[int]string{}

func main() {
	r := vr.Start("C38")
	base := domain{Name: "base", StoreIDs: []uint64{0, 1, 2}, MaxStores: 2, RegionIDs: []uint64{0, 1}, LeaderIDs: []uint64{0, 1, 3},
		PeerStores: []uint64{0, 1, 3}, PeerIDs: []uint64{0, 1}, MaxPeers: 2, MaxRegions: 2,
		Templates: []string{"", " ", "x", "x{id}", "id}"}, JSONUpTo: 1}
	doms := []domain{base}
	if r.Thorough() {
		deco := base
		deco.Name, deco.Decorate, deco.JSONUpTo = "base-decorated", true, 1
		wideIDs := domain{Name: "wide-ids", StoreIDs: []uint64{0, 1, 2, 3}, MaxStores: 2, RegionIDs: []uint64{0, 1, 2}, LeaderIDs: []uint64{0, 1, 2, 3},
			PeerStores: []uint64{0, 1, 2, 3}, PeerIDs: []uint64{0, 1, 2}, MaxPeers: 2, MaxRegions: 2,
			Templates: []string{"", "{ID}", " x{id} "}, JSONUpTo: -1}
		three := domain{Name: "three-stores-three-regions", StoreIDs: []uint64{0, 1, 2}, MaxStores: 3, RegionIDs: []uint64{0, 1}, LeaderIDs: []uint64{0, 1, 3},
			PeerStores: []uint64{0, 1, 3}, PeerIDs: []uint64{0, 1}, MaxPeers: 1, MaxRegions: 3,
			Templates: []string{"", "x", "x{id}"}, JSONUpTo: -1}
		tmpl := domain{Name: "templates", StoreIDs: []uint64{0, 1}, MaxStores: 2, RegionIDs: []uint64{0, 1}, LeaderIDs: []uint64{0, 1}, PeerStores: []uint64{1, 3}, PeerIDs: []uint64{0, 1},
			MaxPeers: 1, MaxRegions: 1, Templates: []string{"", " ", " \t", "{id}", "x", " x{id} ", "{ID}", "{id", "id}", "{ id }", "{id}{id}", "\n{id}"}, JSONUpTo: 1}
		threePeers := domain{Name: "three-peers", StoreIDs: []uint64{0, 1, 2}, MaxStores: 2, RegionIDs: []uint64{0, 1}, LeaderIDs: []uint64{0, 2, 3},
			PeerStores: []uint64{0, 1, 2, 3}, PeerIDs: []uint64{0, 1}, MaxPeers: 3, MaxRegions: 1,
			Templates: []string{"", " ", "x", "x{id}"}, JSONUpTo: 1}
		doms = []domain{base, deco, tmpl, three, threePeers, wideIDs}
	}

	if r.ReplayPath != "" {
		var c caseJSON
		r.LoadReplay(&c)
		jp := ""
		if c.ViaJS {
			jp = filepath.Join(r.Scratch(), "replay.json")
		}
		sig, desc, outcome := judge(&c.File, jp)
		fmt.Printf("replay: outcome=%s sig=%q\n", outcome, sig)
		if sig != "" {
			r.Violation(sig, desc, c)
		}
		r.Finish(vr.Coverage{Level: "exploration", Evaluations: 1, Distinct: 2, Rule: "replay", Samples: []any{c}})
	}

	scratch := r.Scratch()
	total := r.RunSharded(vr.Workers(), func(sh vr.ShardInfo, p *vr.Partial) {
		jsonPath := filepath.Join(scratch, fmt.Sprintf("cfg-%d.json", sh.Index))
		var nEval, nJSON, nUndef, nAcc, nRej int64
		seenOutcome := map[string]bool{}
		defer func() {
			p.Add("evaluations", nEval)
			p.Add("via_json", nJSON)
			p.Add("undefined_blank_template", nUndef)
			p.Add("accepted", nAcc)
			p.Add("rejected", nRej)
		}()
		item := 0
		for _, d := range doms {
			stores := d.stores()
			regs := d.regions()
			nR := len(regs)
			// region lists of length 0..MaxRegions, addressed by (length, index in base nR)
			for _, st := range stores {
				for l := 0; l <= d.MaxRegions; l++ {
					nLists := pow(nR, l)
					// work item = (store list, length, first region) so that shards stay balanced
					firstN := 1
					if l > 0 {
						firstN = nR
					}
					for first := 0; first < firstN; first++ {
						item++
						if !sh.Owns(item) {
							continue
						}
						if r.Expired() {
							p.TimedOut = true
							return
						}
						rl := make([]config.Region, l)
						for rest := 0; rest < nLists/firstN; rest++ {
							x := rest
							if l > 0 {
								rl[0] = regs[first]
							}
							for k := 1; k < l; k++ {
								rl[k] = regs[x%nR]
								x /= nR
							}
							for _, t1 := range d.Templates {
								for _, t2 := range d.Templates {
									f := config.File{StoreWorkDirTemplate: t1, StoreDockerWorkDirTemplate: t2, Stores: st, Regions: rl}
									if d.Decorate {
										f.MaxRetries = -1
										f.PD = &config.PD{Addr: "", WorkDir: "no-id"}
									}
									for pass := 0; pass < 2; pass++ {
										jp := ""
										if pass == 1 {
											if l > d.JSONUpTo {
												break
											}
											jp = jsonPath
										}
										sig, desc, outcome := judge(&f, jp)
										nEval++
										if jp != "" {
											nJSON++
										}
										switch outcome[0] {
										case 'u':
											nUndef++
										case 'a':
											nAcc++
										case 'r':
											nRej++
										}
										if outcome[0] != 'u' && !seenOutcome[outcome] {
											seenOutcome[outcome] = true
											if p.Mark("outcomes", outcome) {
												p.Sample(fmt.Sprintf("%s  e.g. stores=%v regions=%+v templates=%q,%q", outcome, ids(st), rl, t1, t2))
											}
										}
										if sig != "" {
											// deterministic function: confirm on a deep copy before reporting
											var g config.File
											blob, _ := json.Marshal(f)
											_ = json.Unmarshal(blob, &g)
											if sig2, _, _ := judge(&g, jp); sig2 != sig {
												vr.Fatalf("non-reproducible verdict for %s: %q vs %q", blob, sig, sig2)
											}
											rp, _ := json.Marshal(caseJSON{Domain: d.Name, File: g, ViaJS: jp != ""})
											p.Viol(sig, desc+"; first case: "+string(blob), string(rp))
										}
									}
								}
							}
						}
					}
				}
			}
			p.Add("domain_done:"+d.Name, 1)
		}
	})
	// nil receiver: the statement is silent; only "no panic" is demanded of the call itself
	func() {
		defer func() {
			if x := recover(); x != nil {
				r.Violation("panic nil-file", fmt.Sprint(x), nil)
			}
		}()
		var nf *config.File
		_ = nf.Validate()
	}()

	var bounds []string
	for _, d := range doms {
		bounds = append(bounds, fmt.Sprintf("%s: stores<=%d ids%v; regions<=%d id%v leader%v; peers<=%d store%v peer%v; templates %q x2; decorated=%v; json+LoadFile for <=%d regions",
			d.Name, d.MaxStores, d.StoreIDs, d.MaxRegions, d.RegionIDs, d.LeaderIDs, d.MaxPeers, d.PeerStores, d.PeerIDs, d.Templates, d.Decorate, d.JSONUpTo))
	}
	outcomes := total.Card("outcomes")
	r.RequireOutcomes(outcomes, 8)
	if total.Counters["accepted"] == 0 || total.Counters["rejected"] == 0 {
		vr.Fatalf("vacuous: accepted=%d rejected=%d", total.Counters["accepted"], total.Counters["rejected"])
	}
	r.Finish(vr.Coverage{
		Level:       "exploration",
		Evaluations: total.Counters["evaluations"],
		Distinct:    outcomes,
		Rule:        "every config.File over the stated ID domains (all store lists, all region lists with all peer lists, all template pairs); Validate()==nil must hold exactly when the independent predicate finds none of the defects named in the statement; distinct = distinct (verdict, defect set) classes observed",
		Samples:     total.SamplesAny(),
		Exhaustive:  !total.TimedOut,
		Outcomes:    outcomes,
		Bounds:      map[string]any{"domains": bounds},
		Extra: map[string]any{"accepted": total.Counters["accepted"], "rejected": total.Counters["rejected"], "via_json_loadfile": total.Counters["via_json"],
			"undefined_blank_template_cases_not_compared": total.Counters["undefined_blank_template"]},
		Assumptions: []string{"leader_store_id 0 means 'not given' (docs/config.md: optional) and is not a reference to a store",
			"a non-empty template consisting only of white space is left undefined by the statement (every consumer trims it to 'no template'); such cases are executed but not compared",
			"duplicate region ids, duplicate peer ids, a leader that is not a peer, inverted key ranges are not defects named by the statement, so acceptance is demanded"},
	})
}

func ids(st []config.Store) []uint64 {
	out := []uint64{}
	for _, s := range st {
		out = append(out, s.StoreID)
	}
	return out
}
