//go:build verif

// C28 — client two-phase commit is atomic across regions.
//
// The REAL raftstore/client.Client talks over in-process gRPC (bufconn) to three harness
// TinyKv stub servers (one per store). A stub forwards every accepted request to the REAL
// raftstore/kv.Apply on a real NoKV DB (region r's data lives in the DB of store r; a
// leader change keeps the data = idealised replication, the raft layer is C22/C23's job)
// and a stub region resolver plays PD. Enumerated: every mutation set over keys in 1..3
// regions with every choice of primary, and at every (region, phase) RPC of the
// prewrite/commit sequence one injected answer from {transport error before apply, error
// after apply (reply lost), NotLeader(+leader moved) then ok, EpochNotMatch with/without
// the current region}; optionally a concurrent reader that resolves the transaction
// (CheckTxnStatus after TTL expiry + ResolveLocks) right before a chosen RPC; optionally a
// whole-call client retry after a failure. After the client returns, the reader-side
// resolution runs and every key is read.
package main

import (
	"context"
	"encoding/json"
	"fmt"
	"net"
	"os"
	"sort"
	"strings"
	"sync"
	"time"

	NoKV "github.com/feichai0017/NoKV"
	"github.com/feichai0017/NoKV/pb"
	"github.com/feichai0017/NoKV/raftstore/client"
	"github.com/feichai0017/NoKV/raftstore/kv"
	"google.golang.org/grpc"
	"google.golang.org/grpc/codes"
	"google.golang.org/grpc/credentials/insecure"
	"google.golang.org/grpc/status"
	"google.golang.org/grpc/test/bufconn"

	"verif/lib/vr"
)

const (
	nStores  = 3
	startTs  = 100
	commitTs = 200
	lockTTL  = 50
	readerTs = 1000 // > startTs+lockTTL: the reader sees every lock of the transaction as expired
)

// ---- fault specification -------------------------------------------------------------

const (
	fNone      = ""
	fErrBefore = "err-before-apply"
	fErrAfter  = "err-after-apply"
	fNotLeader = "notleader-then-ok"
	fEpochMeta = "epoch-not-match(with-region)"
	fEpochNone = "epoch-not-match(empty)"
	// persistent answers: every RPC of that (region role, phase) gets the recoverable region
	// error for as long as the client under test keeps trying (election in progress / region
	// permanently re-split): the client's retry budget runs out
	fNotLeaderForever = "notleader(no-hint)-persistent"
	fEpochForever     = "epoch-not-match(with-region)-persistent"
)

var faultKinds = []string{fErrBefore, fErrAfter, fNotLeader, fEpochMeta, fEpochNone, fNotLeaderForever, fEpochForever}

type fault struct {
	Role  string // "P" = the primary's region, "S1"/"S2" = secondary regions in ascending region order
	Phase string // "prewrite" | "commit"
	Kind  string
}

func (f fault) String() string {
	if f.Kind == fNone {
		return "none"
	}
	return f.Role + "." + f.Phase + ":" + f.Kind
}

// Case is one enumerated execution (also the replay artefact).
type Case struct {
	Regions  []int   // region of each key
	Primary  int     // index of the primary key
	Faults   []fault // injected answers (each fires once, at the first matching RPC)
	Resolver string  // "" or "<Role>.<Phase>": a concurrent reader resolves the txn right before that RPC is handled
	Retry    bool    // the caller re-submits the identical TwoPhaseCommit once after an error
	Order    []int   // mutation list permutation to start with (order coverage driver)
}

func (c Case) String() string {
	var fs []string
	for _, f := range c.Faults {
		fs = append(fs, f.String())
	}
	if len(fs) == 0 {
		fs = []string{"none"}
	}
	s := fmt.Sprintf("keys@regions=%v primary=#%d faults=%s", c.Regions, c.Primary, strings.Join(fs, "+"))
	if c.Resolver != "" {
		s += " resolver-before=" + c.Resolver
	}
	if c.Retry {
		s += " caller-retry"
	}
	return s
}

// ---- world: DBs, stub servers, resolver -----------------------------------------------

type rpcEvent struct {
	Store  int
	Region int
	Method string
	Result string
}

type world struct {
	mu       sync.Mutex
	dbs      [nStores + 1]*NoKV.DB
	lis      [nStores + 1]*bufconn.Listener
	srv      [nStores + 1]*grpc.Server
	leader   [nStores + 1]int // region -> leader store
	armed    bool             // faults only hit the client under test
	faults   []fault
	fired    []bool
	roles    map[int]string // region -> role in the current case
	resolver string
	resolved bool
	resolve  func() // runs the reader-side resolution (own client)
	reader   *client.Client
	trace    []rpcEvent
	// ground truth
	primaryRegion        int
	primaryCommitApplied bool
}

var regionRanges = [nStores + 1][2]string{{}, {"", "h"}, {"h", "p"}, {"p", ""}}

func regionMeta(r int) *pb.RegionMeta {
	m := &pb.RegionMeta{Id: uint64(r), StartKey: []byte(regionRanges[r][0]), EndKey: []byte(regionRanges[r][1]), EpochVersion: 1, EpochConfVersion: 1}
	for s := 1; s <= nStores; s++ {
		m.Peers = append(m.Peers, &pb.RegionPeer{StoreId: uint64(s), PeerId: uint64(r*10 + s)})
	}
	return m
}

type pdStub struct{ w *world }

func (p pdStub) GetRegionByKey(ctx context.Context, req *pb.GetRegionByKeyRequest) (*pb.GetRegionByKeyResponse, error) {
	k := string(req.GetKey())
	for r := 1; r <= nStores; r++ {
		if k >= regionRanges[r][0] && (regionRanges[r][1] == "" || k < regionRanges[r][1]) {
			return &pb.GetRegionByKeyResponse{Region: regionMeta(r)}, nil
		}
	}
	return &pb.GetRegionByKeyResponse{NotFound: true}, nil
}
func (p pdStub) Close() error { return nil }

type stub struct {
	pb.UnimplementedTinyKvServer
	w     *world
	store int
}

// gate decides what happens to one RPC. It returns (regionErr, rpcErr, applyThenFail).
func (s *stub) gate(ctx *pb.Context, method, phase string) (*pb.RegionError, error, bool) {
	w := s.w
	r := int(ctx.GetRegionId())
	if r < 1 || r > nStores {
		return nil, status.Error(codes.InvalidArgument, "bad region"), false
	}
	if w.armed && phase != "" {
		role := w.roles[r]
		if w.resolver == role+"."+phase && !w.resolved {
			w.resolved = true
			w.mu.Unlock()
			w.resolve()
			w.mu.Lock()
			w.trace = append(w.trace, rpcEvent{s.store, r, method, "(reader resolved the transaction first)"})
		}
		for i, f := range w.faults {
			if w.fired[i] || f.Role != role || f.Phase != phase {
				continue
			}
			w.fired[i] = true
			switch f.Kind {
			case fErrBefore:
				w.trace = append(w.trace, rpcEvent{s.store, r, method, "transport error, not applied"})
				return nil, status.Error(codes.Unavailable, "injected: connection lost before the request was handled"), false
			case fErrAfter:
				return nil, nil, true
			case fNotLeader:
				nl := w.leader[r]%nStores + 1
				w.leader[r] = nl
				w.trace = append(w.trace, rpcEvent{s.store, r, method, fmt.Sprintf("NotLeader (leader moved to store %d)", nl)})
				return &pb.RegionError{NotLeader: &pb.NotLeader{RegionId: uint64(r), Leader: &pb.RegionPeer{StoreId: uint64(nl), PeerId: uint64(r*10 + nl)}}}, nil, false
			case fEpochMeta:
				w.trace = append(w.trace, rpcEvent{s.store, r, method, "EpochNotMatch (current region attached)"})
				return &pb.RegionError{EpochNotMatch: &pb.EpochNotMatch{CurrentEpoch: &pb.RegionEpoch{Version: 1, ConfVer: 1}, Regions: []*pb.RegionMeta{regionMeta(r)}}}, nil, false
			case fEpochNone:
				w.trace = append(w.trace, rpcEvent{s.store, r, method, "EpochNotMatch (no region attached)"})
				return &pb.RegionError{EpochNotMatch: &pb.EpochNotMatch{}}, nil, false
			case fNotLeaderForever:
				w.fired[i] = false
				w.trace = append(w.trace, rpcEvent{s.store, r, method, "NotLeader (no leader known)"})
				return &pb.RegionError{NotLeader: &pb.NotLeader{RegionId: uint64(r)}}, nil, false
			case fEpochForever:
				w.fired[i] = false
				w.trace = append(w.trace, rpcEvent{s.store, r, method, "EpochNotMatch (current region attached)"})
				return &pb.RegionError{EpochNotMatch: &pb.EpochNotMatch{CurrentEpoch: &pb.RegionEpoch{Version: 1, ConfVer: 1}, Regions: []*pb.RegionMeta{regionMeta(r)}}}, nil, false
			}
		}
	}
	if w.leader[r] != s.store {
		l := w.leader[r]
		w.trace = append(w.trace, rpcEvent{s.store, r, method, "NotLeader"})
		return &pb.RegionError{NotLeader: &pb.NotLeader{RegionId: uint64(r), Leader: &pb.RegionPeer{StoreId: uint64(l), PeerId: uint64(r*10 + l)}}}, nil, false
	}
	if e := ctx.GetRegionEpoch(); e.GetVersion() != 1 || e.GetConfVer() != 1 {
		return &pb.RegionError{EpochNotMatch: &pb.EpochNotMatch{CurrentEpoch: &pb.RegionEpoch{Version: 1, ConfVer: 1}, Regions: []*pb.RegionMeta{regionMeta(r)}}}, nil, false
	}
	return nil, nil, false
}

func (s *stub) apply(ctx *pb.Context, req *pb.Request) (*pb.Response, error) {
	r := int(ctx.GetRegionId())
	hdr := &pb.CmdHeader{RegionId: ctx.GetRegionId(), RegionEpoch: ctx.GetRegionEpoch(), PeerId: ctx.GetPeer().GetPeerId()}
	out, err := kv.Apply(s.w.dbs[r], &pb.RaftCmdRequest{Header: hdr, Requests: []*pb.Request{req}})
	if err != nil {
		return nil, status.Errorf(codes.Internal, "%v", err)
	}
	if len(out.GetResponses()) == 0 {
		return nil, status.Error(codes.Internal, "empty apply response")
	}
	return out.GetResponses()[0], nil
}

var errReplyLost = status.Error(codes.Unavailable, "injected: reply lost after the request was applied")

func (s *stub) KvPrewrite(_ context.Context, req *pb.KvPrewriteRequest) (*pb.KvPrewriteResponse, error) {
	s.w.mu.Lock()
	defer s.w.mu.Unlock()
	re, err, lose := s.gate(req.GetContext(), "Prewrite", "prewrite")
	if err != nil || re != nil {
		return &pb.KvPrewriteResponse{RegionError: re}, err
	}
	resp, err := s.apply(req.GetContext(), &pb.Request{CmdType: pb.CmdType_CMD_PREWRITE, Cmd: &pb.Request_Prewrite{Prewrite: req.GetRequest()}})
	if err != nil {
		return nil, err
	}
	res := "applied"
	if n := len(resp.GetPrewrite().GetErrors()); n > 0 {
		res = fmt.Sprintf("applied, %d key errors", n)
	}
	if lose {
		s.w.trace = append(s.w.trace, rpcEvent{s.store, int(req.GetContext().GetRegionId()), "Prewrite", res + ", reply lost"})
		return nil, errReplyLost
	}
	s.w.trace = append(s.w.trace, rpcEvent{s.store, int(req.GetContext().GetRegionId()), "Prewrite", res})
	return &pb.KvPrewriteResponse{Response: resp.GetPrewrite()}, nil
}

func (s *stub) KvCommit(_ context.Context, req *pb.KvCommitRequest) (*pb.KvCommitResponse, error) {
	s.w.mu.Lock()
	defer s.w.mu.Unlock()
	phase := "commit"
	re, err, lose := s.gate(req.GetContext(), "Commit", phase)
	if err != nil || re != nil {
		return &pb.KvCommitResponse{RegionError: re}, err
	}
	resp, err := s.apply(req.GetContext(), &pb.Request{CmdType: pb.CmdType_CMD_COMMIT, Cmd: &pb.Request_Commit{Commit: req.GetRequest()}})
	if err != nil {
		return nil, err
	}
	r := int(req.GetContext().GetRegionId())
	res := "applied"
	if ke := resp.GetCommit().GetError(); ke != nil {
		res = "applied, key error: " + keyErrString(ke)
	} else if s.w.armed && r == s.w.primaryRegion {
		s.w.primaryCommitApplied = true
	}
	if lose {
		s.w.trace = append(s.w.trace, rpcEvent{s.store, r, "Commit", res + ", reply lost"})
		return nil, errReplyLost
	}
	s.w.trace = append(s.w.trace, rpcEvent{s.store, r, "Commit", res})
	return &pb.KvCommitResponse{Response: resp.GetCommit()}, nil
}

func (s *stub) KvGet(_ context.Context, req *pb.KvGetRequest) (*pb.KvGetResponse, error) {
	s.w.mu.Lock()
	defer s.w.mu.Unlock()
	re, err, _ := s.gate(req.GetContext(), "Get", "")
	if err != nil || re != nil {
		return &pb.KvGetResponse{RegionError: re}, err
	}
	resp, err := s.apply(req.GetContext(), &pb.Request{CmdType: pb.CmdType_CMD_GET, Cmd: &pb.Request_Get{Get: req.GetRequest()}})
	if err != nil {
		return nil, err
	}
	return &pb.KvGetResponse{Response: resp.GetGet()}, nil
}

func (s *stub) KvCheckTxnStatus(_ context.Context, req *pb.KvCheckTxnStatusRequest) (*pb.KvCheckTxnStatusResponse, error) {
	s.w.mu.Lock()
	defer s.w.mu.Unlock()
	re, err, _ := s.gate(req.GetContext(), "CheckTxnStatus", "")
	if err != nil || re != nil {
		return &pb.KvCheckTxnStatusResponse{RegionError: re}, err
	}
	resp, err := s.apply(req.GetContext(), &pb.Request{CmdType: pb.CmdType_CMD_CHECK_TXN_STATUS, Cmd: &pb.Request_CheckTxnStatus{CheckTxnStatus: req.GetRequest()}})
	if err != nil {
		return nil, err
	}
	return &pb.KvCheckTxnStatusResponse{Response: resp.GetCheckTxnStatus()}, nil
}

func (s *stub) KvResolveLock(_ context.Context, req *pb.KvResolveLockRequest) (*pb.KvResolveLockResponse, error) {
	s.w.mu.Lock()
	defer s.w.mu.Unlock()
	re, err, _ := s.gate(req.GetContext(), "ResolveLock", "")
	if err != nil || re != nil {
		return &pb.KvResolveLockResponse{RegionError: re}, err
	}
	resp, err := s.apply(req.GetContext(), &pb.Request{CmdType: pb.CmdType_CMD_RESOLVE_LOCK, Cmd: &pb.Request_ResolveLock{ResolveLock: req.GetRequest()}})
	if err != nil {
		return nil, err
	}
	return &pb.KvResolveLockResponse{Response: resp.GetResolveLock()}, nil
}

func keyErrString(ke *pb.KeyError) string {
	switch {
	case ke == nil:
		return ""
	case ke.GetLocked() != nil:
		return "locked"
	case ke.GetWriteConflict() != nil:
		return "write-conflict"
	case ke.GetAbort() != "":
		return "abort(" + ke.GetAbort() + ")"
	case ke.GetRetryable() != "":
		return "retryable(" + ke.GetRetryable() + ")"
	case ke.GetCommitTsExpired() != nil:
		return "commit-ts-expired"
	}
	return "key-error"
}

func newWorld(dir string) *world {
	w := &world{}
	for s := 1; s <= nStores; s++ {
		opt := NoKV.NewDefaultOptions()
		opt.WorkDir = fmt.Sprintf("%s/store%d", dir, s)
		if err := os.MkdirAll(opt.WorkDir, 0o755); err != nil {
			vr.Fatalf("mkdir: %v", err)
		}
		w.dbs[s] = NoKV.Open(opt)
		w.lis[s] = bufconn.Listen(1 << 20)
		w.srv[s] = grpc.NewServer()
		pb.RegisterTinyKvServer(w.srv[s], &stub{w: w, store: s})
		go func(s int) { _ = w.srv[s].Serve(w.lis[s]) }(s)
	}
	return w
}

func (w *world) close() {
	if w.reader != nil {
		_ = w.reader.Close()
	}
	for s := 1; s <= nStores; s++ {
		w.srv[s].Stop()
		_ = w.dbs[s].Close()
	}
}

func (w *world) newClient() *client.Client {
	var eps []client.StoreEndpoint
	for s := 1; s <= nStores; s++ {
		eps = append(eps, client.StoreEndpoint{StoreID: uint64(s), Addr: fmt.Sprintf("passthrough:///store-%d", s)})
	}
	dial := grpc.WithContextDialer(func(ctx context.Context, addr string) (net.Conn, error) {
		var s int
		if _, err := fmt.Sscanf(addr, "store-%d", &s); err != nil || s < 1 || s > nStores {
			return nil, fmt.Errorf("bad address %q", addr)
		}
		return w.lis[s].DialContext(ctx)
	})
	cl, err := client.New(client.Config{Stores: eps, RegionResolver: pdStub{w}, DialOptions: []grpc.DialOption{dial, grpc.WithTransportCredentials(insecure.NewCredentials())}, DialTimeout: 20 * time.Second})
	if err != nil {
		vr.Fatalf("client.New: %v", err)
	}
	return cl
}

// ---- one execution --------------------------------------------------------------------

type outcome struct {
	ClientErr     string
	PrimaryCommit bool     // ground truth: the primary region's commit was applied without key error
	Visible       []string // per key after resolution: "new" | "none" | "locked" | "other:<v>"
	Early         []string // per key at commitTs-1 after resolution
	Trace         []rpcEvent
	OrderSig      string // which secondary region was contacted first, per phase
	FirstPre      string
	RolledBackMid bool // the concurrent reader rolled the transaction back while the client was still running
	FirstCom      string
	ResolveNote   string
}

var runCounter int
var tDial, tCommit, tResolve, tRead time.Duration

func keyFor(region, slot, run int) []byte {
	base := []string{"", "a", "k", "t"}[region]
	return []byte(fmt.Sprintf("%s%d-%07d", base, slot, run))
}

// permute returns the k-th (mod n!) permutation of 0..n-1.
func permute(n int, k int) []int {
	var all [][]int
	var rec func(cur []int, used []bool)
	rec = func(cur []int, used []bool) {
		if len(cur) == n {
			all = append(all, append([]int(nil), cur...))
			return
		}
		for i := 0; i < n; i++ {
			if !used[i] {
				used[i] = true
				rec(append(cur, i), used)
				used[i] = false
			}
		}
	}
	rec(nil, make([]bool, n))
	return all[k%len(all)]
}

func runCase(w *world, c Case, permIdx int) outcome {
	runCounter++
	run := runCounter
	keys := make([][]byte, len(c.Regions))
	vals := make([][]byte, len(c.Regions))
	for i, r := range c.Regions {
		keys[i] = keyFor(r, i, run)
		vals[i] = []byte(fmt.Sprintf("v%d-%d", i, run))
	}
	primary := keys[c.Primary]
	// roles
	roles := map[int]string{c.Regions[c.Primary]: "P"}
	var secs []int
	for _, r := range c.Regions {
		if _, ok := roles[r]; !ok {
			roles[r] = "?"
			secs = append(secs, r)
		}
	}
	sort.Ints(secs)
	for i, r := range secs {
		roles[r] = fmt.Sprintf("S%d", i+1)
	}
	w.mu.Lock()
	for r := 1; r <= nStores; r++ {
		w.leader[r] = r
	}
	w.faults = c.Faults
	w.fired = make([]bool, len(c.Faults))
	w.roles = roles
	w.resolver = c.Resolver
	w.resolved = false
	w.trace = nil
	w.primaryRegion = c.Regions[c.Primary]
	w.primaryCommitApplied = false
	w.armed = true
	w.mu.Unlock()

	t0 := time.Now()
	if w.reader == nil {
		w.reader = w.newClient() // the reader's client is reused; the client under test is fresh per execution
	}
	reader := w.reader
	var out outcome
	rolledBack := false
	resolve := func() {
		ctx, cancel := context.WithTimeout(context.Background(), 60*time.Second)
		defer cancel()
		st, err := reader.CheckTxnStatus(ctx, primary, startTs, readerTs)
		if err != nil {
			vr.Fatalf("reader CheckTxnStatus failed (no fault is injected into the reader): %v", err)
		}
		switch {
		case st.GetError() != nil:
			out.ResolveNote += "check-txn-status key error " + keyErrString(st.GetError()) + "; "
		case st.GetCommitVersion() > 0:
			if _, err := reader.ResolveLocks(ctx, startTs, st.GetCommitVersion(), keys); err != nil {
				out.ResolveNote += "resolve(commit) error: " + err.Error() + "; "
			} else {
				out.ResolveNote += fmt.Sprintf("primary committed@%d -> secondaries committed; ", st.GetCommitVersion())
			}
		case st.GetAction() == pb.CheckTxnStatusAction_CheckTxnStatusTTLExpireRollback || st.GetAction() == pb.CheckTxnStatusAction_CheckTxnStatusLockNotExistRollback:
			rolledBack = true
			if _, err := reader.ResolveLocks(ctx, startTs, 0, keys); err != nil {
				out.ResolveNote += "resolve(rollback) error: " + err.Error() + "; "
			} else {
				out.ResolveNote += "primary rolled back -> secondaries rolled back; "
			}
		default:
			out.ResolveNote += fmt.Sprintf("check-txn-status action=%v ttl=%d: nothing to resolve; ", st.GetAction(), st.GetLockTtl())
		}
	}
	w.resolve = func() {
		// the concurrent reader is not subject to the injected faults
		w.mu.Lock()
		w.armed = false
		w.mu.Unlock()
		resolve()
		out.RolledBackMid = rolledBack
		w.mu.Lock()
		w.armed = true
		w.mu.Unlock()
	}

	cl := w.newClient()
	tDial += time.Since(t0)
	t0 = time.Now()
	perm := permute(len(keys), permIdx)
	muts := make([]*pb.Mutation, 0, len(keys))
	for _, i := range perm {
		muts = append(muts, &pb.Mutation{Op: pb.Mutation_Put, Key: keys[i], Value: vals[i]})
	}
	ctx, cancel := context.WithTimeout(context.Background(), 60*time.Second)
	err := cl.TwoPhaseCommit(ctx, primary, muts, startTs, commitTs, lockTTL)
	if err != nil && c.Retry {
		out.ClientErr = "first attempt: " + errClass(err) + "; "
		err = cl.TwoPhaseCommit(ctx, primary, muts, startTs, commitTs, lockTTL)
	}
	cancel()
	_ = cl.Close()
	tCommit += time.Since(t0)
	t0 = time.Now()
	if err != nil {
		out.ClientErr += errClass(err)
	}
	w.mu.Lock()
	w.armed = false
	out.PrimaryCommit = w.primaryCommitApplied
	out.Trace = append([]rpcEvent(nil), w.trace...)
	w.mu.Unlock()
	// order signature: first secondary region contacted per phase
	first := map[string]string{}
	for _, ev := range out.Trace {
		role := roles[ev.Region]
		if strings.HasPrefix(role, "S") && (ev.Method == "Prewrite" || ev.Method == "Commit") {
			if _, ok := first[ev.Method]; !ok {
				first[ev.Method] = role
			}
		}
	}
	out.FirstPre, out.FirstCom = first["Prewrite"], first["Commit"]
	out.OrderSig = "prewrite-first=" + first["Prewrite"] + " commit-first=" + first["Commit"]

	resolve()
	tResolve += time.Since(t0)
	t0 = time.Now()
	defer func() { tRead += time.Since(t0) }()
	rctx, rcancel := context.WithTimeout(context.Background(), 60*time.Second)
	defer rcancel()
	read := func(version uint64) []string {
		var vis []string
		for i, k := range keys {
			g, err := reader.Get(rctx, k, version)
			switch {
			case err != nil:
				vr.Fatalf("reader Get failed: %v", err)
			case g.GetError() != nil:
				vis = append(vis, keyErrString(g.GetError()))
			case g.GetNotFound():
				vis = append(vis, "none")
			case string(g.GetValue()) == string(vals[i]):
				vis = append(vis, "new")
			default:
				vis = append(vis, "other:"+string(g.GetValue()))
			}
		}
		return vis
	}
	out.Visible = read(readerTs + 1)
	out.Early = read(commitTs - 1)
	return out
}

func errClass(err error) string {
	s := err.Error()
	switch {
	case strings.Contains(s, "injected: connection lost"):
		return "transport-error"
	case strings.Contains(s, "injected: reply lost"):
		return "reply-lost"
	case strings.Contains(s, "missing for"):
		return "region-missing"
	case strings.Contains(s, "prewrite key errors"):
		return "prewrite-key-error"
	case strings.Contains(s, "commit key error"):
		return "commit-key-error"
	}
	if len(s) > 60 {
		s = s[:60]
	}
	return "other(" + s + ")"
}

// judge applies the property. Returns a canonical signature or "".
func judge(c Case, o outcome) (sig, desc string) {
	all := func(v []string, want string) bool {
		for _, x := range v {
			if x != want {
				return false
			}
		}
		return true
	}
	shape := func(v []string) string {
		// canonical: per key role (P = primary key, p = other key of the primary's region, s1/s2 = secondary regions)
		pr := c.Regions[c.Primary]
		var secs []int
		seen := map[int]bool{pr: true}
		for _, r := range c.Regions {
			if !seen[r] {
				seen[r] = true
				secs = append(secs, r)
			}
		}
		sort.Ints(secs)
		var parts []string
		for i, x := range v {
			role := "p"
			if i == c.Primary {
				role = "P"
			} else if c.Regions[i] != pr {
				for j, r := range secs {
					if r == c.Regions[i] {
						role = fmt.Sprintf("s%d", j+1)
					}
				}
			}
			parts = append(parts, role+"="+x)
		}
		sort.Strings(parts)
		return strings.Join(parts, ",")
	}
	var fs []string
	for _, f := range c.Faults {
		fs = append(fs, f.String())
	}
	ctxs := "faults=" + strings.Join(fs, "+")
	if len(fs) == 0 {
		ctxs = "faults=none"
	}
	if c.Resolver != "" {
		ctxs += " resolver-before=" + c.Resolver
	}
	if c.Retry {
		ctxs += " caller-retry"
	}
	if o.RolledBackMid && o.PrimaryCommit {
		// ground truth: a reader rolled the primary back, and afterwards the primary region still
		// answered the client's Commit with success
		ctxs = "mech=commit-accepted-after-rollback " + ctxs
	}
	d := func(msg string) string {
		var tr []string
		for _, ev := range o.Trace {
			tr = append(tr, fmt.Sprintf("store%d/r%d %s: %s", ev.Store, ev.Region, ev.Method, ev.Result))
		}
		return fmt.Sprintf("%s\n    case: %s\n    client result: %q; primary commit applied: %v\n    after resolution (%s) keys read: %v; at commit_ts-1: %v\n    RPC trace: %s",
			msg, c, o.ClientErr, o.PrimaryCommit, o.ResolveNote, o.Visible, o.Early, strings.Join(tr, " | "))
	}
	if !all(o.Early, "none") {
		return "visible-before-commit-version " + ctxs + " keys:" + shape(o.Early), d("a key of the transaction is readable below its commit version")
	}
	if !all(o.Visible, "new") && !all(o.Visible, "none") {
		return "partial-visibility " + ctxs + " keys:" + shape(o.Visible), d("after lock resolution some keys of the transaction are visible and others are not")
	}
	if o.ClientErr == "" && !all(o.Visible, "new") {
		return "success-not-visible " + ctxs, d("TwoPhaseCommit returned success but the mutation is not visible")
	}
	if !o.PrimaryCommit && !all(o.Visible, "none") {
		return "visible-without-primary-commit " + ctxs, d("the primary key never committed but the mutation is visible after resolution")
	}
	if o.PrimaryCommit && !all(o.Visible, "new") {
		return "primary-committed-not-visible " + ctxs, d("the primary key committed but the mutation is not fully visible after resolution")
	}
	return "", ""
}

// ---- enumeration ------------------------------------------------------------------------

func rolesOf(regions []int, primary int) []string {
	seen := map[int]bool{regions[primary]: true}
	n := 0
	for _, r := range regions {
		if !seen[r] {
			seen[r] = true
			n++
		}
	}
	out := []string{"P"}
	for i := 1; i <= n; i++ {
		out = append(out, fmt.Sprintf("S%d", i))
	}
	return out
}

func enumerate(thorough bool) []Case {
	keysets := [][]int{{1}, {1, 1}, {1, 2}, {1, 1, 2}, {1, 2, 3}}
	if thorough {
		keysets = append(keysets, []int{1, 2, 2, 3}, []int{2, 3}, []int{3, 1, 2})
	}
	var cases []Case
	for _, ks := range keysets {
		for p := range ks {
			roles := rolesOf(ks, p)
			var singles []fault
			for _, role := range roles {
				for _, ph := range []string{"prewrite", "commit"} {
					for _, k := range faultKinds {
						singles = append(singles, fault{role, ph, k})
					}
				}
			}
			base := Case{Regions: ks, Primary: p}
			cases = append(cases, base)
			for _, f := range singles {
				c := base
				c.Faults = []fault{f}
				cases = append(cases, c)
				// the caller re-submits the same transaction after the failure
				c.Retry = true
				cases = append(cases, c)
			}
			// a concurrent reader resolves the (expired) transaction before a chosen RPC
			for _, role := range roles {
				for _, ph := range []string{"prewrite", "commit"} {
					c := base
					c.Resolver = role + "." + ph
					cases = append(cases, c)
				}
			}
			if thorough {
				for i := range singles {
					for j := i + 1; j < len(singles); j++ {
						if singles[i].Role == singles[j].Role && singles[i].Phase == singles[j].Phase {
							continue
						}
						c := base
						c.Faults = []fault{singles[i], singles[j]}
						cases = append(cases, c)
					}
				}
				for _, f := range singles {
					for _, role := range roles {
						for _, ph := range []string{"prewrite", "commit"} {
							c := base
							c.Faults = []fault{f}
							c.Resolver = role + "." + ph
							cases = append(cases, c)
						}
					}
				}
			}
		}
	}
	return cases
}

const orderCap = 64

// explore runs one case until every secondary region has been seen as the first one
// contacted in every phase that contacted secondaries (Go map iteration order in
// TwoPhaseCommit); the mutation-list permutation changes with every attempt.
func explore(w *world, c Case, p *vr.Partial) {
	nsec := len(rolesOf(c.Regions, c.Primary)) - 1
	seenPre, seenCom := map[string]bool{}, map[string]bool{}
	var allTraces []rpcEvent
	roleOf := map[int]string{}
	{
		pr := c.Regions[c.Primary]
		var secs []int
		seen := map[int]bool{pr: true}
		for _, r := range c.Regions {
			if !seen[r] {
				seen[r] = true
				secs = append(secs, r)
			}
		}
		sort.Ints(secs)
		for i, r := range secs {
			roleOf[r] = fmt.Sprintf("S%d", i+1)
		}
	}
	for attempt := 0; ; attempt++ {
		o := runCase(w, c, attempt)
		p.Add("executions", 1)
		p.Add("rpcs", int64(len(o.Trace)))
		allTraces = append(allTraces, o.Trace...)
		sig, desc := judge(c, o)
		outc := fmt.Sprintf("err=%q primary=%v vis=%v", o.ClientErr, o.PrimaryCommit, o.Visible)
		p.Mark("outcomes", outc)
		p.Mark("distinct", c.String()+" "+o.OrderSig)
		if len(c.Faults) > 0 || c.Resolver != "" {
			if o.ClientErr != "" || strings.Contains(fmt.Sprint(o.Trace), "NotLeader") || strings.Contains(fmt.Sprint(o.Trace), "Epoch") {
				p.Mark("nontrivial", c.String()+" "+o.OrderSig)
			}
		}
		if sig != "" {
			// re-run from scratch and require the identical verdict
			o2 := runCase(w, c, attempt)
			if s2, _ := judge(c, o2); s2 == sig || o2.OrderSig != o.OrderSig {
				b, _ := json.Marshal(struct {
					Case Case
					Perm int
				}{c, attempt})
				p.Viol(sig, desc, string(b))
			} else {
				vr.Fatalf("verdict %q for %s not reproduced on re-run (got %q)", sig, c, s2)
			}
		}
		if attempt == 0 {
			p.Sample(c.String() + " => " + outc)
		}
		if nsec < 2 {
			return
		}
		pre, com := o.FirstPre, o.FirstCom
		if pre != "" {
			seenPre[pre] = true
		}
		if com != "" {
			seenCom[com] = true
		}
		okPre := len(seenPre) == 0 || len(seenPre) == nsec
		okCom := len(seenCom) == 0 || len(seenCom) == nsec
		if okPre && okCom {
			p.Max("max_order_attempts", int64(attempt+1))
			return
		}
		if attempt+1 >= orderCap {
			// A secondary that was never contacted at all in a phase (e.g. the client dropped the
			// region from its cache and fails locally) cannot be observed first there: its order
			// is unobservable, which is recorded, not ignored. Anything else is a harness error.
			contacted := map[string]map[string]bool{"Prewrite": {}, "Commit": {}}
			for _, ev := range allTraces {
				if role := roleOf[ev.Region]; strings.HasPrefix(role, "S") && contacted[ev.Method] != nil {
					contacted[ev.Method][role] = true
				}
			}
			unobservable := true
			for i := 1; i <= nsec; i++ {
				role := fmt.Sprintf("S%d", i)
				if len(seenPre) > 0 && !seenPre[role] && contacted["Prewrite"][role] {
					unobservable = false
				}
				if len(seenCom) > 0 && !seenCom[role] && contacted["Commit"][role] {
					unobservable = false
				}
			}
			if !unobservable {
				vr.Fatalf("case %s: after %d runs not every secondary-region order was observed (prewrite firsts %v, commit firsts %v)", c, orderCap, seenPre, seenCom)
			}
			p.Add("order_unobservable_cases", 1)
			p.Notes = append(p.Notes, fmt.Sprintf("case %s: a secondary region was never contacted in a phase during %d runs; its order there is unobservable", c, orderCap))
			return
		}
	}
}

func main() {
	r := vr.Start("C28")
	if r.ReplayPath != "" {
		var rp struct {
			Case Case
			Perm int
		}
		r.LoadReplay(&rp)
		w := newWorld(r.Scratch())
		for perm := rp.Perm; perm < rp.Perm+orderCap; perm++ {
			o := runCase(w, rp.Case, perm)
			sig, desc := judge(rp.Case, o)
			fmt.Printf("replay run (perm %d): %s order[%s] => err=%q primary-commit=%v visible=%v\n", perm, rp.Case, o.OrderSig, o.ClientErr, o.PrimaryCommit, o.Visible)
			if sig != "" {
				r.Violation(sig, desc, rp)
				break
			}
		}
		w.close()
		r.Finish(vr.Coverage{Level: "fault_enumeration", Evaluations: 1, Distinct: 2, Rule: "replay", Samples: []any{rp.Case.String()}})
	}
	cases := enumerate(r.Thorough())
	base := r.Scratch()
	total := r.RunSharded(vr.Workers(), func(sh vr.ShardInfo, p *vr.Partial) {
		w := newWorld(fmt.Sprintf("%s/w%d", base, sh.Index))
		for i, c := range cases {
			if !sh.Owns(i) {
				continue
			}
			if r.Expired() {
				p.TimedOut = true
				break
			}
			explore(w, c, p)
			p.Add("cases", 1)
		}
		w.close()
		if os.Getenv("VERIF_C28_DEBUG") != "" {
			fmt.Fprintf(os.Stderr, "shard %d: runs=%d dial=%v commit=%v resolve=%v read=%v\n", sh.Index, runCounter, tDial, tCommit, tResolve, tRead)
		}
	})
	outcomes := total.Card("outcomes")
	r.RequireOutcomes(outcomes, 4)
	r.Finish(vr.Coverage{
		Level:       "fault_enumeration",
		Evaluations: total.Counters["executions"],
		Distinct:    total.Card("nontrivial"),
		Rule:        "every mutation set (keys in 1..3 regions, every primary) x {no fault, one injected answer at every (region role, phase) RPC from {transport error before apply, reply lost after apply, NotLeader+leader moved, EpochNotMatch with/without region, NotLeader without hint on every attempt, EpochNotMatch on every attempt (the client's retry budget runs out)}} x {no retry, caller re-submits once} plus a concurrent expired-lock resolver before every (role, phase) RPC (thorough: all pairs of faults, fault x resolver); each case re-run with rotating mutation-list permutations until every secondary region was seen first in each phase; non-trivial = the injected answer was actually delivered (error, NotLeader or EpochNotMatch in the trace)",
		Samples:     total.SamplesAny(),
		Exhaustive:  !total.TimedOut,
		Outcomes:    outcomes,
		Bounds:      map[string]any{"cases": len(cases), "tier": r.Tier, "order_cap": orderCap},
		Extra: map[string]any{"cases_run": total.Counters["cases"], "rpcs_served": total.Counters["rpcs"], "case_x_order_combinations": total.Card("distinct"),
			"max_runs_needed_for_order_coverage": total.Counters["max_order_attempts"]},
		Assumptions: []string{
			"the raft layer below kv.Apply is replaced by a direct call on the leader's DB; a leader change keeps the region's data (idealised replication)",
			"reader-side resolution = CheckTxnStatus(primary) with a timestamp past the lock TTL, then ResolveLocks with the reported commit version (or rollback)",
			"keys are fresh per execution (the DBs are reused), so 'not visible' means not found",
		},
	})
}
