//go:build verif

// C25 — commands only execute against the region that owns their keys.
//
// enum: every request of a small complete grammar is sent through the real
// Store.ProposeCommand / Store.ReadCommand of single-voter leader regions
//
//	R1=[-inf,m)  R2=[m,t)  R3=[t,+inf)  (one store)      R4=[-inf,+inf) (second store)
//
// all at epoch (version 5, conf 3). A request "executes" when the store hands it to the
// command applier (a recorder; read-only requests are then served by the real kv.Apply on a
// real DB that holds committed data on both sides of every boundary).
//
// Oracle (one-directional): executed ⇒ header epoch == region epoch ∧ every named key in the
// region's range; every key of every scan response ⊂ range. How many well-formed requests are
// executed is only measured.
package main

import (
	"fmt"
	"sort"
	"strings"

	NoKV "github.com/feichai0017/NoKV"
	"github.com/feichai0017/NoKV/manifest"
	"github.com/feichai0017/NoKV/pb"
	myraft "github.com/feichai0017/NoKV/raft"
	"github.com/feichai0017/NoKV/raftstore/kv"
	"github.com/feichai0017/NoKV/raftstore/store"

	"verif/lib/regionh"
	"verif/lib/vr"
)

const (
	epochVer  = 5
	epochConf = 3
)

// key positions: empty, far below, just below m, m, just above m, middle, just below t, t, just above t, far above
var keys = []string{"", "a", "l\xff", "m", "m\x00", "p", "s\xff", "t", "t\x00", "z"}

type regionDef struct {
	ID    uint64
	Iv    regionh.Iv
	Store int
}

var regions = []regionDef{
	{1, regionh.Iv{S: "", E: "m"}, 0},
	{2, regionh.Iv{S: "m", E: "t"}, 0},
	{3, regionh.Iv{S: "t", E: ""}, 0},
	{4, regionh.Iv{S: "", E: ""}, 1},
}

var epochVariants = []string{"current", "ver+1", "ver-1", "conf+1", "conf-1", "nil", "swapped"}

func epochOf(v string) *pb.RegionEpoch {
	switch v {
	case "current":
		return &pb.RegionEpoch{Version: epochVer, ConfVer: epochConf}
	case "ver+1":
		return &pb.RegionEpoch{Version: epochVer + 1, ConfVer: epochConf}
	case "ver-1":
		return &pb.RegionEpoch{Version: epochVer - 1, ConfVer: epochConf}
	case "conf+1":
		return &pb.RegionEpoch{Version: epochVer, ConfVer: epochConf + 1}
	case "conf-1":
		return &pb.RegionEpoch{Version: epochVer, ConfVer: epochConf - 1}
	case "swapped":
		return &pb.RegionEpoch{Version: epochConf, ConfVer: epochVer}
	}
	return nil
}

// one sub-request of the grammar
type sub struct {
	Kind  string   // get scan prewrite commit rollback resolve check invalid
	Keys  []string // named keys
	Limit uint32   // scan
	Incl  bool     // scan include_start
}

func (s sub) String() string {
	var ks []string
	for _, k := range s.Keys {
		ks = append(ks, fmt.Sprintf("%q", k))
	}
	x := s.Kind + "(" + strings.Join(ks, ",") + ")"
	if s.Kind == "scan" {
		x += fmt.Sprintf("limit=%d,incl=%v", s.Limit, s.Incl)
	}
	return x
}

func (s sub) request() *pb.Request {
	b := func(k string) []byte { return []byte(k) }
	var bs [][]byte
	for _, k := range s.Keys {
		bs = append(bs, b(k))
	}
	switch s.Kind {
	case "get":
		return &pb.Request{CmdType: pb.CmdType_CMD_GET, Cmd: &pb.Request_Get{Get: &pb.GetRequest{Key: b(s.Keys[0]), Version: 100}}}
	case "scan":
		return &pb.Request{CmdType: pb.CmdType_CMD_SCAN, Cmd: &pb.Request_Scan{Scan: &pb.ScanRequest{StartKey: b(s.Keys[0]), Limit: s.Limit, Version: 100, IncludeStart: s.Incl}}}
	case "prewrite":
		var muts []*pb.Mutation
		for _, k := range s.Keys {
			muts = append(muts, &pb.Mutation{Op: pb.Mutation_Put, Key: b(k), Value: []byte("x")})
		}
		return &pb.Request{CmdType: pb.CmdType_CMD_PREWRITE, Cmd: &pb.Request_Prewrite{Prewrite: &pb.PrewriteRequest{Mutations: muts, PrimaryLock: b(s.Keys[0]), StartVersion: 200, LockTtl: 3000}}}
	case "commit":
		return &pb.Request{CmdType: pb.CmdType_CMD_COMMIT, Cmd: &pb.Request_Commit{Commit: &pb.CommitRequest{Keys: bs, StartVersion: 200, CommitVersion: 210}}}
	case "rollback":
		return &pb.Request{CmdType: pb.CmdType_CMD_BATCH_ROLLBACK, Cmd: &pb.Request_BatchRollback{BatchRollback: &pb.BatchRollbackRequest{Keys: bs, StartVersion: 200}}}
	case "resolve":
		return &pb.Request{CmdType: pb.CmdType_CMD_RESOLVE_LOCK, Cmd: &pb.Request_ResolveLock{ResolveLock: &pb.ResolveLockRequest{StartVersion: 200, CommitVersion: 210, Keys: bs}}}
	case "check":
		return &pb.Request{CmdType: pb.CmdType_CMD_CHECK_TXN_STATUS, Cmd: &pb.Request_CheckTxnStatus{CheckTxnStatus: &pb.CheckTxnStatusRequest{PrimaryKey: b(s.Keys[0]), LockTs: 200, CurrentTs: 300}}}
	}
	return &pb.Request{CmdType: pb.CmdType_CMD_INVALID}
}

// namedKeys lists the keys the sub-request names. The empty byte string is not a key in
// NoKV (the DB and the percolator layer refuse it: "Key cannot be empty"; an empty scan start
// is the from-the-beginning marker), so a field left empty names no key. How often such a
// request is executed by a region whose range does not start at -inf is only measured.
func (s sub) namedKeys() []string {
	if s.Kind == "invalid" {
		return nil
	}
	var out []string
	for _, k := range s.Keys {
		if k != "" {
			out = append(out, k)
		}
	}
	return out
}

func posClass(iv regionh.Iv, k string) string {
	switch {
	case k == "":
		if iv.S == "" {
			return "empty(in)"
		}
		return "empty"
	case k < iv.S:
		return "below-start"
	case k == iv.S:
		return "start"
	case iv.E != "" && k == iv.E:
		return "end"
	case iv.E != "" && k > iv.E:
		return "above-end"
	}
	return "inside"
}

// --- harness --------------------------------------------------------------------------------

type harness struct {
	db       *NoKV.DB
	stores   []*store.Store
	executed int64 // applier invocations
	lastReq  *pb.RaftCmdRequest
	applyErrs    int64
	lastApplyErr string
}

func (h *harness) applier(req *pb.RaftCmdRequest) (*pb.RaftCmdResponse, error) {
	h.executed++
	h.lastReq = req
	readOnly := true
	for _, r := range req.GetRequests() {
		if r.GetCmdType() != pb.CmdType_CMD_GET && r.GetCmdType() != pb.CmdType_CMD_SCAN {
			readOnly = false
		}
	}
	if readOnly {
		resp, err := kv.Apply(h.db, req) // the real read path on real data
		if err == nil {
			return resp, nil
		}
		// An apply error is outside this property (and, on the propose path, leaves the raft
		// Ready un-advanced so that the peer panics on its next proposal): count it, answer empty.
		h.applyErrs++
		h.lastApplyErr = err.Error()
	}
	// writes are recorded, not applied: the DB must stay identical for every enumerated case
	resp := &pb.RaftCmdResponse{Header: req.Header}
	for range req.GetRequests() {
		resp.Responses = append(resp.Responses, &pb.Response{})
	}
	return resp, nil
}

func setup(r *vr.Run) *harness {
	h := &harness{}
	opt := NoKV.NewDefaultOptions()
	opt.WorkDir = r.Scratch() + "/db"
	h.db = NoKV.Open(opt)
	// committed data on both sides of every boundary
	for i, k := range keys[1:] {
		start := uint64(10 + 2*i)
		req := &pb.RaftCmdRequest{Requests: []*pb.Request{{CmdType: pb.CmdType_CMD_PREWRITE, Cmd: &pb.Request_Prewrite{Prewrite: &pb.PrewriteRequest{
			Mutations: []*pb.Mutation{{Op: pb.Mutation_Put, Key: []byte(k), Value: []byte("v-" + k)}}, PrimaryLock: []byte(k), StartVersion: start, LockTtl: 3000}}}}}
		resp, err := kv.Apply(h.db, req)
		if err != nil || len(resp.GetResponses()[0].GetPrewrite().GetErrors()) > 0 {
			vr.Fatalf("preload prewrite %q: %v %v", k, err, resp)
		}
		req = &pb.RaftCmdRequest{Requests: []*pb.Request{{CmdType: pb.CmdType_CMD_COMMIT, Cmd: &pb.Request_Commit{Commit: &pb.CommitRequest{
			Keys: [][]byte{[]byte(k)}, StartVersion: start, CommitVersion: start + 1}}}}}
		resp, err = kv.Apply(h.db, req)
		if err != nil || resp.GetResponses()[0].GetCommit().GetError() != nil {
			vr.Fatalf("preload commit %q: %v %v", k, err, resp)
		}
	}
	// sanity: an unrestricted scan on the DB sees all preloaded keys
	all, err := kv.Apply(h.db, &pb.RaftCmdRequest{Requests: []*pb.Request{sub{Kind: "scan", Keys: []string{""}, Limit: 100}.request()}})
	if err != nil || len(all.GetResponses()[0].GetScan().GetKvs()) != len(keys)-1 {
		vr.Fatalf("preload: full scan returned %v (err %v), want %d keys", all, err, len(keys)-1)
	}
	for si := 0; si < 2; si++ {
		st := store.NewStoreWithConfig(store.Config{StoreID: uint64(si + 1), CommandApplier: h.applier})
		h.stores = append(h.stores, st)
	}
	for _, rd := range regions {
		meta := manifest.RegionMeta{ID: rd.ID, StartKey: []byte(rd.Iv.S), EndKey: []byte(rd.Iv.E),
			Epoch: manifest.RegionEpoch{Version: epochVer, ConfVersion: epochConf},
			Peers: []manifest.PeerMeta{{StoreID: uint64(rd.Store + 1), PeerID: regionh.PeerID(rd.ID)}}}
		p, err := h.stores[rd.Store].StartPeer(regionh.PeerConfig(meta), []myraft.Peer{{ID: regionh.PeerID(rd.ID)}})
		if err != nil {
			vr.Fatalf("start peer: %v", err)
		}
		if err := p.Campaign(); err != nil {
			vr.Fatalf("campaign: %v", err)
		}
		if p.Status().RaftState != myraft.StateLeader {
			vr.Fatalf("region %d peer is not leader after Campaign", rd.ID)
		}
	}
	return h
}

type caseT struct {
	Region int // index into regions
	Via    string
	Epoch  string
	Subs   []sub
}

func (c caseT) String() string {
	var ss []string
	for _, s := range c.Subs {
		ss = append(ss, s.String())
	}
	return fmt.Sprintf("region=%d%s via=%s epoch=%s req=[%s]", regions[c.Region].ID, regions[c.Region].Iv, c.Via, c.Epoch, strings.Join(ss, " "))
}

type stats struct {
	cases, executed, wellFormed, wellFormedExecuted, regionErr, callErr int64
	scanKeys, emptyKeyExecuted                                           int64
	outcomes                                                             map[string]bool
	classes                                                              map[string]bool
}

// run sends one case and judges it. Returns (sig, desc) of a violation or "".
func (h *harness) run(c caseT, st *stats) (string, string) {
	rd := regions[c.Region]
	req := &pb.RaftCmdRequest{Header: &pb.CmdHeader{RegionId: rd.ID, RegionEpoch: epochOf(c.Epoch)}}
	for _, s := range c.Subs {
		req.Requests = append(req.Requests, s.request())
	}
	before := h.executed
	var resp *pb.RaftCmdResponse
	var err error
	if c.Via == "propose" {
		resp, err = h.stores[rd.Store].ProposeCommand(req)
	} else {
		resp, err = h.stores[rd.Store].ReadCommand(req)
	}
	executed := h.executed > before
	st.cases++
	// model
	epochOK := c.Epoch == "current"
	keysOK, valid := true, true
	worst := ""
	var kinds []string
	for _, s := range c.Subs {
		kinds = append(kinds, s.Kind)
		if s.Kind == "invalid" {
			valid = false
		}
		for _, k := range s.namedKeys() {
			if !rd.Iv.Contains(k) {
				keysOK = false
				if worst == "" {
					worst = s.Kind + ":" + posClass(rd.Iv, k)
				}
			}
		}
	}
	readable := true
	if c.Via == "read" {
		for _, s := range c.Subs {
			if s.Kind != "get" && s.Kind != "scan" {
				readable = false
			}
		}
	}
	wellFormed := epochOK && keysOK && valid && readable
	if wellFormed {
		st.wellFormed++
	}
	switch {
	case err != nil:
		st.callErr++
	case resp.GetRegionError() != nil:
		st.regionErr++
	}
	st.outcomes[fmt.Sprintf("wellformed=%v executed=%v err=%v regionErr=%v", wellFormed, executed, err != nil, err == nil && resp.GetRegionError() != nil)] = true
	st.classes[fmt.Sprintf("%s|%s|%s|%v|%s|%d", c.Via, c.Epoch, strings.Join(kinds, "+"), keysOK, worst, c.Region)] = true
	if executed && rd.Iv.S != "" {
		for _, sb := range c.Subs {
			for _, k := range sb.Keys {
				if k == "" && sb.Kind != "scan" {
					st.emptyKeyExecuted++
				}
			}
		}
	}
	if executed {
		st.executed++
		if wellFormed {
			st.wellFormedExecuted++
		}
		if !epochOK {
			return fmt.Sprintf("executed-with-wrong-epoch via=%s epoch=%s kinds=%s", c.Via, c.Epoch, strings.Join(kinds, "+")),
				fmt.Sprintf("%s was handed to the applier although the region epoch is v%d.c%d", c, epochVer, epochConf)
		}
		if !keysOK {
			return fmt.Sprintf("executed-out-of-range via=%s key=%s range=%s", c.Via, worst, rangeShape(rd.Iv)),
				fmt.Sprintf("%s was handed to the applier although it names a key outside the region's range", c)
		}
	}
	// scan results returned through the region stay inside its range
	if err == nil && resp != nil && resp.GetRegionError() == nil {
		for i, out := range resp.GetResponses() {
			sc := out.GetScan()
			if sc == nil {
				continue
			}
			for _, kvp := range sc.GetKvs() {
				st.scanKeys++
				k := string(kvp.GetKey())
				if !rd.Iv.Contains(k) {
					side := "above-end"
					if k < rd.Iv.S {
						side = "below-start"
					}
					startPos := "n/a"
					if i < len(c.Subs) && c.Subs[i].Kind == "scan" {
						startPos = posClass(rd.Iv, c.Subs[i].Keys[0])
					}
					return fmt.Sprintf("scan-result-outside-range via=%s side=%s scan-start=%s", c.Via, side, startPos),
						fmt.Sprintf("%s returned key %q which is outside the region's range", c, k)
				}
			}
		}
	}
	return "", ""
}

func rangeShape(iv regionh.Iv) string {
	s, e := "bounded", "bounded"
	if iv.S == "" {
		s = "inf"
	}
	if iv.E == "" {
		e = "inf"
	}
	return s + "/" + e
}

// --- the grammar --------------------------------------------------------------------------

var singleKeyKinds = []string{"get", "check"}
var multiKeyKinds = []string{"prewrite", "commit", "rollback", "resolve"}

func singles() []sub {
	var out []sub
	for _, k := range keys {
		for _, kind := range singleKeyKinds {
			out = append(out, sub{Kind: kind, Keys: []string{k}})
		}
		for _, lim := range []uint32{1, 3, 100} {
			for _, incl := range []bool{true, false} {
				out = append(out, sub{Kind: "scan", Keys: []string{k}, Limit: lim, Incl: incl})
			}
		}
		for _, kind := range multiKeyKinds {
			out = append(out, sub{Kind: kind, Keys: []string{k}})
		}
	}
	for _, k1 := range keys {
		for _, k2 := range keys {
			for _, kind := range multiKeyKinds {
				out = append(out, sub{Kind: kind, Keys: []string{k1, k2}})
			}
		}
	}
	out = append(out, sub{Kind: "invalid"})
	return out
}

// one representative per (kind, key) for the two-request combinations
func pairSubs() []sub {
	var out []sub
	for _, k := range keys {
		out = append(out, sub{Kind: "get", Keys: []string{k}}, sub{Kind: "scan", Keys: []string{k}, Limit: 100, Incl: true},
			sub{Kind: "prewrite", Keys: []string{k}}, sub{Kind: "commit", Keys: []string{k}}, sub{Kind: "rollback", Keys: []string{k}},
			sub{Kind: "resolve", Keys: []string{k}}, sub{Kind: "check", Keys: []string{k}})
	}
	return out
}

func allCases(r *vr.Run) []caseT {
	var out []caseT
	ss := singles()
	for ri := range regions {
		for _, via := range []string{"propose", "read"} {
			for _, ep := range epochVariants {
				for _, s := range ss {
					out = append(out, caseT{Region: ri, Via: via, Epoch: ep, Subs: []sub{s}})
				}
			}
		}
	}
	ps := pairSubs()
	pairEpochs := []string{"current"}
	if r.Thorough() {
		pairEpochs = epochVariants
	}
	for ri := range regions {
		for _, via := range []string{"propose", "read"} {
			for _, ep := range pairEpochs {
				for _, a := range ps {
					for _, b := range ps {
						if via == "read" && (a.Kind != "get" && a.Kind != "scan" || b.Kind != "get" && b.Kind != "scan") && !r.Thorough() {
							continue // a non-read-only ReadCommand is refused before anything else; one level is covered by the singles
						}
						out = append(out, caseT{Region: ri, Via: via, Epoch: ep, Subs: []sub{a, b}})
					}
				}
			}
		}
	}
	// unknown / missing region ids never execute anything
	return out
}

func main() {
	regionh.QuietRaft()
	r := vr.Start("C25")
	h := setup(r)
	st := &stats{outcomes: map[string]bool{}, classes: map[string]bool{}}
	if r.ReplayPath != "" {
		var c caseT
		r.LoadReplay(&c)
		sig, desc := h.run(c, st)
		fmt.Printf("replay: %s -> %q\n", c, sig)
		if sig != "" {
			r.Violation(sig, desc, c)
		}
		h.close()
		r.Finish(vr.Coverage{Level: "exploration", Evaluations: 1, Distinct: 2, Rule: "replay", Samples: []any{c.String()}})
	}
	cases := allCases(r)
	var samples []any
	viol := map[string]int{}
	for i, c := range cases {
		if i%4096 == 0 && r.Expired() {
			break
		}
		sig, desc := h.run(c, st)
		if sig != "" {
			if viol[sig] == 0 {
				// the identical failure must reproduce 5 times
				for n := 0; n < 5; n++ {
					if s2, _ := h.run(c, &stats{outcomes: map[string]bool{}, classes: map[string]bool{}}); s2 != sig {
						vr.Fatalf("violation %q on %s did not reproduce (got %q)", sig, c, s2)
					}
				}
			}
			viol[sig]++
			r.Violation(sig, desc, c)
		}
		if i%(len(cases)/6+1) == 0 {
			samples = append(samples, c.String())
		}
	}
	// requests for unknown regions / without region id
	for _, id := range []uint64{0, 99} {
		before := h.executed
		req := &pb.RaftCmdRequest{Header: &pb.CmdHeader{RegionId: id, RegionEpoch: epochOf("current")}, Requests: []*pb.Request{sub{Kind: "get", Keys: []string{"p"}}.request()}}
		for _, f := range []func(*pb.RaftCmdRequest) (*pb.RaftCmdResponse, error){h.stores[0].ProposeCommand, h.stores[0].ReadCommand} {
			_, _ = f(req)
			st.cases++
		}
		if h.executed > before {
			r.Violation(fmt.Sprintf("executed-for-unknown-region id=%d", id), fmt.Sprintf("a command addressed to region id %d (not hosted) reached the applier", id), nil)
		}
	}
	h.close()
	r.RequireOutcomes(int64(len(st.outcomes)), 3)
	if st.wellFormedExecuted == 0 {
		vr.Fatalf("vacuous: no well-formed request was executed")
	}
	var outs []string
	for o := range st.outcomes {
		outs = append(outs, o)
	}
	sort.Strings(outs)
	r.Finish(vr.Coverage{
		Level:       "exploration",
		Evaluations: st.cases,
		Distinct:    int64(len(st.classes)),
		Rule: "all requests of the grammar: 4 regions ([-inf,m) [m,t) [t,+inf) [-inf,+inf)) × {ProposeCommand, ReadCommand} × 7 header epochs (current, version±1, conf±1, nil, swapped) × every single sub-request (7 command kinds + invalid kind; keys from 10 positions {empty, far below, start-1, start, start+1, middle, end-1, end, end+1, far above}; all key pairs for the multi-key kinds; scans with limit 1/3/100 × include_start) " +
			"plus all two-sub-request combinations; distinct = classes (path, epoch, kinds, keys-in-range, first offending key position, region)",
		Samples:    samples,
		Exhaustive: !r.TimedOut(),
		Outcomes:   int64(len(st.outcomes)),
		Bounds:     map[string]any{"regions": len(regions), "key_positions": len(keys), "epoch_variants": epochVariants, "two_request_combinations_epochs": map[bool]string{true: "all", false: "current"}[r.Thorough()]},
		Extra: map[string]any{"executed": st.executed, "well_formed": st.wellFormed, "well_formed_executed(measured_only)": st.wellFormedExecuted,
			"real_read_apply_errors(not_judged)": h.applyErrs, "last_read_apply_error": h.lastApplyErr, "region_errors": st.regionErr, "call_errors": st.callErr, "scan_result_keys_checked": st.scanKeys, "empty_key_fields_executed_by_regions_not_starting_at_-inf(measured_only)": st.emptyKeyExecuted, "outcome_kinds": outs},
		Assumptions: []string{
			"a request executes iff the store hands it to the configured command applier (recorder); write requests are recorded and answered with an empty response so the DB is identical for every case, read-only requests are served by the real kv.Apply on a real DB with committed keys at every key position",
			"named keys: the non-empty ones among Get.key, Scan.start_key, Prewrite mutation keys, Commit/BatchRollback/ResolveLock keys, CheckTxnStatus.primary_key (the empty byte string is not a storable key in NoKV: the DB answers 'Key cannot be empty'); Prewrite.primary_lock is a reference and may live in another region",
			"single-voter leader peers with in-memory raft storage: proposals apply synchronously in the calling goroutine",
		},
	})
}

func (h *harness) close() {
	for _, st := range h.stores {
		for _, ph := range st.Peers() {
			_ = ph.Peer.Close()
		}
		st.Close()
	}
	_ = h.db.Close()
}
