//go:build verif

// C22 — replicas apply identical command sequences and each proposal is answered once, by
// the result of its own command. clustermc: explicit-state search of a 3-store cluster of
// real store.Store / peer.Peer objects over a harness-owned network.
package main

import (
	"verif/lib/clustermc"
	"verif/lib/vr"
)

func scenarios(r *vr.Run) []*clustermc.Scenario {
	all := clustermc.Faults{Drop: true, Dup: true, Reorder: true, Campaign: true, Partition: true}
	w := func(region int, key, tag string, stores ...int) clustermc.OpSpec {
		return clustermc.OpSpec{Kind: "w", Region: region, Key: key, Tag: tag, Stores: stores}
	}
	camp2 := clustermc.Faults{Campaign: true, CampaignAt: []int{2}}
	cp := clustermc.Faults{Campaign: true, Partition: true, CampaignAt: []int{2}, IsolateAt: []int{1}}
	quick := []*clustermc.Scenario{
		// two regions led by different stores, overlapping proposals, no fault at all
		{Name: "q-2regions-nofault", Regions: 2, Leaders: []int{1, 2}, Budget: 0, MaxDepth: 80,
			Ops: []clustermc.OpSpec{w(1, "a", "A1", 1), w(2, "x", "B1", 2, 1)}},
		// leader change (Campaign on store 2) while the old leader's proposal is still in flight
		{Name: "q-1region-campaign-d13", Regions: 1, Leaders: []int{1}, Budget: 1, Faults: camp2, MaxDepth: 13, DepthBound: true,
			Ops: []clustermc.OpSpec{w(1, "a", "A1", 1), w(1, "a", "A2", 2)}},
		// one proposal under every single network fault (leader changes are in the other scenarios)
		{Name: "q-1region-1op-netfault", Regions: 1, Leaders: []int{1}, Budget: 1, Faults: clustermc.Faults{Drop: true, Dup: true, Reorder: true, Partition: true}, MaxDepth: 80,
			Ops: []clustermc.OpSpec{w(1, "a", "A1", 1)}},
	}
	// production raft-log storage (WALStorage): a new leader's entries must replace the
	// deposed leader's conflicting uncommitted tail on disk as well
	quick = append(quick, &clustermc.Scenario{Name: "q-wal-1region-campaign-beat-d17", Regions: 1, Leaders: []int{1}, Budget: 1, Faults: camp2, MaxBeats: 1, BeatAt: []int{2}, MaxDepth: 17, DepthBound: true, WAL: true,
		Ops: []clustermc.OpSpec{w(1, "a", "A1", 1)}})
	// crash + restart of a WAL-backed store in the middle of a split vote: the fixed prelude
	// brings stores 2 and 3 to candidates of the same term whose vote requests to store 1
	// are still in flight and the old leader's heartbeat has reached store 2; from there
	// everything is explored (one out-of-order delivery into store 1, one crash-restart of store 1): a vote that was
	// granted must survive the restart, i.e. no term may get two leaders
	splitVote := []string{"c:12", "c:13", "d:12>13", "d:13>12", "d:13>12", "d:12>13", "b:11", "d:11>12"}
	// quick: the prelude also contains the out-of-order delivery that lets store 1 learn the new
	// term from the answer to its heartbeat (it persists {term, no vote}); then all delivery
	// orders with one crash-restart of store 1 at any point
	learnTerm := append(append([]string{}, splitVote...), "o:12>11:2")
	quick = append(quick, &clustermc.Scenario{Name: "q-wal-splitvote-restart-d10", Regions: 1, Leaders: []int{1}, Budget: 1,
		Faults: clustermc.Faults{Restart: true, RestartAt: []int{1}}, Prelude: learnTerm, MaxDepth: 10, DepthBound: true, WAL: true})
	thorough := []*clustermc.Scenario{
		{Name: "t-wal-splitvote-reorder-restart-d11", Regions: 1, Leaders: []int{1}, Budget: 2,
			Faults: clustermc.Faults{Reorder: true, ReorderTo: []int{1}, Restart: true, RestartAt: []int{1}}, Prelude: splitVote, MaxDepth: 11, DepthBound: true, WAL: true},
		{Name: "t-wal-1region-isolate-campaign-heal-beat2-d17", Regions: 1, Leaders: []int{1}, Budget: 3, Faults: cp, MaxBeats: 2, BeatAt: []int{2}, MaxDepth: 17, DepthBound: true, WAL: true,
			Ops: []clustermc.OpSpec{w(1, "a", "A1", 1)}},
		{Name: "t-wal-1region-campaign-2ops-beat-d17", Regions: 1, Leaders: []int{1}, Budget: 1, Faults: camp2, MaxBeats: 1, BeatAt: []int{2}, MaxDepth: 17, DepthBound: true, WAL: true,
			Ops: []clustermc.OpSpec{w(1, "a", "A1", 1), w(1, "a", "A2", 2)}},
		{Name: "t-1region-1op-anyfault", Regions: 1, Leaders: []int{1}, Budget: 1, Faults: all, MaxDepth: 120,
			Ops: []clustermc.OpSpec{w(1, "a", "A1", 1)}},
		{Name: "t-2regions-3ops-nofault", Regions: 2, Leaders: []int{1, 2}, Budget: 0, MaxDepth: 120,
			Ops: []clustermc.OpSpec{w(1, "a", "A1", 1, 2), w(2, "x", "B1", 2, 1), w(1, "a", "A2", 1)}},
		{Name: "t-1region-2ops-anyfault", Regions: 1, Leaders: []int{1}, Budget: 1, Faults: all, MaxDepth: 120,
			Ops: []clustermc.OpSpec{w(1, "a", "A1", 1), w(1, "a", "A2", 1, 2)}},
		{Name: "t-1region-1op-beat-dropdup", Regions: 1, Leaders: []int{1}, Budget: 1, Faults: clustermc.Faults{Drop: true, Dup: true}, MaxBeats: 1, MaxDepth: 120,
			Ops: []clustermc.OpSpec{w(1, "a", "A1", 1)}},
		{Name: "t-1region-1op-2faults", Regions: 1, Leaders: []int{1}, Budget: 2, Faults: clustermc.Faults{Drop: true, Dup: true, Reorder: true}, MaxDepth: 120,
			Ops: []clustermc.OpSpec{w(1, "a", "A1", 1)}},
		{Name: "t-1region-2ops-2netfaults", Regions: 1, Leaders: []int{1}, Budget: 2, Faults: clustermc.Faults{Drop: true, Dup: true, Reorder: true}, MaxDepth: 120,
			Ops: []clustermc.OpSpec{w(1, "a", "A1", 1), w(1, "a", "A2", 1)}},
		{Name: "t-1region-isolate-campaign-heal-d14", Regions: 1, Leaders: []int{1}, Budget: 3, Faults: cp, MaxDepth: 14, DepthBound: true,
			Ops: []clustermc.OpSpec{w(1, "a", "A1", 1), w(1, "a", "A2", 2)}},
		{Name: "t-2regions-2ops-anyfault-d12", Regions: 2, Leaders: []int{1, 2}, Budget: 1, Faults: all, MaxDepth: 12, DepthBound: true,
			Ops: []clustermc.OpSpec{w(1, "a", "A1", 1), w(2, "x", "B1", 2)}},
	}
	if r.ReplayPath != "" {
		return append(quick, thorough...)
	}
	if r.Quick() {
		return quick
	}
	return append(quick, thorough...)
}

func main() {
	clustermc.Main(clustermc.Check{
		Prop:      "C22",
		Oracle:    clustermc.OracleC22,
		Scenarios: scenarios,
		MinStates: 100,
		Rule:      "breadth-first explicit-state search over all schedules of: deliver the head message of any directed peer link, issue the next scripted ProposeCommand at any allowed store, one heartbeat round at a leader (cost 0) and drop / duplicate / out-of-order delivery / Campaign / isolate-a-store / heal (1 deviation each, bounded per scenario); states canonicalised (raft status+log per peer, link queues, per-store applied lists, pending proposals, client calls) and deduplicated globally; oracle after every transition",
		Assumptions: []string{
			"harness-owned parts: in-memory network (FIFO per directed link), recording command applier (echoes the payload), schedule; everything else is the real store/peer/etcd-raft code with the production raft settings (election 10, heartbeat 2, PreVote)",
			"each execution runs in a testing/synctest bubble: quiescence = every helper goroutine durably blocked; command/read timeouts use the bubble's fake clock and do not fire inside an execution",
			"randomised election timeouts never fire (tick budget < ElectionTick); elections only by explicit Campaign",
			"traces_validated_against_impl counts executions whose replayed prefix reproduced the recorded canonical parent state on a fresh cluster",
		},
	})
}
