//go:build verif

// C02 — versioned reads return the newest entry at or below the requested version.
// Bounded-exhaustive exploration (seqmc) of SetVersionedEntry/DeleteVersionedEntry
// sequences (versions 1,2,3,MaxUint64; repeats of the same version; out-of-order versions)
// interleaved with every enabled maintenance transition on a real DB. After every step
// GetVersionedEntry is probed at {1,2,3,4,MaxUint64} (and GetCF) and compared with a map
// model: the answer is the most recent write among those with the greatest version <= probe;
// a tombstone may come back as an entry carrying the delete bit or as not-found.
package main

import (
	"encoding/json"
	"fmt"
	NoKV "github.com/feichai0017/NoKV"
	"math"
	"os"
	"strings"

	"verif/lib/dbh"
	"verif/lib/kvseq"
	"verif/lib/schedmc"
	"verif/lib/seqmc"
	"verif/lib/vr"
)

type config struct {
	Name      string
	Cfg       dbh.Config
	Ops       []string
	MaxClient int
	MaxMaint  int
	Depth     int
	GC        bool
	Reopen    bool
	Macro     bool
	// L0L0: macro mode, but once L0 holds >= 4 tables a bare rotate is offered again, so that a
	// memtable can be sealed BEFORE an L0->L0 compaction and flushed (rf) AFTER it: the
	// compaction output then has a higher file id than the younger flushed table
	L0L0 bool
}

var probes = []uint64{1, 2, 3, 4, math.MaxUint64}

func vops(key string, vers []string, kinds ...string) []string {
	var out []string
	for _, k := range kinds {
		for _, v := range vers {
			if k == "del" {
				out = append(out, fmt.Sprintf("vdel:d:%s:%s", key, v))
			} else {
				out = append(out, fmt.Sprintf("vset:d:%s:%s:%s", key, v, k))
			}
		}
	}
	return out
}

func configs(r *vr.Run) []config {
	all := []string{"1", "2", "3", "max"}
	skip := dbh.Config{Engine: "skiplist", Buckets: 1, VlogFileSize: 120}
	art := dbh.Config{Engine: "art", Buckets: 2, VlogFileSize: 120}
	// every version x {set small, delete}: repeats and every out-of-order pattern
	allvers := vops("a", all, "s", "del")
	// same-version rewrites (the Percolator lock-column pattern) with value-log values
	repeat := []string{"vset:d:a:2:s", "vdel:d:a:2", "vset:d:a:2:b", "vset:d:a:3:s", "vset:d:a:1:b"}
	// monotone-or-equal versions only (what MVCC writers produce), second key sharing tables
	mono := []string{"vset:d:a:2:s", "vdel:d:a:2", "vset:d:a:3:s", "vdel:d:a:3", "vset:d:ab:2:s", "vset:w:a:2:s"}
	// tiny output tables: a compaction has to cut its output after one or two entries, i.e.
	// possibly between two versions of one user key
	tiny := dbh.Config{Engine: "skiplist", Buckets: 1, VlogFileSize: 120, ValueThreshold: 1 << 20, Tweak: func(o *NoKV.Options) { o.SSTableMaxSz = 8 << 10 }}
	ascending := []string{"vset:d:a:1:n9000", "vset:d:a:2:n9000", "vset:d:a:3:n9000", "vset:d:ab:2:n9000"} // inline values larger than one 8 KiB block
	if r.Quick() {
		return []config{
			{"tiny-sst-macro", tiny, ascending, 4, 4, 8, false, false, true, false},
			{"allvers-skiplist", skip, allvers, 3, 2, 5, false, false, false, false},
			{"allvers-art", art, allvers, 2, 3, 5, false, false, false, false},
			{"repeat-gc-reopen", skip, repeat[:4], 3, 3, 6, true, true, false, false},
			{"deep-macro", skip, repeat[:4], 3, 6, 9, false, false, true, false},
		}
	}
	return []config{
		{"tiny-sst-macro", tiny, append(ascending, "vdel:d:a:2"), 5, 6, 11, false, true, true, false},
		{"allvers-skiplist", skip, allvers, 4, 3, 7, false, true, false, false},
		{"allvers-art", art, allvers, 3, 4, 7, false, true, false, false},
		{"repeat-gc-reopen", skip, repeat, 4, 5, 9, true, true, false, false},
		{"repeat-gc-art-2buckets", art, repeat, 3, 5, 8, true, true, false, false},
		{"mono-wide", skip, mono, 4, 4, 8, false, true, false, false},
		{"deep-macro", skip, repeat, 5, 9, 14, true, true, true, false},
		{"l0l0-then-flush", skip, []string{"vset:d:a:2:s", "vdel:d:a:2"}, 5, 8, 13, false, true, true, true},
	}
}

func params(c config, dir string, budget bool) *kvseq.Params {
	p := &kvseq.Params{Cfg: c.Cfg, ClientOps: c.Ops, MaxClient: c.MaxClient, MaxMaint: c.MaxMaint,
		WithGC: c.GC, WithReopen: c.Reopen, Macro: c.Macro, Dedup: true, BaseDir: dir,
		Versioned: true, ProbeVers: probes, RichSig: true, MeasureGC: true}
	if c.L0L0 {
		p.ExtraMaint = func(menu []string) []string {
			for _, op := range menu {
				if op == "l0-l0" {
					// seal without flushing; the later "rf" flushes the sealed memtable
					return append(menu, "rotate")
				}
			}
			return menu
		}
	}
	if !budget {
		p.MaxClient, p.MaxMaint, p.Dedup = 99, 99, false
	}
	return p
}

func main() {
	r := vr.Start("C02")
	cfgs := configs(r)
	if only := os.Getenv("VERIF_ONLY"); only != "" { // debugging aid: run a single configuration
		var sel []config
		for _, c := range cfgs {
			if c.Name == only {
				sel = append(sel, c)
			}
		}
		cfgs = sel
	}
	if r.ReplayPath != "" {
		var rp struct {
			Config string
			Path   []string
		}
		r.LoadReplay(&rp)
		replay(r, cfgs, rp.Config, rp.Path)
		return
	}
	base := r.Scratch()
	total := r.RunSharded(vr.Workers(), func(sh vr.ShardInfo, p *vr.Partial) {
		// every configuration gets an equal share of what is left of the budget; configurations
		// that hit their share are taken up again with what the others left unused
		var items []schedmc.Item
		for ci, c := range cfgs {
			prm := params(c, fmt.Sprintf("%s/s%d-c%d", base, sh.Index, ci), true)
			items = append(items, schedmc.Item{Name: c.Name, Run: func(expired func() bool, sub *vr.Partial) {
				seqmc.Explore(seqmc.Config{New: func() seqmc.Instance { return kvseq.New(prm) }, MaxDepth: c.Depth,
					Shard: sh, Expired: expired,
					OnLeaf: func(path []string, _ seqmc.Instance) { classifyPath(path, sub) }}, sub)
				for i := range sub.Violations {
					v := &sub.Violations[i]
					// every reported failure must reproduce identically on fresh instances
					if !confirm(c, fmt.Sprintf("%s/s%d-c%d-confirm", base, sh.Index, ci), v, reruns(i)) {
						v.Sig = "nondeterministic:" + v.Sig
					}
					v.Replay = fmt.Sprintf(`{"Config":%q,"Path":%s}`, c.Name, v.Replay)
					v.Desc = "config=" + c.Name + " " + v.Desc
				}
			}})
		}
		schedmc.ExploreAll(r, p, items)
		for k, v := range kvseq.OpCount {
			p.Add("op:"+k, v)
		}
		for k, v := range kvseq.PointCounts() {
			p.Add("op:point:"+k, v)
		}
	})
	if os.Getenv("VERIF_DUMP_SIGS") != "" { // debugging aid: every distinct signature with its count
		for _, v := range total.Violations {
			fmt.Fprintf(os.Stderr, "SIG %4d %s\n", v.Count, v.Sig)
			if os.Getenv("VERIF_DUMP_SIGS") == "2" {
				fmt.Fprintf(os.Stderr, "     %s\n", strings.ReplaceAll(v.Desc, "\n", "\n     "))
			}
		}
	}
	states := total.Card("states")
	r.RequireOutcomes(states, 10)
	var cfgNames []string
	for _, c := range cfgs {
		cfgNames = append(cfgNames, c.Name)
	}
	completed := schedmc.Completed(total, cfgNames)
	r.Finish(vr.Coverage{
		Level:       "model_checking",
		Evaluations: total.Counters["executions"],
		Distinct:    states,
		Rule:        "DFS over all sequences of SetVersionedEntry/DeleteVersionedEntry on versions {1,2,3,max} (repeats, out-of-order, inline and value-log values) and enabled maintenance transitions (rotate, flush-oldest, L0->base ingest move, L0->L0, ingest drain/merge, value-log GC per file, close+reopen) within per-path budgets; a state is distinct if its (model, LSM shape dump, value-log file set) differs; after every transition GetVersionedEntry at {1,2,3,4,max} and GetCF are compared with the map model",
		Samples:     total.SamplesAny(),
		States:      states,
		Transitions: total.Counters["transitions"],
		Validated:   total.Counters["executions"],
		Exhaustive:  len(completed) == len(cfgs),
		Outcomes:    states,
		Bounds:      map[string]any{"configs": names(cfgs), "probe_versions": "1,2,3,4,max", "quick": r.Quick(), "configs_enumerated_completely": completed},
		Extra: map[string]any{"pruned_by_state_key": total.Counters["pruned"], "noop_cut": total.Counters["cut_noop"],
			"replayed_steps": total.Counters["replayed_steps"], "max_depth": total.Counters["max_depth"], "ops_applied": opCounts(total),
			"leaf_paths_with_same_version_rewrite":  total.Counters["leaf:same-version-rewrite"],
			"leaf_paths_with_out_of_order_versions": total.Counters["leaf:out-of-order"],
			"leaf_paths_memtable_only":              total.Counters["leaf:no-maintenance"],
			"leaf_paths":                            total.Counters["leaf:all"]},
		Assumptions: []string{"background compaction paused and driven by the harness through the real doCompact; flush worker gated",
			"a tombstone answer may be an entry with the delete bit or not-found (both observed from the engine; the statement does not distinguish them)",
			"the memtable-only execution of every client sequence is itself part of the explored tree (paths without maintenance), so model == memtable-only == with-maintenance is checked for every history",
			"traces_validated_against_impl counts fresh-instance replays of path prefixes (each replay re-executes the real code and must not diverge)"},
	})
}

// classifyPath records which interesting history classes the explored leaves cover.
func classifyPath(path []string, p *vr.Partial) {
	p.Add("leaf:all", 1)
	last := map[string]uint64{}
	seen := map[string]bool{}
	rewrite, ooo, maint := false, false, false
	for _, op := range path {
		f := strings.Split(op, ":")
		if f[0] != "vset" && f[0] != "vdel" {
			maint = true
			continue
		}
		k := f[1] + "/" + f[2]
		var v uint64
		if f[3] == "max" {
			v = math.MaxUint64
		} else {
			fmt.Sscanf(f[3], "%d", &v)
		}
		if seen[k+"@"+f[3]] {
			rewrite = true
		}
		seen[k+"@"+f[3]] = true
		if l, ok := last[k]; ok && v < l {
			ooo = true
		}
		if v > last[k] {
			last[k] = v
		}
	}
	if rewrite {
		p.Add("leaf:same-version-rewrite", 1)
	}
	if ooo {
		p.Add("leaf:out-of-order", 1)
	}
	if !maint {
		p.Add("leaf:no-maintenance", 1)
	}
}

// confirm re-runs a failing path 5 times on fresh instances and requires the identical signature.
// reruns: the first distinct signatures of a worker are re-run 5 times, the rest once.
func reruns(i int) int {
	if i < 8 {
		return 5
	}
	return 1
}

func confirm(c config, dir string, v *vr.PViolation, n int) bool {
	var path []string
	if err := json.Unmarshal([]byte(v.Replay), &path); err != nil {
		return false
	}
	for i := 0; i < n; i++ {
		in := kvseq.New(params(c, dir, false))
		sig := ""
		for _, op := range path {
			if _, err := in.Apply(op); err != nil {
				in.Close()
				return false
			}
		}
		sig, _ = in.Check()
		in.Close()
		if sig != v.Sig {
			return false
		}
	}
	return true
}

func names(cs []config) []string {
	var out []string
	for _, c := range cs {
		out = append(out, fmt.Sprintf("%s(ops=%d,client<=%d,maint<=%d,depth<=%d,gc=%v,reopen=%v,macro=%v)", c.Name, len(c.Ops), c.MaxClient, c.MaxMaint, c.Depth, c.GC, c.Reopen, c.Macro))
	}
	return out
}

func replay(r *vr.Run, cfgs []config, name string, path []string) {
	for _, c := range cfgs {
		if c.Name != name {
			continue
		}
		in := kvseq.New(params(c, r.Scratch(), false))
		defer in.Close()
		for i, op := range path {
			if _, err := in.Apply(op); err != nil {
				vr.Fatalf("replay step %d %q: %v", i, op, err)
			}
			if os.Getenv("VERIF_SHAPE") != "" { // debugging aid: LSM shape after every replayed step
				fmt.Printf("replay: after step %d (%s):\n%s", i, op, in.(*kvseq.Inst).H.DB.VerifLSM().VerifShape(true))
			}
			if sig, desc := in.Check(); sig != "" {
				fmt.Printf("replay: violation after step %d (%s): %s\n", i, op, desc)
				r.Violation(sig, desc, map[string]any{"Config": name, "Path": path[:i+1]})
				break
			}
		}
		r.Finish(vr.Coverage{Level: "model_checking", Evaluations: 1, Distinct: 2, States: 1, Transitions: int64(len(path)), Rule: "replay", Samples: []any{path}})
	}
	vr.Fatalf("unknown config %q", name)
}

// prefixed: counters with the given prefix (here: how many workers left a configuration incomplete).
func prefixed(p *vr.Partial, prefix string) map[string]int64 {
	out := map[string]int64{}
	for k, v := range p.Counters {
		if strings.HasPrefix(k, prefix) {
			out[k[len(prefix):]] = v
		}
	}
	return out
}

func opCounts(p *vr.Partial) map[string]int64 {
	out := map[string]int64{}
	for k, v := range p.Counters {
		if len(k) > 3 && k[:3] == "op:" {
			out[k[3:]] = v
		}
	}
	return out
}
