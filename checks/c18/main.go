//go:build verif

// C18 — a distributed transaction's outcome is unique, final and conflict-free.
// Bounded-exhaustive request histories (any request may be repeated or arrive late; commit
// after a rollback by another client; rollback after the primary commit; overlapping
// writers in every relative order of their start/commit timestamps) through the real
// kv.Apply handlers, compared with a reference model of Percolator outcomes.
package main

import (
	"verif/lib/dbh"
	"verif/lib/percseq"
	"verif/lib/vr"
)

func main() {
	percseq.Main(percseq.Spec{
		Prop:     "C18",
		Families: []string{"outcome"},
		Rule:     "explicit-state search over request histories (prewrite, commit, batch-rollback, resolve-lock, check-txn-status of up to 3 transactions on 2 keys; every request may repeat and arrive in any order) applied through kv.Apply; a state is distinct if (reference model, stored entries of all column families incl. tombstones) differs; every answer is checked for legality and after every transition locks, write records and reads are compared with the model; the log-replay configurations additionally re-apply every suffix of the request log at every path end",
		Assumptions: []string{
			"timestamps are unique; multi-key requests are judged key by key in request order (keys before the first failing key may or may not be applied)",
			"a refused prewrite (write conflict) is always legal; success answers are checked strictly",
			"traces_validated_against_impl counts fresh-instance replays of path prefixes plus confirmation replays of violations",
		},
		Configs: func(r *vr.Run) []percseq.Config {
			small := dbh.Config{Engine: "skiplist", Buckets: 1}
			tx := map[int]percseq.TxnSpec{
				1: {Start: 10, Primary: "a", TTL: 20, Muts: map[string]byte{"a": 'p', "b": 'p'}},
				2: {Start: 20, Primary: "a", TTL: 20, Muts: map[string]byte{"a": 'p', "b": 'd'}},
				3: {Start: 30, Primary: "b", TTL: 20, Muts: map[string]byte{"a": 'd', "b": 'p'}},
			}
			// T1 may commit before T2 starts (15), between T2's start and commit (25) or after
			// T2's commit (35): with free arrival order this gives all relative orders of
			// (start, commit) of two writers of key a.
			two := []string{
				"pw:1:a", "cm:1:a:15", "rb:1:a", "pw:2:a", "cm:2:a:27", "rb:2:a",
				"cm:1:a:25", "cm:1:a:35",
				"pw:1:b", "cm:1:b:15", "cm:1:b:25", "cm:1:b:35", "rb:1:b",
				"rs:1:ab:0", "rs:1:ab:25", "cs:1:30:0:0", "cs:1:29:0:1", "cs:2:40:0:1", "rs:2:ab:0",
			}
			multi := []string{
				"pw:1:ab", "cm:1:ab:15", "rb:1:ab", "pw:2:ab", "cm:2:ab:27", "rb:2:ab", "pw:3:ab", "cm:3:ab:39", "rb:3:ab",
				"rb:1:a", "rb:2:b", "cm:1:a:15", "cm:2:b:27", "cs:3:50:0:1",
			}
			replayOps := []string{
				"pw:1:a", "cm:1:a:25", "rb:1:a", "pw:2:a", "cm:2:a:27", "rb:2:a", "pw:1:b", "cm:1:ab:25", "rs:1:ab:0", "cs:1:30:0:1", "cs:2:39:24:0",
			}
			cfgs := []percseq.Config{
				{P: percseq.Params{Name: "two-writers", Cfg: small, Keys: []string{"a", "b"}, Txns: tx, Ops: two,
					MaxReq: r.Pick(6, 10), Namespaced: true, NSPerDB: 128, Dedup: true, OneCommitTs: true}, Depth: r.Pick(6, 10)},
				{P: percseq.Params{Name: "multi-key", Cfg: small, Keys: []string{"a", "b"}, Txns: tx, Ops: multi,
					MaxReq: r.Pick(5, 9), Namespaced: true, NSPerDB: 128, Dedup: true, OneCommitTs: true}, Depth: r.Pick(5, 9)},
				{P: percseq.Params{Name: "log-replay", Cfg: small, Keys: []string{"a", "b"}, Txns: tx, Ops: replayOps,
					MaxReq: r.Pick(3, 6), Namespaced: true, NSPerDB: 128, Dedup: false, OneCommitTs: true}, Depth: r.Pick(3, 6), LogReplay: true},
			}
			if r.Thorough() {
				// three writers of both keys; a transaction may be committed with different
				// commit timestamps on different keys / retries (non-conforming client)
				three := append(append([]string{}, two...),
					"pw:3:a", "cm:3:a:39", "rb:3:a", "pw:3:b", "cm:3:b:39", "pw:2:b", "cm:2:b:27", "rb:2:b", "cm:2:a:37", "cm:2:b:37",
					"rs:3:ab:39", "cs:3:50:0:1", "cs:2:39:0:0")
				cfgs = append(cfgs, percseq.Config{P: percseq.Params{Name: "three-writers-free-commit-ts", Cfg: small, Keys: []string{"a", "b"}, Txns: tx, Ops: three,
					MaxReq: 10, Namespaced: true, NSPerDB: 128, Dedup: true, OneCommitTs: false}, Depth: 10})
			}
			return cfgs
		},
	})
}
