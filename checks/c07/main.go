//go:build verif

// C07 — both memtable engines (skiplist, ART) behave as the same ordered map.
//
// Part 1 (enum, sequential): every insertion sequence up to a length bound over a small
// universe of internal keys (prefix-related user keys, several versions, two column
// families) is applied to a fresh utils.Skiplist, a fresh utils.ART and a sorted-slice
// model; every probe of a probe universe is looked up, and forward / reverse scans and
// Seek+Next sequences are compared item by item.
//
// Part 2 (schedmc, concurrent): 2-3 controlled threads insert colliding keys into ONE
// index (every atomic operation of skiplist.go / art.go / arena.go is a scheduling point),
// optionally with a reader thread that iterates and searches meanwhile; all schedules up
// to a preemption bound are executed and the final (and the reader's) observations are
// compared with the model.
package main

import (
	"bytes"
	"fmt"
	"math"
	"os"
	"runtime"
	"runtime/debug"
	"sort"
	"strconv"
	"strings"
	"time"

	"github.com/feichai0017/NoKV/kv"
	"github.com/feichai0017/NoKV/utils"

	"verif/lib/schedmc"
	"verif/lib/vr"
	"verif/shim/vsched"
)

const arenaSize = 1 << 20 // one 1 MiB chunk (the minimum chunk size)

// ---------------------------------------------------------------------------------
// keys, model
// ---------------------------------------------------------------------------------

type ikey struct {
	cf  kv.ColumnFamily
	uk  string
	ver uint64
}

func (k ikey) bytes() []byte { return kv.InternalKey(k.cf, []byte(k.uk), k.ver) }

func (k ikey) String() string {
	v := fmt.Sprint(k.ver)
	if k.ver == math.MaxUint64 {
		v = "max"
	}
	return fmt.Sprintf("%s/%q@%s", k.cf, k.uk, v)
}

// cmpKey is the order the property states: column family and user key ascending, then
// version descending. It is written on the decoded triple, independently of CompareKeys.
func cmpKey(a, b ikey) int {
	if a.cf != b.cf {
		if a.cf < b.cf {
			return -1
		}
		return 1
	}
	if c := strings.Compare(a.uk, b.uk); c != 0 {
		return c
	}
	switch {
	case a.ver > b.ver:
		return -1
	case a.ver < b.ver:
		return 1
	}
	return 0
}

type val struct {
	v    string
	meta byte
	exp  uint64
}

func (v val) String() string { return fmt.Sprintf("%s/m%d/e%d", v.v, v.meta, v.exp) }

func (v val) entry(k ikey) *kv.Entry {
	return &kv.Entry{Key: k.bytes(), Value: []byte(v.v), Meta: v.meta, ExpiresAt: v.exp, Version: k.ver}
}

type ment struct {
	k  ikey
	kb []byte
	v  val
}

// model: sorted slice, overwrite on equal internal key.
type model struct{ ents []ment }

func (m *model) put(k ikey, v val) {
	i := sort.Search(len(m.ents), func(i int) bool { return cmpKey(m.ents[i].k, k) >= 0 })
	if i < len(m.ents) && m.ents[i].k == k {
		m.ents[i].v = v
		return
	}
	m.ents = append(m.ents, ment{})
	copy(m.ents[i+1:], m.ents[i:])
	m.ents[i] = ment{k, k.bytes(), v}
}

// lower: index of the first entry >= p (len if none). upper: index of the last entry <= p (-1 if none).
func (m *model) lower(p ikey) int {
	return sort.Search(len(m.ents), func(i int) bool { return cmpKey(m.ents[i].k, p) >= 0 })
}
func (m *model) upper(p ikey) int {
	return sort.Search(len(m.ents), func(i int) bool { return cmpKey(m.ents[i].k, p) > 0 }) - 1
}

type index interface {
	Add(*kv.Entry)
	Search([]byte) kv.ValueStruct
	NewIterator(*utils.Options) utils.Iterator
}

func newIndex(engine string) index {
	if engine == "art" {
		return utils.NewART(arenaSize)
	}
	return utils.NewSkiplist(arenaSize)
}

var engines = []string{"skiplist", "art"}

// ---------------------------------------------------------------------------------
// comparing one index with the model
// ---------------------------------------------------------------------------------

type mismatch struct {
	op    string // search | scan-fwd | scan-rev | seek-fwd | seek-rev
	kind  string
	rel   string
	probe string
	got   string
	want  string
}

func (mm *mismatch) sig(engine string) string {
	return fmt.Sprintf("%s %s %s rel=%s", engine, mm.op, mm.kind, mm.rel)
}

func (mm *mismatch) desc(engine string) string {
	clip := func(s string) string {
		if len(s) > 1200 {
			return s[:1200] + " ..."
		}
		return s
	}
	return fmt.Sprintf("%s %s probe=%s: got [%s] want [%s]", engine, mm.op, mm.probe, clip(mm.got), clip(mm.want))
}

type obsItem struct {
	key []byte
	v   val
}

func describeKey(kb []byte) string {
	if len(kb) < 12 {
		return fmt.Sprintf("raw:%x", kb)
	}
	cf, uk, ts := kv.SplitInternalKey(kb)
	return ikey{cf, string(uk), ts}.String()
}

func describeItems(items []obsItem) string {
	var parts []string
	for _, it := range items {
		parts = append(parts, describeKey(it.key)+"="+it.v.String())
	}
	return strings.Join(parts, " ")
}

func describeEnts(ents []ment) string {
	var parts []string
	for _, e := range ents {
		parts = append(parts, e.k.String()+"="+e.v.String())
	}
	return strings.Join(parts, " ")
}

// relation classifies the pair of keys at the first position where got and want differ.
func relation(a, b []byte) string {
	if len(a) < 12 || len(b) < 12 {
		return "short-key"
	}
	cfa, uka, _ := kv.SplitInternalKey(a)
	cfb, ukb, _ := kv.SplitInternalKey(b)
	switch {
	case cfa != cfb:
		return "cross-cf"
	case bytes.Equal(uka, ukb):
		return "same-user-key"
	case bytes.HasPrefix(uka, ukb) || bytes.HasPrefix(ukb, uka):
		return "user-key-prefix"
	}
	return "distinct-user-keys"
}

// zeroPadEqual: the longer key is the shorter one followed by zero bytes only.
func zeroPadEqual(a, b []byte) bool {
	if len(a) > len(b) {
		a, b = b, a
	}
	return bytes.HasPrefix(b, a) && len(bytes.Trim(b[len(a):], "\x00")) == 0
}

// gotLite is one yielded item resolved against the expected entries without copying:
// idx = position of its key in the expected yield order (-1: a key that is not expected at all).
type gotLite struct {
	key   []byte // aliases the expected entry's key, or a copy for an unexpected key
	idx   int
	valOK bool
}

// readLite reads what the iterator yields from its current position (at most limit items).
func readLite(it utils.Iterator, ents []ment, rev bool, limit int, buf []gotLite) []gotLite {
	n := len(ents)
	out := buf[:0]
	for it.Valid() && len(out) < limit {
		e := it.Item().Entry()
		g := gotLite{idx: -1}
		for j := 0; j < n; j++ {
			w := &ents[j]
			if rev {
				w = &ents[n-1-j]
			}
			if bytes.Equal(e.Key, w.kb) {
				g.idx, g.key = j, w.kb
				g.valOK = string(e.Value) == w.v.v && e.Meta == w.v.meta && e.ExpiresAt == w.v.exp
				break
			}
		}
		if g.idx < 0 {
			g.key = append([]byte{}, e.Key...)
		}
		out = append(out, g)
		it.Next()
	}
	return out
}

// classify names the way got deviates from the expected yield order (ents, reversed if rev)
// and the relation of the keys at the point of divergence (for seeks: relative to the probe).
func classify(got []gotLite, ents []ment, rev bool, probe []byte) (kind, rel string) {
	n := len(ents)
	wantKey := func(i int) []byte {
		if rev {
			return ents[n-1-i].kb
		}
		return ents[i].kb
	}
	rel = "none"
	defer func() {
		// seeks: the relation that matters is between the probe and the first item that differs
		if probe == nil || kind == "wrong-value" {
			return
		}
		for i := 0; i < len(got) || i < n; i++ {
			switch {
			case i >= len(got):
				rel = relation(probe, wantKey(i))
			case i >= n:
				rel = relation(probe, got[i].key)
			case got[i].idx != i:
				rel = relation(probe, wantKey(i))
				if r2 := relation(probe, got[i].key); r2 == "user-key-prefix" {
					rel = r2
				}
			default:
				continue
			}
			return
		}
	}()
	first := -1
	for i := 0; i < len(got) && i < n; i++ {
		if got[i].idx != i || !got[i].valOK {
			first = i
			break
		}
	}
	if first >= 0 {
		if got[first].idx == first {
			return "wrong-value", "same-key"
		}
		rel = relation(got[first].key, wantKey(first))
	}
	var cntBuf [32]int
	cnt := cntBuf[:]
	if n > len(cnt) {
		cnt = make([]int, n)
	}
	missing, extra, dup := false, false, false
	for i := range got {
		if got[i].idx < 0 {
			extra = true
			for j := 0; j < i; j++ {
				if got[j].idx < 0 && bytes.Equal(got[j].key, got[i].key) {
					dup = true
				}
			}
			continue
		}
		if cnt[got[i].idx]++; cnt[got[i].idx] > 1 {
			dup = true
		}
	}
	for j := 0; j < n; j++ {
		if cnt[j] == 0 {
			missing = true
		}
	}
	switch {
	case dup:
		// the radix tree pads keys with zero bytes: is the duplicated key, zero-padded, equal to
		// another key of the contents?
		for j := 0; j < n; j++ {
			if cnt[j] < 2 {
				continue
			}
			for w := 0; w < n; w++ {
				if w != j && zeroPadEqual(wantKey(j), wantKey(w)) {
					return "duplicate", "zero-padded-twin"
				}
			}
		}
		return "duplicate", rel
	case missing && extra:
		return "missing+extra", rel
	case missing:
		return "missing", rel
	case extra:
		return "extra", rel
	}
	return "misordered", rel
}

// drain collects what the iterator yields from its current position (at most limit items).
func drain(it utils.Iterator, limit int) []obsItem {
	var out []obsItem
	for it.Valid() && len(out) < limit {
		e := it.Item().Entry()
		out = append(out, obsItem{append([]byte{}, e.Key...), val{string(e.Value), e.Meta, e.ExpiresAt}})
		it.Next()
	}
	return out
}

// matches is the allocation-free fast path: the iterator yields exactly want (in order) and then ends.
func matches(it utils.Iterator, want []ment, rev bool) bool {
	n := len(want)
	for i := 0; i < n; i++ {
		if !it.Valid() {
			return false
		}
		w := &want[i]
		if rev {
			w = &want[n-1-i]
		}
		e := it.Item().Entry()
		if !bytes.Equal(e.Key, w.kb) || string(e.Value) != w.v.v || e.Meta != w.v.meta || e.ExpiresAt != w.v.exp {
			return false
		}
		it.Next()
	}
	return !it.Valid()
}

func reversed(e []ment) []ment {
	out := make([]ment, len(e))
	for i := range e {
		out[len(e)-1-i] = e[i]
	}
	return out
}

type probe struct {
	k  ikey
	kb []byte
}

func mkProbes(cfs []kv.ColumnFamily, uks []string, vers []uint64) []probe {
	var out []probe
	for _, cf := range cfs {
		for _, uk := range uks {
			for _, v := range vers {
				k := ikey{cf, uk, v}
				out = append(out, probe{k, k.bytes()})
			}
		}
	}
	return out
}

// searchRel: relation between a Search probe and its neighbours in the model (the entries a
// wrong lookup can have confused it with).
func searchRel(p *probe, m *model, lo int) string {
	rel := "none"
	for _, i := range []int{lo - 1, lo, lo + 1} {
		if i < 0 || i >= len(m.ents) {
			continue
		}
		switch r := relation(p.kb, m.ents[i].kb); {
		case r == "user-key-prefix":
			return r
		case rel == "none" || r == "same-user-key":
			rel = r
		}
	}
	return rel
}

// inputClass: does the set of internal keys (contents, or a probe against the contents)
// contain a zero-padded twin (one key equals another followed by zero bytes) or two keys of
// one column family whose user keys are prefix-related?
func pairClass(a, b []byte, class string) string {
	if bytes.Equal(a, b) {
		return class
	}
	if zeroPadEqual(a, b) {
		return "zero-padded-twin"
	}
	if class == "plain" && relation(a, b) == "user-key-prefix" {
		return "user-key-prefix"
	}
	return class
}

func contentsClass(ents []ment) string {
	class := "plain"
	for i := range ents {
		for j := i + 1; j < len(ents); j++ {
			if class = pairClass(ents[i].kb, ents[j].kb, class); class == "zero-padded-twin" {
				return class
			}
		}
	}
	return class
}

func probeClass(ents []ment, probe []byte) string {
	class := "plain"
	for i := range ents {
		if class = pairClass(ents[i].kb, probe, class); class == "zero-padded-twin" {
			return class
		}
	}
	return class
}

// compareIndex checks every observation the property talks about. It returns one mismatch per
// distinct (operation, kind, relation) class, in order of discovery (nil = all agree), so that
// a known failure class does not hide a different one in the same case.
func compareIndex(idx index, m *model, probes []probe) []*mismatch {
	limit := len(m.ents) + 2
	fwd := idx.NewIterator(&utils.Options{IsAsc: true})
	rev := idx.NewIterator(&utils.Options{IsAsc: false})
	defer fwd.Close()
	defer rev.Close()
	var out []*mismatch
	seen := map[string]bool{}
	contentClass := ""
	add := func(op, kind, rel string, pb []byte, mk func() *mismatch) {
		// Signatures classify the failing INPUT: contents (plus probe) that contain a
		// zero-padded twin or prefix-related user keys form their own classes; otherwise the
		// relation of the keys at the point of divergence is used.
		if contentClass == "" {
			contentClass = contentsClass(m.ents)
		}
		class := contentClass
		if pb != nil && class != "zero-padded-twin" {
			if pc := probeClass(m.ents, pb); pc != "plain" && (pc == "zero-padded-twin" || class == "plain") {
				class = pc
			}
		}
		if class != "plain" {
			rel = class
		}
		k := op + " " + kind + " " + rel
		if seen[k] || len(out) >= 12 {
			return
		}
		seen[k] = true
		mm := mk()
		mm.rel = rel
		out = append(out, mm)
	}
	var liteBuf [16]gotLite
	fail := func(op string, p *probe, it utils.Iterator, redo func(), ents []ment, rev bool) {
		redo()
		lim := limit
		buf := liteBuf[:]
		if lim > len(buf) {
			buf = make([]gotLite, lim)
		}
		var pb []byte
		if p != nil {
			pb = p.kb
		}
		kind, rel := classify(readLite(it, ents, rev, lim, buf), ents, rev, pb)
		add(op, kind, rel, pb, func() *mismatch {
			ps := "-"
			if p != nil {
				ps = p.k.String()
			}
			redo()
			want := ents
			if rev {
				want = reversed(ents)
			}
			return &mismatch{op: op, kind: kind, rel: rel, probe: ps, got: describeItems(drain(it, limit)), want: describeEnts(want)}
		})
	}
	fwd.Rewind()
	if !matches(fwd, m.ents, false) {
		fail("scan-fwd", nil, fwd, fwd.Rewind, m.ents, false)
	}
	rev.Rewind()
	if !matches(rev, m.ents, true) {
		fail("scan-rev", nil, rev, rev.Rewind, m.ents, true)
	}
	for i := range probes {
		p := &probes[i]
		// Search: the first entry >= probe in internal-key order, if it has the probe's
		// column family and user key (i.e. the newest version <= the probe's version).
		lo := m.lower(p.k)
		var want *ment
		if lo < len(m.ents) && m.ents[lo].k.cf == p.k.cf && m.ents[lo].k.uk == p.k.uk {
			want = &m.ents[lo]
		}
		vs := idx.Search(p.kb)
		got := val{string(vs.Value), vs.Meta, vs.ExpiresAt}
		if want == nil && got != (val{}) {
			add("search", "phantom", searchRel(p, m, lo), p.kb, func() *mismatch {
				return &mismatch{op: "search", kind: "phantom", rel: searchRel(p, m, lo), probe: p.k.String(), got: got.String(), want: "(nothing)"}
			})
		}
		if want != nil && got != want.v {
			kind := "wrong-version"
			if got == (val{}) {
				kind = "miss"
			}
			add("search", kind, searchRel(p, m, lo), p.kb, func() *mismatch {
				return &mismatch{op: "search", kind: kind, rel: searchRel(p, m, lo), probe: p.k.String(), got: got.String(), want: want.k.String() + "=" + want.v.String()}
			})
		}
		fwd.Seek(p.kb)
		if !matches(fwd, m.ents[lo:], false) {
			fail("seek-fwd", p, fwd, func() { fwd.Seek(p.kb) }, m.ents[lo:], false)
		}
		up := m.upper(p.k)
		rev.Seek(p.kb)
		if !matches(rev, m.ents[:up+1], true) {
			fail("seek-rev", p, rev, func() { rev.Seek(p.kb) }, m.ents[:up+1], true)
		}
	}
	return out
}

// ---------------------------------------------------------------------------------
// Part 1: sequential enumeration
// ---------------------------------------------------------------------------------

var seqUserKeys = []string{"a", "aa", "a\x00", "a\xff", "b"}
var seqVersions = []uint64{1, 2, math.MaxUint64}

type universe struct {
	name   string
	keys   []ikey
	probes []probe
	// fan-out universes (see mkFanUniverse)
	fan      string // ART node kind the sibling count reaches
	preludes map[string][]int
	ops      []int
}

func mkUniverse(name string, cfs []kv.ColumnFamily) *universe {
	u := &universe{name: name}
	for _, cf := range cfs {
		for _, uk := range seqUserKeys {
			for _, v := range seqVersions {
				u.keys = append(u.keys, ikey{cf, uk, v})
			}
		}
	}
	pcfs := []kv.ColumnFamily{kv.CFDefault, kv.CFLock, kv.CFWrite}
	if len(cfs) == 1 {
		pcfs = []kv.ColumnFamily{kv.CFDefault, kv.CFLock}
	}
	// present keys, absent versions 0 and 3, absent user keys (incl. the empty one and
	// neighbours of the prefix-related keys)
	u.probes = mkProbes(pcfs, []string{"", "a", "a\x00", "a\x00\x00", "a\x01", "aa", "ab", "a\xff", "b", "c"}, []uint64{0, 1, 2, 3, math.MaxUint64})
	return u
}

func universes() map[string]*universe {
	us := map[string]*universe{
		"2cf": mkUniverse("2cf", []kv.ColumnFamily{kv.CFDefault, kv.CFWrite}),
		"1cf": mkUniverse("1cf", []kv.ColumnFamily{kv.CFDefault}),
	}
	for _, fam := range fanFamilies {
		for _, n := range fanSizes {
			u := mkFanUniverse(fam, n)
			us[u.name] = u
		}
	}
	return us
}

// Fan-out universes: N sibling keys that differ in ONE byte position, so that one ART inner
// node gets N children and passes through every node kind (Node4 -> Node16 -> Node48 ->
// Node256) and every growth step. Family "uk": the byte is a user-key byte (user keys
// "m"+b+"x", version 1); family "ts": the byte is the last byte of the timestamp suffix
// (versions of ONE user key "hot": version v has suffix byte 255-v), which is what many
// versions of a hot key produce. Two neighbour keys outside the subtree are always inserted
// first. A prelude inserts the N siblings in ascending, descending or interleaved byte
// order (Node48 keeps children in insertion order); then every sequence of the small op
// alphabet follows: insert the byte just below the smallest / just above the largest sibling /
// the one gap left in the middle, overwrite the smallest / largest / a middle sibling.
var fanFamilies = []string{"uk", "ts"}
var fanSizes = []int{3, 4, 5, 15, 16, 17, 47, 48, 49, 255, 256}
var fanOrders = []string{"asc", "desc", "mix"}

func fanKind(n int) string {
	switch {
	case n <= 4:
		return "node4"
	case n <= 16:
		return "node16"
	case n <= 48:
		return "node48"
	}
	return "node256"
}

func mkFanUniverse(fam string, n int) *universe {
	u := &universe{name: fmt.Sprintf("fan-%s-%d", fam, n), fan: fanKind(n), preludes: map[string][]int{}}
	key := func(b int) ikey {
		if fam == "uk" {
			return dk("m"+string([]byte{byte(b)})+"x", 1)
		}
		return dk("hot", uint64(255-b))
	}
	// sibling bytes: a centred range with one gap in the middle; below/above = its outer neighbours
	var sib []int
	below, above, gap := -1, -1, -1
	switch {
	case n == 256:
		for b := 0; b < 256; b++ {
			sib = append(sib, b)
		}
	case n == 255:
		for b := 1; b < 256; b++ {
			sib = append(sib, b)
		}
		below = 0
	default:
		s0 := (256 - n - 1) / 2
		gap = s0 + n/2
		for b := s0; b <= s0+n; b++ {
			if b != gap {
				sib = append(sib, b)
			}
		}
		below, above = s0-1, s0+n+1
	}
	// keys: 0,1 = neighbours outside the subtree; 2..n+1 = siblings ascending; then the extras
	if fam == "uk" {
		u.keys = append(u.keys, dk("l\x80x", 1), dk("n\x80x", 1))
	} else {
		u.keys = append(u.keys, dk("hos", 1), dk("hou", 1))
	}
	for _, b := range sib {
		u.keys = append(u.keys, key(b))
	}
	asc := []int{0, 1}
	for i := range sib {
		asc = append(asc, 2+i)
	}
	desc := []int{0, 1}
	for i := len(sib) - 1; i >= 0; i-- {
		desc = append(desc, 2+i)
	}
	mix := []int{0, 1}
	for i := 0; i < len(sib); i += 2 {
		mix = append(mix, 2+i)
	}
	for i := len(sib) - 1 - len(sib)%2; i >= 1; i -= 2 {
		mix = append(mix, 2+i)
	}
	u.preludes["asc"], u.preludes["desc"], u.preludes["mix"] = asc, desc, mix
	for _, b := range []int{below, above, gap} {
		if b >= 0 {
			u.ops = append(u.ops, len(u.keys))
			u.keys = append(u.keys, key(b))
		}
	}
	u.ops = append(u.ops, 2, 2+len(sib)-1, 2+len(sib)/2) // overwrite smallest, largest, a middle sibling
	// probes: around the smallest / largest sibling, the gap, and outside the subtree
	pb := map[int]bool{}
	for _, b := range []int{sib[0], sib[len(sib)-1], sib[len(sib)/2], below, above, gap} {
		for d := -1; d <= 1; d++ {
			if b >= 0 && b+d >= 0 && b+d < 256 {
				pb[b+d] = true
			}
		}
	}
	var pbs []int
	for b := range pb {
		pbs = append(pbs, b)
	}
	sort.Ints(pbs)
	add := func(k ikey) { u.probes = append(u.probes, probe{k, k.bytes()}) }
	if fam == "uk" {
		for _, b := range pbs {
			for _, v := range []uint64{0, 1, 2, maxV} {
				add(ikey{kv.CFDefault, "m" + string([]byte{byte(b)}) + "x", v})
			}
		}
		for _, uk := range []string{"l\x80x", "l\xff\xff", "m\x00\x00", "m\xff\xff", "n\x00\x00", "n\x80x"} {
			for _, v := range []uint64{0, 1, maxV} {
				add(ikey{kv.CFDefault, uk, v})
			}
		}
		add(ikey{kv.CFLock, "m\x80x", 1})
	} else {
		for _, b := range pbs {
			add(dk("hot", uint64(255-b)))
		}
		for _, v := range []uint64{0, 255, 256, 257, 65535, maxV} { // incl. "read latest" and versions whose suffix differs earlier
			add(dk("hot", v))
		}
		for _, uk := range []string{"hos", "hou", "hor", "hov"} {
			for _, v := range []uint64{0, 1, maxV} {
				add(dk(uk, v))
			}
		}
		add(ikey{kv.CFLock, "hot", 1})
	}
	return u
}

type seqCase struct {
	Part     string
	Universe string
	Keys     []int // indices into the universe, in insertion order
	Heights  []int // skiplist tower height per insert (0 = by key: 1 + index%3)
}

func (c seqCase) String(u *universe) string {
	var parts []string
	for i, k := range c.Keys {
		h := ""
		if c.Heights != nil {
			h = fmt.Sprintf("^%d", c.Heights[i])
		}
		parts = append(parts, u.keys[k].String()+h)
	}
	if len(parts) > 14 {
		parts = append(append(append([]string{}, parts[:4]...), fmt.Sprintf("... %d more in this order ...", len(parts)-10)), parts[len(parts)-6:]...)
	}
	return "insert " + strings.Join(parts, " ; ")
}

var curHeight int // height the skiplist must use for the insert in progress (sequential part)

type finding struct{ sig, desc string }

// runSeq executes one sequence on both engines; returns every distinct violation class it shows.
func runSeq(u *universe, c seqCase) (out []finding) {
	var m model
	vals := make([]val, len(c.Keys))
	for i, k := range c.Keys {
		vals[i] = val{"v" + strconv.Itoa(i), byte(i + 1), uint64(100 + i)}
		m.put(u.keys[k], vals[i])
	}
	for _, eng := range engines {
		func() {
			defer func() {
				if r := recover(); r != nil {
					msg := panicSig(r)
					out = append(out, finding{"seq: " + eng + " panic: " + msg, c.String(u) + "\n  " + fmt.Sprintf("%s panicked: %v", eng, r)})
				}
			}()
			idx := newIndex(eng)
			for i, k := range c.Keys {
				curHeight = 1 + k%3
				if c.Heights != nil {
					curHeight = c.Heights[i]
				}
				idx.Add(vals[i].entry(u.keys[k]))
			}
			mms := compareIndex(idx, &m, u.probes)
			utils.VerifReleaseIndex(idx)
			for _, mm := range mms {
				sig := "seq: " + mm.sig(eng)
				if u.fan != "" {
					sig += " fanout=" + fanKind(len(m.ents)-2) // siblings = contents minus the two neighbours
				}
				out = append(out, finding{sig, c.String(u) + "\n  " + mm.desc(eng)})
			}
		}()
	}
	return out
}

func sigsOf(fs []finding) string {
	var s []string
	for _, f := range fs {
		s = append(s, f.sig)
	}
	return strings.Join(s, " | ")
}

func replayJSON(c seqCase) string {
	return fmt.Sprintf(`{"Part":"seq","Universe":%q,"Keys":%s,"Heights":%s}`, c.Universe, intsJSON(c.Keys), intsJSON(c.Heights))
}

func intsJSON(a []int) string {
	if a == nil {
		return "null"
	}
	return strings.ReplaceAll(fmt.Sprint(a), " ", ",")
}

// forEachSeq enumerates every sequence over n symbols of length 0..maxLen.
func forEachSeq(n, maxLen int, f func(seq []int)) {
	for l := 0; l <= maxLen; l++ {
		seq := make([]int, l)
		for {
			f(seq)
			i := l - 1
			for i >= 0 {
				seq[i]++
				if seq[i] < n {
					break
				}
				seq[i] = 0
				i--
			}
			if i < 0 {
				break
			}
		}
	}
}

func seqPart(r *vr.Run, sh vr.ShardInfo, p *vr.Partial) {
	us := universes()
	ordinal := 0
	one := func(u *universe, c seqCase) {
		ordinal++
		if !sh.Owns(ordinal >> 3) {
			return
		}
		if ordinal&1023 == 0 && r.Expired() {
			p.TimedOut = true
		}
		if p.TimedOut {
			return
		}
		p.Add("seq_cases", 1)
		if u.fan != "" {
			p.Add("fanout_cases", 1)
		}
		fs := runSeq(u, c)
		if len(fs) > 0 {
			// fresh re-run must fail identically
			if s1, s2 := sigsOf(fs), sigsOf(runSeq(u, c)); s2 != s1 {
				vr.Fatalf("sequential case %s not reproducible: %q then %q", c.String(u), s1, s2)
			}
			c.Keys = append([]int{}, c.Keys...)
			for _, f := range fs {
				p.Viol(f.sig, f.desc, replayJSON(c))
			}
			p.Add("seq_cases_failing", 1)
			return
		}
		distinct := map[int]bool{}
		for _, k := range c.Keys {
			distinct[k] = true
		}
		if len(distinct) >= 2 {
			p.Add("seq_nontrivial", 1)
		}
		if ordinal%100003 == 0 {
			p.Sample("seq " + u.name + ": " + c.String(u))
		}
	}
	// (a) both column families, heights by key
	u := us["2cf"]
	forEachSeq(len(u.keys), r.Pick(3, 4), func(seq []int) { one(u, seqCase{"seq", u.name, seq, nil}) })
	// (b) one column family, every tower-height vector
	u1 := us["1cf"]
	hs := r.Pick(2, 3) // heights 1..hs
	forEachSeq(len(u1.keys), r.Pick(3, 4), func(seq []int) {
		forEachSeq(hs, len(seq), func(h []int) {
			if len(h) != len(seq) {
				return
			}
			hv := make([]int, len(h))
			for i := range h {
				hv[i] = h[i] + 1
			}
			one(u1, seqCase{"seq", u1.name, seq, hv})
		})
	})
	// (c) fan-out universes: every node kind and growth step of one ART inner node
	for _, fam := range fanFamilies {
		for _, n := range fanSizes {
			fu := us[fmt.Sprintf("fan-%s-%d", fam, n)]
			for _, ord := range fanOrders {
				pre := fu.preludes[ord]
				forEachSeq(len(fu.ops), r.Pick(2, 3), func(seq []int) {
					keys := append([]int{}, pre...)
					for _, o := range seq {
						keys = append(keys, fu.ops[o])
					}
					one(fu, seqCase{"seq", fu.name, keys, nil})
				})
			}
		}
	}
}

// ---------------------------------------------------------------------------------
// Part 2: concurrent inserts (and a reader) under the controlled scheduler
// ---------------------------------------------------------------------------------

const maxV = math.MaxUint64

func dk(uk string, ver uint64) ikey { return ikey{kv.CFDefault, uk, ver} }

type scenario struct {
	name    string
	pre     []ikey
	writers [][]ikey
	reader  string // "", "fwd", "rev"
	seek    *ikey  // reader also Seeks here (in its direction) and drains
	bound   [2]int // preemption bound quick, thorough (quick <0: thorough only)
	heights [][]int // skiplist: tower heights per distinct written key (in order of first appearance); nil = {all 1, all 2}
}

func scenarios() []scenario {
	k := func(i int) ikey { return dk(fmt.Sprintf("k%c", 'a'+i), 1) }
	return []scenario{
		// overwrite race on an empty index: both threads may create the node / the root leaf
		{name: "same-key-empty", writers: [][]ikey{{dk("a", 1)}, {dk("a", 1)}}, bound: [2]int{2, 3}},
		// overwrite race on an existing key next to its neighbours
		{name: "same-key-present", pre: []ikey{dk("a", 1), dk("a", 2), dk("b", 1)}, writers: [][]ikey{{dk("a", 1)}, {dk("a", 1)}}, bound: [2]int{2, 3}},
		// same user key, different versions, three threads
		{name: "versions-3t", writers: [][]ikey{{dk("a", 1)}, {dk("a", 2)}, {dk("a", maxV)}}, bound: [2]int{2, 3}, heights: [][]int{{1, 1, 1}, {2, 1, 2}, {2, 2, 2}}},
		// ART: a new child of the root node vs. a leaf split below the same node
		{name: "newchild-vs-leafsplit", pre: []ikey{dk("a", 1), dk("b", 1)}, writers: [][]ikey{{dk("c", 1)}, {dk("a", 2)}}, bound: [2]int{2, 3}},
		// ART: prefix split of an inner node vs. a new child of that node
		{name: "prefixsplit-vs-newchild", pre: []ikey{dk("abcd", 1), dk("abce", 1), dk("x", 1)}, writers: [][]ikey{{dk("abXX", 1)}, {dk("abcf", 1)}}, bound: [2]int{2, 3}},
		// ART: Node4 -> Node16 growth raced by another growth
		{name: "grow4to16-vs-grow", pre: []ikey{k(0), k(1), k(2), k(3)}, writers: [][]ikey{{k(4)}, {k(5)}}, bound: [2]int{2, 3}},
		// ART: growth vs. a leaf split below the growing node
		{name: "grow4to16-vs-leafsplit", pre: []ikey{k(0), k(1), k(2), k(3)}, writers: [][]ikey{{k(4)}, {dk("kb", 2)}}, bound: [2]int{2, 3}},
		// two inserts each, prefix-related user keys, one internal key written by both threads
		{name: "2x2-mixed", pre: []ikey{dk("a", 1)}, writers: [][]ikey{{dk("a", 2), dk("b", 1)}, {dk("aa", 1), dk("a", 2)}}, bound: [2]int{2, 3}, heights: [][]int{{1, 1, 1}, {2, 1, 2}, {1, 2, 1}}},
		// three writers, adjacent keys
		{name: "3t-adjacent", pre: []ikey{dk("a", 1)}, writers: [][]ikey{{dk("a", 2)}, {dk("aa", 1)}, {dk("a\x00", 1)}}, bound: [2]int{-1, 2}, heights: [][]int{{1, 1, 1}, {2, 1, 2}}},
		// readers: first write into an empty index while a reader walks it
		{name: "reader-fwd-first-write", writers: [][]ikey{{dk("a", 1), dk("b", 1)}}, reader: "fwd", bound: [2]int{2, 3}},
		{name: "reader-rev-first-write", writers: [][]ikey{{dk("a", 1), dk("b", 1)}}, reader: "rev", bound: [2]int{2, 3}},
		// readers during leaf splits next to the iterator position
		{name: "reader-fwd-split", pre: []ikey{dk("a", 1), dk("b", 1)}, writers: [][]ikey{{dk("aa", 1), dk("a", 2)}}, reader: "fwd", seek: &ikey{kv.CFDefault, "a", 2}, bound: [2]int{2, 3}},
		{name: "reader-rev-split", pre: []ikey{dk("a", 1), dk("b", 1)}, writers: [][]ikey{{dk("aa", 1), dk("a", 2)}}, reader: "rev", seek: &ikey{kv.CFDefault, "aa", 1}, bound: [2]int{2, 3}},
		// readers during Node4 -> Node16 growth and a split below it
		{name: "reader-fwd-grow", pre: []ikey{k(0), k(1), k(2), k(3)}, writers: [][]ikey{{k(4), dk("kb", 2)}}, reader: "fwd", bound: [2]int{2, 3}},
		{name: "reader-rev-grow", pre: []ikey{k(0), k(1), k(2), k(3)}, writers: [][]ikey{{k(4), dk("kb", 2)}}, reader: "rev", bound: [2]int{2, 3}},
		// reader with two racing writers
		{name: "reader-fwd-2writers", pre: []ikey{dk("a", 1), dk("b", 1)}, writers: [][]ikey{{dk("c", 1)}, {dk("a", 2)}}, reader: "fwd", bound: [2]int{-1, 2}},
	}
}

type job struct {
	sc      scenario
	engine  string
	heights []int
}

func (j job) name() string {
	n := j.engine + "/" + j.sc.name
	if j.heights != nil {
		n += "/h" + strings.ReplaceAll(strings.Trim(fmt.Sprint(j.heights), "[]"), " ", "")
	}
	return n
}

func (sc scenario) writtenKeys() []ikey {
	var out []ikey
	seen := map[ikey]bool{}
	for _, w := range sc.writers {
		for _, k := range w {
			if !seen[k] {
				seen[k] = true
				out = append(out, k)
			}
		}
	}
	return out
}

func jobs(thorough bool) []job {
	var out []job
	for _, sc := range scenarios() {
		if !thorough && sc.bound[0] < 0 {
			continue
		}
		out = append(out, job{sc, "art", nil})
		hs := sc.heights
		n := len(sc.writtenKeys())
		if hs == nil {
			one, two := make([]int, n), make([]int, n)
			for i := range one {
				one[i], two[i] = 1, 2
			}
			hs = [][]int{one, two}
			if n >= 2 {
				mix := make([]int, n)
				for i := range mix {
					mix[i] = 1 + (i+1)%2
				}
				hs = append(hs, mix)
			}
		}
		for _, h := range hs {
			out = append(out, job{sc, "skiplist", h[:n]})
		}
	}
	return out
}

// heightByKey is consulted by the instrumented Skiplist.Add through utils.VerifHeight.
var heightByKey map[string]int

func init() {
	utils.VerifHeight = func(key []byte) int {
		if heightByKey != nil {
			return heightByKey[string(key)]
		}
		return curHeight
	}
}

type readerObs struct {
	started   bool
	required  map[ikey]bool // keys whose insertion had completed when the reader started
	scan      []obsItem
	scanOver  bool // yielded more than the number of keys that can exist
	seekItems []obsItem
	seekOver  bool
	searches  map[ikey]val
	done      bool
}

func setupFor(j job, p *vr.Partial) func() *schedmc.Exec {
	sc := j.sc
	return func() *schedmc.Exec {
		idx := newIndex(j.engine)
		setHeights(j)
		// all values ever written per key; final allowed values per key
		written := map[ikey][]val{}
		allowed := map[ikey][]val{}
		for i, k := range sc.pre {
			v := val{fmt.Sprintf("p%d", i), byte(i + 1), uint64(500 + i)}
			idx.Add(v.entry(k))
			written[k] = append(written[k], v)
		}
		completed := map[ikey]bool{}
		for _, k := range sc.pre {
			completed[k] = true
		}
		finished := make([]bool, len(sc.writers)+1)
		var bodies []func()
		lastOf := make([]map[ikey]val, len(sc.writers))
		for t, w := range sc.writers {
			lastOf[t] = map[ikey]val{}
			var vals []val
			for i, k := range w {
				v := val{fmt.Sprintf("t%d.%d", t, i), byte(16*(t+1) + i), uint64(1000 + 10*t + i)}
				vals = append(vals, v)
				written[k] = append(written[k], v)
				lastOf[t][k] = v
			}
			bodies = append(bodies, func() {
				debug.SetPanicOnFault(true) // a corrupted structure must fail this schedule, not the process
				for i, k := range w {
					idx.Add(vals[i].entry(k))
					completed[k] = true
				}
				finished[t] = true
			})
		}
		all := map[ikey]bool{}
		for k := range written {
			all[k] = true
			any := false
			for t := range sc.writers {
				if v, ok := lastOf[t][k]; ok {
					allowed[k] = append(allowed[k], v)
					any = true
				}
			}
			if !any {
				allowed[k] = written[k]
			}
		}
		ro := &readerObs{}
		if sc.reader != "" {
			bodies = append(bodies, func() {
				debug.SetPanicOnFault(true)
				ro.started = true
				ro.required = map[ikey]bool{}
				for k := range completed {
					ro.required[k] = true
				}
				limit := len(all) + 1
				it := idx.NewIterator(&utils.Options{IsAsc: sc.reader == "fwd"})
				it.Rewind()
				ro.scan = drain(it, limit)
				ro.scanOver = len(ro.scan) >= limit
				if sc.seek != nil {
					it.Seek(sc.seek.bytes())
					ro.seekItems = drain(it, limit)
					ro.seekOver = len(ro.seekItems) >= limit
				}
				_ = it.Close()
				ro.searches = map[ikey]val{}
				for k := range ro.required {
					vs := idx.Search(k.bytes())
					ro.searches[k] = val{string(vs.Value), vs.Meta, vs.ExpiresAt}
				}
				ro.done = true
				finished[len(sc.writers)] = true
			})
		} else {
			finished[len(sc.writers)] = true
		}
		var outcome string
		steps := 0
		return &schedmc.Exec{
			Threads: bodies,
			// a correct execution of these scenarios takes a few hundred scheduling steps
			Monitor: func() (string, string) {
				if steps++; steps > 6000 {
					return "operation-does-not-terminate", fmt.Sprintf("the threads are still running after %d scheduling steps (an Add / iteration loops)", steps)
				}
				return "", ""
			},
			Final: func(res vsched.Result) (string, string) {
				for t, f := range finished {
					if !f {
						return "thread-not-finished", fmt.Sprintf("thread %d did not finish", t)
					}
				}
				// Reading the quiescent index back takes microseconds. A structure corrupted into a
				// cycle can make the real Search/Next spin forever outside any scheduler: that is
				// reported as a harness error (exit 2), never decided by the clock.
				wd := time.AfterFunc(5*time.Minute, func() {
					fmt.Fprintf(os.Stderr, "HARNESS-ERROR: %s: reading the index back after a schedule does not terminate (corrupted structure?)\n", j.name())
					os.Exit(2)
				})
				sig, desc, out := finalOracle(idx, j, p, all, allowed, written, ro)
				wd.Stop()
				outcome = out
				return sig, desc
			},
			Outcome: func() string { return outcome },
			Cleanup: func() {
				heightByKey = nil
				utils.VerifReleaseIndex(idx)
			},
		}
	}
}

func inVals(v val, set []val) bool {
	for _, s := range set {
		if s == v {
			return true
		}
	}
	return false
}

func keyOfBytes(kb []byte) (ikey, bool) {
	if len(kb) < 12 {
		return ikey{}, false
	}
	cf, uk, ts := kv.SplitInternalKey(kb)
	k := ikey{cf, string(uk), ts}
	return k, bytes.Equal(k.bytes(), kb)
}

// keyRank gives the ascending position of every key in an order: the model order, or (when
// the engine's own quiescent order already deviates from the model for these contents,
// which is reported separately) the engine's own sequential order.
type keyRank map[ikey]int

// checkReaderSeq: what a reader saw while writers were running.
func checkReaderSeq(what string, items []obsItem, over bool, fwd bool, from *ikey, rank keyRank, modelOrder bool, all map[ikey]bool, required map[ikey]bool, written map[ikey][]val) (string, string) {
	if over {
		return what + "-does-not-terminate", fmt.Sprintf("%s yielded more items than keys exist: %s", what, describeItems(items))
	}
	seen := map[ikey]bool{}
	var prev *ikey
	for i := range items {
		k, ok := keyOfBytes(items[i].key)
		if !ok || !all[k] {
			return what + "-yields-never-inserted-key", fmt.Sprintf("%s yielded %s: %s", what, describeKey(items[i].key), describeItems(items))
		}
		if !inVals(items[i].v, written[k]) {
			return what + "-yields-never-written-value", fmt.Sprintf("%s yielded %s=%s: %s", what, k, items[i].v, describeItems(items))
		}
		if prev != nil {
			c := rank[*prev] - rank[k]
			if (fwd && c >= 0) || (!fwd && c <= 0) {
				return what + "-out-of-order rel=" + relation(prev.bytes(), k.bytes()), fmt.Sprintf("%s yielded %s after %s: %s", what, k, *prev, describeItems(items))
			}
		}
		if from != nil && modelOrder {
			c := cmpKey(k, *from)
			if (fwd && c < 0) || (!fwd && c > 0) {
				return what + "-yields-key-beyond-seek-target", fmt.Sprintf("%s(%s) yielded %s: %s", what, *from, k, describeItems(items))
			}
		}
		kk := k
		prev = &kk
		seen[k] = true
	}
	if from != nil && !modelOrder {
		return "", ""
	}
	var miss []string
	for k := range required {
		if from != nil {
			c := cmpKey(k, *from)
			if (fwd && c < 0) || (!fwd && c > 0) {
				continue
			}
		}
		if !seen[k] {
			miss = append(miss, k.String())
		}
	}
	if len(miss) > 0 {
		sort.Strings(miss)
		return what + "-misses-key-inserted-before", fmt.Sprintf("%s did not yield %s (inserted before the reader started): %s", what, strings.Join(miss, ","), describeItems(items))
	}
	return "", ""
}

var concProbeVers = []uint64{0, 1, 2, 3, maxV}

func concProbes(keys []ikey) []probe {
	uks := map[string]bool{"": true, "zz": true}
	for _, k := range keys {
		uks[k.uk] = true
		uks[k.uk+"\x00"] = true
	}
	var ukl []string
	for u := range uks {
		ukl = append(ukl, u)
	}
	sort.Strings(ukl)
	return mkProbes([]kv.ColumnFamily{kv.CFDefault, kv.CFLock}, ukl, concProbeVers)
}

// sequentialBuild inserts the final contents m of a scenario one after the other (initial
// keys, then each writer's keys in program order) into a fresh index of the same engine.
func sequentialBuild(engine string, sc scenario, m *model) (idx index, panicked any) {
	defer func() {
		if r := recover(); r != nil {
			idx, panicked = nil, r
		}
	}()
	idx = newIndex(engine)
	valOf := map[ikey]val{}
	for _, e := range m.ents {
		valOf[e.k] = e.v
	}
	for _, k := range sc.pre {
		idx.Add(valOf[k].entry(k))
	}
	for _, w := range sc.writers {
		for _, k := range w {
			idx.Add(valOf[k].entry(k))
		}
	}
	return idx, nil
}

func fullScan(idx index, asc bool, limit int) []obsItem {
	it := idx.NewIterator(&utils.Options{IsAsc: asc})
	defer it.Close()
	it.Rewind()
	return drain(it, limit)
}

func sameItems(a, b []obsItem) bool {
	if len(a) != len(b) {
		return false
	}
	for i := range a {
		if !bytes.Equal(a[i].key, b[i].key) || a[i].v != b[i].v {
			return false
		}
	}
	return true
}

func seqScenarioReplay(name string) string {
	return fmt.Sprintf(`{"Part":"seq-scenario","Harness":%q}`, name)
}

// panicSig: first line of a panic message with non-printable bytes (raw keys) masked.
func panicSig(r any) string {
	msg := fmt.Sprint(r)
	if i := strings.IndexByte(msg, '\n'); i > 0 {
		msg = msg[:i]
	}
	b := []byte(msg)
	for i, c := range b {
		if c < 0x20 || c > 0x7e {
			b[i] = '.'
		}
	}
	if len(b) > 100 {
		b = b[:100]
	}
	return string(b)
}

func finalOracle(idx index, j job, p *vr.Partial, all map[ikey]bool, allowed, written map[ikey][]val, ro *readerObs) (sig, desc, outcome string) {
	sc := j.sc
	defer func() {
		// the index is quiescent here: a panic while reading it back is a broken structure
		if r := recover(); r != nil {
			sig, desc, outcome = "final-read-panics: "+panicSig(r), fmt.Sprintf("after all threads finished, reading the index back panicked: %v", r), ""
		}
	}()
	// 1. every inserted key is present with one of the values written to it
	var m model
	var keys []ikey
	for k := range all {
		keys = append(keys, k)
	}
	sort.Slice(keys, func(i, j int) bool { return cmpKey(keys[i], keys[j]) < 0 })
	var outc []string
	for _, k := range keys {
		vs := idx.Search(k.bytes())
		got := val{string(vs.Value), vs.Meta, vs.ExpiresAt}
		if !inVals(got, allowed[k]) {
			scan := describeItems(fullScan(idx, true, len(all)+2))
			if got == (val{}) || !inVals(got, written[k]) {
				return "lost-insert", fmt.Sprintf("after all threads finished Search(%s) = %s, allowed %v; scan: %s", k, got, allowed[k], scan), ""
			}
			return "stale-value", fmt.Sprintf("after all threads finished Search(%s) = %s (overwritten earlier in program order), allowed %v; scan: %s", k, got, allowed[k], scan), ""
		}
		m.put(k, got)
		if len(allowed[k]) > 1 {
			outc = append(outc, k.String()+"="+got.v)
		}
	}
	// 2. full scans contain exactly the inserted keys once, in order; every probe agrees with the model
	rank := keyRank{}
	for i, k := range keys {
		rank[k] = i
	}
	modelOrder := true
	probes := concProbes(keys)
	if mms := compareIndex(idx, &m, probes); len(mms) > 0 {
		// Is this the engine's sequential behaviour for these contents (then it is reported
		// with the signature of the sequential part and the schedule search goes on), or did
		// the interleaving cause it?
		ref, panicked := sequentialBuild(j.engine, sc, &m)
		refSigs := map[string]*mismatch{}
		if panicked == nil {
			for _, mm2 := range compareIndex(ref, &m, probes) {
				refSigs[mm2.sig(j.engine)] = mm2
			}
		}
		for _, mm := range mms {
			if refSigs[mm.sig(j.engine)] == nil {
				return "final " + mm.op + " " + mm.kind + " rel=" + mm.rel, mm.desc("after all threads finished:"), ""
			}
		}
		limit := len(keys) + 2
		refFwd := fullScan(ref, true, limit)
		if !sameItems(fullScan(idx, true, limit), refFwd) || !sameItems(fullScan(idx, false, limit), fullScan(ref, false, limit)) {
			return "final-scan-differs-from-sequential-build", fmt.Sprintf("after all threads finished the index scans as [%s], the same contents inserted sequentially scan as [%s]", describeItems(fullScan(idx, true, limit)), describeItems(refFwd)), ""
		}
		utils.VerifReleaseIndex(ref)
		for _, mm := range mms {
			p.Viol("seq: "+mm.sig(j.engine), "contents of scenario "+j.name()+" inserted sequentially\n  "+refSigs[mm.sig(j.engine)].desc(j.engine), seqScenarioReplay(j.name()))
		}
		p.Add("conc_schedules_with_sequential_defect", 1)
		// the reader is judged against the engine's own quiescent order
		modelOrder = false
		rank = keyRank{}
		for i, it := range refFwd {
			if k, ok := keyOfBytes(it.key); ok {
				if _, dup := rank[k]; !dup {
					rank[k] = i
				}
			}
		}
	}
	// 3. the reader's observations
	if sc.reader != "" {
		fwd := sc.reader == "fwd"
		if s, d := checkReaderSeq("reader-scan", ro.scan, ro.scanOver, fwd, nil, rank, modelOrder, all, ro.required, written); s != "" {
			return s, d, ""
		}
		if sc.seek != nil {
			if s, d := checkReaderSeq("reader-seek", ro.seekItems, ro.seekOver, fwd, sc.seek, rank, modelOrder, all, ro.required, written); s != "" {
				return s, d, ""
			}
		}
		for k, got := range ro.searches {
			if !inVals(got, written[k]) {
				return "reader-search-misses-key-inserted-before", fmt.Sprintf("concurrent Search(%s) = %s, written %v", k, got, written[k]), ""
			}
		}
		var ks []string
		for _, it := range ro.scan {
			ks = append(ks, describeKey(it.key))
		}
		outc = append(outc, "scan="+strings.Join(ks, ","))
		ks = nil
		for _, it := range ro.seekItems {
			ks = append(ks, describeKey(it.key))
		}
		outc = append(outc, "seek="+strings.Join(ks, ","))
	}
	return "", "", strings.Join(outc, " ")
}

// seqScenario replays a "seq-scenario" finding: the scenario's final contents inserted sequentially.
func seqScenario(j job) (out []finding) {
	setHeights(j)
	defer func() { heightByKey = nil }()
	var m model
	for i, k := range j.sc.pre {
		m.put(k, val{fmt.Sprintf("p%d", i), byte(i + 1), uint64(500 + i)})
	}
	for t, w := range j.sc.writers {
		for i, k := range w {
			m.put(k, val{fmt.Sprintf("t%d.%d", t, i), byte(16*(t+1) + i), uint64(1000 + 10*t + i)})
		}
	}
	var keys []ikey
	for _, e := range m.ents {
		keys = append(keys, e.k)
	}
	ref, panicked := sequentialBuild(j.engine, j.sc, &m)
	if panicked != nil {
		return []finding{{"seq: " + j.engine + " panic", fmt.Sprint(panicked)}}
	}
	for _, mm := range compareIndex(ref, &m, concProbes(keys)) {
		out = append(out, finding{"seq: " + mm.sig(j.engine), mm.desc(j.engine)})
	}
	return out
}

func setHeights(j job) {
	hmap := map[string]int{}
	for i, k := range j.sc.pre {
		hmap[string(k.bytes())] = 1 + i%3
	}
	for i, k := range j.sc.writtenKeys() {
		h := 1
		if j.heights != nil {
			h = j.heights[i]
		}
		hmap[string(k.bytes())] = h
	}
	heightByKey = hmap
}

func concPart(r *vr.Run, sh vr.ShardInfo, p *vr.Partial) {
	for _, j := range jobs(r.Thorough()) {
		if f := os.Getenv("C07_JOBS"); f != "" && !strings.Contains(j.name(), f) { // development aid
			continue
		}
		if r.Expired() {
			p.TimedOut = true
			return
		}
		b := j.sc.bound[1]
		if r.Quick() {
			b = j.sc.bound[0]
		}
		schedmc.Explore(setupFor(j, p), schedmc.Options{Name: j.name(), Bound: b, Exclusive: true, MaxSteps: 20000, ShardDepth: 1}, sh, p, r.Expired)
	}
}

// ---------------------------------------------------------------------------------

type replayObj struct {
	Part     string
	Universe string
	Keys     []int
	Heights  []int
	Harness  string
	Choices  []int
}

func main() {
	if os.Getenv("VERIF_PROP") == "C07-race" {
		raceMain(vr.Start("C07-race"))
		return
	}
	r := vr.Start("C07")
	if r.ReplayPath != "" {
		var rp replayObj
		r.LoadReplay(&rp)
		if rp.Part == "seq" {
			u := universes()[rp.Universe]
			if u == nil {
				vr.Fatalf("unknown universe %q", rp.Universe)
			}
			c := seqCase{"seq", rp.Universe, rp.Keys, rp.Heights}
			fmt.Println("replay:", c.String(u))
			for _, f := range runSeq(u, c) {
				r.Violation(f.sig, f.desc, rp)
			}
			r.Finish(vr.Coverage{Level: "model_checking", States: 1, Transitions: 1, Evaluations: 1, Distinct: 2, Samples: []any{c.String(u)}, Rule: "replay"})
		}
		for _, j := range jobs(true) {
			if j.name() == rp.Harness && rp.Part == "seq-scenario" {
				fmt.Println("replay: contents of", j.name(), "inserted sequentially")
				for _, f := range seqScenario(j) {
					r.Violation(f.sig, f.desc, rp)
				}
				r.Finish(vr.Coverage{Level: "model_checking", States: 1, Transitions: 1, Evaluations: 1, Distinct: 2, Samples: []any{j.name()}, Rule: "replay"})
			}
			if j.name() == rp.Harness {
				runtime.GOMAXPROCS(1)
				pp := vr.NewPartial()
				sig, desc, tr := schedmc.Replay(setupFor(j, pp), schedmc.Options{Name: j.name(), Exclusive: true, MaxSteps: 20000}, rp.Choices)
				fmt.Println("replay trace:", tr)
				for _, v := range pp.Violations {
					r.Violation(v.Sig, v.Desc, rp)
				}
				if sig != "" {
					r.Violation(j.name()+": "+sig, desc, rp)
				}
				r.Finish(vr.Coverage{Level: "model_checking", States: 1, Transitions: 1, Evaluations: 1, Distinct: 2, Samples: []any{tr}, Rule: "replay"})
			}
		}
		vr.Fatalf("unknown harness %q", rp.Harness)
	}
	total := r.RunSharded(vr.Workers(), func(sh vr.ShardInfo, p *vr.Partial) {
		runtime.GOMAXPROCS(1)
		debug.SetPanicOnFault(true)
		// every index instance owns a fresh zeroed 1 MiB arena chunk: recycle the chunks of
		// released instances (see overlay utils/zz_verif_memindex.go)
		utils.VerifRecycleChunks = true
		only := os.Getenv("C07_ONLY") // development aid: run one part only
		if only != "conc" {
			seqPart(r, sh, p)
		}
		if only != "seq" {
			concPart(r, sh, p)
		}
	})
	perJob := map[string]int64{}
	contended := int64(0)
	for k, v := range total.Counters {
		if strings.HasPrefix(k, "exec:") {
			perJob[k[5:]] = v
		}
	}
	var names []string
	for _, j := range jobs(r.Thorough()) {
		names = append(names, j.name())
		if total.Card("outcomes:"+j.name()) > 1 {
			contended++
		}
	}
	if os.Getenv("C07_ONLY") != "seq" {
		r.RequireOutcomes(total.Card("outcomes"), 2)
	}
	r.Finish(vr.Coverage{
		Level:       "model_checking",
		Evaluations: total.Counters["executions"] + total.Counters["seq_cases"],
		Distinct:    total.Counters["seq_nontrivial"] + contended,
		Rule: "sequential: every insertion sequence up to the length bound over {default,write} x {a,aa,a\\x00,a\\xff,b} x {1,2,max} (and, one column family, every skiplist tower-height vector), fresh skiplist + ART + sorted-slice model, every probe of the probe universe: Search, forward/reverse scan, Seek+Next in both directions; non-trivial = sequences with >=2 distinct internal keys; fan-out universes: N in {3,4,5,15,16,17,47,48,49,255,256} sibling keys differing in one user-key byte or in the last timestamp byte (versions of one key), inserted ascending / descending / interleaved, followed by every sequence of a 6-symbol op alphabet (insert below the smallest / above the largest / into the gap, overwrite smallest / largest / middle), so one ART inner node passes through Node4, Node16, Node48, Node256 and every growth step. " +
			"concurrent: every schedule with at most `bound` preemptions of each scenario (2-3 writer threads, optional reader) on one real index; scheduling points = every sync/atomic operation of skiplist.go, art.go, arena.go; non-trivial = scenarios that produced more than one distinct outcome",
		Samples:     total.SamplesAny(),
		States:      total.Counters["steps"] + total.Counters["seq_cases"],
		Transitions: total.Counters["steps"] + total.Counters["seq_cases"],
		Validated:   total.Counters["validated_replays"] + total.Counters["executions"] + total.Counters["seq_cases"],
		Exhaustive:  !total.TimedOut,
		Outcomes:    total.Card("outcomes"),
		Bounds: map[string]any{"seq_max_len": r.Pick(3, 4), "seq_universe_keys": 30, "seq_height_vectors": fmt.Sprintf("{1..%d}^len on the 15-key universe", r.Pick(2, 3)),
			"arena": "one 1 MiB chunk", "fanout_sizes": fanSizes, "fanout_families": fanFamilies, "fanout_orders": fanOrders, "fanout_op_seq_max_len": r.Pick(2, 3), "preemption_bound": r.Pick(2, 3), "scenarios": names},
		Extra: map[string]any{"sequential_cases": total.Counters["seq_cases"], "fanout_cases": total.Counters["fanout_cases"], "schedules": total.Counters["executions"], "scheduling_steps": total.Counters["steps"],
			"max_decisions_per_schedule": total.Counters["max_decisions"], "schedules_per_scenario": perJob, "scenarios_with_contention": contended},
		Assumptions: []string{"sequentially consistent atomics; plain (non-atomic) accesses are not scheduling points (a free-running -race pass of the same bodies is registered separately as C07-race)",
			"skiplist tower heights are chosen by the harness (Skiplist.randomHeight is routed through utils.VerifHeight in the instrumented copy) and quantified explicitly",
			"each schedule / sequence runs on fresh objects; failing ones are re-executed and must fail identically"},
	})
}
