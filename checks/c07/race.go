//go:build verif

package main

import (
	"fmt"
	"os"
	"os/exec"
	"path/filepath"
	"regexp"
	"runtime"
	"sort"
	"strings"
	"sync"

	"github.com/feichai0017/NoKV/utils"

	"verif/lib/vr"
)

// Supporting pass (registry entry "C07-race", built with -race): the writer / reader bodies
// of the concurrent scenarios run FREE (real goroutines, no controlled scheduler) so that
// the race detector sees plain-memory accesses the cooperative scheduler cannot interleave.
// It never decides C07: data-race reports and functional anomalies are only tallied.

func raceChild(iter int) {
	runtime.GOMAXPROCS(8)
	anomalies := map[string]int{}
	for _, j := range jobs(true) {
		setHeights(j)
		for n := 0; n < iter; n++ {
			sc := j.sc
			idx := newIndex(j.engine)
			var m model
			for i, k := range sc.pre {
				v := val{fmt.Sprintf("p%d", i), byte(i + 1), uint64(500 + i)}
				idx.Add(v.entry(k))
				m.put(k, v)
			}
			var wg sync.WaitGroup
			start := make(chan struct{})
			for t, w := range sc.writers {
				wg.Add(1)
				go func() {
					defer wg.Done()
					<-start
					for i, k := range w {
						idx.Add(val{fmt.Sprintf("t%d.%d", t, i), byte(16*(t+1) + i), uint64(1000 + 10*t + i)}.entry(k))
					}
				}()
			}
			var scanned []obsItem
			var readerPanic any
			if sc.reader != "" {
				wg.Add(1)
				go func() {
					defer wg.Done()
					defer func() { readerPanic = recover() }()
					<-start
					it := idx.NewIterator(&utils.Options{IsAsc: sc.reader == "fwd"})
					it.Rewind()
					scanned = drain(it, 64)
					if sc.seek != nil {
						it.Seek(sc.seek.bytes())
						_ = drain(it, 64)
					}
					_ = it.Close()
					for _, k := range sc.pre {
						_ = idx.Search(k.bytes())
					}
				}()
			}
			close(start)
			wg.Wait()
			if readerPanic != nil {
				msg := fmt.Sprint(readerPanic)
				if i := strings.IndexByte(msg, '\n'); i > 0 {
					msg = msg[:i]
				}
				anomalies[j.name()+": reader panic: "+msg]++
			}
			// functional tally: every written key present with some written value
			for _, w := range sc.writers {
				for _, k := range w {
					if vs := idx.Search(k.bytes()); !strings.HasPrefix(string(vs.Value), "t") {
						anomalies[j.name()+": lost-insert"]++
						break
					}
				}
			}
			for i := 1; i < len(scanned); i++ {
				a, _ := keyOfBytes(scanned[i-1].key)
				b, _ := keyOfBytes(scanned[i].key)
				c := cmpKey(a, b)
				if (sc.reader == "fwd" && c >= 0) || (sc.reader == "rev" && c <= 0) {
					anomalies[j.name()+": reader-scan-out-of-order rel="+relation(scanned[i-1].key, scanned[i].key)]++
					break
				}
			}
		}
	}
	heightByKey = nil
	var keys []string
	for k := range anomalies {
		keys = append(keys, k)
	}
	sort.Strings(keys)
	for _, k := range keys {
		fmt.Printf("ANOMALY %d %s\n", anomalies[k], k)
	}
}

func raceMain(r *vr.Run) {
	iter := r.Pick(200, 2000)
	if os.Getenv("C07_RACE_CHILD") != "" {
		raceChild(iter)
		os.Exit(0)
	}
	dir := r.Scratch()
	cmd := exec.Command(os.Args[0], os.Args[1:]...)
	cmd.Env = append(os.Environ(), "C07_RACE_CHILD=1", "GORACE=exitcode=0 halt_on_error=0 log_path="+filepath.Join(dir, "race"))
	out, err := cmd.CombinedOutput()
	if err != nil {
		vr.Fatalf("race child failed: %v\n%s", err, out)
	}
	var anomalies []any
	for _, l := range strings.Split(string(out), "\n") {
		if strings.HasPrefix(l, "ANOMALY ") {
			anomalies = append(anomalies, l[8:])
		}
	}
	// distinct race reports by the pair of top frames
	logs, _ := filepath.Glob(filepath.Join(dir, "race*"))
	top := regexp.MustCompile(`(?m)^(Previous |Read|Write|Atomic)[^\n]*\n\s+(\S+)\(\)\n\s+(\S+:\d+)`)
	distinct := map[string]int{}
	total := 0
	for _, f := range logs {
		b, _ := os.ReadFile(f)
		for _, rep := range strings.Split(string(b), "==================") {
			if !strings.Contains(rep, "WARNING: DATA RACE") {
				continue
			}
			total++
			var fr []string
			for _, m := range top.FindAllStringSubmatch(rep, 2) {
				loc := m[3]
				if i := strings.LastIndex(loc, "/"); i >= 0 {
					loc = loc[i+1:]
				}
				fr = append(fr, m[2][strings.LastIndex(m[2], "/")+1:]+"@"+loc)
			}
			distinct[strings.Join(fr, " <-> ")]++
		}
	}
	var reps []any
	for k, n := range distinct {
		reps = append(reps, fmt.Sprintf("%dx %s", n, k))
	}
	sort.Slice(reps, func(i, j int) bool { return reps[i].(string) < reps[j].(string) })
	fmt.Printf("C07-race: %d data-race reports (%d distinct), %d functional anomaly classes\n", total, len(distinct), len(anomalies))
	for _, x := range reps {
		fmt.Println("  RACE", x)
	}
	for _, x := range anomalies {
		fmt.Println("  ANOMALY", x)
	}
	samples := append(append([]any{}, reps...), anomalies...)
	nj := int64(len(jobs(true)))
	r.Finish(vr.Coverage{
		Level: "exploration", Evaluations: nj * int64(iter), Distinct: nj,
		Rule:       "free-running executions of every C07 concurrent scenario body under the Go race detector (supporting evidence only; schedules are whatever the runtime produces)",
		Samples:    samples,
		Exhaustive: false,
		Outcomes:   int64(len(distinct) + len(anomalies) + 1),
		Extra:      map[string]any{"race_reports": total, "distinct_race_reports": reps, "functional_anomalies": anomalies, "iterations_per_scenario": iter},
	})
}
