//go:build verif

// C32 — the watermark never passes an unfinished index.
// schedmc: preemption-bounded exhaustive exploration of the real utils.WaterMark
// (sync/atomic/channel operations instrumented) under 2-3 threads.
package main

import (
	"context"
	"fmt"
	"os"
	"runtime"
	"sort"
	"strings"

	"github.com/feichai0017/NoKV/utils"

	"verif/lib/schedmc"
	"verif/lib/vr"
	"verif/shim/vsched"
	vsync "verif/shim/vsync"
)

// tracker is the harness-side bookkeeping behind the monitor (plain fields: only one
// controlled thread runs at a time and the monitor runs between steps).
type tracker struct {
	w        *utils.WaterMark
	begun    map[uint64]int // Begin(i) returned, legit (DoneUntil < i when invoked)
	doneInv  map[uint64]int // Done(i) invoked
	lastDU   uint64
	waitViol string
	maxIdx   uint64
	allDone  bool
	traj     []string
	viol     string
	violDesc string
	// serialBegins: the scenario serialises Begin calls with increasing indices (oracle contract)
	serialBegins bool
	inflight     int
	racedBegin   map[uint64]bool
}

// begin calls Begin/BeginMany and records the indices as pending when the call counts as a
// legitimate begin ahead of the mark. In the oracle-like scenarios Begin calls are
// serialised with strictly increasing indices (exactly the contract of the transaction
// oracle), so "mark below the index when the call started" suffices. In the free scripts
// Begins of different threads race with each other; a Begin that loses such a race
// (another thread stepped during the call) begins an index the mark may already have
// passed legitimately, so it is only counted when the call ran without interference.
func (t *tracker) begin(idx ...uint64) {
	if schedmc.FreeRunning {
		if len(idx) == 1 {
			t.w.Begin(idx[0])
		} else {
			t.w.BeginMany(idx)
		}
		return
	}
	du := t.w.DoneUntil()
	sw := vsched.SwitchCount()
	raced := t.inflight > 0 // another thread is in the middle of a Begin/Done call right now
	t.inflight++
	defer func() { t.inflight-- }()
	if len(idx) == 1 {
		t.w.Begin(idx[0])
	} else {
		t.w.BeginMany(idx)
	}
	alone := vsched.SwitchCount() == sw
	for _, i := range idx {
		if du < i && (t.serialBegins || alone) {
			t.begun[i]++
			if raced && !t.serialBegins {
				t.racedBegin[i] = true
			}
		}
		if i > t.maxIdx {
			t.maxIdx = i
		}
	}
	t.checkNow() // the instant a Begin has returned is a state the property speaks about
}

func (t *tracker) done(idx ...uint64) {
	if schedmc.FreeRunning {
		if len(idx) == 1 {
			t.w.Done(idx[0])
		} else {
			t.w.DoneMany(idx)
		}
		return
	}
	for _, i := range idx {
		t.doneInv[i]++
	}
	t.inflight++
	defer func() { t.inflight-- }()
	if len(idx) == 1 {
		t.w.Done(idx[0])
	} else {
		t.w.DoneMany(idx)
	}
}

func (t *tracker) wait(i uint64) {
	if schedmc.FreeRunning {
		_ = t.w.WaitForMark(context.Background(), i)
		return
	}
	// indices that were legitimately begun (returned) before this wait was invoked
	pendingBefore := map[uint64]int{}
	for j, n := range t.begun {
		if j <= i {
			pendingBefore[j] = n
		}
	}
	_ = t.w.WaitForMark(context.Background(), i)
	for j, n := range pendingBefore {
		if t.doneInv[j] < n {
			t.waitViol = fmt.Sprintf("WaitForMark(%d) returned while index %d (begun before the wait) had %d Begin and only %d Done", i, j, n, t.doneInv[j])
		}
	}
}

// checkNow evaluates the invariants synchronously (between two API calls of one thread
// there may be no scheduling point at which the monitor would run).
func (t *tracker) checkNow() {
	if t.viol == "" {
		t.viol, t.violDesc = t.invariants()
	}
}

func (t *tracker) monitor() (string, string) {
	if t.viol != "" {
		return t.viol, t.violDesc
	}
	return t.invariants()
}

func (t *tracker) invariants() (string, string) {
	du := t.w.DoneUntil()
	if du < t.lastDU {
		return "doneUntil-decreased", fmt.Sprintf("DoneUntil went from %d to %d", t.lastDU, du)
	}
	if du != t.lastDU {
		t.traj = append(t.traj, fmt.Sprintf("%d@%d", du, len(t.doneInv)))
	}
	t.lastDU = du
	for i, n := range t.begun {
		if t.doneInv[i] < n && du >= i {
			if t.racedBegin[i] {
				// unordered concurrent Begins: this Begin started while another thread was inside
				// a Begin/Done (possibly between its slot check and its advance)
				return "doneUntil-passed-pending begin-raced-with-inflight-advance", fmt.Sprintf("DoneUntil=%d but index %d has %d completed Begin and %d Done (the Begin ran while another thread was inside a Begin/Done call)", du, i, n, t.doneInv[i])
			}
			return "doneUntil-passed-pending", fmt.Sprintf("DoneUntil=%d but index %d has %d completed Begin and %d Done", du, i, n, t.doneInv[i])
		}
	}
	if t.waitViol != "" {
		return "wait-returned-early", t.waitViol
	}
	return "", ""
}

type scenario struct {
	name       string
	build      func(t *tracker) []func()
	init       uint64 // initial doneUntil/lastIndex (as after recovery), 0 = fresh
	win        int
	quickBound int // preemption bound in the quick tier (0 = default 2)
}

// committer mimics the oracle: timestamps handed out and Begin called under a lock,
// Done called later without it.
func oracleScenario(nThreads, perThread int, waiter bool) func(t *tracker) []func() {
	return func(t *tracker) []func() {
		var mu vsync.Mutex
		t.serialBegins = true
		next := t.w.DoneUntil() + 1
		var bodies []func()
		for k := 0; k < nThreads; k++ {
			bodies = append(bodies, func() {
				for r := 0; r < perThread; r++ {
					mu.Lock()
					ts := next
					next++
					t.begin(ts)
					mu.Unlock()
					t.done(ts)
				}
			})
		}
		if waiter {
			bodies = append(bodies, func() {
				r := t.w.LastIndex()
				t.wait(r)
			})
		}
		return bodies
	}
}

type call struct {
	op  string
	idx []uint64
}

func script(calls ...call) func(t *tracker) func() {
	return func(t *tracker) func() {
		return func() {
			for _, c := range calls {
				switch c.op {
				case "B":
					t.begin(c.idx...)
				case "D":
					t.done(c.idx...)
				case "W":
					t.wait(c.idx[0])
				}
			}
		}
	}
}

func scripted(scripts ...func(t *tracker) func()) func(t *tracker) []func() {
	return func(t *tracker) []func() {
		var out []func()
		for _, s := range scripts {
			out = append(out, s(t))
		}
		return out
	}
}

func B(i ...uint64) call { return call{"B", i} }
func D(i ...uint64) call { return call{"D", i} }
func W(i uint64) call    { return call{"W", []uint64{i}} }

func scenarios(thorough bool) []scenario {
	s := []scenario{
		{"oracle-2x1+waiter", oracleScenario(2, 1, true), 0, 4, 0},
		{"oracle-2x2", oracleScenario(2, 2, false), 0, 4, 0},
		{"oracle-2x2-recovered", oracleScenario(2, 2, false), 2, 4, 0},
		{"oracle-2x3-rebuild", oracleScenario(2, 3, false), 0, 4, 0},
		{"scripts-B1D1|B2D2|W2", scripted(script(B(1), D(1)), script(B(2), D(2)), script(W(2))), 0, 4, 0},
		{"scripts-B1D1|B6D6|W6", scripted(script(B(1), D(1)), script(B(6), D(6)), script(W(6))), 0, 4, 1},
		{"scripts-many", scripted(script(B(1, 2), D(2, 1)), script(B(3), D(3)), script(W(3))), 0, 4, 1},
		{"scripts-rebuild-race", scripted(script(B(2), D(2)), script(B(9), D(9)), script(B(3), D(3))), 0, 4, 1},
	}
	if thorough {
		s = append(s,
			scenario{"oracle-3x1+waiter", oracleScenario(3, 1, true), 0, 4, 0},
			scenario{"oracle-3x2", oracleScenario(3, 2, false), 0, 4, 0},
			scenario{"oracle-2x3+waiter", oracleScenario(2, 3, true), 0, 4, 0},
			scenario{"scripts-B1D1B5D5|B2D2B6D6|W6", scripted(script(B(1), D(1), B(5), D(5)), script(B(2), D(2), B(6), D(6)), script(W(6))), 0, 4, 0},
			scenario{"scripts-default-window", scripted(script(B(1), D(1)), script(B(2), D(2)), script(W(2))), 0, 0, 0},
		)
	}
	return s
}

func setupFor(sc scenario) func() *schedmc.Exec {
	return func() *schedmc.Exec {
		w := &utils.WaterMark{Name: "verif"}
		if sc.win > 0 {
			w.VerifInit(sc.win)
		} else {
			w.Init(nil)
		}
		if sc.init > 0 {
			w.SetDoneUntil(sc.init)
			w.SetLastIndex(sc.init)
		}
		t := &tracker{w: w, begun: map[uint64]int{}, doneInv: map[uint64]int{}, racedBegin: map[uint64]bool{}, lastDU: w.DoneUntil()}
		bodies := sc.build(t)
		return &schedmc.Exec{
			Threads: bodies,
			Monitor: t.monitor,
			Final: func(res vsched.Result) (string, string) {
				// everything that was begun is done: the mark must have reached the last index
				for i, n := range t.begun {
					if t.doneInv[i] < n {
						return "", "" // a thread did not finish its script (reported elsewhere)
					}
				}
				if du := w.DoneUntil(); du < t.maxIdx {
					return "mark-stuck", fmt.Sprintf("all %d begun indices are done but DoneUntil=%d < %d", len(t.begun), du, t.maxIdx)
				}
				return "", ""
			},
			Outcome: func() string {
				var ks []string
				for i := range t.begun {
					ks = append(ks, fmt.Sprint(i))
				}
				sort.Strings(ks)
				return fmt.Sprintf("du=%d begun=%s traj=%s", w.DoneUntil(), strings.Join(ks, ","), strings.Join(t.traj, ">"))
			},
		}
	}
}

func main() {
	if os.Getenv("VERIF_PROP") == "C32-race" {
		// supporting pass: the same thread bodies, free-running under the race detector
		r := vr.Start("C32-race")
		var scs []schedmc.Scenario
		for _, sc := range scenarios(true) {
			scs = append(scs, schedmc.Scenario{Name: sc.name, Setup: setupFor(sc)})
		}
		schedmc.FreeRunMain(r, scs, r.Pick(200, 2000))
	}
	r := vr.Start("C32")
	scs := scenarios(r.Thorough())
	bound := r.Pick(2, 3)
	if r.ReplayPath != "" {
		var rp struct {
			Harness string
			Choices []int
		}
		r.LoadReplay(&rp)
		for _, sc := range scenarios(true) {
			if sc.name == rp.Harness {
				sig, desc, tr := schedmc.Replay(setupFor(sc), schedmc.Options{Name: sc.name, Exclusive: true}, rp.Choices)
				fmt.Println("replay trace:", tr)
				if sig != "" {
					r.Violation(sc.name+": "+sig, desc, rp)
				}
				r.Finish(vr.Coverage{Level: "model_checking", States: 1, Transitions: 1, Evaluations: 1, Distinct: 2, Samples: []any{tr}, Rule: "replay"})
			}
		}
		vr.Fatalf("unknown harness %q", rp.Harness)
	}
	total := r.RunSharded(vr.Workers(), func(sh vr.ShardInfo, p *vr.Partial) {
		runtime.GOMAXPROCS(1) // hand-offs between controlled threads are cheapest on one P
		p.Add("workers", 1)
		for _, sc := range scs {
			b := bound
			if r.Quick() && sc.quickBound > 0 {
				b = sc.quickBound
			}
			schedmc.Explore(setupFor(sc), schedmc.Options{Name: sc.name, Bound: b, Exclusive: true}, sh, p, r.Expired)
			if !r.Expired() {
				p.Add("done:"+sc.name, 1)
			}
		}
	})
	perScenario := map[string]int64{}
	for k, v := range total.Counters {
		if strings.HasPrefix(k, "exec:") {
			perScenario[k[5:]] = v
		}
	}
	r.RequireOutcomes(total.Card("outcomes"), 2)
	var names, completed []string
	for _, sc := range scs {
		names = append(names, sc.name)
		if total.Counters["done:"+sc.name] == total.Counters["workers"] && total.Counters["workers"] > 0 {
			completed = append(completed, sc.name)
		}
	}
	r.Finish(vr.Coverage{
		Level:       "model_checking",
		Evaluations: total.Counters["executions"],
		Distinct:    total.Card("outcomes"),
		Rule:        "every schedule with at most `bound` preemptions of each scenario (2-3 threads calling Begin/BeginMany/Done/DoneMany/WaitForMark on one real WaterMark with a 4-slot window); scheduling points = every mutex/atomic/channel operation of utils/watermarker.go; invariants evaluated after every step",
		Samples:     total.SamplesAny(),
		States:      total.Counters["steps"],
		Transitions: total.Counters["steps"],
		Validated:   total.Counters["validated_replays"] + total.Counters["executions"],
		Exhaustive:  !total.TimedOut,
		Outcomes:    total.Card("outcomes"),
		Bounds:      map[string]any{"preemption_bound": bound, "quick_bound_1_for_3_thread_scripts": r.Quick(), "scenarios": names, "scenarios_enumerated_completely": completed},
		Extra:       map[string]any{"schedules": total.Counters["executions"], "scheduling_steps": total.Counters["steps"], "max_decisions_per_schedule": total.Counters["max_decisions"], "schedules_per_scenario": perScenario},
		Assumptions: []string{"sequentially consistent atomics (Go memory model for sync/atomic)", "states = scheduler steps at which the monitor was evaluated (the stateless search does not deduplicate states)",
			"each schedule is executed on fresh objects from its decision sequence; failing schedules are re-executed and must fail identically"},
	})
}
