//go:build verif

// C35 — SST tables serve exactly the entries they were built from.
//
// Bounded-exhaustive enumeration of sorted entry sets x value-size classes x block size x bloom
// (x block cache x prefetch in the thorough tier). Every set is written by the real table builder,
// opened by the real openTable, and interrogated through the real Search and table iterator
// (Rewind / Seek / Next in both directions); then the file is closed and reopened and everything is
// asked again. The reference is the sorted slice itself.
package main

import (
	"encoding/json"
	"errors"
	"fmt"
	"os"
	"path/filepath"
	"runtime"
	"strconv"
	"strings"

	"github.com/feichai0017/NoKV/kv"
	"github.com/feichai0017/NoKV/lsm"
	"github.com/feichai0017/NoKV/utils"

	"verif/lib/vr"
)

// ---------------------------------------------------------------------------------------
// model: internal key = (cf, user key, version); order = cf asc, user key asc, version desc

type ikey struct {
	CF   kv.ColumnFamily
	User string
	Ver  uint64
}

func (k ikey) bytes() []byte { return kv.InternalKey(k.CF, []byte(k.User), k.Ver) }
func (k ikey) String() string {
	v := fmt.Sprint(k.Ver)
	if k.Ver == 1<<64-1 {
		v = "max"
	}
	return fmt.Sprintf("%d/%x@%s", k.CF, k.User, v)
}

func cmpKey(a, b ikey) int {
	switch {
	case a.CF != b.CF:
		if a.CF < b.CF {
			return -1
		}
		return 1
	case a.User != b.User:
		return strings.Compare(a.User, b.User)
	case a.Ver != b.Ver: // newer first
		if a.Ver > b.Ver {
			return -1
		}
		return 1
	}
	return 0
}

type entry struct {
	K    ikey
	VLen int
	Meta byte
	Exp  uint64
}

func (e entry) value() []byte {
	v := make([]byte, e.VLen)
	for i := range v {
		v[i] = byte('A' + (i+len(e.K.User)+int(e.K.Ver%7))%23)
	}
	return v
}

type tcfg struct {
	Block    int
	Bloom    float64
	Cache    int
	Prefetch int
	upTo     int // largest entry-set size enumerated for this configuration (not part of the table)
	fullTo   int // up to this set size every per-entry assignment of value-size classes is enumerated; above it all entries share one class (0 = upTo)
}

func (c tcfg) String() string {
	return fmt.Sprintf("block=%d bloom=%v cache=%d prefetch=%d", c.Block, c.Bloom, c.Cache, c.Prefetch)
}

type tcase struct {
	Cfg     tcfg
	Entries []entry
	Reseek  bool // shared-prefix family: probes are prefixProbes and one long-lived iterator per direction is re-positioned
}

func universe() []ikey {
	var out []ikey
	for _, u := range []string{"a", "aa", "a\x00", "a\xff", "b"} {
		for _, v := range []uint64{1, 2, 1<<64 - 1} {
			out = append(out, ikey{kv.CFDefault, u, v})
		}
	}
	out = append(out, ikey{kv.CFLock, "b", 2}, ikey{kv.CFWrite, "a", 1})
	sortKeys(out)
	return out
}

func probes(u []ikey) []ikey {
	out := append([]ikey{}, u...)
	// versions between / around the stored ones, user keys outside the universe, neighbouring families
	for _, us := range []string{"a", "aa", "b"} {
		out = append(out, ikey{kv.CFDefault, us, 3}, ikey{kv.CFDefault, us, 1<<64 - 2})
	}
	out = append(out, ikey{kv.CFDefault, "", 1}, ikey{kv.CFDefault, "a\x00\x00", 2}, ikey{kv.CFDefault, "ab", 1<<64 - 1}, ikey{kv.CFDefault, "c", 1},
		ikey{kv.CFLock, "a", 1}, ikey{kv.CFLock, "b", 1<<64 - 1}, ikey{kv.CFLock, "b", 1}, ikey{kv.CFWrite, "a", 2}, ikey{kv.CFWrite, "b", 1})
	return out
}

func sortKeys(ks []ikey) {
	for i := 1; i < len(ks); i++ {
		for j := i; j > 0 && cmpKey(ks[j-1], ks[j]) > 0; j-- {
			ks[j-1], ks[j] = ks[j], ks[j-1]
		}
	}
}

// subsets of size k of [0,n) in lexicographic order
func subsets(n, k int, visit func(idx []int)) {
	idx := make([]int, k)
	var rec func(pos, from int)
	rec = func(pos, from int) {
		if pos == k {
			visit(idx)
			return
		}
		for i := from; i <= n-(k-pos); i++ {
			idx[pos] = i
			rec(pos+1, i+1)
		}
	}
	rec(0, 0)
}

// ---------------------------------------------------------------------------------------
// checking one table

type checker struct {
	p      *vr.Partial
	dir    string
	fid    uint64
	probes []ikey
}

func (e entry) asVerif() lsm.VerifEntry {
	return lsm.VerifEntry{Key: e.K.bytes(), Value: e.value(), Meta: e.Meta, ExpiresAt: e.Exp}
}

func same(got lsm.VerifEntry, want entry) bool {
	w := want.asVerif()
	return string(got.Key) == string(w.Key) && string(got.Value) == string(w.Value) && got.Meta == w.Meta && got.ExpiresAt == w.ExpiresAt
}

// diffSeq classifies how got differs from want ("" = identical).
func diffSeq(got []lsm.VerifEntry, want []entry) string {
	for i := 0; i < len(got) && i < len(want); i++ {
		if !same(got[i], want[i]) {
			if string(got[i].Key) == string(want[i].K.bytes()) {
				return "wrong-payload"
			}
			return "wrong-entry"
		}
	}
	switch {
	case len(got) == 0 && len(want) > 0:
		return "invalid"
	case len(got) < len(want):
		return "stops-early"
	case len(got) > len(want):
		return "extra-entries"
	}
	return ""
}

func describe(got []lsm.VerifEntry) string {
	var s []string
	for _, g := range got {
		cf, u, v := kv.SplitInternalKey(g.Key)
		s = append(s, fmt.Sprintf("%s(vlen=%d)", ikey{cf, string(u), v}, len(g.Value)))
	}
	return "[" + strings.Join(s, " ") + "]"
}

func describeWant(want []entry) string {
	var s []string
	for _, w := range want {
		s = append(s, fmt.Sprintf("%s(vlen=%d)", w.K, w.VLen))
	}
	return "[" + strings.Join(s, " ") + "]"
}

type failure struct{ Sig, Desc string }

var statsEvery, _ = strconv.Atoi(os.Getenv("VERIF_C35_STATS"))

// check runs every query against vt and returns every distinct failure (a known defect must not mask others).
func (c *checker) check(vt *lsm.VerifTable, tc tcase, phase string, probes []ikey) (fails []failure) {
	es := tc.Entries
	blocks := vt.NumBlocks()
	bclass := "1"
	if blocks > 1 {
		bclass = ">1"
	}
	c.p.Max("max_blocks", int64(blocks))
	c.p.Mark("outcomes", fmt.Sprintf("blocks=%d", min(blocks, 5)))
	base := vt.BlockBaseKeys()
	blockStart := map[string]bool{}
	for i, b := range base {
		if i > 0 {
			blockStart[string(b)] = true
		}
	}
	seen := map[string]bool{}
	fail := func(kind, class, detail string) {
		sig := fmt.Sprintf("%s phase=%s blocks=%s bloom=%v %s", kind, phase, bclass, tc.Cfg.Bloom > 0, class)
		if !seen[sig] {
			seen[sig] = true
			fails = append(fails, failure{sig, fmt.Sprintf("%s; table %s of %s in %d blocks; %s", tc.Cfg, phase, describeWant(es), blocks, detail)})
		}
	}
	// full iteration
	for _, asc := range []bool{true, false} {
		want := es
		dir := "fwd"
		if !asc {
			want = reversed(es)
			dir = "rev"
		}
		got, err := vt.Scan(asc, nil, tc.Cfg.Prefetch)
		c.p.Add("queries", 1)
		if err != nil {
			fail("iter-"+dir, "error", err.Error())
		} else if d := diffSeq(got, want); d != "" {
			fail("iter-"+dir, "got="+d, "full iteration returned "+describe(got))
		}
	}
	// point lookups of stored keys (bloom false negatives would show here)
	for _, e := range es {
		got, err := vt.Search(e.K.bytes())
		c.p.Add("queries", 1)
		switch {
		case errors.Is(err, utils.ErrKeyNotFound):
			fail("search-miss", "stored-key-not-found", "Search("+e.K.String()+") = not found")
		case err != nil:
			fail("search-error", "error", "Search("+e.K.String()+"): "+err.Error())
		case !same(*got, e):
			fail("search-wrong", "stored-key-wrong-entry", "Search("+e.K.String()+") = "+describe([]lsm.VerifEntry{*got}))
		default:
			c.p.Mark("outcomes", "search-hit")
		}
	}
	for _, pk := range probes {
		pb := pk.bytes()
		lo := 0 // first index with entry >= probe
		for lo < len(es) && cmpKey(es[lo].K, pk) < 0 {
			lo++
		}
		hi := lo // first index with entry > probe
		if hi < len(es) && cmpKey(es[hi].K, pk) == 0 {
			hi++
		}
		stored := hi > lo
		// Search of a key that is not stored: the statement only demands that nothing foreign is served;
		// an older version of the same user key is the documented MVCC answer.
		if !stored {
			got, err := vt.Search(pb)
			c.p.Add("queries", 1)
			switch {
			case errors.Is(err, utils.ErrKeyNotFound):
				c.p.Mark("outcomes", "search-absent-notfound")
			case err != nil:
				fail("search-error", "error", "Search("+pk.String()+"): "+err.Error())
			default:
				ok := false
				for _, e := range es {
					if same(*got, e) && e.K.CF == pk.CF && e.K.User == pk.User && e.K.Ver <= pk.Ver {
						ok = true
					}
				}
				if !ok {
					fail("search-unsound", "absent-key-served", "Search("+pk.String()+") = "+describe([]lsm.VerifEntry{*got}))
				} else {
					c.p.Mark("outcomes", "search-absent-older-version")
				}
			}
		}
		pclass := "absent"
		if stored {
			pclass = "stored"
		}
		// forward seek: first entry >= probe, then everything after it
		{
			want := es[lo:]
			target := "none"
			if len(want) > 0 {
				target = "in-block"
				if blockStart[string(want[0].K.bytes())] {
					target = "block-start"
				}
			}
			got, err := vt.Scan(true, pb, tc.Cfg.Prefetch)
			c.p.Add("queries", 1)
			if err != nil {
				fail("seek-fwd", "error", "Seek("+pk.String()+"): "+err.Error())
			} else if d := diffSeq(got, want); d != "" {
				fail("seek-fwd", fmt.Sprintf("probe=%s target=%s got=%s", pclass, target, d), fmt.Sprintf("forward Seek(%s)+Next returned %s, want %s", pk, describe(got), describeWant(want)))
			} else {
				c.p.Mark("outcomes", "seek-fwd:"+pclass+":"+target)
			}
		}
		// reverse seek: last entry <= probe, then everything before it
		{
			want := reversed(es[:hi])
			target := "none"
			if len(want) > 0 {
				target = "in-block"
				if hi < len(es) && blockStart[string(es[hi].K.bytes())] {
					target = "block-end"
				}
			}
			got, err := vt.Scan(false, pb, tc.Cfg.Prefetch)
			c.p.Add("queries", 1)
			if err != nil {
				fail("seek-rev", "error", "reverse Seek("+pk.String()+"): "+err.Error())
			} else if d := diffSeq(got, want); d != "" {
				fail("seek-rev", fmt.Sprintf("probe=%s target=%s got=%s", pclass, target, d), fmt.Sprintf("reverse Seek(%s)+Next returned %s, want %s", pk, describe(got), describeWant(want)))
			} else {
				c.p.Mark("outcomes", "seek-rev:"+pclass+":"+target)
			}
		}
	}
	return fails
}

// ---------------------------------------------------------------------------------------
// shared-prefix family: long common key prefixes, tiny blocks (2..4 entries per block, >= 3 blocks), a prefix change
// that falls on a block boundary in some tables and inside a block in others, two versions per user key; queried
// through fresh iterators (check) and through ONE long-lived iterator per direction that is re-positioned from every
// prior position (reseek), which is how merge / level iterators use table iterators.

var prefixUsers = []string{"user/000038", "user/000039", "user/000040", "user/000041", "user/000042"}

func prefixUniverse() []ikey {
	var out []ikey
	for _, u := range prefixUsers {
		for _, v := range []uint64{3, 1} {
			out = append(out, ikey{kv.CFDefault, u, v})
		}
	}
	sortKeys(out)
	return out
}

// prefixProbes: every stored version, versions around / between them, user keys before, between and after.
func prefixProbes() []ikey {
	var out []ikey
	users := append([]string{"user/000037", "user/000039!", "user/00004", "user/000043"}, prefixUsers...)
	for _, u := range users {
		for _, v := range []uint64{1<<64 - 1, 4, 3, 2, 1, 0} {
			out = append(out, ikey{kv.CFDefault, u, v})
		}
	}
	sortKeys(out)
	return out
}

// reseek re-positions one long-lived iterator per direction: for every prior position (just created, Rewind, reached
// by Next at every entry and past the end, reached by Seek to every probe) and every probe, Seek(probe) must land on
// the first entry >= probe (last <= probe in reverse) and Next must then return the rest in order.
func (c *checker) reseek(vt *lsm.VerifTable, tc tcase, phase string, probes []ikey) (fails []failure) {
	es := tc.Entries
	base := vt.BlockBaseKeys()
	blockOf := func(k []byte) int { // index of the block holding stored key k
		b := 0
		for i, bk := range base {
			if utils.CompareKeys(bk, k) <= 0 {
				b = i
			}
		}
		return b
	}
	seen := map[string]bool{}
	fail := func(sig, detail string) {
		sig = fmt.Sprintf("%s phase=%s", sig, phase)
		if !seen[sig] {
			seen[sig] = true
			fails = append(fails, failure{sig, fmt.Sprintf("%s; table %s of %s in %d blocks (block base keys %s); %s", tc.Cfg, phase, describeWant(es), len(base), describeKeys(base), detail)})
		}
	}
	type prior struct {
		name string
		do   func(it *lsm.VerifIter) (*lsm.VerifEntry, error)
	}
	for _, asc := range []bool{true, false} {
		dir := "fwd"
		if !asc {
			dir = "rev"
		}
		priors := []prior{{"fresh", nil}, {"rewind", func(it *lsm.VerifIter) (*lsm.VerifEntry, error) { return it.Rewind() }}}
		for j := 0; j <= len(es); j++ {
			j := j
			priors = append(priors, prior{fmt.Sprintf("next*%d", j), func(it *lsm.VerifIter) (cur *lsm.VerifEntry, err error) {
				cur, err = it.Rewind()
				for n := 0; n < j && err == nil && cur != nil; n++ {
					cur, err = it.Next()
				}
				return
			}})
		}
		for _, pp := range probes {
			pb := pp.bytes()
			priors = append(priors, prior{"seek(" + pp.String() + ")", func(it *lsm.VerifIter) (*lsm.VerifEntry, error) { return it.Seek(pb) }})
		}
		it := vt.NewIter(asc, tc.Cfg.Prefetch)
		for _, pr := range priors {
			for _, pk := range probes {
				if pr.do == nil { // "fresh": a new iterator for this probe
					it.Close()
					it = vt.NewIter(asc, tc.Cfg.Prefetch)
				}
				var want []entry
				lo := 0
				for lo < len(es) && cmpKey(es[lo].K, pk) < 0 {
					lo++
				}
				hi := lo
				if hi < len(es) && cmpKey(es[hi].K, pk) == 0 {
					hi++
				}
				if asc {
					want = es[lo:]
				} else {
					want = reversed(es[:hi])
				}
				var at *lsm.VerifEntry
				var err error
				pclass := "none"
				if pr.do != nil {
					if at, err = pr.do(it); err != nil {
						fail(fmt.Sprintf("reseek-%s prior-error", dir), pr.name+": "+err.Error())
						continue
					}
					pclass = "exhausted"
				}
				c.p.Add("queries", 1)
				c.p.Add("reseeks", 1)
				var got []lsm.VerifEntry
				cur, err := it.Seek(pk.bytes())
				for n := 0; err == nil && cur != nil && n <= len(es)+1; n++ {
					got = append(got, *cur)
					cur, err = it.Next()
				}
				// classification: where the iterator was, where the answer lies
				target := "none"
				if len(want) > 0 {
					tb := blockOf(want[0].K.bytes())
					target = "in-block"
					for _, bk := range base {
						if string(bk) == string(want[0].K.bytes()) {
							target = "block-start"
						}
					}
					if at != nil {
						pclass = "same-block"
						if blockOf(at.Key) != tb {
							pclass = "other-block"
						}
					}
				} else if at != nil {
					pclass = "positioned"
				}
				how := strings.SplitN(strings.SplitN(pr.name, "(", 2)[0], "*", 2)[0]
				probeClass := "absent"
				if hi > lo {
					probeClass = "stored"
				}
				switch {
				case err != nil:
					fail(fmt.Sprintf("reseek-%s prior=%s:%s probe=%s target=%s got=error", dir, how, pclass, probeClass, target), fmt.Sprintf("after %s, Seek(%s): %v", pr.name, pk, err))
				case diffSeq(got, want) != "":
					fail(fmt.Sprintf("reseek-%s prior=%s:%s probe=%s target=%s got=%s", dir, how, pclass, probeClass, target, diffSeq(got, want)),
						fmt.Sprintf("one %s iterator: after %s, Seek(%s)+Next returned %s, want %s", dir, pr.name, pk, describe(got), describeWant(want)))
				default:
					c.p.Mark("outcomes", fmt.Sprintf("reseek-%s:%s:%s:%s", dir, how, pclass, target))
				}
			}
		}
		it.Close()
	}
	return fails
}

func describeKeys(ks [][]byte) string {
	var s []string
	for _, k := range ks {
		cf, u, v := kv.SplitInternalKey(k)
		s = append(s, ikey{cf, string(u), v}.String())
	}
	return "[" + strings.Join(s, " ") + "]"
}

func reversed(es []entry) []entry {
	out := make([]entry, len(es))
	for i, e := range es {
		out[len(es)-1-i] = e
	}
	return out
}

// run builds, checks, reopens, checks. Returns every distinct failure.
func (c *checker) run(tc tcase) (fails []failure) {
	c.fid++
	fid := c.fid
	path := utils.FileNameSSTable(c.dir, fid)
	defer os.Remove(path)
	opts := lsm.VerifTableOpts{BlockSize: tc.Cfg.Block, Bloom: tc.Cfg.Bloom, BlockCache: tc.Cfg.Cache}
	var ves []lsm.VerifEntry
	for _, e := range tc.Entries {
		ves = append(ves, e.asVerif())
	}
	vt, err := lsm.VerifBuildTable(c.dir, fid, opts, ves)
	c.p.Add("tables", 1)
	if statsEvery > 0 && c.p.Counters["tables"]%int64(statsEvery) == 0 { // leak watch (VERIF_C35_STATS=N)
		var m runtime.MemStats
		runtime.ReadMemStats(&m)
		fmt.Fprintf(os.Stderr, "c35-stats tables=%d goroutines=%d heap_inuse_mb=%d sys_mb=%d %s\n", c.p.Counters["tables"], runtime.NumGoroutine(), m.HeapInuse>>20, m.Sys>>20, tc.Cfg)
	}
	c.p.Max("max_goroutines", int64(runtime.NumGoroutine()))
	c.p.Max("max_table_handles_left_open", int64(lsm.VerifLeakedHandles))
	if err != nil {
		return []failure{{"build-error " + normErr(err), fmt.Sprintf("%s; building %s: %v", tc.Cfg, describeWant(tc.Entries), err)}}
	}
	if tc.Cfg.Bloom > 0 && !vt.HasBloom() {
		vt.Close()
		return []failure{{"no-bloom-built", fmt.Sprintf("%s: bloom requested but the table has none", tc.Cfg)}}
	}
	if tc.Cfg.Bloom > 0 {
		c.p.Add("tables_with_bloom", 1)
	}
	probes := c.probes
	if tc.Reseek {
		probes = prefixProbes()
	}
	fails = c.check(vt, tc, "built", probes)
	if tc.Reseek {
		fails = append(fails, c.reseek(vt, tc, "built", probes)...)
	}
	vt.Close()
	vt2, err := lsm.VerifOpenTable(c.dir, fid, opts)
	if err != nil {
		return append(fails, failure{"reopen-error " + normErr(err), fmt.Sprintf("%s; reopening %s: %v", tc.Cfg, describeWant(tc.Entries), err)})
	}
	fails = append(fails, c.check(vt2, tc, "reopened", probes)...)
	if tc.Reseek {
		fails = append(fails, c.reseek(vt2, tc, "reopened", probes)...)
	}
	vt2.Close()
	return fails
}

func sigs(fs []failure) []string {
	var out []string
	for _, f := range fs {
		out = append(out, f.Sig)
	}
	return out
}

func normErr(err error) string {
	s := err.Error()
	if len(s) > 80 {
		s = s[:80]
	}
	out := []byte(s)
	for i, b := range out {
		if b >= '0' && b <= '9' {
			out[i] = 'N'
		}
	}
	return string(out)
}

// ---------------------------------------------------------------------------------------

func main() {
	r := vr.Start("C35")
	uni := universe()
	prb := probes(uni)
	if r.ReplayPath != "" {
		var tc tcase
		r.LoadReplay(&tc)
		p := vr.NewPartial()
		c := &checker{p: p, dir: r.Scratch(), probes: prb}
		fails := c.run(tc)
		fmt.Printf("replay: %s %s: %d failures\n", tc.Cfg, describeWant(tc.Entries), len(fails))
		for _, f := range fails {
			fmt.Printf("  sig=%q\n  %s\n", f.Sig, f.Desc)
			r.Violation(f.Sig, f.Desc, tc)
		}
		r.Finish(vr.Coverage{Level: "exploration", Evaluations: 1, Distinct: 2, Rule: "replay", Samples: []any{tc}})
	}
	// 64 B: (nearly) one entry per block; 128 B: two or three entries per block and several blocks; 4 KiB: one block.
	// Block cache and prefetching iterators change which code serves a block.
	var cfgs []tcfg
	if r.Quick() {
		cfgs = []tcfg{{Block: 128, Bloom: 0.01, upTo: 3}, {Block: 64, upTo: 2}, {Block: 64, Bloom: 0.01, upTo: 2}, {Block: 4096, Bloom: 0.01, upTo: 2}, {Block: 128, upTo: 2},
			{Block: 128, Bloom: 0.01, Cache: 8, upTo: 2}, {Block: 64, Prefetch: 2, upTo: 2}}
	} else {
		for _, b := range []int{64, 128, 4096} {
			for _, bl := range []float64{0.01, 0} {
				c := tcfg{Block: b, Bloom: bl, upTo: 4, fullTo: 3}
				if b == 128 && bl > 0 {
					c.fullTo = 4
				}
				cfgs = append(cfgs, c)
			}
		}
		cfgs = append(cfgs, tcfg{Block: 128, Bloom: 0.01, Cache: 8, upTo: 3}, tcfg{Block: 64, Prefetch: 2, upTo: 3}, tcfg{Block: 64, Cache: 8, Prefetch: 2, upTo: 3},
			tcfg{Block: 4096, Bloom: 0.01, Cache: 8, upTo: 3})
	}
	// shared-prefix family (see reseek): block sizes that hold 2 / 3 / 4 of its entries
	pfCfgs := []tcfg{{Block: 96}, {Block: 104, Bloom: 0.01}, {Block: 112}}
	pfMin := r.Pick(8, 6)
	if r.Thorough() {
		pfCfgs = append(pfCfgs, tcfg{Block: 96, Bloom: 0.01, Cache: 8}, tcfg{Block: 104, Prefetch: 2})
	}
	vclasses := func(block int) []int { return []int{0, 1, block + 1} }
	metas := []byte{0, kv.BitDelete, 0x40}
	exps := []uint64{0, 1 << 62}

	scratch := r.Scratch()
	total := r.RunSharded(vr.Workers(), func(sh vr.ShardInfo, p *vr.Partial) {
		dir := filepath.Join(scratch, fmt.Sprintf("t%d", sh.Index))
		if err := os.MkdirAll(dir, 0o755); err != nil {
			vr.Fatalf("%v", err)
		}
		c := &checker{p: p, dir: dir, probes: prb}
		confirmed := map[string]bool{}
		item := 0
		runCfg := func(cfg tcfg, upTo int) bool {
			vc := vclasses(cfg.Block)
			for k := 1; k <= upTo; k++ {
				stop := false
				subsets(len(uni), k, func(idx []int) {
					item++
					if stop || !sh.Owns(item) {
						return
					}
					if r.Expired() {
						p.TimedOut, stop = true, true
						return
					}
					// every assignment of a value-size class to every entry (beyond fullTo: one class for all entries)
					n := 1
					for i := 0; i < k; i++ {
						n *= len(vc)
					}
					uniform := cfg.fullTo > 0 && k > cfg.fullTo
					if uniform {
						n = len(vc)
					}
					for a := 0; a < n; a++ {
						tc := tcase{Cfg: cfg}
						x := a
						if uniform {
							x = 0
							for i := 0; i < k; i++ {
								x = x*len(vc) + a
							}
						}
						for i, ui := range idx {
							// meta / expiry follow position and size class so that every (meta, expiry) occurs with every class
							tc.Entries = append(tc.Entries, entry{K: uni[ui], VLen: vc[x%len(vc)], Meta: metas[(i+x)%len(metas)], Exp: exps[(i+a)%len(exps)]})
							x /= len(vc)
						}
						fails := c.run(tc)
						if len(fails) > 0 {
							// deterministic code: confirm on a fresh table before reporting (once per signature set and shard)
							if key := fmt.Sprint(sigs(fails)); !confirmed[key] {
								confirmed[key] = true
								if again := c.run(tc); fmt.Sprint(sigs(again)) != key {
									vr.Fatalf("non-reproducible failure: %q then %q for %s %s", sigs(fails), sigs(again), cfg, describeWant(tc.Entries))
								}
							}
							rp, _ := json.Marshal(tc)
							for _, f := range fails {
								p.Viol(f.Sig, f.Desc, string(rp))
							}
						}
						if a == 0 && k == upTo && len(p.Samples) < 3 {
							p.Sample(fmt.Sprintf("%s entries=%s", cfg, describeWant(tc.Entries)))
						}
					}
				})
				if stop {
					return false
				}
			}
			p.Add("configs_done", 1)
			return true
		}
		for _, cfg := range cfgs {
			if !runCfg(cfg, cfg.upTo) {
				return
			}
		}
		// shared-prefix family: every subset (of at least pfMin keys) of the 10-key universe x block sizes that hold 2, 3 or 4
		// of these entries x value class {1 byte for all, one block-filling value on every position in turn is left to the
		// classic family}
		puni := prefixUniverse()
		for _, cfg := range pfCfgs {
			for k := pfMin; k <= len(puni); k++ {
				stop := false
				subsets(len(puni), k, func(idx []int) {
					item++
					if stop || !sh.Owns(item) {
						return
					}
					if r.Expired() {
						p.TimedOut, stop = true, true
						return
					}
					tc := tcase{Cfg: cfg, Reseek: true}
					for i, ui := range idx {
						tc.Entries = append(tc.Entries, entry{K: puni[ui], VLen: 1, Meta: metas[i%len(metas)], Exp: exps[i%len(exps)]})
					}
					p.Add("prefix_tables", 1)
					fails := c.run(tc)
					if len(fails) > 0 {
						if key := fmt.Sprint(sigs(fails)); !confirmed[key] {
							confirmed[key] = true
							if again := c.run(tc); fmt.Sprint(sigs(again)) != key {
								vr.Fatalf("non-reproducible failure: %q then %q for %s %s", sigs(fails), sigs(again), cfg, describeWant(tc.Entries))
							}
						}
						rp, _ := json.Marshal(tc)
						for _, f := range fails {
							p.Viol(f.Sig, f.Desc, string(rp))
						}
					}
				})
				if stop {
					return
				}
			}
			p.Add("configs_done", 1)
		}
	})
	var cfgNames []string
	for _, c := range pfCfgs {
		cfgNames = append(cfgNames, fmt.Sprintf("shared-prefix family: %s, every subset of >=%d of the 10 keys {user/000038..user/000042}x{3,1}, %d probes, fresh + long-lived re-positioned iterators", c, pfMin, len(prefixProbes())))
	}
	for _, c := range cfgs {
		full := c.fullTo
		if full == 0 {
			full = c.upTo
		}
		cfgNames = append(cfgNames, fmt.Sprintf("%s sets<=%d (all per-entry value-size assignments up to size %d, one class for all entries above)", c, c.upTo, full))
	}
	outcomes := total.Card("outcomes")
	r.RequireOutcomes(outcomes, 8)
	if !total.TimedOut && (total.Counters["max_blocks"] < 3 || total.Counters["tables_with_bloom"] == 0 || total.Counters["reseeks"] == 0) {
		vr.Fatalf("vacuous: max_blocks=%d tables_with_bloom=%d", total.Counters["max_blocks"], total.Counters["tables_with_bloom"])
	}
	r.Finish(vr.Coverage{
		Level:       "exploration",
		Evaluations: total.Counters["queries"],
		Distinct:    total.Counters["tables"],
		Rule:        "every subset (size 1..N, N per configuration) of the 17-key universe {a,aa,a\\x00,a\\xff,b}x{1,2,max} (+ one lock-cf and one write-cf key), every assignment of a value-size class {0,1,blockSize+1} to every entry, for every table configuration; each table is built by the real builder, then: full forward/reverse iteration, Search of every stored key, and for every probe (universe + between/outside keys) Search soundness, forward Seek+Next = suffix from first >= probe, reverse Seek+Next = reversed prefix up to last <= probe; repeated after close + reopen. Shared-prefix family: every subset (>= N keys) of 10 keys with an 11-byte common-prefix alphabet and two versions each, in blocks of 2/3/4 entries (>= 3 blocks), with the same queries on fresh iterators plus ONE long-lived iterator per direction re-positioned by Seek(probe) from every prior position (new, Rewind, Next to every entry and past the end, Seek to every probe) for every probe (stored versions, versions between/around, user keys before/between/after). distinct = tables built; evaluations = queries issued",
		Samples:     total.SamplesAny(),
		Exhaustive:  !total.TimedOut,
		Outcomes:    outcomes,
		Bounds:      map[string]any{"configs": cfgNames, "universe": len(uni), "probes": len(prb), "value_classes": "0,1,blockSize+1", "metas": metas, "expires": exps},
		Extra: map[string]any{"tables_built": total.Counters["tables"], "tables_with_bloom": total.Counters["tables_with_bloom"], "max_blocks_in_a_table": total.Counters["max_blocks"],
			"max_goroutines_in_a_worker": total.Counters["max_goroutines"], "max_table_handles_left_open_in_a_worker": total.Counters["max_table_handles_left_open"],
			"shared_prefix_tables": total.Counters["prefix_tables"], "reseeks_on_long_lived_iterators": total.Counters["reseeks"]},
		Assumptions: []string{"tables are opened through openTable with a minimal levelManager (options + cache only); level handlers are not involved",
			"Search is called with no version floor (maxVs=0), so versions start at 1",
			"Search of an internal key that is not stored may legitimately return an older version of the same user key; only foreign entries are violations there"},
	})
}
