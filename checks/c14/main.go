//go:build verif

// C14 — corrupted log and table bytes are never served as valid data.
//
// Single-fault enumeration: small artefacts are produced by the REAL writers (a WAL segment with three
// records, a value-log file with three entries, an SST with several blocks, a crash image of a DB whose
// writes are still in the WAL, and a cleanly flushed DB with SST + value log). Then EVERY single bit of
// the artefact file is flipped (DB-level artefacts in the quick tier: bit 0 and bit 7 of every byte), one
// at a time, and the bytes are read back through the REAL readers (wal VerifyDir/Open/Replay, vlog
// VerifyDir/Open/ReadValue/Iterate, openTable + Search + iterators with and without block cache, and a
// reopened DB with Get + iterator). Oracle: whatever a reader hands to its caller must be byte-identical
// to something that was originally written, under its original key / type / position. Errors, absence,
// refused opens, panics and even process deaths count as "error reported" and are only tallied.
package main

import (
	"bytes"
	"encoding/json"
	"fmt"
	"io"
	"log"
	"os"
	"path/filepath"
	"sort"
	"strings"
	"time"

	"github.com/feichai0017/NoKV/kv"
	"github.com/feichai0017/NoKV/lsm"
	"github.com/feichai0017/NoKV/utils"
	"github.com/feichai0017/NoKV/vlog"
	"github.com/feichai0017/NoKV/wal"

	"verif/lib/caserun"
	"verif/lib/dbh"
	"verif/lib/vr"
)

// ---------------------------------------------------------------------------------------
// what is written

type ent struct {
	Key, Value []byte
	Meta       byte
	Exp        uint64
}

func rep(b byte, n int) []byte { return bytes.Repeat([]byte{b}, n) }

func encEntry(e ent) []byte {
	var buf bytes.Buffer
	out, err := kv.EncodeEntry(&buf, &kv.Entry{Key: e.Key, Value: e.Value, Meta: e.Meta, ExpiresAt: e.Exp})
	if err != nil {
		vr.Fatalf("EncodeEntry: %v", err)
	}
	return append([]byte{}, out...)
}

type walRec struct {
	Type    wal.RecordType
	Payload []byte
}

var (
	walEnts = []ent{{Key: kv.InternalKey(kv.CFDefault, []byte("k1"), 5), Value: []byte("value-one")},
		{Key: kv.InternalKey(kv.CFWrite, []byte("k2"), 1<<64-1), Value: rep('w', 20), Meta: kv.BitDelete, Exp: 1 << 40}}
	walRecs = []walRec{{wal.RecordTypeEntry, encEntry(walEnts[0])}, {wal.RecordTypeRaftState, []byte("hard-state-payload")}, {wal.RecordTypeEntry, encEntry(walEnts[1])}}

	vlogEnts = []ent{{Key: kv.InternalKey(kv.CFDefault, []byte("big1"), 7), Value: rep('A', 40)},
		{Key: kv.InternalKey(kv.CFDefault, []byte("b2"), 1<<64-1), Value: []byte("x"), Meta: 0x40, Exp: 1 << 33},
		{Key: kv.InternalKey(kv.CFLock, []byte("big3"), 2), Value: rep('C', 33)}}

	sstEnts = []ent{
		{Key: kv.InternalKey(kv.CFDefault, []byte("a"), 9), Value: []byte("va")},
		{Key: kv.InternalKey(kv.CFDefault, []byte("a"), 3), Value: rep('o', 30), Meta: kv.BitDelete},
		{Key: kv.InternalKey(kv.CFDefault, []byte("ab"), 1<<64-1), Value: []byte{}, Exp: 1 << 50},
		{Key: kv.InternalKey(kv.CFDefault, []byte("b"), 2), Value: rep('b', 70)},
		{Key: kv.InternalKey(kv.CFWrite, []byte("a"), 1), Value: []byte("w")},
	}
	sstOpts = lsm.VerifTableOpts{BlockSize: 128, Bloom: 0.01}
)

// DB-level history (plain API): key -> every value ever written to it
type dbWrite struct {
	Key   string
	Value []byte // nil = delete
}

var dbHistory = []dbWrite{{"a", []byte("small-a1")}, {"b", append(rep('B', 47), '1')}, {"c", []byte("small-c")}, {"c", nil}, {"d", append(rep('D', 39), '2')}, {"a", []byte("small-a2")}}

func dbWritten() map[string][][]byte {
	out := map[string][][]byte{}
	for _, w := range dbHistory {
		if w.Value != nil {
			out[w.Key] = append(out[w.Key], w.Value)
		} else if _, ok := out[w.Key]; !ok {
			out[w.Key] = nil
		}
	}
	return out
}

var dbCfg = dbh.Config{Engine: "skiplist", Buckets: 1, VlogFileSize: 1024, SyncWrites: true}

// ---------------------------------------------------------------------------------------
// golden artefacts

type region struct {
	Name     string
	From, To int
}

type afile struct {
	Rel      string
	From, To int // byte range whose bits are flipped
	Regions  []region
}

type artefact struct {
	Name  string // wal | vlog | sst | db-wal | db-flushed
	Dir   string
	Files []afile
	DB    bool
}

type golden struct {
	Artefacts []artefact
	VlogPtrs  []kv.ValuePtr
}

func (f afile) regionOf(off int) string {
	for _, r := range f.Regions {
		if off >= r.From && off < r.To {
			return r.Name
		}
	}
	return "other"
}

func must(err error) {
	if err != nil {
		vr.Fatalf("building golden artefacts: %v", err)
	}
}

func fileSize(p string) int {
	st, err := os.Stat(p)
	must(err)
	return int(st.Size())
}

func copyDir(src, dst string) error {
	if err := os.MkdirAll(dst, 0o755); err != nil {
		return err
	}
	ents, err := os.ReadDir(src)
	if err != nil {
		return err
	}
	for _, e := range ents {
		s, d := filepath.Join(src, e.Name()), filepath.Join(dst, e.Name())
		if e.IsDir() {
			if err := copyDir(s, d); err != nil {
				return err
			}
			continue
		}
		if e.Name() == "LOCK" {
			continue
		}
		b, err := os.ReadFile(s)
		if err != nil {
			return err
		}
		if err := os.WriteFile(d, b, 0o644); err != nil {
			return err
		}
	}
	return nil
}

// entryRegions names the parts of one encoded entry record (header varints, key, value, crc).
func entryRegions(prefix string, off int, e ent) []region {
	var hdr [kv.MaxEntryHeaderSize]byte
	h := kv.EntryHeader{KeyLen: uint32(len(e.Key)), ValueLen: uint32(len(e.Value)), Meta: e.Meta, ExpiresAt: e.Exp}
	n := h.Encode(hdr[:])
	k := off + n
	v := k + len(e.Key)
	c := v + len(e.Value)
	return []region{{prefix + ".header", off, k}, {prefix + ".key", k, v}, {prefix + ".value", v, c}, {prefix + ".crc", c, c + 4}}
}

func buildGolden(root string) *golden {
	g := &golden{}
	// --- WAL segment written by the real manager
	{
		dir := filepath.Join(root, "wal")
		m, err := wal.Open(wal.Config{Dir: dir, SyncOnWrite: true})
		must(err)
		var recs []wal.Record
		for _, r := range walRecs {
			recs = append(recs, wal.Record{Type: r.Type, Payload: r.Payload})
		}
		infos, err := m.AppendRecords(recs...)
		must(err)
		must(m.Sync())
		must(m.Close())
		segs, _ := filepath.Glob(filepath.Join(dir, "*.wal"))
		if len(segs) != 1 {
			vr.Fatalf("expected one wal segment, got %v", segs)
		}
		f := afile{Rel: filepath.Base(segs[0]), To: fileSize(segs[0])}
		for i, in := range infos {
			o := int(in.Offset)
			l := int(in.Length)
			f.Regions = append(f.Regions, region{fmt.Sprintf("rec%d.length", i), o, o + 4}, region{fmt.Sprintf("rec%d.type", i), o + 4, o + 5},
				region{fmt.Sprintf("rec%d.payload", i), o + 5, o + 4 + l}, region{fmt.Sprintf("rec%d.crc", i), o + 4 + l, o + 8 + l})
		}
		g.Artefacts = append(g.Artefacts, artefact{Name: "wal", Dir: dir, Files: []afile{f}})
	}
	// --- value-log file written by the real manager
	{
		dir := filepath.Join(root, "vlog")
		m, err := vlog.Open(vlog.Config{Dir: dir, MaxSize: 1024})
		must(err)
		var es []*kv.Entry
		for _, e := range vlogEnts {
			es = append(es, &kv.Entry{Key: e.Key, Value: e.Value, Meta: e.Meta, ExpiresAt: e.Exp})
		}
		ptrs, err := m.AppendEntries(es, nil)
		must(err)
		must(m.SyncActive())
		must(m.Close())
		g.VlogPtrs = ptrs
		files, _ := filepath.Glob(filepath.Join(dir, "*.vlog"))
		if len(files) != 1 {
			vr.Fatalf("expected one vlog file, got %v", files)
		}
		f := afile{Rel: filepath.Base(files[0]), To: fileSize(files[0]), Regions: []region{{"fileheader", 0, kv.ValueLogHeaderSize}}}
		for i, p := range ptrs {
			f.Regions = append(f.Regions, entryRegions(fmt.Sprintf("rec%d", i), int(p.Offset), vlogEnts[i])...)
		}
		last := ptrs[len(ptrs)-1]
		f.Regions = append(f.Regions, region{"zero-tail", int(last.Offset + last.Len), f.To})
		g.Artefacts = append(g.Artefacts, artefact{Name: "vlog", Dir: dir, Files: []afile{f}})
	}
	// --- SST written by the real builder
	{
		dir := filepath.Join(root, "sst")
		must(os.MkdirAll(dir, 0o755))
		var ves []lsm.VerifEntry
		for _, e := range sstEnts {
			ves = append(ves, lsm.VerifEntry{Key: e.Key, Value: e.Value, Meta: e.Meta, ExpiresAt: e.Exp})
		}
		vt, err := lsm.VerifBuildTable(dir, 1, sstOpts, ves)
		must(err)
		ext := vt.BlockExtents()
		vt.Close()
		if len(ext) < 2 {
			vr.Fatalf("golden SST has %d blocks, want >= 2", len(ext))
		}
		path := utils.FileNameSSTable(dir, 1)
		raw, err := os.ReadFile(path)
		must(err)
		f := afile{Rel: filepath.Base(path), To: len(raw)}
		end := 0
		for i, x := range ext {
			// block = entries | entry offsets (4 bytes each) | entry count (4) | checksum (8) | checksum length (4)
			o, l := x[0], x[1]
			n := int(kv.BytesToU32(raw[o+l-16 : o+l-12]))
			f.Regions = append(f.Regions,
				region{fmt.Sprintf("block%d.entries", i), o, o + l - 16 - 4*n},
				region{fmt.Sprintf("block%d.offsets", i), o + l - 16 - 4*n, o + l - 16},
				region{fmt.Sprintf("block%d.count", i), o + l - 16, o + l - 12},
				region{fmt.Sprintf("block%d.checksum", i), o + l - 12, o + l - 4},
				region{fmt.Sprintf("block%d.chklen", i), o + l - 4, o + l})
			end = o + l
		}
		// file tail = index (protobuf) | index length (4) | index checksum (8) | checksum length (4)
		z := len(raw)
		f.Regions = append(f.Regions, region{"index", end, z - 16}, region{"index.len", z - 16, z - 12}, region{"index.checksum", z - 12, z - 4}, region{"index.chklen", z - 4, z})
		g.Artefacts = append(g.Artefacts, artefact{Name: "sst", Dir: dir, Files: []afile{f}})
	}
	// --- DB whose writes are only in WAL (+ value log): crash image taken while the DB is open
	{
		live := filepath.Join(root, "db-live")
		h, err := dbh.Open(live, dbCfg)
		must(err)
		for _, w := range dbHistory {
			if w.Value == nil {
				must(h.DB.Del([]byte(w.Key)))
			} else {
				must(h.DB.Set([]byte(w.Key), w.Value))
			}
		}
		img := filepath.Join(root, "db-wal")
		must(copyDir(live, img))
		a := artefact{Name: "db-wal", Dir: img, DB: true}
		a.Files = filesWithExt(img, ".wal", ".vlog")
		g.Artefacts = append(g.Artefacts, a)
		// --- the same DB after rotate + flush + clean close: SST + value log
		_, err = h.Maint("rf")
		must(err)
		must(h.Close())
		flushed := filepath.Join(root, "db-flushed")
		must(copyDir(live, flushed))
		b := artefact{Name: "db-flushed", Dir: flushed, DB: true}
		b.Files = filesWithExt(flushed, ".sst", ".vlog")
		g.Artefacts = append(g.Artefacts, b)
	}
	for _, a := range g.Artefacts {
		if len(a.Files) == 0 {
			vr.Fatalf("artefact %s has no file to corrupt", a.Name)
		}
		sort.Slice(a.Files, func(i, j int) bool { return a.Files[i].Rel < a.Files[j].Rel })
	}
	return g
}

// filesWithExt lists the files below dir with one of the extensions, each with its used length as flip range.
func filesWithExt(dir string, exts ...string) []afile {
	var out []afile
	must(filepath.WalkDir(dir, func(p string, d os.DirEntry, err error) error {
		if err != nil || d.IsDir() {
			return err
		}
		for _, e := range exts {
			if filepath.Ext(p) == e {
				rel, _ := filepath.Rel(dir, p)
				if sz := usedSize(p); sz > 0 {
					out = append(out, afile{Rel: rel, To: sz})
				}
			}
		}
		return nil
	}))
	return out
}

// usedSize = file size without the trailing run of zero bytes (+4: a little of the zero tail is flipped too).
func usedSize(p string) int {
	b, err := os.ReadFile(p)
	must(err)
	n := len(b)
	for n > 0 && b[n-1] == 0 {
		n--
	}
	return min(len(b), n+4)
}

// ---------------------------------------------------------------------------------------
// case space

type cdesc struct {
	Artefact string
	File     string
	Byte     int
	Bit      int
}

type block struct {
	first, n int
	ai, fi   int
	bits     []int
}

type plan struct {
	g      *golden
	blocks []block
	n      int
}

func newPlan(g *golden, thorough bool) *plan {
	pl := &plan{g: g}
	for ai, a := range g.Artefacts {
		bits := []int{0, 1, 2, 3, 4, 5, 6, 7}
		if a.DB && !thorough {
			bits = []int{0, 7}
		}
		for fi, f := range a.Files {
			n := (f.To - f.From) * len(bits)
			pl.blocks = append(pl.blocks, block{first: pl.n, n: n, ai: ai, fi: fi, bits: bits})
			pl.n += n
		}
	}
	return pl
}

func (pl *plan) at(i int) (a *artefact, f *afile, off, bit int) {
	for _, b := range pl.blocks {
		if i < b.first+b.n {
			j := i - b.first
			a = &pl.g.Artefacts[b.ai]
			f = &a.Files[b.fi]
			return a, f, f.From + j/len(b.bits), b.bits[j%len(b.bits)]
		}
	}
	panic("case index")
}

// ---------------------------------------------------------------------------------------
// readers + oracles. Each returns outcome classes and violations (sig, desc).

type result struct {
	outcomes []string
	viols    [][2]string
}

func (r *result) out(s string) { r.outcomes = append(r.outcomes, s) }
func (r *result) viol(format, reader, region, class, desc string) {
	r.viols = append(r.viols, [2]string{fmt.Sprintf("served-corrupt format=%s reader=%s region=%s got=%s", format, reader, region, class), desc})
}

func guard(f func()) (panicMsg string) {
	defer func() {
		if x := recover(); x != nil {
			panicMsg = fmt.Sprint(x)
			if len(panicMsg) > 200 {
				panicMsg = panicMsg[:200]
			}
		}
	}()
	f()
	return ""
}

func checkWAL(dir, region string, res *result) {
	for _, verify := range []bool{false, true} {
		work := dir
		reader := "replay"
		if verify {
			reader = "verify+replay"
			work = dir + "-v"
			if err := copyDir(dir, work); err != nil {
				vr.Fatalf("%v", err)
			}
		}
		var got []walRec
		var stage string
		pm := guard(func() {
			if verify {
				if err := wal.VerifyDir(work, nil); err != nil {
					stage = "verify-error"
					return
				}
			}
			m, err := wal.Open(wal.Config{Dir: work})
			if err != nil {
				stage = "open-error"
				return
			}
			defer m.Close()
			if err := m.Replay(func(info wal.EntryInfo, payload []byte) error {
				got = append(got, walRec{info.Type, append([]byte{}, payload...)})
				return nil
			}); err != nil {
				stage = "replay-error"
			}
		})
		if pm != "" {
			stage = "panic"
		}
		// every delivered record must be an original one, in original order
		j := 0
		for gi, r := range got {
			for j < len(walRecs) && !(walRecs[j].Type == r.Type && bytes.Equal(walRecs[j].Payload, r.Payload)) {
				j++
			}
			if j == len(walRecs) {
				class := "foreign-record"
				for _, o := range walRecs {
					if bytes.Equal(o.Payload, r.Payload) {
						class = "wrong-type"
					} else if o.Type == r.Type && len(o.Payload) != len(r.Payload) && (bytes.HasPrefix(o.Payload, r.Payload) || bytes.HasPrefix(r.Payload, o.Payload)) {
						class = "wrong-length"
					}
				}
				res.viol("wal", reader, region, class, fmt.Sprintf("%s delivered record #%d type=%d payload=%x which is not an original record (in order)", reader, gi, r.Type, r.Payload))
				break
			}
			j++
		}
		if stage == "" {
			stage = fmt.Sprintf("delivered-%d-of-%d", len(got), len(walRecs))
		} else {
			stage = fmt.Sprintf("%s-after-%d", stage, len(got))
		}
		res.out("wal:" + reader + ":" + stage)
	}
}

func sameEnt(e ent, key, value []byte, meta byte, exp uint64) bool {
	return bytes.Equal(e.Key, key) && bytes.Equal(e.Value, value) && e.Meta == meta && e.Exp == exp
}

func checkVlog(dir, region string, ptrs []kv.ValuePtr, res *result) {
	for _, verify := range []bool{false, true} {
		work := dir
		reader := ""
		if verify {
			reader = "verify+"
			work = dir + "-v"
			if err := copyDir(dir, work); err != nil {
				vr.Fatalf("%v", err)
			}
		}
		cfg := vlog.Config{Dir: work, MaxSize: 1024}
		stage := ""
		pm := guard(func() {
			if verify {
				if err := vlog.VerifyDir(cfg); err != nil {
					stage = "verify-error"
					return
				}
			}
			m, err := vlog.Open(cfg)
			if err != nil {
				stage = "open-error"
				return
			}
			defer m.Close()
			okReads := 0
			for i := range ptrs {
				p := ptrs[i]
				var val []byte
				var rerr error
				if pm := guard(func() { val, _, rerr = m.ReadValue(&p, vlog.ReadOptions{Mode: vlog.ReadModeCopy}) }); pm != "" {
					continue
				}
				if rerr != nil {
					continue
				}
				okReads++
				if !bytes.Equal(val, vlogEnts[i].Value) {
					res.viol("vlog", reader+"readvalue", region, "wrong-value", fmt.Sprintf("ReadValue(entry %d) = %x, written %x", i, val, vlogEnts[i].Value))
				}
			}
			res.out(fmt.Sprintf("vlog:%sreadvalue:%d-of-%d", reader, okReads, len(ptrs)))
			n := 0
			var ierr error
			ipm := guard(func() {
				_, ierr = m.Iterate(0, 0, func(e *kv.Entry, vp *kv.ValuePtr) error {
					n++
					ok := false
					for i, o := range vlogEnts {
						if sameEnt(o, e.Key, e.Value, e.Meta, e.ExpiresAt) && vp.Offset == ptrs[i].Offset && vp.Len == ptrs[i].Len && vp.Fid == ptrs[i].Fid {
							ok = true
						}
					}
					if !ok {
						class := "foreign-entry"
						for _, o := range vlogEnts {
							if bytes.Equal(o.Key, e.Key) {
								class = "wrong-payload-or-position"
							}
						}
						res.viol("vlog", reader+"iterate", region, class, fmt.Sprintf("Iterate delivered key=%x value=%x meta=%#x expires=%d at offset %d len %d which was not written there", e.Key, e.Value, e.Meta, e.ExpiresAt, vp.Offset, vp.Len))
					}
					return nil
				})
			})
			switch {
			case ipm != "":
				res.out(fmt.Sprintf("vlog:%siterate:panic-after-%d", reader, n))
			case ierr != nil:
				res.out(fmt.Sprintf("vlog:%siterate:error-after-%d", reader, n))
			default:
				res.out(fmt.Sprintf("vlog:%siterate:delivered-%d-of-%d", reader, n, len(vlogEnts)))
			}
		})
		if pm != "" {
			stage = "panic"
		}
		if stage != "" {
			res.out("vlog:" + reader + stage)
		}
	}
}

func checkSST(dir, region string, res *result) {
	for _, cache := range []int{0, 8} {
		reader := fmt.Sprintf("table(cache=%d)", cache)
		opts := sstOpts
		opts.BlockCache = cache
		vt, err := lsm.VerifOpenTable(dir, 1, opts)
		if err != nil {
			res.out("sst:" + reader + ":open-refused")
			continue
		}
		judge := func(api string, got []lsm.VerifEntry) int {
			bad := 0
			for _, g := range got {
				ok := false
				sameKey := false
				for _, o := range sstEnts {
					if sameEnt(o, g.Key, g.Value, g.Meta, g.ExpiresAt) {
						ok = true
					}
					if bytes.Equal(o.Key, g.Key) {
						sameKey = true
					}
				}
				if !ok {
					bad++
					class := "foreign-entry"
					if sameKey {
						class = "wrong-payload"
					}
					res.viol("sst", reader+"."+api, region, class, fmt.Sprintf("%s served key=%x value=%x meta=%#x expires=%d which was not written", api, g.Key, g.Value, g.Meta, g.ExpiresAt))
				}
			}
			return bad
		}
		hits, scanned := 0, 0
		// two passes: the second one is served from the block cache when there is one
		for pass := 0; pass < 2; pass++ {
			for _, o := range sstEnts {
				g, err := vt.Search(o.Key)
				if err != nil {
					continue
				}
				hits++
				// an older version of the same user key is a legitimate answer of Search (MVCC); what matters here
				// is only that the served entry is one that was written, under its own key
				judge("search", []lsm.VerifEntry{*g})
			}
			for _, asc := range []bool{true, false} {
				got, _ := vt.Scan(asc, nil, 0)
				scanned += len(got)
				judge("iterate", got)
				for _, o := range sstEnts {
					got, _ := vt.Scan(asc, o.Key, 0)
					judge("seek", got)
				}
			}
		}
		vt.Close()
		res.out(fmt.Sprintf("sst:%s:search-hits-%d-of-%d", reader, hits, 2*len(sstEnts)))
		res.out(fmt.Sprintf("sst:%s:iterated-%d-of-%d", reader, scanned, 4*len(sstEnts)))
	}
}

func checkDB(dir, format, region string, res *result) {
	written := dbWritten()
	h, err := dbh.Open(dir, dbCfg)
	if err != nil {
		res.out("db:" + format + ":open-refused")
		return
	}
	defer func() {
		_ = guard(func() { _ = h.Close() })
	}()
	found := 0
	for key, vals := range written {
		var e *kv.Entry
		var gerr error
		if pm := guard(func() { e, gerr = h.DB.Get([]byte(key)) }); pm != "" {
			res.out("db:" + format + ":get-panic")
			continue
		}
		if gerr != nil || e == nil {
			continue
		}
		found++
		ok := false
		for _, v := range vals {
			if bytes.Equal(v, e.Value) {
				ok = true
			}
		}
		if !ok {
			res.viol(format, "db.get", region, "value-never-written", fmt.Sprintf("after reopen Get(%q) = %q; values ever written to that key: %q", key, e.Value, vals))
		}
	}
	res.out(fmt.Sprintf("db:%s:get-found-%d-of-%d", format, found, len(written)))
	yielded := 0
	pm := guard(func() {
		it := h.DB.NewIterator(&utils.Options{IsAsc: true})
		defer it.Close()
		for it.Rewind(); it.Valid(); it.Next() {
			item := it.Item()
			if item == nil || item.Entry() == nil {
				continue
			}
			e := item.Entry()
			if bytes.HasPrefix(e.Key, []byte("!NoKV!")) || e.Meta&kv.BitDelete != 0 {
				continue
			}
			yielded++
			vals, known := written[string(e.Key)]
			ok := false
			for _, v := range vals {
				if bytes.Equal(v, e.Value) {
					ok = true
				}
			}
			switch {
			case !known:
				res.viol(format, "db.iterator", region, "key-never-written", fmt.Sprintf("after reopen the iterator yields key %q (value %q) which was never written", e.Key, e.Value))
			case !ok:
				res.viol(format, "db.iterator", region, "value-never-written", fmt.Sprintf("after reopen the iterator yields %q = %q; values ever written to that key: %q", e.Key, e.Value, vals))
			}
			if yielded > 1000 {
				return
			}
		}
	})
	if pm != "" {
		res.out("db:" + format + ":iterator-panic")
	} else {
		res.out(fmt.Sprintf("db:%s:iterator-yielded-%d", format, yielded))
	}
}

// ---------------------------------------------------------------------------------------

func (pl *plan) runCase(r *vr.Run, i int, p *vr.Partial) {
	a, f, off, bit := pl.at(i)
	work := filepath.Join(caserun.Dir(r), "case")
	_ = os.RemoveAll(work)
	_ = os.RemoveAll(work + "-v")
	if err := copyDir(a.Dir, work); err != nil {
		vr.Fatalf("copy: %v", err)
	}
	path := filepath.Join(work, f.Rel)
	raw, err := os.ReadFile(path)
	if err != nil {
		vr.Fatalf("%v", err)
	}
	raw[off] ^= 1 << bit
	if err := os.WriteFile(path, raw, 0o644); err != nil {
		vr.Fatalf("%v", err)
	}
	region := f.regionOf(off)
	res := &result{}
	format := a.Name
	switch a.Name {
	case "wal":
		checkWAL(work, region, res)
	case "vlog":
		checkVlog(work, region, pl.g.VlogPtrs, res)
	case "sst":
		checkSST(work, region, res)
	default:
		format = a.Name + "/" + strings.TrimLeft(filepath.Ext(f.Rel), ".")
		checkDB(work, format, region, res)
	}
	p.Add("flips", 1)
	p.Add("flips:"+format, 1)
	for _, o := range res.outcomes {
		p.Add("outcome:"+o, 1)
		if p.Mark("outcomes", o) {
			p.Sample(fmt.Sprintf("%s byte %d bit %d (%s) -> %s", format, off, bit, region, o))
		}
	}
	cd, _ := json.Marshal(cdesc{a.Name, f.Rel, off, bit})
	for _, v := range res.viols {
		p.Viol(v[0], fmt.Sprintf("flip of bit %d of byte %d (%s) of %s/%s: %s", bit, off, region, a.Name, f.Rel, v[1]), string(cd))
	}
}

func (pl *plan) crash(i int, kind, detail string, p *vr.Partial) {
	a, f, off, bit := pl.at(i)
	format := a.Name
	if a.DB {
		format = a.Name + "/" + strings.TrimLeft(filepath.Ext(f.Rel), ".")
	}
	p.Add("flips", 1)
	p.Add("flips:"+format, 1)
	o := fmt.Sprintf("%s:process-died-%s", format, kind)
	p.Add("outcome:"+o, 1)
	if p.Mark("outcomes", o) {
		p.Sample(fmt.Sprintf("%s byte %d bit %d (%s) -> process died (%s: %s): counted as error reported", format, off, bit, f.regionOf(off), kind, detail))
	}
}

func main() {
	log.SetOutput(io.Discard)
	r := vr.Start("C14")
	root := os.Getenv("VERIF_C14_GOLDEN")
	var g *golden
	if root == "" {
		root = filepath.Join(r.Scratch(), "golden")
		g = buildGolden(root)
		blob, _ := json.Marshal(g)
		if err := os.WriteFile(filepath.Join(root, "golden.json"), blob, 0o644); err != nil {
			vr.Fatalf("%v", err)
		}
		os.Setenv("VERIF_C14_GOLDEN", root)
	} else {
		blob, err := os.ReadFile(filepath.Join(root, "golden.json"))
		if err != nil {
			vr.Fatalf("%v", err)
		}
		g = &golden{}
		if err := json.Unmarshal(blob, g); err != nil {
			vr.Fatalf("%v", err)
		}
	}
	thorough := r.Thorough()
	var only []int
	if r.ReplayPath != "" {
		var rp struct {
			Case     cdesc
			Thorough bool
		}
		r.LoadReplay(&rp)
		thorough = true // the full bit set, so that any recorded case has an index
		pl := newPlan(g, thorough)
		for i := 0; i < pl.n; i++ {
			a, f, off, bit := pl.at(i)
			if a.Name == rp.Case.Artefact && f.Rel == rp.Case.File && off == rp.Case.Byte && bit == rp.Case.Bit {
				only = []int{i}
			}
		}
		if only == nil {
			vr.Fatalf("replay case not in the plan: %+v", rp.Case)
		}
	}
	pl := newPlan(g, thorough)
	total := r.RunSharded(vr.Workers(), func(sh vr.ShardInfo, p *vr.Partial) {
		caserun.Run(r, sh, p, caserun.Config{Name: "c14", N: pl.n, Only: only, MemLimitKB: 1792 << 10, CaseTimeout: 10 * time.Minute,
			Run: func(i int, p *vr.Partial) { pl.runCase(r, i, p) }, Crash: pl.crash})
	})
	outc := map[string]int64{}
	perFormat := map[string]int64{}
	for k, v := range total.Counters {
		if strings.HasPrefix(k, "outcome:") {
			outc[k[8:]] = v
		}
		if strings.HasPrefix(k, "flips:") {
			perFormat[k[6:]] = v
		}
	}
	var files []string
	for _, b := range pl.blocks {
		a := g.Artefacts[b.ai]
		f := a.Files[b.fi]
		files = append(files, fmt.Sprintf("%s/%s bytes [%d,%d) bits %v = %d flips", a.Name, f.Rel, f.From, f.To, b.bits, b.n))
	}
	outcomes := total.Card("outcomes")
	if r.ReplayPath == "" {
		r.RequireOutcomes(outcomes, 12)
		// the exploration is vacuous unless corruption is sometimes refused, sometimes partially served, sometimes harmless
		for _, need := range []string{"wal:replay:delivered-2-of-3", "sst:table(cache=0):open-refused", "vlog:iterate:delivered-3-of-3"} {
			if outc[need] == 0 {
				vr.Fatalf("vacuous: outcome class %q never occurred", need)
			}
		}
	}
	r.Finish(vr.Coverage{
		Level:       "fault_enumeration",
		Evaluations: total.Counters["flips"],
		Distinct:    total.Counters["flips"],
		Rule:        "one case per (artefact file, byte, bit): the artefact directory is copied, exactly that bit is flipped, and every reader of the format is run on the result; all files are enumerated over their full used length (component artefacts: all 8 bits of every byte; DB-level artefacts: bits 0 and 7 in the quick tier, all 8 in the thorough tier); distinct = number of distinct single-bit faults injected",
		Samples:     total.SamplesAny(),
		Exhaustive:  !total.TimedOut,
		Outcomes:    outcomes,
		Bounds:      map[string]any{"files": files, "wal_records": len(walRecs), "vlog_entries": len(vlogEnts), "sst_entries": len(sstEnts), "db_history": len(dbHistory)},
		Extra:       map[string]any{"flips_per_format": perFormat, "outcome_counts": outc, "child_deaths": total.Counters["child_deaths"]},
		Assumptions: []string{"a panic, a refused open, a process death (fatal error / panic on a background goroutine / out of memory under ulimit -v 1792 MiB) count as 'error reported' and are tallied, not reported",
			"DB level: a read may return ANY value ever written to that key (losing a later record because an earlier one is corrupt is the business of C10/C13)",
			"the WAL crash image is a file copy of an open DB with SyncWrites=true after the last write returned",
			"flips in file regions that no reader interprets (value-log file header, zero tail) are executed and expected to be harmless"},
	})
}
