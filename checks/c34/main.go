//go:build verif

// C34 — concurrent plain writes and reads are linearizable.
// schedmc on a real DB: client threads issue Set/Del/Get while the commit worker is a
// controlled thread; every sync/atomic/channel operation of the root package, the commit
// queue ring and its channels is a scheduling point. Each complete schedule's call/return
// history is checked against a per-key register with porcupine; failed writes are no-ops.
package main

import (
	"errors"
	"fmt"
	"os"
	"sort"
	"strings"

	"github.com/anishathalye/porcupine"
	NoKV "github.com/feichai0017/NoKV"
	"github.com/feichai0017/NoKV/utils"

	"verif/lib/dbh"
	"verif/lib/dbsched"
	"verif/lib/schedmc"
	"verif/lib/vr"
	"verif/shim/vsched"
)

type in struct {
	op, key, val string
}
type out struct {
	val   string
	found bool
	err   bool
}

var model = porcupine.Model{
	Partition: func(h []porcupine.Operation) [][]porcupine.Operation {
		m := map[string][]porcupine.Operation{}
		for _, o := range h {
			k := o.Input.(in).key
			m[k] = append(m[k], o)
		}
		var keys []string
		for k := range m {
			keys = append(keys, k)
		}
		sort.Strings(keys)
		var outp [][]porcupine.Operation
		for _, k := range keys {
			outp = append(outp, m[k])
		}
		return outp
	},
	Init: func() any { return "\x00absent" },
	Step: func(state, input, output any) (bool, any) {
		i, o, s := input.(in), output.(out), state.(string)
		switch i.op {
		case "set":
			if o.err {
				return true, s
			}
			return true, i.val
		case "del":
			if o.err {
				return true, s
			}
			return true, "\x00absent"
		default: // get
			if o.err {
				return true, s // an error answers nothing about the register
			}
			if !o.found {
				return s == "\x00absent", s
			}
			return s == o.val, s
		}
	},
	DescribeOperation: func(input, output any) string {
		i, o := input.(in), output.(out)
		return fmt.Sprintf("%s(%s,%s)->%+v", i.op, i.key, i.val, o)
	},
}

type recorder struct {
	clock    int64
	ops      []porcupine.Operation
	h        *dbh.H
	maintErr string
}

func (r *recorder) do(client int, db *NoKV.DB, i in) {
	if i.op == "maint" { // a maintenance transition is not a register operation: not part of the history
		if _, err := r.h.Maint(i.key); err != nil {
			r.maintErr = fmt.Sprintf("%s: %v", i.key, err)
		}
		return
	}
	r.clock++
	call := r.clock
	var o out
	switch i.op {
	case "set":
		o.err = db.Set([]byte(i.key), []byte(i.val)) != nil
	case "del":
		o.err = db.Del([]byte(i.key)) != nil
	case "get":
		e, err := db.Get([]byte(i.key))
		switch {
		case err == nil:
			o.found, o.val = true, string(e.Value)
		case errors.Is(err, utils.ErrKeyNotFound):
		default:
			o.err = true
		}
	}
	r.clock++
	r.ops = append(r.ops, porcupine.Operation{ClientId: client, Input: i, Call: call, Output: o, Return: r.clock})
}

type scen struct {
	name    string
	cfg     dbh.Config
	prepare []in
	clients [][]in
	toggler bool // extra thread switching the L0 write throttle on and off
}

func scenarios(thorough bool) []scen {
	base := dbh.Config{Engine: "skiplist"}
	tiny := dbh.Config{Engine: "skiplist", MaxBatchCount: 1} // every 1-entry batch is "too big"
	s := []scen{
		{"set|set|get,get", base, []in{{"set", "a", "0"}}, [][]in{{{"set", "a", "1"}}, {{"set", "a", "2"}}, {{"get", "a", ""}, {"get", "a", ""}}}, false},
		{"set,del|get,get", base, nil, [][]in{{{"set", "a", "1"}, {"del", "a", ""}}, {{"get", "a", ""}, {"get", "a", ""}}}, false},
		{"set-a|set-b|get-a,get-b", base, nil, [][]in{{{"set", "a", "1"}}, {{"set", "b", "1"}}, {{"get", "b", ""}, {"get", "a", ""}}}, false},
		{"throttle:set|get", base, []in{{"set", "a", "0"}}, [][]in{{{"set", "a", "1"}}, {{"get", "a", ""}}}, true},
		{"toobig:set|get", tiny, nil, [][]in{{{"set", "a", "1"}}, {{"get", "a", ""}}}, false},
		// a compaction runs concurrently with readers (level-handler locks are scheduling points)
		{"compact:ingest-drain|get,get", base, []in{{"set", "a", "1"}, {"maint", "rf", ""}, {"maint", "l0-base", ""}},
			[][]in{{{"maint", "ingest-drain:6", ""}}, {{"get", "a", ""}, {"get", "a", ""}}}, false},
		{"compact:l0-base|get,get", base, []in{{"set", "a", "1"}, {"maint", "rf", ""}, {"maint", "l0-base", ""}, {"set", "a", "2"}, {"maint", "rf", ""}},
			[][]in{{{"maint", "l0-base", ""}}, {{"get", "a", ""}, {"get", "a", ""}}}, false},
		// two sealed (not yet flushed) memtables hold versions of the key while clients run
		{"sealed2:set|get,get", base, []in{{"set", "a", "1"}, {"maint", "rotate", ""}, {"set", "a", "2"}, {"maint", "rotate", ""}},
			[][]in{{{"set", "a", "3"}}, {{"get", "a", ""}, {"get", "a", ""}}}, false},
	}
	if thorough {
		s = append(s,
			scen{"sealed2-del:set|get,get", base, []in{{"set", "a", "1"}, {"maint", "rotate", ""}, {"del", "a", ""}, {"maint", "rotate", ""}},
				[][]in{{{"set", "b", "1"}}, {{"get", "a", ""}, {"get", "a", ""}}}, false},
			scen{"set,set|set|get", base, nil, [][]in{{{"set", "a", "1"}, {"set", "a", "2"}}, {{"set", "a", "3"}}, {{"get", "a", ""}}}, false},
			scen{"set|del|get,get", base, []in{{"set", "a", "0"}}, [][]in{{{"set", "a", "1"}}, {{"del", "a", ""}}, {{"get", "a", ""}, {"get", "a", ""}}}, false},
			scen{"flush|get,get", base, []in{{"set", "a", "1"}, {"maint", "rotate", ""}},
				[][]in{{{"maint", "flush", ""}}, {{"get", "a", ""}, {"get", "a", ""}}}, false},
		)
	}
	return s
}

func setupFor(sc scen, base string, hist *[]string) func() *schedmc.Exec {
	return func() *schedmc.Exec {
		rec := &recorder{}
		s := &dbsched.Scenario{Name: sc.name, Cfg: sc.cfg}
		s.Prepare = func(db *NoKV.DB) {
			rec.h = s.H
			for _, i := range sc.prepare {
				rec.do(99, db, i)
			}
		}
		for ci, script := range sc.clients {
			s.Clients = append(s.Clients, func(db *NoKV.DB) {
				for _, i := range script {
					rec.do(ci, db, i)
				}
			})
		}
		if sc.toggler {
			s.Clients = append(s.Clients, func(db *NoKV.DB) {
				db.VerifSetThrottle(true)
				vsched.Named("throttled")
				db.VerifSetThrottle(false)
			})
		}
		final := func(res vsched.Result, closeErr error) (string, string) {
			if closeErr != nil {
				return "close-error", closeErr.Error()
			}
			want := 0
			for _, c := range append([][]in{sc.prepare}, sc.clients...) {
				for _, i := range c {
					if i.op != "maint" {
						want++
					}
				}
			}
			if len(rec.ops) != want {
				return "call-missing", fmt.Sprintf("%d of %d calls returned", len(rec.ops), want)
			}
			if !porcupine.CheckOperations(model, rec.ops) {
				return "not-linearizable", "history is not linearizable: " + describe(rec.ops)
			}
			return "", ""
		}
		outcome := func() string { return describe(rec.ops) }
		return dbsched.Exec(s, base, nil, final, outcome)
	}
}

func describe(ops []porcupine.Operation) string {
	var parts []string
	for _, o := range ops {
		parts = append(parts, fmt.Sprintf("c%d[%d,%d]%s", o.ClientId, o.Call, o.Return, model.DescribeOperation(o.Input, o.Output)))
	}
	return strings.Join(parts, " ")
}

func main() {
	r := vr.Start("C34")
	bound := r.Pick(1, 2)
	if b := os.Getenv("VERIF_BOUND"); b != "" {
		fmt.Sscan(b, &bound)
	}
	opts := func(name string) schedmc.Options {
		return schedmc.Options{Name: name, Bound: bound, StartQuiet: true, MaxSteps: 2000000}
	}
	if r.ReplayPath != "" {
		var rp struct {
			Harness string
			Choices []int
		}
		r.LoadReplay(&rp)
		for _, sc := range scenarios(true) {
			if sc.name == rp.Harness {
				sig, desc, tr := schedmc.Replay(setupFor(sc, r.Scratch(), nil), opts(sc.name), rp.Choices)
				fmt.Println("replay trace (tail):", tail(tr, 2000))
				if sig != "" {
					r.Violation(sig, desc, rp)
				}
				r.Finish(vr.Coverage{Level: "model_checking", States: 1, Transitions: 1, Evaluations: 1, Distinct: 2, Samples: []any{tail(tr, 400)}, Rule: "replay"})
			}
		}
		vr.Fatalf("unknown harness %q", rp.Harness)
	}
	scs := scenarios(r.Thorough())
	if only := os.Getenv("VERIF_ONLY_SCEN"); only != "" { // debugging aid
		var keep []scen
		for _, sc := range scs {
			if sc.name == only {
				keep = append(keep, sc)
			}
		}
		scs = keep
	}
	basedir := r.Scratch()
	total := r.RunSharded(vr.Workers(), func(sh vr.ShardInfo, p *vr.Partial) {
		dir := fmt.Sprintf("%s/w%d", basedir, sh.Index)
		var items []schedmc.Item
		for _, sc := range scs {
			items = append(items, schedmc.Item{Name: sc.name, Run: func(expired func() bool, sub *vr.Partial) {
				schedmc.Explore(setupFor(sc, dir, nil), opts(sc.name), sh, sub, expired)
				for k := range sub.Violations {
					v := &sub.Violations[k]
					v.Sig = v.Sig[strings.Index(v.Sig, ": ")+2:]
					if i := strings.Index(v.Sig, "history is"); i > 0 {
						v.Sig = v.Sig[:i]
					}
				}
			}})
		}
		schedmc.ExploreAll(r, p, items)
	})
	r.RequireOutcomes(total.Card("outcomes"), 4)
	var names []string
	for _, sc := range scs {
		names = append(names, sc.name)
	}
	completed := schedmc.Completed(total, names)
	r.Finish(vr.Coverage{
		Level:       "model_checking",
		Evaluations: total.Counters["executions"],
		Distinct:    total.Card("outcomes"),
		Rule:        "every schedule with at most `bound` preemptions of 2-3 client threads (1-2 Set/Del/Get each on keys a,b), an optional throttle-toggling thread and the commit worker on a fresh real DB; scheduling points = every sync/atomic/channel operation of the root package, the commit-queue ring buffer and channels; each complete history is checked for linearizability (porcupine, per-key register, failed writes are no-ops); distinct = distinct call/return histories observed",
		Samples:     total.SamplesAny(),
		States:      total.Counters["steps"],
		Transitions: total.Counters["steps"],
		Validated:   total.Counters["executions"],
		Exhaustive:  len(completed) == len(names),
		Outcomes:    total.Card("outcomes"),
		Bounds:      map[string]any{"preemption_bound": bound, "scenarios": names, "scenarios_enumerated_completely": completed},
		Extra:       map[string]any{"schedules": total.Counters["executions"], "max_decisions_per_schedule": total.Counters["max_decisions"]},
		Assumptions: []string{"LSM / WAL / value-log calls made by the commit worker are atomic steps (their internal locks are not scheduling points)", "DB open and close run with exploration switched off; flush worker gated, compaction and stats paused", "sequentially consistent atomics"},
	})
}

func tail(s string, n int) string {
	if len(s) <= n {
		return s
	}
	return "…" + s[len(s)-n:]
}
