//go:build verif

// C01 — plain KV API is last-writer-wins under any background maintenance.
// Bounded-exhaustive exploration (seqmc) of client-op × maintenance-op sequences on a
// real DB, compared with a map after every step.
package main

import (
	"fmt"
	"os"

	"verif/lib/dbh"
	"verif/lib/kvseq"
	"verif/lib/schedmc"
	"verif/lib/seqmc"
	"verif/lib/vr"
)

type config struct {
	Name      string
	Cfg       dbh.Config
	Ops       []string
	MaxClient int
	MaxMaint  int
	Depth     int
	GC        bool
	Reopen    bool
	Macro     bool
}

func main() {
	r := vr.Start("C01")
	// Alphabet, simplest first. Key "a" in the default CF is the colliding key; "ab"
	// (prefix-related) and the write CF share tables with it.
	core := []string{"set:d:a:s", "del:d:a", "set:d:a:b"}
	wide := []string{"set:d:a:s", "del:d:a", "set:d:a:b", "set:d:a:e", "set:d:ab:s", "set:w:a:s", "set:d:a:x", "set:d:a:f"}
	small := dbh.Config{Engine: "skiplist", Buckets: 1, VlogFileSize: 120}
	var cfgs []config
	if r.Quick() {
		cfgs = []config{
			{"deep-macro", small, core[:2], 3, 7, 10, false, false, true},
			{"wide-art", dbh.Config{Engine: "art", Buckets: 2, VlogFileSize: 120}, wide, 2, 3, 5, false, true, false},
			{"core-skiplist", small, core, 3, 4, 7, true, true, false},
			// two prefix-related keys: tables with disjoint and overlapping key ranges in L0. Last and
			// with a double weight: it gets at least 2/5 of the budget plus whatever the others leave.
			{"twokey-macro", small, []string{"set:d:a:s", "set:d:ab:s", "del:d:ab"}, 4, 4, 8, false, false, true},
		}
	} else {
		cfgs = []config{
			{"core-skiplist", small, core, 4, 6, 10, true, true, false},
			{"core-art-2buckets", dbh.Config{Engine: "art", Buckets: 2, VlogFileSize: 120}, core, 3, 6, 9, true, true, false},
			{"wide-skiplist", small, wide, 3, 4, 7, true, true, false},
			{"wide-art", dbh.Config{Engine: "art", Buckets: 2, VlogFileSize: 120}, wide, 3, 3, 6, false, true, false},
			{"deep-macro", small, core, 5, 10, 15, true, true, true},
			{"twokey-macro", small, []string{"set:d:a:s", "set:d:ab:s", "del:d:ab", "del:d:a"}, 5, 6, 11, false, true, true},
		}
	}
	if only := os.Getenv("VERIF_ONLY_CONFIG"); only != "" { // debugging aid: restrict to one configuration
		var keep []config
		for _, c := range cfgs {
			if c.Name == only {
				keep = append(keep, c)
			}
		}
		cfgs = keep
	}
	if r.ReplayPath != "" {
		var rp struct {
			Config string
			Path   []string
		}
		r.LoadReplay(&rp)
		replay(r, cfgs, rp.Config, rp.Path)
		return
	}
	base := r.Scratch()
	total := r.RunSharded(vr.Workers(), func(sh vr.ShardInfo, p *vr.Partial) {
		// every configuration gets an equal share of what is left of the budget; configurations
		// that hit their share are taken up again with what the others left unused
		var items []schedmc.Item
		for ci, c := range cfgs {
			params := &kvseq.Params{Cfg: c.Cfg, ClientOps: c.Ops, MaxClient: c.MaxClient, MaxMaint: c.MaxMaint,
				WithGC: c.GC, WithReopen: c.Reopen, Macro: c.Macro, Dedup: true, RichSig: true, BaseDir: fmt.Sprintf("%s/s%d-c%d", base, sh.Index, ci)}
			items = append(items, schedmc.Item{Name: c.Name, Run: func(expired func() bool, sub *vr.Partial) {
				seqmc.Explore(seqmc.Config{New: func() seqmc.Instance { return kvseq.New(params) }, MaxDepth: c.Depth,
					Shard: sh, Expired: expired, Iterative: true}, sub)
				// completion bookkeeping (the parent needs "every worker finished its share of it")
				sub.Max(fmt.Sprintf("max_depth_done_%02d_%s", sh.Index, c.Name), sub.Counters["max_completed_depth"])
				delete(sub.Counters, "max_completed_depth")
				// tag violations with the configuration so replays know which one to use
				for i := range sub.Violations {
					sub.Violations[i].Replay = fmt.Sprintf(`{"Config":%q,"Path":%s}`, c.Name, sub.Violations[i].Replay)
					sub.Violations[i].Desc = "config=" + c.Name + " " + sub.Violations[i].Desc
				}
			}})
		}
		schedmc.ExploreAll(r, p, items)
		for k, v := range kvseq.OpCount {
			p.Add("op:"+k, v)
		}
	})
	states := total.Card("states")
	r.RequireOutcomes(states, 10)
	// which configurations were enumerated completely; for the iteratively deepened ones the
	// deepest depth bound that every worker completed
	completion := map[string]string{}
	nw := int(total.Counters["workers"])
	done := map[string]bool{}
	var cfgNames []string
	for _, c := range cfgs {
		cfgNames = append(cfgNames, c.Name)
	}
	for _, n := range schedmc.Completed(total, cfgNames) {
		done[n] = true
	}
	for _, c := range cfgs {
		if done[c.Name] {
			completion[c.Name] = fmt.Sprintf("complete (depth<=%d)", c.Depth)
			continue
		}
		// the deepest depth bound that every worker completed (in either pass)
		d := int64(c.Depth)
		for w := 0; w < nw; w++ {
			if v := total.Counters[fmt.Sprintf("max_depth_done_%02d_%s", w, c.Name)]; v < d {
				d = v
			}
		}
		completion[c.Name] = fmt.Sprintf("budget hit; complete up to depth %d of %d", d, c.Depth)
	}
	r.Finish(vr.Coverage{
		Level:       "model_checking",
		Evaluations: total.Counters["executions"],
		Distinct:    states,
		Rule:        "DFS over all sequences of client ops (Set small/big/empty/expiring, Del on colliding keys) and enabled maintenance transitions (rotate, flush-oldest, L0->base ingest move, L0->L0, ingest drain/merge, value-log GC per file, close+reopen) within per-path budgets; a state is distinct if its (model, LSM shape dump, value-log file set) differs; oracle after every transition",
		Samples:     total.SamplesAny(),
		States:      states,
		Transitions: total.Counters["transitions"],
		Validated:   total.Counters["executions"],
		Exhaustive:  len(done) == len(cfgs),
		Outcomes:    states,
		Bounds:      map[string]any{"configs": names(cfgs), "quick": r.Quick(), "completion": completion},
		Extra: map[string]any{"pruned_by_state_key": total.Counters["pruned"], "noop_cut": total.Counters["cut_noop"],
			"replayed_steps": total.Counters["replayed_steps"], "max_depth": total.Counters["max_depth"], "ops_applied": opCounts(total)},
		Assumptions: []string{"background compaction paused and driven by the harness through the real doCompact; flush worker gated",
			"traces_validated_against_impl counts fresh-instance replays of path prefixes (each replay re-executes the real code and must not diverge)"},
	})
}

func names(cs []config) []string {
	var out []string
	for _, c := range cs {
		out = append(out, fmt.Sprintf("%s(client<=%d,maint<=%d,depth<=%d)", c.Name, c.MaxClient, c.MaxMaint, c.Depth))
	}
	return out
}

func replay(r *vr.Run, cfgs []config, name string, path []string) {
	for _, c := range cfgs {
		if c.Name != name {
			continue
		}
		params := &kvseq.Params{Cfg: c.Cfg, ClientOps: c.Ops, MaxClient: 99, MaxMaint: 99, WithGC: c.GC, WithReopen: c.Reopen, Macro: c.Macro, RichSig: true, BaseDir: r.Scratch()}
		in := kvseq.New(params)
		defer in.Close()
		for i, op := range path {
			if _, err := in.Apply(op); err != nil {
				vr.Fatalf("replay step %d %q: %v", i, op, err)
			}
			if sig, desc := in.Check(); sig != "" {
				fmt.Printf("replay: violation after step %d (%s): %s\n", i, op, desc)
				r.Violation(sig, desc, map[string]any{"Config": name, "Path": path[:i+1]})
				break
			}
		}
		r.Finish(vr.Coverage{Level: "model_checking", Evaluations: 1, Distinct: 2, States: 1, Transitions: int64(len(path)), Rule: "replay", Samples: []any{path}})
	}
	vr.Fatalf("unknown config %q", name)
}

func opCounts(p *vr.Partial) map[string]int64 {
	out := map[string]int64{}
	for k, v := range p.Counters {
		if len(k) > 3 && k[:3] == "op:" {
			out[k[3:]] = v
		}
	}
	return out
}
