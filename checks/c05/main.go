//go:build verif

// C05 — a transaction never sees another transaction partially or late.
// schedmc on a real DB (dbsched): committers write keys a and b in one transaction,
// readers do begin; get a; get b; get a; get b. Every sync/atomic/channel operation of
// txn.go, the oracle's watermarks, the commit queue and the commit worker is a
// scheduling point. The reader's answers must be exactly the newest commit at or below
// its read timestamp, stable for its whole lifetime.
package main

import (
	"errors"
	"fmt"
	"os"
	"strings"

	NoKV "github.com/feichai0017/NoKV"
	"github.com/feichai0017/NoKV/kv"
	"github.com/feichai0017/NoKV/utils"

	"verif/lib/dbh"
	"verif/lib/dbsched"
	"verif/lib/schedmc"
	"verif/lib/vr"
	"verif/shim/vsched"
)

type scen struct {
	name       string
	committers int
	readers    int
	iter       bool // readers also iterate
	window     int  // >0: the oracle's watermarks get a slot window of this size after the first commit
	prep       int  // additional sequential commits before the clients start (moves the timestamps towards the window end)
}

func scenarios(thorough bool) []scen {
	// quick: the two scenarios that subsume the others' behaviours get the whole budget
	s := []scen{
		{"1c+1r-iter", 1, 1, true, 0, 0},
		{"2c+1r", 2, 1, false, 0, 0}, // last: it gets what the small scenario leaves of its share
	}
	if thorough {
		s = append(s,
			scen{"1c+1r", 1, 1, false, 0, 0},
			// 4-slot watermark windows for timestamps 2..5; the committers get 5 and 6: the second
			// commit timestamp crosses the window end (rebuild) while the first may still be pending
			scen{"2c+1r-window4", 2, 1, false, 4, 3},
			scen{"1c+2r", 1, 2, false, 0, 0}, scen{"2c+2r", 2, 2, false, 0, 0},
			scen{"2c+1r-window4-prep2", 2, 1, false, 4, 2}, scen{"1c+2r-window2", 1, 2, false, 2, 1})
	}
	return s
}

type readerObs struct {
	readTs uint64
	reads  []string // a,b,a,b (and iterated a,b)
}

func get(txn *NoKV.Txn, k string) string {
	it, err := txn.Get([]byte(k))
	if errors.Is(err, utils.ErrKeyNotFound) {
		return "-"
	}
	if err != nil {
		return "err:" + err.Error()
	}
	v, err := it.ValueCopy(nil)
	if err != nil {
		return "err:" + err.Error()
	}
	return string(v)
}

func setupFor(sc scen, base string) func() *schedmc.Exec {
	return func() *schedmc.Exec {
		obs := make([]*readerObs, sc.readers)
		commitErr := make([]error, sc.committers)
		var versionOf map[string]uint64 // tag -> commit version (filled after the clients finished)
		var postErr string
		s := &dbsched.Scenario{Name: sc.name, Cfg: dbh.Config{Engine: "skiplist", DetectConflicts: true, QueueCap: 8}}
		s.Prepare = func(db *NoKV.DB) {
			txn := db.NewTransaction(true)
			_ = txn.Set([]byte("a"), []byte("0"))
			_ = txn.Set([]byte("b"), []byte("0"))
			if err := txn.Commit(); err != nil {
				panic(err)
			}
			if sc.window > 0 {
				db.VerifSmallOracleWindows(sc.window)
			}
			if os.Getenv("VERIF_DEBUG") != "" {
				fmt.Println("oracle after window set:", db.VerifOracleState())
			}
			for i := 0; i < sc.prep; i++ {
				txn := db.NewTransaction(true)
				_ = txn.Set([]byte("a"), []byte("0"))
				_ = txn.Set([]byte("b"), []byte("0"))
				if err := txn.Commit(); err != nil {
					panic(err)
				}
			}
		}
		for c := 0; c < sc.committers; c++ {
			tag := fmt.Sprint(c + 1)
			s.Clients = append(s.Clients, func(db *NoKV.DB) {
				txn := db.NewTransaction(true)
				_ = txn.Set([]byte("a"), []byte(tag))
				_ = txn.Set([]byte("b"), []byte(tag))
				commitErr[c] = txn.Commit()
			})
		}
		for r := 0; r < sc.readers; r++ {
			s.Clients = append(s.Clients, func(db *NoKV.DB) {
				txn := db.NewTransaction(false)
				o := &readerObs{readTs: txn.ReadTs()}
				obs[r] = o
				o.reads = append(o.reads, get(txn, "a"), get(txn, "b"), get(txn, "a"), get(txn, "b"))
				if sc.iter {
					it := txn.NewIterator(NoKV.IteratorOptions{})
					for it.Rewind(); it.Valid(); it.Next() {
						item := it.Item()
						v, _ := item.ValueCopy(nil)
						if k := string(item.Entry().Key); k == "a" || k == "b" {
							o.reads = append(o.reads, string(v))
						}
					}
					it.Close()
				}
				txn.Discard()
			})
		}
		s.AfterClients = func(db *NoKV.DB) {
			if os.Getenv("VERIF_DEBUG") != "" {
				fmt.Println("oracle after clients:", db.VerifOracleState())
			}
			versionOf = map[string]uint64{}
			for _, key := range []string{"a", "b"} {
				// the commit version of a transaction is the smallest probe version at which its
				// value becomes visible (GetVersionedEntry answers "newest entry <= v")
				seen := map[string]bool{}
				for v := uint64(1); v <= 16; v++ {
					e, err := db.GetVersionedEntry(kv.CFDefault, []byte(key), v)
					if err != nil {
						continue
					}
					tag := string(e.Value)
					if seen[tag] {
						continue
					}
					seen[tag] = true
					if old, ok := versionOf[tag]; ok && old != v {
						postErr = fmt.Sprintf("transaction %s wrote key a at version %d and key b at version %d", tag, old, v)
					}
					versionOf[tag] = v
				}
			}
		}
		final := func(res vsched.Result, closeErr error) (string, string) {
			if postErr != "" {
				return "commit-not-atomic", postErr
			}
			for c, err := range commitErr {
				if err != nil && !errors.Is(err, utils.ErrConflict) {
					return "commit-error", fmt.Sprintf("committer %d: %v", c+1, err)
				}
			}
			for r, o := range obs {
				if o == nil {
					return "reader-not-finished", fmt.Sprintf("reader %d did not run", r)
				}
				// expected: newest commit with version <= readTs
				want, wantV := "?", uint64(0)
				for tag, v := range versionOf {
					if v <= o.readTs && v >= wantV {
						want, wantV = tag, v
					}
				}
				for i, got := range o.reads {
					if got != want {
						kind := "late-or-partial-read"
						if i >= 2 && got != o.reads[i%2] {
							kind = "unstable-read"
						}
						return kind, fmt.Sprintf("reader %d (readTs=%d) reads=%v, expected every read to be %q (commit versions: %v)", r, o.readTs, o.reads, want, versionOf)
					}
				}
			}
			return "", ""
		}
		outcome := func() string {
			var parts []string
			for _, o := range obs {
				if o != nil {
					parts = append(parts, fmt.Sprintf("ts%d:%s", o.readTs, strings.Join(o.reads, "")))
				}
			}
			return strings.Join(parts, " ") + fmt.Sprintf(" v=%v", versionOf)
		}
		return dbsched.Exec(s, base, nil, final, outcome)
	}
}

func main() {
	r := vr.Start("C05")
	bound := r.Pick(2, 3)
	if b := os.Getenv("VERIF_BOUND"); b != "" {
		fmt.Sscan(b, &bound)
	}
	opts := func(name string) schedmc.Options {
		return schedmc.Options{Name: name, Bound: bound, StartQuiet: true, MaxSteps: 2000000}
	}
	if r.ReplayPath != "" {
		var rp struct {
			Harness string
			Choices []int
		}
		r.LoadReplay(&rp)
		for _, sc := range scenarios(true) {
			if sc.name == rp.Harness {
				sig, desc, tr := schedmc.Replay(setupFor(sc, r.Scratch()), opts(sc.name), rp.Choices)
				if len(tr) > 3000 {
					tr = "…" + tr[len(tr)-3000:]
				}
				fmt.Println("replay trace (tail):", tr)
				if sig != "" {
					r.Violation(sig, desc, rp)
				}
				r.Finish(vr.Coverage{Level: "model_checking", States: 1, Transitions: 1, Evaluations: 1, Distinct: 2, Samples: []any{"replay"}, Rule: "replay"})
			}
		}
		vr.Fatalf("unknown harness %q", rp.Harness)
	}
	scs := scenarios(r.Thorough())
	if only := os.Getenv("VERIF_ONLY_SCEN"); only != "" { // debugging aid
		var keep []scen
		for _, sc := range scs {
			if sc.name == only {
				keep = append(keep, sc)
			}
		}
		scs = keep
	}
	basedir := r.Scratch()
	total := r.RunSharded(vr.Workers(), func(sh vr.ShardInfo, p *vr.Partial) {
		dir := fmt.Sprintf("%s/w%d", basedir, sh.Index)
		p.Add("workers", 1)
		for si, sc := range scs {
			sub := vr.NewPartial()
			// iterative context bounding: all schedules with 0 preemptions, then <=1, ... up to the
			// bound, so that a budget hit still leaves the lower bounds enumerated completely and
			// the counterexample with the fewest preemptions is found first
			expired := r.Share(si, len(scs))
			for b := 0; b <= bound; b++ {
				o := opts(sc.name)
				o.Bound = b
				one := vr.NewPartial()
				schedmc.Explore(setupFor(sc, dir), o, sh, one, expired)
				if !expired() {
					one.Add(fmt.Sprintf("bound_done:%d:%s", b, sc.name), 1)
				}
				sub.Merge(one)
				if len(one.Violations) > 0 || expired() {
					break
				}
			}
			for k := range sub.Violations {
				v := &sub.Violations[k]
				v.Sig = v.Sig[strings.Index(v.Sig, ": ")+2:]
				if i := strings.Index(v.Sig, "\n"); i > 0 {
					v.Sig = v.Sig[:i]
				}
			}
			p.Merge(sub)
		}
	})
	r.RequireOutcomes(total.Card("outcomes"), 3)
	var names []string
	completed := map[string]int{} // scenario -> highest preemption bound enumerated completely by every worker (-1: none)
	for _, sc := range scs {
		names = append(names, sc.name)
		completed[sc.name] = -1
		for b := 0; b <= bound; b++ {
			if total.Counters["workers"] > 0 && total.Counters[fmt.Sprintf("bound_done:%d:%s", b, sc.name)] == total.Counters["workers"] {
				completed[sc.name] = b
			} else {
				break
			}
		}
	}
	r.Finish(vr.Coverage{
		Level:       "model_checking",
		Evaluations: total.Counters["executions"],
		Distinct:    total.Card("outcomes"),
		Rule:        "iterative context bounding (0, 1, ... `bound` preemptions): every schedule with at most `bound` preemptions of 1-2 committing transactions (each writes a and b), 1-2 read-only transactions (get a, get b, get a, get b, optional iteration) and the commit worker on a fresh real DB; after the run the commit versions are read back and every reader must have seen exactly the newest commit at or below its read timestamp on every read; distinct = distinct (readTs, reads, commit versions) outcomes",
		Samples:     total.SamplesAny(),
		States:      total.Counters["steps"],
		Transitions: total.Counters["steps"],
		Validated:   total.Counters["executions"],
		Exhaustive:  !total.TimedOut,
		Outcomes:    total.Card("outcomes"),
		Bounds:      map[string]any{"preemption_bound": bound, "scenarios": names, "preemption_bound_completed_per_scenario": completed},
		Extra:       map[string]any{"schedules": total.Counters["executions"], "max_decisions_per_schedule": total.Counters["max_decisions"]},
		Assumptions: []string{"instrumented files: txn.go and utils/watermarker.go; the commit pipeline below sendToWriteCh (queue, commit worker, LSM, WAL) is one atomic step of the committing thread", "sequentially consistent atomics"},
	})
}
