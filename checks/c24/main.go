//go:build verif

// C24 — splits and merges keep regions a partition with increasing epochs.
//
// Explicit-state search (seqmc) over a real raftstore/store.Store backed by a real
// manifest: every sequence of split / merge / remove / state-change / restart
// operations up to a depth bound, from every starting partition of the key space at
// cut points ⊂ {b,d,f}. Split and merge go through the admin-command application
// path (Store.handleAdminCommand → handleSplitCommand/SplitRegion, handleMergeCommand),
// in "raft" mode through ProposeSplit/ProposeMerge on single-voter leaders.
package main

import (
	"encoding/json"
	"fmt"
	"os"
	"runtime"
	"runtime/debug"
	"sort"
	"strconv"
	"strings"

	"github.com/feichai0017/NoKV/manifest"
	"github.com/feichai0017/NoKV/pb"
	myraft "github.com/feichai0017/NoKV/raft"
	"github.com/feichai0017/NoKV/raftstore/peer"
	"github.com/feichai0017/NoKV/raftstore/store"

	"verif/lib/regionh"
	"verif/lib/seqmc"
	"verif/lib/vr"
)

const storeID = 1

var splitKeys = []string{"a", "b", "c", "d", "e", "f", "g"}

type params struct {
	Name    string
	Cuts    []string // starting partition of [-inf,+inf)
	Raft    bool     // split/merge through ProposeSplit/ProposeMerge instead of the accessor
	BaseDir string
	seq     int
}

type region struct {
	ID         uint64
	Start, End string
	Ver, Conf  uint64
	State      manifest.RegionState
	Peers      string
}

func (g region) iv() regionh.Iv { return regionh.Iv{S: g.Start, E: g.End} }
func (g region) live() bool      { return g.State != manifest.RegionStateTombstone }
func (g region) String() string {
	return fmt.Sprintf("#%d%s@v%d.c%d/%s", g.ID, g.iv(), g.Ver, g.Conf, stateName(g.State))
}
func (g region) anon() string {
	return fmt.Sprintf("%s@v%d.c%d/%s/%s", g.iv(), g.Ver, g.Conf, stateName(g.State), g.Peers)
}

func stateName(s manifest.RegionState) string {
	switch s {
	case manifest.RegionStateNew:
		return "new"
	case manifest.RegionStateRunning:
		return "running"
	case manifest.RegionStateRemoving:
		return "removing"
	case manifest.RegionStateTombstone:
		return "tombstone"
	}
	return fmt.Sprintf("state%d", s)
}

type stateObs struct {
	id    uint64
	state manifest.RegionState
}

type inst struct {
	p           *params
	dir         string
	mgr         *manifest.Manager
	st          *store.Store
	nextID      uint64
	lastRestart bool
	observed    []stateObs
	sig, desc   string // transition-oracle verdict of the last Apply
}

var gcEvery int
var opCount = map[string]int64{}
var accepted = map[string]int64{}

func newInst(p *params) *inst {
	p.seq++
	// every peer allocates a 256 KiB watermark window; with the pacer off and a collection
	// every few instances the freed spans are reused instead of being returned to the OS
	if gcEvery++; gcEvery%48 == 0 {
		runtime.GC()
	}
	in := &inst{p: p, dir: fmt.Sprintf("%s/%d", p.BaseDir, p.seq), nextID: 100}
	if err := os.MkdirAll(in.dir, 0o755); err != nil {
		vr.Fatalf("mkdir: %v", err)
	}
	in.open()
	// starting partition: regions 1..n, epoch (1,1), each with a bootstrapped local peer
	bounds := append(append([]string{""}, p.Cuts...), "")
	for k := 0; k+1 < len(bounds); k++ {
		meta := manifest.RegionMeta{
			ID: uint64(k + 1), StartKey: []byte(bounds[k]), EndKey: []byte(bounds[k+1]),
			Epoch: manifest.RegionEpoch{Version: 1, ConfVersion: 1},
			Peers: []manifest.PeerMeta{{StoreID: storeID, PeerID: regionh.PeerID(uint64(k + 1))}},
			State: manifest.RegionStateRunning,
		}
		in.host(meta)
	}
	in.observed = nil
	return in
}

func (in *inst) open() {
	mgr, err := manifest.Open(in.dir, nil)
	if err != nil {
		vr.Fatalf("manifest open: %v", err)
	}
	in.mgr = mgr
	in.st = store.NewStoreWithConfig(store.Config{
		Manifest: mgr,
		StoreID:  storeID,
		PeerBuilder: func(meta manifest.RegionMeta) (*peer.Config, error) {
			for _, pm := range meta.Peers {
				if pm.StoreID == storeID {
					cfg := regionh.PeerConfig(meta)
					cfg.RaftConfig.ID = pm.PeerID
					return cfg, nil
				}
			}
			return nil, fmt.Errorf("store %d has no replica of region %d", storeID, meta.ID)
		},
		RegionHooks: store.RegionHooks{
			OnRegionUpdate: func(meta manifest.RegionMeta) {
				in.observed = append(in.observed, stateObs{meta.ID, meta.State})
			},
		},
	})
}

// host makes the store host a region. Raft mode starts (and elects) the local peer as the
// server does at start-up. Direct mode only registers the metadata (every peer costs a
// 256 KiB watermark window): there only the children created by splits run peers, which
// still exercises the StopPeer leg of merge/remove.
func (in *inst) host(meta manifest.RegionMeta) {
	if in.p.Raft {
		in.startPeer(meta)
		return
	}
	if err := in.st.UpdateRegion(meta); err != nil {
		vr.Fatalf("UpdateRegion %d: %v", meta.ID, err)
	}
}

func (in *inst) startPeer(meta manifest.RegionMeta) {
	cfg := regionh.PeerConfig(meta)
	var boot []myraft.Peer
	for _, pm := range meta.Peers {
		boot = append(boot, myraft.Peer{ID: pm.PeerID})
	}
	p, err := in.st.StartPeer(cfg, boot)
	if err != nil {
		vr.Fatalf("StartPeer region %d: %v", meta.ID, err)
	}
	if in.p.Raft {
		if err := p.Campaign(); err != nil {
			vr.Fatalf("campaign region %d: %v", meta.ID, err)
		}
	}
}

// firstPeerID returns the smallest id of a peer currently hosted by the store (0 if none).
func (in *inst) firstPeerID() uint64 {
	var id uint64
	for _, h := range in.st.Peers() {
		if id == 0 || h.ID < id {
			id = h.ID
		}
	}
	return id
}

func (in *inst) closeRuntime() {
	for _, h := range in.st.Peers() {
		_ = h.Peer.Close()
	}
	in.st.Close()
	_ = in.mgr.Close()
}

func (in *inst) Close() {
	in.closeRuntime()
	_ = os.RemoveAll(in.dir)
}

func toRegion(m manifest.RegionMeta) region {
	var ps []string
	for _, p := range m.Peers {
		ps = append(ps, fmt.Sprintf("%d:%d", p.StoreID, p.PeerID))
	}
	return region{ID: m.ID, Start: string(m.StartKey), End: string(m.EndKey), Ver: m.Epoch.Version, Conf: m.Epoch.ConfVersion,
		State: m.State, Peers: strings.Join(ps, ",")}
}

// catalog lists the store's region catalog sorted by (start, id).
func (in *inst) catalog() []region {
	metas := in.st.RegionMetas()
	out := make([]region, 0, len(metas))
	for _, m := range metas {
		out = append(out, toRegion(m))
	}
	sort.Slice(out, func(a, b int) bool {
		if out[a].Start != out[b].Start {
			return out[a].Start < out[b].Start
		}
		return out[a].ID < out[b].ID
	})
	return out
}

func catString(c []region) string {
	var s []string
	for _, g := range c {
		s = append(s, g.String())
	}
	return "{" + strings.Join(s, " ") + "}"
}

func liveUnion(c []region, skip int) []regionh.Iv {
	var ivs []regionh.Iv
	for k, g := range c {
		if k == skip || !g.live() {
			continue
		}
		ivs = append(ivs, g.iv())
	}
	return regionh.Union(ivs)
}

func (in *inst) Key() string {
	var sb strings.Builder
	for _, g := range in.catalog() {
		sb.WriteString(g.anon())
		sb.WriteByte(';')
	}
	if in.lastRestart {
		sb.WriteString("R")
	}
	return sb.String()
}

func (in *inst) Enabled() []string {
	c := in.catalog()
	ops := []string{"restart", "rewrite"}
	for k, g := range c {
		if !g.live() {
			continue
		}
		for _, key := range splitKeys {
			if in.p.Raft && !(g.Start < key && (g.End == "" || key < g.End)) {
				continue // raft mode: only well-formed proposals (a failed admin apply wedges the harness peer)
			}
			ops = append(ops, fmt.Sprintf("split:%d:%s", k, key))
		}
	}
	if !in.p.Raft {
		// splits whose child peer cannot be started: the child has no replica on this store
		// (peer builder refuses it), or its peer id collides with a peer the store already hosts.
		// A failed admin apply wedges a raft peer, so these run in direct mode only.
		collide := in.firstPeerID() != 0
		for k, g := range c {
			if !g.live() {
				continue
			}
			for _, key := range splitKeys {
				if !(g.Start < key && (g.End == "" || key < g.End)) {
					continue
				}
				ops = append(ops, fmt.Sprintf("splitfail:%d:%s:noreplica", k, key))
				if collide {
					ops = append(ops, fmt.Sprintf("splitfail:%d:%s:collide", k, key))
				}
			}
		}
	}
	var live []int
	for k, g := range c {
		if g.live() {
			live = append(live, k)
		}
	}
	for j := 0; j+1 < len(live); j++ {
		l, r := c[live[j]], c[live[j+1]]
		if l.End != "" && l.End == r.Start {
			ops = append(ops, fmt.Sprintf("merge:%d:%d", live[j], live[j+1]), fmt.Sprintf("merge:%d:%d", live[j+1], live[j]))
		}
	}
	for k := range c {
		ops = append(ops, fmt.Sprintf("remove:%d", k))
	}
	if !in.p.Raft {
		for k, g := range c {
			if g.State == manifest.RegionStateRunning {
				ops = append(ops, fmt.Sprintf("stop:%d", k))
			}
			for _, s := range []string{"removing", "tombstone", "running"} {
				ops = append(ops, fmt.Sprintf("state:%d:%s", k, s))
			}
		}
	}
	return ops
}

func epochLess(a, b region) bool { // strictly increased from a to b
	return b.Ver >= a.Ver && b.Conf >= a.Conf && (b.Ver > a.Ver || b.Conf > a.Conf)
}

func epochNotBelow(a, b region) bool { return b.Ver >= a.Ver && b.Conf >= a.Conf }

func inf(s string) string {
	if s == "" {
		return "inf"
	}
	return "bounded"
}

func (in *inst) Apply(op string) (bool, error) {
	in.sig, in.desc = "", ""
	in.observed = nil
	pre := in.catalog()
	f := strings.Split(op, ":")
	idx := func(n int) (int, error) {
		k, err := strconv.Atoi(f[n])
		if err != nil || k < 0 || k >= len(pre) {
			return 0, fmt.Errorf("bad region index in %q (catalog %s)", op, catString(pre))
		}
		return k, nil
	}
	class := f[0]
	removed := -1       // index in pre whose range legitimately leaves the live union
	var mustBump uint64 // region id whose epoch must strictly increase if the op was accepted
	var opErr error
	restart := false
	opCount[f[0]]++
	switch f[0] {
	case "restart", "rewrite":
		restart = true
		if f[0] == "rewrite" {
			if err := in.mgr.Rewrite(); err != nil {
				return false, fmt.Errorf("manifest rewrite: %v", err)
			}
		}
		in.closeRuntime()
		in.open()
		loaded := in.catalog()
		if catString(loaded) != catString(pre) || peersOf(loaded) != peersOf(pre) {
			in.sig = "reload-differs op=" + f[0]
			in.desc = fmt.Sprintf("catalog before restart %s, after reopening the manifest %s", catString(pre), catString(loaded))
		}
		if in.p.Raft { // the server restarts a peer for every region in the manifest
			for _, m := range in.st.RegionMetas() {
				in.startPeer(m)
			}
		}
	case "split":
		k, err := idx(1)
		if err != nil {
			return false, err
		}
		g, key := pre[k], f[2]
		rel := "inside"
		switch {
		case key < g.Start:
			rel = "below-start"
		case key == g.Start:
			rel = "at-start"
		case g.End != "" && key == g.End:
			rel = "at-end"
		case g.End != "" && key > g.End:
			rel = "above-end"
		}
		class = fmt.Sprintf("split(key=%s,end=%s)", rel, inf(g.End))
		in.nextID++
		child := manifest.RegionMeta{
			ID: in.nextID, StartKey: []byte(key), EndKey: []byte(g.End),
			Epoch: manifest.RegionEpoch{Version: g.Ver + 1, ConfVersion: g.Conf},
			Peers: []manifest.PeerMeta{{StoreID: storeID, PeerID: regionh.PeerID(in.nextID)}},
		}
		if in.p.Raft {
			opErr = in.st.ProposeSplit(g.ID, child, []byte(key))
			if opErr == nil {
				if cp, ok := in.st.Peer(regionh.PeerID(child.ID)); ok {
					_ = cp.Campaign()
				}
			}
		} else {
			cpb := &pb.RegionMeta{Id: child.ID, EndKey: child.EndKey, EpochVersion: child.Epoch.Version, EpochConfVersion: child.Epoch.ConfVersion,
				Peers: []*pb.RegionPeer{{StoreId: storeID, PeerId: regionh.PeerID(child.ID)}}}
			opErr = in.st.VerifApplyAdmin(&pb.AdminCommand{Type: pb.AdminCommand_SPLIT,
				Split: &pb.SplitCommand{ParentRegionId: g.ID, SplitKey: []byte(key), Child: cpb}})
		}
		mustBump = g.ID
	case "splitfail":
		k, err := idx(1)
		if err != nil {
			return false, err
		}
		g, key := pre[k], f[2]
		class = fmt.Sprintf("splitfail(child=%s,end=%s)", f[3], inf(g.End))
		in.nextID++
		cp := &pb.RegionPeer{StoreId: storeID + 1, PeerId: regionh.PeerID(in.nextID)} // no replica here
		if f[3] == "collide" {
			pid := in.firstPeerID()
			if pid == 0 {
				return false, nil
			}
			cp = &pb.RegionPeer{StoreId: storeID, PeerId: pid}
		}
		cpb := &pb.RegionMeta{Id: in.nextID, EndKey: []byte(g.End), EpochVersion: g.Ver + 1, EpochConfVersion: g.Conf, Peers: []*pb.RegionPeer{cp}}
		opErr = in.st.VerifApplyAdmin(&pb.AdminCommand{Type: pb.AdminCommand_SPLIT,
			Split: &pb.SplitCommand{ParentRegionId: g.ID, SplitKey: []byte(key), Child: cpb}})
		mustBump = g.ID
	case "merge":
		t, err := idx(1)
		if err != nil {
			return false, err
		}
		s, err := idx(2)
		if err != nil {
			return false, err
		}
		side := "right"
		if s < t {
			side = "left"
		}
		class = fmt.Sprintf("merge(src=%s,tgtStart=%s,tgtEnd=%s)", side, inf(pre[t].Start), inf(pre[t].End))
		if in.p.Raft {
			opErr = in.st.ProposeMerge(pre[t].ID, pre[s].ID)
		} else {
			opErr = in.st.VerifApplyAdmin(&pb.AdminCommand{Type: pb.AdminCommand_MERGE,
				Merge: &pb.MergeCommand{TargetRegionId: pre[t].ID, SourceRegionId: pre[s].ID}})
		}
		mustBump = pre[t].ID
	case "remove":
		k, err := idx(1)
		if err != nil {
			return false, err
		}
		in.st.StopPeer(regionh.PeerID(pre[k].ID))
		opErr = in.st.RemoveRegion(pre[k].ID)
		removed = k
	case "stop":
		k, err := idx(1)
		if err != nil {
			return false, err
		}
		in.st.StopPeer(regionh.PeerID(pre[k].ID))
	case "state":
		k, err := idx(1)
		if err != nil {
			return false, err
		}
		var to manifest.RegionState
		switch f[2] {
		case "running":
			to = manifest.RegionStateRunning
		case "removing":
			to = manifest.RegionStateRemoving
		case "tombstone":
			to = manifest.RegionStateTombstone
			removed = k
		default:
			return false, fmt.Errorf("bad state in %q", op)
		}
		class = fmt.Sprintf("state(%s->%s)", stateName(pre[k].State), f[2])
		opErr = in.st.UpdateRegionState(pre[k].ID, to)
	default:
		return false, fmt.Errorf("unknown op %q", op)
	}
	post := in.catalog()
	if opErr == nil {
		accepted[f[0]]++
	}
	changed := catString(pre) != catString(post)
	if restart && !in.lastRestart {
		changed = true
	}
	in.lastRestart = restart
	if in.sig != "" {
		return true, nil
	}
	if !changed {
		return false, nil
	}
	errs := "accepted"
	if opErr != nil {
		errs = "rejected (" + opErr.Error() + ")"
	}
	ctx := fmt.Sprintf("op %s %s: catalog %s -> %s", op, errs, catString(pre), catString(post))

	// (1) the live ranges cover exactly what they covered before (minus a removed/tombstoned region)
	want, got := liveUnion(pre, -1), liveUnion(post, -1)
	if removed >= 0 {
		stillLive := false
		for _, g := range post {
			if g.ID == pre[removed].ID && g.live() {
				stillLive = true
			}
		}
		if !stillLive {
			want = liveUnion(pre, removed)
		}
	}
	if lost, gained := regionh.Diff(want, got); lost || gained {
		kind := "coverage-lost"
		if gained && !lost {
			kind = "coverage-gained"
		} else if gained {
			kind = "coverage-changed"
		}
		in.sig = kind + " op=" + class
		in.desc = fmt.Sprintf("live ranges must cover %s but cover %s; %s", regionh.UnionString(want), regionh.UnionString(got), ctx)
		return true, nil
	}
	// (2) every change strictly increases the affected region's epoch; epochs never go back
	preByID := map[uint64]region{}
	for _, g := range pre {
		preByID[g.ID] = g
	}
	for _, g := range post {
		b, ok := preByID[g.ID]
		if !ok {
			continue
		}
		if !epochNotBelow(b, g) {
			in.sig = "epoch-decreased op=" + class
			in.desc = fmt.Sprintf("region %d epoch went from v%d.c%d to v%d.c%d; %s", g.ID, b.Ver, b.Conf, g.Ver, g.Conf, ctx)
			return true, nil
		}
		rangeChanged := b.Start != g.Start || b.End != g.End || b.Peers != g.Peers
		if (rangeChanged || (opErr == nil && g.ID == mustBump)) && !epochLess(b, g) {
			in.sig = "epoch-not-increased op=" + class
			in.desc = fmt.Sprintf("region %d changed (%s -> %s) without a strictly larger epoch; %s", g.ID, b, g, ctx)
			return true, nil
		}
	}
	// (3) region state only moves forward, in the catalog and in every update the store published
	cur := map[uint64]manifest.RegionState{}
	for _, g := range pre {
		cur[g.ID] = g.State
	}
	if restart {
		in.observed = nil // the reloaded catalog was compared as a whole; peers restart from the loaded state
	}
	for _, o := range in.observed {
		from, ok := cur[o.id]
		if !ok {
			from = manifest.RegionStateNew
		}
		if o.state < from {
			in.sig = fmt.Sprintf("state-backward %s->%s op=%s", stateName(from), stateName(o.state), class)
			in.desc = fmt.Sprintf("region %d was published in state %s after %s; %s", o.id, stateName(o.state), stateName(from), ctx)
			return true, nil
		}
		cur[o.id] = o.state
	}
	for _, g := range post {
		if b, ok := preByID[g.ID]; ok && g.State < b.State {
			in.sig = fmt.Sprintf("state-backward %s->%s op=%s", stateName(b.State), stateName(g.State), class)
			in.desc = fmt.Sprintf("region %d catalog state moved back; %s", g.ID, ctx)
			return true, nil
		}
	}
	return true, nil
}

func peersOf(c []region) string {
	var s []string
	for _, g := range c {
		s = append(s, fmt.Sprintf("%d=%s", g.ID, g.Peers))
	}
	return strings.Join(s, ";")
}

// Check: verdict of the last transition plus the static partition oracle on the catalog.
func (in *inst) Check() (string, string) {
	if in.sig != "" {
		return in.sig, in.desc
	}
	c := in.catalog()
	var live []region
	for _, g := range c {
		if g.live() {
			live = append(live, g)
		}
	}
	for _, g := range live {
		if g.iv().Empty() {
			return "empty-range", fmt.Sprintf("live region %s has an empty key range; catalog %s", g, catString(c))
		}
	}
	for a := 0; a < len(live); a++ {
		for b := a + 1; b < len(live); b++ {
			if regionh.Overlap(live[a].iv(), live[b].iv()) {
				return "overlap", fmt.Sprintf("live regions %s and %s overlap; catalog %s", live[a], live[b], catString(c))
			}
		}
	}
	return "", ""
}

type config struct {
	Name  string
	Cuts  []string
	Raft  bool
	Depth int
}

func configs(r *vr.Run) []config {
	var out []config
	cuts := []string{"b", "d", "f"}
	for mask := 0; mask < 8; mask++ {
		var cs []string
		for b, c := range cuts {
			if mask&(1<<b) != 0 {
				cs = append(cs, c)
			}
		}
		name := "cuts=" + strings.Join(cs, "")
		deep := 4
		if len(cs) <= 1 {
			deep = 5 // few starting regions: smaller branching, one more level is affordable
		}
		out = append(out, config{Name: "direct/" + name, Cuts: cs, Depth: r.Pick(3, deep)})
		if r.Thorough() || mask == 0 || mask == 2 || mask == 7 {
			out = append(out, config{Name: "raft/" + name, Cuts: cs, Raft: true, Depth: r.Pick(3, 4)})
		}
	}
	return out
}

func main() {
	regionh.QuietRaft()
	debug.SetGCPercent(-1)
	r := vr.Start("C24")
	cfgs := configs(r)
	if r.ReplayPath != "" {
		var rp struct {
			Config string
			Path   []string
		}
		r.LoadReplay(&rp)
		replay(r, cfgs, rp.Config, rp.Path)
		return
	}
	base := r.Scratch()
	total := r.RunSharded(vr.Workers(), func(sh vr.ShardInfo, p *vr.Partial) {
		for ci, c := range cfgs {
			prm := &params{Name: c.Name, Cuts: c.Cuts, Raft: c.Raft, BaseDir: fmt.Sprintf("%s/s%d-c%d", base, sh.Index, ci)}
			sub := vr.NewPartial()
			seqmc.Explore(seqmc.Config{New: func() seqmc.Instance { return newInst(prm) }, MaxDepth: c.Depth, Shard: sh, Expired: r.Expired}, sub)
			for i := range sub.Violations {
				v := &sub.Violations[i]
				// confirm on a fresh instance: the identical failure must reproduce 5 times
				var path []string
				_ = json.Unmarshal([]byte(v.Replay), &path)
				for n := 0; n < 5; n++ {
					if s := rerun(prm, path); s != v.Sig {
						vr.Fatalf("violation %q on path %v did not reproduce (got %q)", v.Sig, path, s)
					}
				}
				v.Replay = fmt.Sprintf(`{"Config":%q,"Path":%s}`, c.Name, v.Replay)
				v.Desc = "config=" + c.Name + " " + v.Desc
			}
			p.Add("exec:"+c.Name, sub.Counters["executions"])
			p.Merge(sub)
		}
		for k, v := range opCount {
			p.Add("op:"+k, v)
		}
		for k, v := range accepted {
			p.Add("ok:"+k, v)
		}
	})
	states := total.Card("states")
	r.RequireOutcomes(states, 10)
	var names []string
	for _, c := range cfgs {
		names = append(names, fmt.Sprintf("%s(depth<=%d)", c.Name, c.Depth))
	}
	r.Finish(vr.Coverage{
		Level:       "model_checking",
		Evaluations: total.Counters["executions"],
		Distinct:    states,
		Rule: "DFS with canonical-state pruning over all sequences of split(region,key in a..g) / failing split (child without a replica on this store, child peer id colliding with a hosted peer) / merge(target,source) for adjacent live pairs in both directions / remove / stop / state change / restart / manifest-rewrite+restart on a real Store with a real manifest, " +
			"from every partition of the key space at cuts ⊂ {b,d,f}; a state is distinct if its sorted region table (range, epoch, state, peers; ids abstracted) differs; oracle after every transition",
		Samples:     total.SamplesAny(),
		States:      states,
		Transitions: total.Counters["transitions"],
		Validated:   total.Counters["executions"],
		Exhaustive:  !total.TimedOut,
		Outcomes:    states,
		Bounds:      map[string]any{"configs": names, "split_keys": splitKeys},
		Extra: map[string]any{"pruned_by_state_key": total.Counters["pruned"], "noop_cut": total.Counters["cut_noop"],
			"replayed_steps": total.Counters["replayed_steps"], "max_depth": total.Counters["max_depth"],
			"ops_attempted": prefixed(total, "op:"), "ops_accepted": prefixed(total, "ok:"), "executions_per_config": prefixed(total, "exec:")},
		Assumptions: []string{
			"live region = present in the store catalog with state != tombstone; removing a region (or tombstoning it) takes exactly its range out of the expected union",
			"regions are addressed by position in the sorted catalog and region ids are abstracted from the state key: the store never branches on id values",
			"direct mode applies admin commands through Store.handleAdminCommand (verif accessor), raft mode through ProposeSplit/ProposeMerge on single-voter leaders with in-memory raft storage and only well-formed split keys",
			"traces_validated_against_impl counts fresh-instance replays of path prefixes; every reported violation is re-run 5 times on fresh instances",
		},
	})
}

func prefixed(p *vr.Partial, pre string) map[string]int64 {
	out := map[string]int64{}
	for k, v := range p.Counters {
		if strings.HasPrefix(k, pre) {
			out[k[len(pre):]] = v
		}
	}
	return out
}

// rerun replays path on a fresh instance and returns the first violation signature.
func rerun(prm *params, path []string) string {
	in := newInst(prm)
	defer in.Close()
	if s, _ := in.Check(); s != "" {
		return s
	}
	for _, op := range path {
		if _, err := in.Apply(op); err != nil {
			return "error: " + err.Error()
		}
		if s, _ := in.Check(); s != "" {
			return s
		}
	}
	return ""
}

func replay(r *vr.Run, cfgs []config, name string, path []string) {
	for _, c := range cfgs {
		if c.Name != name {
			continue
		}
		prm := &params{Name: c.Name, Cuts: c.Cuts, Raft: c.Raft, BaseDir: r.Scratch()}
		in := newInst(prm)
		defer in.Close()
		fmt.Printf("replay: start %s\n", catString(in.catalog()))
		for i, op := range path {
			if _, err := in.Apply(op); err != nil {
				vr.Fatalf("replay step %d %q: %v", i, op, err)
			}
			fmt.Printf("replay: %-14s -> %s\n", op, catString(in.catalog()))
			if sig, desc := in.Check(); sig != "" {
				fmt.Printf("replay: violation after step %d (%s): %s\n", i, op, desc)
				r.Violation(sig, desc, map[string]any{"Config": name, "Path": path[:i+1]})
				break
			}
		}
		r.Finish(vr.Coverage{Level: "model_checking", Evaluations: 1, Distinct: 2, States: 1, Transitions: int64(len(path)), Rule: "replay", Samples: []any{path}})
	}
	vr.Fatalf("unknown config %q", name)
}
