//go:build verif

// C03 — committed transactions are serializable and read their snapshot.
// Bounded-exhaustive enumeration of interleavings of begin/get/scan/set/delete/commit/
// discard calls of 2-3 concurrently open Txn objects on a real DB (DetectConflicts=true),
// judged against a commit-log model (lib/txnh).
package main

import (
	"fmt"
	"os"
	"runtime/pprof"
	"time"

	"verif/lib/dbh"
	"verif/lib/txnh"
	"verif/lib/vr"
)

var full = []string{"get:a", "get:b", "set:a", "set:b", "del:a", "del:b", "scan", "scank"}

func families(quick bool) []txnh.Family {
	rep := func(a []string, n int) [][]string {
		out := make([][]string, n)
		for i := range out {
			out[i] = a
		}
		return out
	}
	cd := []string{"commit", "discard"}
	small := []string{"get:a", "set:a", "set:b"}
	wrs := []string{"set:a", "set:b", "del:a"}
	mnt := []string{"get:a", "set:a", "del:a", "scan", "scank"}
	env := [][]string{{"rf"}, {"rf", "compact"}}
	// Trim window: key a is committed once, a lagging reader (slot 1) begins, an unrelated
	// commit moves the clock; then every merge of {the lagging reader ends; T reads a and
	// writes; W overwrites/deletes a; C commits elsewhere}. Reaches "an old writer of a is
	// trimmed from the conflict history while a newer writer of a is still inside T's window".
	S := func(ops ...string) txnh.Script { return txnh.Script(ops) }
	trim := txnh.Family{Name: "ns-trim-window", Reduce: true,
		Prelude: "9.begin 9.set:a 9.commit 1.begin 8.begin 8.set:b 8.commit",
		Fixed: [][]txnh.Script{
			{S("~", "commit")},
			{S("get:a", "set:a", "commit"), S("get:a", "set:b", "commit"), S("scan", "set:b", "commit"), S("scank", "set:b", "commit")},
			{S("set:a", "commit"), S("del:a", "commit")},
			{S("set:b", "commit"), S("set:a", "commit")},
		}}
	if quick {
		return []txnh.Family{
			trim,
			{Name: "ns-2txn", Slots: rep(full, 2), MaxOps: []int{2, 2}, Ends: cd, Reduce: true, Symmetry: true},
			{Name: "ns-3txn", Slots: rep(full, 3), MaxOps: []int{1, 1, 1}, Ends: cd, Reduce: true, Symmetry: true},
			{Name: "ns-2txn-readonly", Slots: [][]string{full, {"get:a", "get:b", "scan", "scank"}}, MaxOps: []int{2, 3}, Ends: cd, ReadOnly: []bool{false, true}, Reduce: true},
			{Name: "ns-3txn-rw", Slots: [][]string{full, wrs, wrs}, MaxOps: []int{2, 1, 1}, SlotEnds: [][]string{cd, {"commit"}, {"commit"}}, Reduce: true},
			{Name: "fresh-3txn", Slots: [][]string{small, {"set:a"}, {"set:b"}}, MaxOps: []int{2, 1, 1}, Ends: []string{"commit"}, Reduce: true, Fresh: true},
			{Name: "fresh-maint", Slots: rep(mnt, 2), MaxOps: []int{1, 1}, Ends: []string{"commit"}, Reduce: true, Fresh: true, Warm: 1, EnvSets: env},
		}
	}
	return []txnh.Family{
		trim,
		{Name: "ns-2txn", Slots: rep(full, 2), MaxOps: []int{3, 3}, Ends: cd, Reduce: true, Symmetry: true},
		{Name: "ns-3txn", Slots: rep(full, 3), MaxOps: []int{2, 1, 1}, Ends: cd, Reduce: true},
		{Name: "ns-2txn-readonly", Slots: [][]string{full, {"get:a", "get:b", "scan", "scank"}}, MaxOps: []int{3, 3}, Ends: cd, ReadOnly: []bool{false, true}, Reduce: true},
		{Name: "ns-3txn-rw", Slots: [][]string{full, wrs, wrs}, MaxOps: []int{2, 2, 1}, SlotEnds: [][]string{cd, {"commit"}, {"commit"}}, Reduce: true},
		{Name: "ns-2txn-nopor", Slots: rep(full, 2), MaxOps: []int{2, 2}, Ends: cd, Reduce: false, Symmetry: true},
		{Name: "fresh-3txn", Slots: rep(small, 3), MaxOps: []int{2, 1, 1}, Ends: []string{"commit"}, Reduce: true, Fresh: true},
		{Name: "fresh-3txn-reused-readts", Slots: [][]string{small, {"set:a"}, {"set:b"}}, MaxOps: []int{2, 1, 1}, Ends: []string{"commit"}, Reduce: true, Fresh: true, Warm: 3},
		{Name: "fresh-maint", Slots: rep(mnt, 2), MaxOps: []int{2, 2}, Ends: []string{"commit"}, Reduce: true, Fresh: true, Warm: 1, EnvSets: env},
		// deepest family last: if the time budget runs out it is the one that is cut short
		{Name: "ns-3txn-deep", Slots: [][]string{full, full, wrs}, MaxOps: []int{2, 2, 1}, SlotEnds: [][]string{cd, {"commit"}, {"commit"}}, Reduce: true},
	}
}

var classes = map[string]bool{"read": true, "conflict": true, "serial": true, "error": true}

func main() {
	r := vr.Start("C03")
	if pf := os.Getenv("VERIF_PPROF"); pf != "" && os.Getenv("VERIF_SHARD") != "" {
		if f, err := os.Create(pf); err == nil {
			err := pprof.StartCPUProfile(f)
			fmt.Fprintln(os.Stderr, "pprof start", err)
			go func() {
				time.Sleep(1500 * time.Millisecond)
				pprof.StopCPUProfile()
				fmt.Fprintln(os.Stderr, "pprof stopped", f.Close())
			}()
		}
	}
	fams := families(r.Quick())
	if r.ReplayPath != "" {
		var rp txnh.Replay
		r.LoadReplay(&rp)
		replay(r, fams, rp)
		return
	}
	base := r.Scratch()
	total := r.RunSharded(vr.Workers(), func(sh vr.ShardInfo, p *vr.Partial) {
		d := &txnh.Driver{R: r, P: p, Base: fmt.Sprintf("%s/w%d", base, sh.Index), Classes: classes}
		for i := range fams {
			if only := os.Getenv("VERIF_FAMILY"); only != "" && only != fams[i].Name {
				continue
			}
			before := p.Counters["histories"]
			t0 := time.Now()
			d.Enumerate(&fams[i], sh, r.Expired)
			p.Add("histories:"+fams[i].Name, p.Counters["histories"]-before)
			p.Max("max_ms:"+fams[i].Name, time.Since(t0).Milliseconds())
		}
	})
	if n := total.Counters["unconfirmed_findings"]; n > 0 {
		vr.Fatalf("%d findings did not reproduce on a fresh database (nondeterminism): %v", n, total.Notes)
	}
	var bounds []string
	per := map[string]int64{}
	ms := map[string]int64{}
	for _, f := range fams {
		bounds = append(bounds, f.Bounds())
		per[f.Name] = total.Counters["histories:"+f.Name]
		ms[f.Name] = total.Counters["max_ms:"+f.Name]
	}
	outcomes := total.Card("outcomes")
	r.RequireOutcomes(outcomes, 50)
	r.Finish(vr.Coverage{
		Level:       "exploration",
		Evaluations: total.Counters["histories"],
		Distinct:    outcomes,
		Rule:        "every interleaving (at API-call granularity, modulo commuting independent calls and slot/key symmetry) of the begin/get/scan/key-only-scan/set/delete/commit|discard scripts of 2-3 concurrently open transactions over keys {a,b}; distinct = distinct observation vectors (every read result and commit verdict)",
		Samples:     total.SamplesAny(),
		Exhaustive:  !total.TimedOut,
		Outcomes:    outcomes,
		Bounds:      map[string]any{"families": bounds, "quick": r.Quick()},
		Extra: map[string]any{"histories_per_family": per, "api_calls": total.Counters["steps"], "script_tuples": total.Counters["script_tuples"], "worker_ms_per_family": ms,
			"commits_ok": total.Counters["commits"], "conflicts": total.Counters["conflicts"], "conflicts_required_by_model": total.Counters["must_conflict_cases"],
			"spurious_conflicts_tolerated": total.Counters["spurious_conflicts"], "reads_checked": total.Counters["reads"],
			"histories_with_commit_inside_another_txn": total.Counters["histories_with_concurrent_commit"]},
		Assumptions: []string{
			"API calls of different transactions are issued from one goroutine (interleaving at call granularity; preemption inside a call is C05's subject)",
			"families named ns-* share one long-lived DB per worker with a fresh key namespace per history (oracle state carries over, timestamps are global and tracked by the model); fresh-* families open a new DB per history, so read timestamp 0 is covered",
			"merges that differ only in the order of adjacent independent calls (buffered writes; reads vs. another transaction's begin/discard) are enumerated once; the thorough tier re-enumerates the 2-transaction family without this reduction",
			"scans are forward Txn.NewIterator scans of the history's namespace (Seek + ValidForPrefix), value-materialising (scan) and IteratorOptions{KeyOnly:true} with ValueCopy (scank)",
			"the engine-internal key !NoKV!discard is not user data and is ignored",
		},
	})
}

func replay(r *vr.Run, fams []txnh.Family, rp txnh.Replay) {
	h, err := txnh.Parse(rp.History)
	if err != nil {
		vr.Fatalf("replay: %v", err)
	}
	var cfg dbh.Config
	for _, f := range fams {
		if f.Name == rp.Family {
			cfg = f.Cfg
		}
	}
	d := &txnh.Driver{R: r, P: vr.NewPartial(), Base: r.Scratch(), Classes: classes}
	x, err := d.RunFresh(cfg, rp.Warm, h)
	if err != nil {
		vr.Fatalf("replay: %v", err)
	}
	fmt.Printf("replay: %s\n  observed: %v\n", rp.History, x.Outcome)
	for _, f := range x.Findings {
		fmt.Printf("  finding [%s] %s: %s\n", f.Class, f.Sig, f.Desc)
		if classes[f.Class] {
			r.Violation(f.Sig, f.Desc, rp)
		}
	}
	r.Finish(vr.Coverage{Level: "exploration", Evaluations: 1, Distinct: 2, Rule: "replay", Samples: []any{rp.History}})
}
