//go:build verif

// C20 — key latches exclude overlapping requests without deadlock.
// schedmc: ALL interleavings (no preemption bound) of 2-3 threads doing
// Acquire(keys); critical section; Release(); Release() on the real latch.Manager,
// for every key list up to a length bound over a 4-symbol key universe.
package main

import (
	"fmt"
	"os"
	"runtime"
	"strings"

	"github.com/feichai0017/NoKV/kv"
	"github.com/feichai0017/NoKV/percolator/latch"

	"verif/lib/schedmc"
	"verif/lib/vr"
	"verif/shim/vsched"
)

// keyUniverse picks concrete keys for the roles: with nStripes==2, a and b share a stripe
// and c is on the other one; otherwise all three are on distinct stripes. kv.MemHash is
// seeded per process, so the keys are searched for in this process.
func keyUniverse(nStripes int) [][]byte {
	stripe := func(k []byte) int { return int(kv.MemHash(k) % uint64(nStripes)) }
	var a, b, c []byte
	for i := 0; i < 100000 && (a == nil || b == nil || c == nil); i++ {
		k := []byte(fmt.Sprintf("k%d", i))
		switch {
		case a == nil:
			a = k
		case b == nil:
			if (nStripes == 2) == (stripe(k) == stripe(a)) {
				b = k
			}
		case c == nil:
			if stripe(k) != stripe(a) && stripe(k) != stripe(b) || (nStripes == 2 && stripe(k) != stripe(a)) {
				c = k
			}
		}
	}
	return [][]byte{{}, a, b, c} // index 0 = empty key (ignored by Acquire)
}

func lists(maxLen int) [][]int {
	out := [][]int{{}}
	frontier := [][]int{{}}
	for l := 1; l <= maxLen; l++ {
		var next [][]int
		for _, p := range frontier {
			for s := 0; s < 4; s++ {
				n := append(append([]int{}, p...), s)
				next = append(next, n)
				out = append(out, n)
			}
		}
		frontier = next
	}
	return out
}

func name(l []int) string {
	sym := []string{"_", "a", "b", "c"}
	var sb strings.Builder
	for _, s := range l {
		sb.WriteString(sym[s])
	}
	if sb.Len() == 0 {
		return "-"
	}
	return sb.String()
}

func shares(x, y []int) bool {
	for _, p := range x {
		for _, q := range y {
			if p == q && p != 0 {
				return true
			}
		}
	}
	return false
}

func setupFor(nStripes int, uni [][]byte, keyLists [][]int, stale bool) func() *schedmc.Exec {
	return func() *schedmc.Exec {
		m := latch.NewManager(nStripes)
		inside := make([]bool, len(keyLists))
		finished := make([]bool, len(keyLists))
		var order []int
		var bodies []func()
		for i, kl := range keyLists {
			keys := make([][]byte, len(kl))
			for j, s := range kl {
				keys[j] = uni[s]
			}
			bodies = append(bodies, func() {
				g := m.Acquire(keys)
				inside[i] = true
				if !schedmc.FreeRunning {
					order = append(order, i)
				}
				vsched.Named("critical-section")
				inside[i] = false
				g.Release()
				// the redundant Release may come arbitrarily later (explicit + deferred release):
				// other requests may acquire and sit in their critical sections in between.
				if stale && (i == 0 || len(keyLists) == 2) {
					// with three threads only thread 0 releases late (the roles of the other two are
					// covered by permuting the key lists)
					vsched.Named("between-releases")
				}
				g.Release()
				finished[i] = true
			})
		}
		return &schedmc.Exec{
			Threads: bodies,
			Monitor: func() (string, string) {
				for i := range keyLists {
					for j := i + 1; j < len(keyLists); j++ {
						if inside[i] && inside[j] && shares(keyLists[i], keyLists[j]) {
							return "overlap-in-critical-section", fmt.Sprintf("threads %d(%s) and %d(%s) hold their latches at the same time", i, name(keyLists[i]), j, name(keyLists[j]))
						}
					}
				}
				return "", ""
			},
			Final: func(res vsched.Result) (string, string) {
				for i, f := range finished {
					if !f {
						return "thread-not-finished", fmt.Sprintf("thread %d did not finish", i)
					}
				}
				return "", ""
			},
			Outcome: func() string { return fmt.Sprint(order) },
		}
	}
}

type job struct {
	stripes int
	lists   [][]int
	stale   bool // scheduling point between the first and the redundant Release
}

func (j job) name() string {
	var parts []string
	for _, l := range j.lists {
		parts = append(parts, name(l))
	}
	if j.stale {
		return fmt.Sprintf("s%d-stale:%s", j.stripes, strings.Join(parts, "|"))
	}
	return fmt.Sprintf("s%d:%s", j.stripes, strings.Join(parts, "|"))
}

func jobs(thorough bool) []job {
	var out []job
	l3 := lists(3)
	l2 := lists(2)
	for _, st := range []int{2, 8} {
		two := l2
		if thorough || st == 2 {
			two = l3
		}
		for _, x := range two {
			for _, y := range two {
				out = append(out, job{st, [][]int{x, y}, false})
			}
		}
	}
	three := lists(1)
	if thorough {
		three = l2
	}
	for _, x := range three {
		for _, y := range three {
			for _, z := range three {
				out = append(out, job{2, [][]int{x, y, z}, false})
			}
		}
	}
	// late redundant Release: 2 threads (lists up to 2, 3 thorough), 3 threads (lists up to 1, 2 thorough)
	two := l2
	if thorough {
		two = l3
	}
	for _, x := range two {
		for _, y := range two {
			out = append(out, job{2, [][]int{x, y}, true})
		}
	}
	for _, x := range three {
		for _, y := range three {
			for _, z := range three {
				out = append(out, job{2, [][]int{x, y, z}, true})
			}
		}
	}
	return out
}

func main() {
	if os.Getenv("VERIF_PROP") == "C20-race" {
		// supporting pass: the same thread bodies, free-running under the race detector
		r := vr.Start("C20-race")
		unis := map[int][][]byte{2: keyUniverse(2), 8: keyUniverse(8)}
		var scs []schedmc.Scenario
		for _, j := range jobs(false) {
			if len(j.lists) == 3 || j.stale {
				scs = append(scs, schedmc.Scenario{Name: j.name(), Setup: setupFor(j.stripes, unis[j.stripes], j.lists, j.stale)})
			}
		}
		schedmc.FreeRunMain(r, scs, r.Pick(50, 500))
	}
	r := vr.Start("C20")
	if r.ReplayPath != "" {
		var rp struct {
			Harness string
			Choices []int
		}
		r.LoadReplay(&rp)
		for _, j := range jobs(true) {
			if j.name() == rp.Harness {
				uni := keyUniverse(j.stripes)
				sig, desc, tr := schedmc.Replay(setupFor(j.stripes, uni, j.lists, j.stale), schedmc.Options{Name: j.name(), Exclusive: true, Bound: -1, SoftNondeterminism: true}, rp.Choices)
				fmt.Println("replay trace:", tr)
				if sig != "" {
					r.Violation(sig, desc, rp)
				}
				r.Finish(vr.Coverage{Level: "model_checking", States: 1, Transitions: 1, Evaluations: 1, Distinct: 2, Samples: []any{tr}, Rule: "replay"})
			}
		}
		vr.Fatalf("unknown harness %q", rp.Harness)
	}
	js := jobs(r.Thorough())
	if only := os.Getenv("VERIF_ONLY_FAMILY"); only != "" { // debugging aid: "stale" or "plain"
		var keep []job
		for _, j := range js {
			if j.stale == (only == "stale") {
				keep = append(keep, j)
			}
		}
		js = keep
	}
	total := r.RunSharded(vr.Workers(), func(sh vr.ShardInfo, p *vr.Partial) {
		runtime.GOMAXPROCS(1)
		unis := map[int][][]byte{2: keyUniverse(2), 8: keyUniverse(8)}
		one := vr.ShardInfo{Index: 0, Count: 1}
		for i, j := range js {
			if !sh.Owns(i) {
				continue
			}
			if r.Expired() {
				p.TimedOut = true
				break
			}
			sub := vr.NewPartial()
			schedmc.Explore(setupFor(j.stripes, unis[j.stripes], j.lists, j.stale), schedmc.Options{Name: j.name(), Bound: -1, Exclusive: true, SoftNondeterminism: true}, one, sub, r.Expired)
			// canonical signatures: drop the concrete key-list job from the signature, keep it in the replay
			for k := range sub.Violations {
				v := &sub.Violations[k]
				v.Sig = v.Sig[strings.Index(v.Sig, ": ")+2:]
			}
			delete(sub.Counters, "exec:"+j.name())
			p.Add("jobs", 1)
			if sub.Card("outcomes:"+j.name()) > 1 {
				p.Add("jobs_with_contention", 1)
			}
			delete(sub.Sets, "outcomes:"+j.name())
			p.Merge(sub)
		}
	})
	if n := total.Counters["unreproducible_failures"] + total.Counters["diverged_replays"]; n > 0 && len(total.Violations) == 0 {
		// executions failed or diverged in a way that could not be reproduced and no reproducible
		// violation explains it: neither a pass nor a reportable violation
		vr.Fatalf("%d executions failed or diverged unreproducibly (state carried between executions?) and no reproducible violation was found", n)
	}
	r.RequireOutcomes(total.Counters["jobs_with_contention"], 10)
	r.Finish(vr.Coverage{
		Level:       "model_checking",
		Evaluations: total.Counters["executions"],
		Distinct:    total.Counters["jobs_with_contention"],
		Rule:        "for every tuple of key lists (2 threads: lists up to length 3; 3 threads: lists up to length 1 quick / 2 thorough; symbols: empty key, a, b, c with a,b forced onto one stripe when the manager has 2 stripes) ALL interleavings of Acquire / critical section / Release / redundant Release on the real latch manager are executed (no preemption bound); the '-stale' family (2 stripes) repeats the tuples with a scheduling point between the first and the redundant Release, so other requests acquire and enter their critical sections in between; non-trivial = key-list tuples whose threads were observed entering the critical section in more than one order",
		Samples:     total.SamplesAny(),
		States:      total.Counters["steps"],
		Transitions: total.Counters["steps"],
		Validated:   total.Counters["executions"],
		Exhaustive:  !total.TimedOut,
		Outcomes:    total.Card("outcomes"),
		Bounds:      map[string]any{"key_list_tuples": total.Counters["jobs"], "stripes": []int{2, 8}, "preemption_bound": "unbounded"},
		Extra:       map[string]any{"schedules": total.Counters["executions"], "max_decisions_per_schedule": total.Counters["max_decisions"]},
		Assumptions: []string{"scheduling points: every mutex operation of percolator/latch/latch.go plus one named point inside the critical section and one between the first and the redundant Release", "kv.MemHash is seeded per process: concrete keys for the stripe roles are searched for in each worker process"},
	})
}
