//go:build verif

// C33 — at most one database holds a working directory at a time.
// schedmc (coarse): contenders run the real utils.AcquireDirLock / (*DirLock).Release
// against the real OS filesystem with real flock(2); every filesystem call they make
// (open, descriptor fetch right before flock, truncate, write, sync, close, remove)
// is a scheduling point. ALL interleavings are explored (no preemption bound).
package main

import (
	"fmt"
	"os"
	"path/filepath"
	"runtime"
	"strings"

	"github.com/feichai0017/NoKV/utils"
	"github.com/feichai0017/NoKV/vfs"

	"verif/lib/schedmc"
	"verif/lib/vr"
	"verif/shim/vsched"
)

type pfs struct{ vfs.FS }

func (f pfs) OpenFileHandle(name string, flag int, perm os.FileMode) (vfs.File, error) {
	vsched.Named("open")
	h, err := f.FS.OpenFileHandle(name, flag, perm)
	if err != nil {
		return nil, err
	}
	return &pfile{File: h}, nil
}
func (f pfs) Remove(name string) error { vsched.Named("remove"); return f.FS.Remove(name) }
func (f pfs) Stat(name string) (os.FileInfo, error) {
	vsched.Named("stat-path")
	return f.FS.Stat(name)
}

type pfile struct{ vfs.File }

// Fd is fetched immediately before each flock(2) call: a scheduling point here separates
// open from lock and makes "about to lock/unlock" a schedulable instant.
func (p *pfile) Fd() uintptr {
	vsched.Named("flock")
	fd, _ := vfs.FileFD(p.File)
	return fd
}
func (p *pfile) Truncate(n int64) error { vsched.Named("truncate"); return p.File.Truncate(n) }
func (p *pfile) Write(b []byte) (int, error) {
	vsched.Named("write")
	return p.File.Write(b)
}
func (p *pfile) Sync() error  { return p.File.Sync() }
func (p *pfile) Close() error { vsched.Named("close"); return p.File.Close() }
func (p *pfile) Stat() (os.FileInfo, error) {
	vsched.Named("stat-file")
	return p.File.Stat()
}

type scenario struct {
	name   string
	rounds []int // per contender: number of acquire/release rounds
}

func scenarios(thorough bool) []scenario {
	s := []scenario{
		{"2x1", []int{1, 1}},
		{"2+1", []int{2, 1}},
		{"3x1", []int{1, 1, 1}},
	}
	if thorough {
		s = append(s, scenario{"2x2", []int{2, 2}}, scenario{"2+1+1", []int{2, 1, 1}})
	}
	return s
}

var seq int

func setupFor(sc scenario, base string) func() *schedmc.Exec {
	return func() *schedmc.Exec {
		seq++
		dir := filepath.Join(base, fmt.Sprintf("d%d", seq%8))
		_ = os.RemoveAll(dir)
		fs := pfs{vfs.OSFS{}}
		holding := make([]bool, len(sc.rounds))
		acquired := 0
		var log []string
		note := func(f string, a ...any) {
			if !schedmc.FreeRunning { // free-running -race pass: no oracle bookkeeping
				log = append(log, fmt.Sprintf(f, a...))
			}
		}
		var bodies []func()
		for i, n := range sc.rounds {
			bodies = append(bodies, func() {
				for r := 0; r < n; r++ {
					l, err := utils.AcquireDirLock(dir, fs)
					if err != nil {
						note("%d:busy", i)
						continue
					}
					holding[i] = true
					if !schedmc.FreeRunning {
						acquired++
					}
					note("%d:acq", i)
					vsched.Named("holding")
					holding[i] = false // from the call of Release on, the contender no longer claims the directory
					note("%d:rel", i)
					_ = l.Release()
				}
			})
		}
		return &schedmc.Exec{
			Threads: bodies,
			Monitor: func() (string, string) {
				n := 0
				var who []string
				for i, h := range holding {
					if h {
						n++
						who = append(who, fmt.Sprint(i))
					}
				}
				if n > 1 {
					return "two-holders", "contenders " + strings.Join(who, " and ") + " hold the directory lock at the same time; history: " + strings.Join(log, " ")
				}
				return "", ""
			},
			Outcome: func() string { return strings.Join(log, " ") },
			Cleanup: func() { _ = os.RemoveAll(dir) },
		}
	}
}

func main() {
	if os.Getenv("VERIF_PROP") == "C33-race" {
		// supporting pass: the same thread bodies, free-running under the race detector
		r := vr.Start("C33-race")
		var scs []schedmc.Scenario
		for _, sc := range scenarios(true) {
			scs = append(scs, schedmc.Scenario{Name: sc.name, Setup: setupFor(sc, r.Scratch())})
		}
		schedmc.FreeRunMain(r, scs, r.Pick(100, 1000))
	}
	r := vr.Start("C33")
	if r.ReplayPath != "" {
		var rp struct {
			Harness string
			Choices []int
		}
		r.LoadReplay(&rp)
		for _, sc := range scenarios(true) {
			if sc.name == rp.Harness {
				sig, desc, tr := schedmc.Replay(setupFor(sc, r.Scratch()), schedmc.Options{Name: sc.name, Exclusive: true, Bound: -1}, rp.Choices)
				fmt.Println("replay trace:", tr)
				if sig != "" {
					r.Violation(sig, desc, rp)
				}
				r.Finish(vr.Coverage{Level: "model_checking", States: 1, Transitions: 1, Evaluations: 1, Distinct: 2, Samples: []any{tr}, Rule: "replay"})
			}
		}
		vr.Fatalf("unknown harness %q", rp.Harness)
	}
	scs := scenarios(r.Thorough())
	bound := r.Pick(3, 5)
	base := r.Scratch()
	total := r.RunSharded(vr.Workers(), func(sh vr.ShardInfo, p *vr.Partial) {
		runtime.GOMAXPROCS(1)
		dir := filepath.Join(base, fmt.Sprintf("w%d", sh.Index))
		for _, sc := range scs {
			sub := vr.NewPartial()
			schedmc.Explore(setupFor(sc, dir), schedmc.Options{Name: sc.name, Bound: bound, Exclusive: true}, sh, sub, r.Expired)
			for k := range sub.Violations {
				v := &sub.Violations[k]
				v.Sig = v.Sig[strings.Index(v.Sig, ": ")+2:]
			}
			p.Merge(sub)
		}
	})
	r.RequireOutcomes(total.Card("outcomes"), 4)
	var names []string
	for _, sc := range scs {
		names = append(names, sc.name)
	}
	r.Finish(vr.Coverage{
		Level:       "model_checking",
		Evaluations: total.Counters["executions"],
		Distinct:    total.Card("outcomes"),
		Rule:        "every interleaving with at most `bound` preemptions of 2-3 contenders, each doing 1-2 rounds of AcquireDirLock / hold / Release on one directory with real files and real flock(2); scheduling points = every filesystem call of the lock code incl. the descriptor fetch right before each flock; invariant after every step: at most one contender is between a successful Acquire and its call of Release; distinct = distinct acquire/busy/release histories",
		Samples:     total.SamplesAny(),
		States:      total.Counters["steps"],
		Transitions: total.Counters["steps"],
		Validated:   total.Counters["executions"],
		Exhaustive:  !total.TimedOut,
		Outcomes:    total.Card("outcomes"),
		Bounds:      map[string]any{"preemption_bound": bound, "scenarios": names},
		Extra:       map[string]any{"schedules": total.Counters["executions"], "max_decisions_per_schedule": total.Counters["max_decisions"]},
		Assumptions: []string{"contenders are goroutines with distinct open file descriptions in one process; flock(2) treats those like separate processes", "code between two filesystem calls runs atomically"},
	})
}
