//go:build verif

// C16 — encodings round-trip, keys order correctly, decoders fail safely.
//
// Bounded-exhaustive input enumeration on the real codec functions:
//
//	rt   every value of a field-boundary grammar per codec: real encode -> real decode == value
//	ord  every ordered pair of internal keys of a small universe: CompareKeys == (cf, key asc, version desc)
//	mut  every truncation / single-byte substitution / varint-overflow splice / fixed32 splice / trailing
//	     garbage of representative valid encodings -> each real decoder: no panic, allocation <= 64*len+4KiB
//	arb  every byte string over a small alphabet up to a length bound (optionally behind the magic /
//	     version prefix) -> same demands
//
// Decoders run inside a crash-tolerant child process under `ulimit -v` (lib/caserun): an input that
// makes the runtime die with "out of memory" is attributed to its case and reported.
package main

import (
	"encoding/json"
	"fmt"
	"os"
	"regexp"
	"runtime"
	"runtime/debug"
	"runtime/pprof"
	"strings"
	"time"

	"github.com/feichai0017/NoKV/kv"
	"github.com/feichai0017/NoKV/utils"

	"verif/lib/caserun"
	"verif/lib/vr"
)

type mutation struct {
	Kind string // trunc | subst | varint | fixed32 | append
	K    int    // byte offset
	V    int    // index into the value table of the kind
}

type cdesc struct {
	Kind  string // rt | ord | mut | arb
	Codec int
	A, B  int // rt: value range [A,B); ord: universe A, left key B; mut: base A, decoder B; arb: decoder A, prefix B
	S     int // arb: string index
	M     mutation
}

var substVals = []byte{0x00, 0x7f, 0x80, 0xff}

var spliceVals = [][]byte{uv(1<<16 - 1), uv(1 << 24), uv(1 << 31), uv(1<<32 - 1), uv(1<<63 - 1), uv(1 << 63), uv(1<<64 - 1),
	{0xff, 0xff, 0xff, 0xff, 0xff, 0xff, 0xff, 0xff, 0xff, 0xff, 0x01}, {0x80}}
var spliceNames = []string{"2^16-1", "2^24", "2^31", "2^32-1", "2^63-1", "2^63", "2^64-1", "overflow11", "unterminated"}

var fixedVals = [][]byte{{0xff, 0xff, 0xff, 0xff}, {0x7f, 0xff, 0xff, 0xff}, {0xff, 0xff, 0xff, 0x7f}, {0x00, 0x01, 0x00, 0x00}, {0x00, 0x00, 0x01, 0x00}, {0x01, 0x00, 0x00, 0x00}, {0x00, 0x00, 0x00, 0x01}}

const rtBatch = 256
const caseTimeout = 10 * time.Minute // harness protection only; generous because the machine may be heavily shared

type plan struct {
	th     bool
	n      int     // number of cases
	blocks []block // implicit case list (a child is restarted after every fatal input, so the plan must be cheap to build)

	mutCacheBlock int
	mutCache      []mutation
	bases         [][]val    // per codec
	benc          [][][]byte // per codec, per base: real encoding
	bref          [][][]seg  // per codec, per base: reference layout if it matches the real encoding, else nil
	univ          [][][]byte // ordering universes
}

func applyMut(b []byte, m mutation) []byte {
	switch m.Kind {
	case "trunc":
		return append([]byte{}, b[:m.K]...)
	case "subst":
		out := append([]byte{}, b...)
		out[m.K] = substVals[m.V]
		return out
	case "varint":
		out := append([]byte{}, b[:m.K]...)
		out = append(out, spliceVals[m.V]...)
		return append(out, b[m.K+1:]...)
	case "fixed32":
		out := append([]byte{}, b...)
		copy(out[m.K:], fixedVals[m.V])
		return out
	case "append":
		switch m.V {
		case 0:
			return append(append([]byte{}, b...), 0x00)
		case 1:
			return append(append([]byte{}, b...), 0xff)
		default:
			return append(append([]byte{}, b...), b...)
		}
	}
	panic("mutation kind")
}

func (m mutation) name() string {
	switch m.Kind {
	case "subst":
		return fmt.Sprintf("subst:%02x", substVals[m.V])
	case "varint":
		return "varint:" + spliceNames[m.V]
	case "fixed32":
		return fmt.Sprintf("fixed32:%x", fixedVals[m.V])
	case "append":
		return "append:" + []string{"00", "ff", "self"}[m.V]
	}
	return m.Kind
}

func orderingUniverses() [][][]byte {
	users := [][]byte{[]byte("a"), []byte("aa"), {'a', 0}, {'a', 0xff}, []byte("b"), {}, []byte("ab"), {0xff}, {'a', 0, 0}, rep('a', 8), {0xff, 'C', 'F'}}
	vers := []uint64{0, 1, 2, 1 << 63, 1<<64 - 2, 1<<64 - 1}
	var cfKeys, plain [][]byte
	for _, cf := range ikCFs {
		for _, u := range users {
			for _, v := range vers {
				cfKeys = append(cfKeys, kv.InternalKey(cf, u, v))
			}
		}
	}
	for _, u := range users {
		if len(u) == 0 {
			continue
		}
		for _, v := range vers {
			plain = append(plain, kv.KeyWithTs(u, v))
		}
	}
	return [][][]byte{cfKeys, plain}
}

func pow(b, e int) int {
	n := 1
	for ; e > 0; e-- {
		n *= b
	}
	return n
}

// arbCount = number of strings over an alphabet of size a with length 0..l
func arbCount(a, l int) int {
	n := 0
	for k := 0; k <= l; k++ {
		n += pow(a, k)
	}
	return n
}

func arbString(alpha []byte, idx int) []byte {
	l := 0
	for idx >= pow(len(alpha), l) {
		idx -= pow(len(alpha), l)
		l++
	}
	out := make([]byte, l)
	for k := l - 1; k >= 0; k-- {
		out[k] = alpha[idx%len(alpha)]
		idx /= len(alpha)
	}
	return out
}

// A block is a run of consecutive case indices that share everything but one local index.
type block struct {
	first, n int
	proto    cdesc // Kind/Codec/A/B filled in; the local index selects value range, left key, mutation or string
}

// mutationsOf lists the mutations of one decoder input; offsets below skip are left alone (see decoder.Frame).
func mutationsOf(in []byte, skip int) []mutation {
	var out []mutation
	for k := skip; k < len(in); k++ {
		out = append(out, mutation{Kind: "trunc", K: k})
		for v := range substVals {
			if in[k] != substVals[v] {
				out = append(out, mutation{Kind: "subst", K: k, V: v})
			}
		}
		for v := range spliceVals {
			out = append(out, mutation{Kind: "varint", K: k, V: v})
		}
		if k+4 <= len(in) {
			for v := range fixedVals {
				out = append(out, mutation{Kind: "fixed32", K: k, V: v})
			}
		}
	}
	for v := 0; v < 3; v++ {
		out = append(out, mutation{Kind: "append", K: len(in), V: v})
	}
	return out
}

func buildPlan(th bool) *plan {
	pl := &plan{th: th, univ: orderingUniverses(), mutCacheBlock: -1}
	filter := os.Getenv("VERIF_C16_FILTER") // debugging aid: keep only blocks whose "kind:codec:decoder" contains the filter
	add := func(n int, proto cdesc) {
		if filter != "" {
			name := proto.Kind + ":" + codecs[proto.Codec].Name
			switch proto.Kind {
			case "mut":
				name += ":" + codecs[proto.Codec].Decs[proto.B].Name
			case "arb":
				name += ":" + codecs[proto.Codec].Decs[proto.A].Name
			}
			if !strings.Contains(name, filter) {
				return
			}
		}
		if n > 0 {
			pl.blocks = append(pl.blocks, block{first: pl.n, n: n, proto: proto})
			pl.n += n
		}
	}
	for ci, c := range codecs {
		add((c.N(th)+rtBatch-1)/rtBatch, cdesc{Kind: "rt", Codec: ci})
	}
	for u, keys := range pl.univ {
		add(len(keys), cdesc{Kind: "ord", A: u})
	}
	for ci, c := range codecs {
		bs := c.Bases()
		pl.bases = append(pl.bases, bs)
		var encs [][]byte
		var refs [][]seg
		for _, b := range bs {
			enc, err := b.Enc()
			if err != nil {
				vr.Fatalf("encoding base %s: %v", b.Label, err)
			}
			encs = append(encs, enc)
			var ref []seg
			if b.Ref != nil {
				if r := b.Ref(); string(cat(r)) == string(enc) {
					ref = r
				}
			}
			refs = append(refs, ref)
		}
		pl.benc = append(pl.benc, encs)
		pl.bref = append(pl.bref, refs)
		for bi := range bs {
			for di, d := range c.Decs {
				if d.Strip > len(encs[bi]) {
					continue
				}
				add(len(mutationsOf(encs[bi][d.Strip:], d.frameSkip(th, bi))), cdesc{Kind: "mut", Codec: ci, A: bi, B: di})
			}
		}
	}
	for ci, c := range codecs {
		prefixes := c.Prefixes
		if prefixes == nil {
			prefixes = [][]byte{nil}
		}
		for di, d := range c.Decs {
			l := c.ArbLen(th)
			if d.ArbLen != nil {
				l = d.ArbLen(th)
			}
			for pi := range prefixes {
				if pi > 0 && d.NoPrefix {
					continue
				}
				add(arbCount(len(c.Alpha), l), cdesc{Kind: "arb", Codec: ci, A: di, B: pi})
			}
		}
	}
	return pl
}

// caseAt maps a global case index to its description.
func (pl *plan) caseAt(i int) cdesc {
	lo, hi := 0, len(pl.blocks)
	for lo+1 < hi {
		mid := (lo + hi) / 2
		if pl.blocks[mid].first <= i {
			lo = mid
		} else {
			hi = mid
		}
	}
	b := pl.blocks[lo]
	j := i - b.first
	cd := b.proto
	switch cd.Kind {
	case "rt":
		n := codecs[cd.Codec].N(pl.th)
		cd.A, cd.B = j*rtBatch, min((j+1)*rtBatch, n)
	case "ord":
		cd.B = j
	case "mut":
		if pl.mutCacheBlock != lo {
			d := codecs[cd.Codec].Decs[cd.B]
			pl.mutCache = mutationsOf(pl.benc[cd.Codec][cd.A][d.Strip:], d.frameSkip(pl.th, cd.A))
			pl.mutCacheBlock = lo
		}
		cd.M = pl.mutCache[j]
	case "arb":
		cd.S = j
	}
	return cd
}

// input reconstructs the decoder input of a mut/arb case plus its signature parts.
func (pl *plan) input(cd cdesc) (dec *decoder, in []byte, class, field, mut, label string) {
	c := codecs[cd.Codec]
	switch cd.Kind {
	case "mut":
		dec = &c.Decs[cd.B]
		base := pl.benc[cd.Codec][cd.A][dec.Strip:]
		in = applyMut(base, cd.M)
		class = pl.bases[cd.Codec][cd.A].Class
		field = fmt.Sprintf("off%d", cd.M.K+dec.Strip)
		if ref := pl.bref[cd.Codec][cd.A]; ref != nil {
			field = fieldAt(ref, cd.M.K+dec.Strip)
		}
		mut = cd.M.name()
		label = fmt.Sprintf("base %s = %x; mutation %s at offset %d (field %s)", pl.bases[cd.Codec][cd.A].Label, base, mut, cd.M.K, field)
	case "arb":
		dec = &c.Decs[cd.A]
		var pre []byte
		if c.Prefixes != nil {
			pre = c.Prefixes[cd.B]
		}
		in = append(append([]byte{}, pre...), arbString(c.Alpha, cd.S)...)
		class, field, mut = "arbitrary", "-", "arb"
		label = "arbitrary bytes"
	}
	return
}

var numRe = regexp.MustCompile(`[0-9]+`)

func norm(s string) string {
	s = numRe.ReplaceAllString(s, "N")
	if len(s) > 160 {
		s = s[:160]
	}
	return s
}

// callGuarded runs f, converting a panic into (msg, top frame inside the repository).
func callGuarded(f func() error) (err error, panicMsg, at string) {
	defer func() {
		if x := recover(); x != nil {
			panicMsg = fmt.Sprint(x)
			if e, ok := x.(error); ok {
				panicMsg = e.Error()
			}
			at = "?"
			pcs := make([]uintptr, 64)
			n := runtime.Callers(2, pcs)
			fr := runtime.CallersFrames(pcs[:n])
			for {
				f, more := fr.Next()
				if strings.HasPrefix(f.Function, "github.com/feichai0017/NoKV/") && !strings.Contains(f.Function, ".Verif") {
					at = strings.TrimPrefix(f.Function, "github.com/feichai0017/NoKV/")
					break
				}
				if !more {
					break
				}
			}
		}
	}()
	return f(), "", ""
}

const allocSlope, allocConst = 64, 4096

// distinctInputs counts the distinct (decoder, input bytes) pairs of the mut/arb families, the grammar values of
// the rt family and the key pairs of the ord family that the plan contains (measured over the generated inputs).
func (pl *plan) distinctInputs() int64 {
	seen := map[uint64]struct{}{}
	var n int64
	for i := 0; i < pl.n; i++ {
		cd := pl.caseAt(i)
		switch cd.Kind {
		case "rt":
			n += int64(cd.B - cd.A)
		case "ord":
			n += int64(len(pl.univ[cd.A]))
		default:
			dec, in, _, _, _, _ := pl.input(cd)
			h := vr.Hash64(dec.Name + "\x00" + string(in))
			if _, ok := seen[h]; !ok {
				seen[h] = struct{}{}
				n++
			}
		}
	}
	return n
}

func replayJSON(cd cdesc, th bool) string {
	b, _ := json.Marshal(struct {
		Case     cdesc
		Thorough bool
	}{cd, th})
	return string(b)
}

func (pl *plan) runCase(i int, p *vr.Partial) {
	cd := pl.caseAt(i)
	switch cd.Kind {
	case "rt":
		c := codecs[cd.Codec]
		for k := cd.A; k < cd.B; k++ {
			v := c.At(pl.th, k)
			p.Add("evaluations", 1)
			p.Add("rt:"+c.Name, 1)
			var enc []byte
			var diff string
			err, pm, at := callGuarded(func() error {
				var e error
				enc, e = v.Enc()
				if e != nil {
					return e
				}
				diff = v.Check(enc)
				return nil
			})
			switch {
			case pm != "":
				p.Viol(fmt.Sprintf("roundtrip-panic codec=%s class=%s at=%s msg=%s", c.Name, v.Class, at, norm(pm)), "encoding/decoding a valid value panicked: "+v.Label+": "+pm, replayJSON(cd, pl.th))
				p.Mark("outcomes", "rt-panic:"+c.Name)
			case err != nil:
				p.Viol(fmt.Sprintf("encode-error codec=%s class=%s err=%s", c.Name, v.Class, norm(err.Error())), "the encoder rejected a valid value: "+v.Label+": "+err.Error(), replayJSON(cd, pl.th))
				p.Mark("outcomes", "rt-encode-error:"+c.Name)
			case diff != "":
				p.Viol(fmt.Sprintf("roundtrip codec=%s class=%s diff=%s", c.Name, v.Class, norm(diff)), fmt.Sprintf("decode(encode(v)) != v for %s; encoding %s; differing: %s", v.Label, hexs(enc), diff), replayJSON(cd, pl.th))
				p.Mark("outcomes", "rt-diff:"+c.Name)
			default:
				p.Mark("outcomes", "rt-ok:"+c.Name)
				if k == cd.A && cd.A == 0 {
					p.Sample(fmt.Sprintf("roundtrip ok: %s -> %s", v.Label, hexs(enc)))
				}
			}
			if v.Ref != nil && pm == "" && err == nil {
				if string(cat(v.Ref())) != string(enc) {
					if p.Counters["layout_mismatch:"+c.Name] == 0 {
						p.Notes = append(p.Notes, fmt.Sprintf("reference layout differs from the real encoding (not a violation): %s real=%s ref=%s", v.Label, hexs(enc), hexs(cat(v.Ref()))))
					}
					p.Add("layout_mismatch:"+c.Name, 1)
				} else {
					p.Add("layout_conformant", 1)
				}
			}
		}
	case "ord":
		keys := pl.univ[cd.A]
		a := keys[cd.B]
		for _, b := range keys {
			p.Add("evaluations", 1)
			p.Add("ord_pairs", 1)
			want := modelCompare(a, b, cd.A == 0)
			var got, gotUser int
			var same bool
			_, pm, at := callGuarded(func() error {
				got = utils.CompareKeys(a, b)
				gotUser = utils.CompareUserKeys(a, b)
				same = kv.SameKey(a, b)
				return nil
			})
			wantUser := modelCompareUser(a, b)
			lbl := fmt.Sprintf("a=%s b=%s", describeKey(a, cd.A == 0), describeKey(b, cd.A == 0))
			switch {
			case pm != "":
				p.Viol(fmt.Sprintf("order-panic at=%s msg=%s", at, norm(pm)), lbl+": "+pm, replayJSON(cd, pl.th))
			case sign(got) != want:
				p.Viol(fmt.Sprintf("order CompareKeys relation=%s want=%d got=%d", relation(a, b, cd.A == 0), want, sign(got)), "CompareKeys disagrees with (cf, user key ascending, version descending): "+lbl, replayJSON(cd, pl.th))
			case sign(gotUser) != wantUser:
				p.Viol(fmt.Sprintf("order CompareUserKeys relation=%s want=%d got=%d", relation(a, b, cd.A == 0), wantUser, sign(gotUser)), "CompareUserKeys disagrees with (cf, user key) order: "+lbl, replayJSON(cd, pl.th))
			case same != (wantUser == 0):
				p.Viol(fmt.Sprintf("order SameKey relation=%s want=%v got=%v", relation(a, b, cd.A == 0), wantUser == 0, same), "SameKey disagrees with (cf, user key) equality: "+lbl, replayJSON(cd, pl.th))
			}
			p.Mark("outcomes", fmt.Sprintf("ord:%d", sign(got)))
		}
	case "mut", "arb":
		dec, in, class, field, _, label := pl.input(cd)
		p.Add("evaluations", 1)
		p.Add(cd.Kind+":"+dec.Name, 1)
		var err error
		var pm, at string
		var delta uint64
		bound := uint64(allocSlope*len(in) + allocConst)
		for attempt := 0; attempt < 3; attempt++ {
			call := dec.Prep(in)
			var m0, m1 runtime.MemStats
			runtime.ReadMemStats(&m0)
			err, pm, at = callGuarded(call)
			runtime.ReadMemStats(&m1)
			d := m1.TotalAlloc - m0.TotalAlloc
			if attempt == 0 || d < delta {
				delta = d
			}
			if d > 32<<20 {
				debug.FreeOSMemory() // hand the (untouched) pages back so that a later allocation never has to clear them
			}
			if delta <= bound || pm != "" || delta > bound+(1<<20) {
				break // the retries only filter one-time lazy initialisation inside the callee
			}
		}
		outcome := "error"
		switch {
		case pm != "":
			outcome = "panic"
			if dec.Tally {
				p.Add("tallied_panics:"+dec.Name, 1)
			} else {
				p.Viol(fmt.Sprintf("panic dec=%s base=%s at=%s msg=%s", dec.Name, class, at, norm(pm)),
					fmt.Sprintf("decoder panicked instead of returning an error: input %s (%s): %s", hexs(in), label, pm), replayJSON(cd, pl.th))
			}
		case err == nil:
			outcome = "ok"
			if dec.CRC && cd.Kind == "mut" && cd.M.Kind != "append" {
				p.Add("crc_format_accepted_mutant:"+dec.Name, 1)
			}
		}
		if pm == "" && delta > bound {
			outcome += "+overalloc"
			p.Viol(fmt.Sprintf("alloc dec=%s base=%s field=%s", dec.Name, class, field),
				fmt.Sprintf("decoder allocated %d bytes for a %d-byte input (bound %d*len+%d = %d): input %s (%s); result: %v", delta, len(in), allocSlope, allocConst, bound, hexs(in), label, err), replayJSON(cd, pl.th))
		}
		if delta > uint64(p.Counters["max_alloc_bytes"]) {
			p.Counters["max_alloc_bytes"] = int64(delta)
		}
		if p.Mark("outcomes", dec.Name+":"+cd.Kind+":"+outcome) {
			p.Sample(fmt.Sprintf("%s %s -> %s (input %s)", dec.Name, cd.Kind, outcome, hexs(in)))
		}
	}
}

func (pl *plan) crash(i int, kind, detail string, p *vr.Partial) {
	cd := pl.caseAt(i)
	switch cd.Kind {
	case "mut", "arb":
		dec, in, class, field, _, label := pl.input(cd)
		p.Add("evaluations", 1)
		p.Mark("outcomes", dec.Name+":"+cd.Kind+":died-"+kind)
		at := ""
		if k := strings.LastIndex(detail, " in "); k >= 0 {
			at = " at=" + detail[k+4:]
		}
		switch kind {
		case "oom":
			p.Add("deaths:"+dec.Name, 1)
			p.Viol(fmt.Sprintf("alloc-fatal dec=%s base=%s field=%s%s", dec.Name, class, field, at),
				fmt.Sprintf("decoder killed the process with an out-of-memory fatal error under ulimit -v %d KiB for a %d-byte input %s (%s): %s", memLimitKB, len(in), hexs(in), label, detail), replayJSON(cd, pl.th))
		case "timeout":
			p.Add("hangs", 1)
			p.Notes = append(p.Notes, fmt.Sprintf("decoder %s exceeded the %s watchdog for input %s (%s) - not a violation of this property", dec.Name, caseTimeout, hexs(in), label))
		default:
			p.Viol(fmt.Sprintf("crash dec=%s base=%s field=%s kind=%s", dec.Name, class, field, norm(detail)),
				fmt.Sprintf("decoder killed the process (%s) for input %s (%s): %s", kind, hexs(in), label, detail), replayJSON(cd, pl.th))
		}
	default:
		p.Viol(fmt.Sprintf("crash family=%s codec=%d kind=%s", cd.Kind, cd.Codec, norm(detail)), fmt.Sprintf("process died (%s) in case %+v: %s", kind, cd, detail), replayJSON(cd, pl.th))
	}
}

// Address-space limit of the child. The Go runtime of this binary reserves ~1.3 GiB up front, so allocations up to
// ~450 MiB succeed and are measured through TotalAlloc (and cleared, hence the modest limit: 16 workers x 450 MiB
// of RAM at worst); anything larger kills the child with "out of memory" and is attributed by caserun.
const memLimitKB = 1792 << 10

// ---------------------------------------------------------------------------------------
// ordering model

func sign(x int) int {
	switch {
	case x < 0:
		return -1
	case x > 0:
		return 1
	}
	return 0
}

// split a key of the universe into (cf, user key, version) WITHOUT the code under test.
func splitModel(k []byte, withCF bool) (cf int, user []byte, ver uint64) {
	body := k[:len(k)-8]
	var inv uint64
	for _, b := range k[len(k)-8:] {
		inv = inv<<8 | uint64(b)
	}
	ver = ^inv
	if withCF {
		return int(body[3]), body[4:], ver
	}
	return 0, body, ver
}

func cmpBytes(a, b []byte) int {
	for i := 0; i < len(a) && i < len(b); i++ {
		if a[i] != b[i] {
			if a[i] < b[i] {
				return -1
			}
			return 1
		}
	}
	return sign(len(a) - len(b))
}

func modelCompareUser(a, b []byte) int {
	// all keys of a universe share the layout, so "with cf" does not matter for the split of the user part
	ca, ua, _ := splitModel(a, false)
	cb, ub, _ := splitModel(b, false)
	_ = ca
	_ = cb
	return cmpBytes(ua, ub) // body = marker+cf+user key: equal-length marker, so this is (cf, user key) order
}

func modelCompare(a, b []byte, withCF bool) int {
	ca, ua, va := splitModel(a, withCF)
	cb, ub, vb := splitModel(b, withCF)
	if ca != cb {
		return sign(ca - cb)
	}
	if c := cmpBytes(ua, ub); c != 0 {
		return c
	}
	switch { // version descending
	case va > vb:
		return -1
	case va < vb:
		return 1
	}
	return 0
}

func relation(a, b []byte, withCF bool) string {
	ca, ua, va := splitModel(a, withCF)
	cb, ub, vb := splitModel(b, withCF)
	switch {
	case ca != cb:
		return "cf-differs"
	case cmpBytes(ua, ub) != 0:
		if len(ua) != len(ub) && (strings.HasPrefix(string(ua), string(ub)) || strings.HasPrefix(string(ub), string(ua))) {
			return "userkey-prefix"
		}
		return "userkey-differs"
	case va != vb:
		return "version-differs"
	}
	return "equal"
}

func describeKey(k []byte, withCF bool) string {
	cf, u, v := splitModel(k, withCF)
	if withCF {
		return fmt.Sprintf("(cf=%d key=%x ver=%s)", cf, u, u64name(v))
	}
	return fmt.Sprintf("(key=%x ver=%s)", u, u64name(v))
}

// ---------------------------------------------------------------------------------------

func main() {
	if pf := os.Getenv("VERIF_C16_PROF"); pf != "" && caserun.InChild() {
		f, _ := os.Create(pf)
		_ = pprof.StartCPUProfile(f)
		go func() { time.Sleep(20 * time.Second); pprof.StopCPUProfile(); f.Close() }()
		caserun.OnChildExit = pprof.StopCPUProfile
	}
	r := vr.Start("C16")
	th := r.Thorough()
	var only []int
	if r.ReplayPath != "" {
		var rp struct {
			Case     cdesc
			Thorough bool
		}
		r.LoadReplay(&rp)
		th = rp.Thorough
		pl := buildPlan(th)
		for i := 0; i < pl.n; i++ {
			if pl.caseAt(i) == rp.Case {
				only = []int{i}
			}
		}
		if only == nil {
			vr.Fatalf("replay case not found in the plan: %+v", rp.Case)
		}
	}
	pl := buildPlan(th)
	if os.Getenv("VERIF_C16_PLAN") != "" { // debugging aid: print the case-index layout and stop
		for _, b := range pl.blocks {
			name := codecs[b.proto.Codec].Name
			switch b.proto.Kind {
			case "mut":
				name = codecs[b.proto.Codec].Decs[b.proto.B].Name + " base " + pl.bases[b.proto.Codec][b.proto.A].Class
			case "arb":
				name = codecs[b.proto.Codec].Decs[b.proto.A].Name + fmt.Sprintf(" prefix#%d", b.proto.B)
			case "ord":
				name = fmt.Sprintf("universe#%d", b.proto.A)
			}
			fmt.Printf("%8d +%-7d %s %s\n", b.first, b.n, b.proto.Kind, name)
		}
		os.Exit(0)
	}
	total := r.RunSharded(vr.Workers(), func(sh vr.ShardInfo, p *vr.Partial) {
		caserun.Run(r, sh, p, caserun.Config{Name: "c16", N: pl.n, Only: only, Run: pl.runCase, Crash: pl.crash, MemLimitKB: memLimitKB, CaseTimeout: caseTimeout})
	})
	byKind := map[string]int{}
	for _, b := range pl.blocks {
		byKind[b.proto.Kind] += b.n
	}
	perDec := map[string]int64{}
	for k, v := range total.Counters {
		if strings.HasPrefix(k, "mut:") || strings.HasPrefix(k, "arb:") || strings.HasPrefix(k, "rt:") || strings.HasPrefix(k, "crc_format") || strings.HasPrefix(k, "tallied_panics") || strings.HasPrefix(k, "layout_mismatch") {
			perDec[k] = v
		}
	}
	var grammar []string
	for _, c := range codecs {
		pre := len(c.Prefixes)
		if pre == 0 {
			pre = 1
		}
		grammar = append(grammar, fmt.Sprintf("%s: %d round-trip values, %d mutation bases, arbitrary strings over %x up to length %d x %d prefixes", c.Name, c.N(th), len(c.Bases()), c.Alpha, c.ArbLen(th), pre))
	}
	sigCount := map[string]int{}
	for _, v := range total.Violations {
		sigCount[v.Sig] += v.Count
	}
	deaths := map[string]int64{}
	for k, v := range total.Counters {
		if strings.HasPrefix(k, "deaths:") {
			deaths[k[7:]] = v
		}
	}
	outcomes := total.Card("outcomes")
	if r.ReplayPath == "" && os.Getenv("VERIF_C16_FILTER") == "" {
		r.RequireOutcomes(outcomes, 20)
		if total.Counters["ord_pairs"] == 0 || total.Counters["layout_conformant"] == 0 {
			vr.Fatalf("vacuous: ord_pairs=%d layout_conformant=%d", total.Counters["ord_pairs"], total.Counters["layout_conformant"])
		}
	}
	r.Finish(vr.Coverage{
		Level:       "exploration",
		Evaluations: total.Counters["evaluations"],
		Distinct:    pl.distinctInputs(),
		Rule:        "rt: every value of the per-codec field-boundary grammar (real encode, real decode, field-wise equality, streaming decoders fed two records + EOF); ord: every ordered pair of the key universes against the (cf, user key asc, version desc) model; mut: every truncation, single-byte substitution by 00/7f/80/ff, varint splice (2^16-1..2^64-1, 11-byte overflow, unterminated) and fixed32 splice at every offset, and trailing garbage, of every mutation base, for every decoder; arb: every string over the codec alphabet up to the length bound behind every listed prefix. Demands: no panic, TotalAlloc delta <= 64*len(input)+4096 (min of up to 3 runs), no fatal out-of-memory under ulimit -v 1792 MiB. distinct = distinct (decoder, input bytes) / (codec, encoding) / key pairs evaluated",
		Samples:     total.SamplesAny(),
		Exhaustive:  !total.TimedOut,
		Outcomes:    outcomes,
		Bounds:      map[string]any{"cases_by_family": byKind, "grammar": grammar, "ordering_universe_sizes": []int{len(pl.univ[0]), len(pl.univ[1])}, "thorough": th},
		Extra: map[string]any{"per_decoder": perDec, "child_deaths": total.Counters["child_deaths"], "hangs": total.Counters["hangs"], "max_measured_alloc_bytes": total.Counters["max_alloc_bytes"],
			"layout_conformant_values": total.Counters["layout_conformant"], "failing_signatures_with_case_counts": sigCount, "child_deaths_by_decoder": deaths},
		Assumptions: []string{"etcd raftpb Marshal/Unmarshal and google protobuf Marshal/Unmarshal are trusted (the NoKV framing around them is what is checked)",
			"acceptance of a mutated input is not a violation of this property (corruption detection is C14); for the checksummed formats it is tallied",
			"kv.ValueStruct.DecodeValue has no error result and is not in the statement's list: its panics on short input are tallied only",
			"manifest value-log edits: members the edit type does not serialise take the decoder-defined value (head: Valid=true; delete: Offset=0, Valid=false)",
			"kv.KeyWithTs/ParseTs are exercised for non-empty user keys only (an 8-byte key is indistinguishable from a bare timestamp)",
			"64-bit int (the overflow findings depend on int being 64 bits wide)"},
	})
}
