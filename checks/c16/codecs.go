//go:build verif

package main

import (
	"bufio"
	"bytes"
	"errors"
	"fmt"
	"hash/crc32"
	"io"
	"math"

	"github.com/feichai0017/NoKV/kv"
	"github.com/feichai0017/NoKV/manifest"
	"github.com/feichai0017/NoKV/pb"
	"github.com/feichai0017/NoKV/percolator"
	myraft "github.com/feichai0017/NoKV/raft"
	"github.com/feichai0017/NoKV/raftstore/command"
	"github.com/feichai0017/NoKV/raftstore/engine"
	"github.com/feichai0017/NoKV/wal"
	proto "google.golang.org/protobuf/proto"
)

// val is one value of a codec's grammar.
type val struct {
	Label string
	Class string                  // coarse class used in signatures
	Enc   func() ([]byte, error)  // the real encoder
	Ref   func() []seg            // reference layout of the same value (labels mutation offsets; conformance is only tallied)
	Check func(enc []byte) string // runs the real decoder(s) on enc: "" if the value is reproduced exactly, else the differing parts
}

// decoder is one real decoding entry point fed with mutated / arbitrary bytes.
type decoder struct {
	Name  string
	Strip int                          // leading bytes of a base encoding that are not input of this decoder (framing)
	Prep  func(in []byte) func() error // builds the call (reader construction is not part of the measured decode)
	CRC   bool                         // checksummed format (acceptance of mutated input is tallied separately)
	Tally bool                         // decoder without error result outside the statement's list: panics are tallied, not reported

	// Frame > 0: the first Frame bytes of the input are a length prefix that is independent of the payload kind. Every
	// corrupted prefix that declares a huge frame kills the child (known finding), so the quick tier mutates the prefix
	// only for the first two bases; the thorough tier mutates it for every base.
	Frame    int
	ArbLen   func(th bool) int // overrides the codec's bound for arbitrary strings
	NoPrefix bool              // arbitrary strings are not tried behind the codec's prefixes (they belong to another decoder)
}

func (d decoder) frameSkip(th bool, base int) int {
	if d.Frame > 0 && !th && base >= 2 {
		return d.Frame
	}
	return 0
}

type codec struct {
	Name     string
	N        func(th bool) int
	At       func(th bool, i int) val
	Bases    func() []val
	Decs     []decoder
	Alpha    []byte
	ArbLen   func(th bool) int
	Prefixes [][]byte
}

func pick(th bool, q, t int) int {
	if th {
		return t
	}
	return q
}

var castagnoli = crc32.MakeTable(crc32.Castagnoli)

// ---------------------------------------------------------------------------------------
// kv entry records

var (
	entKeysQ   = append(strs(keyAlpha, 2), kv.InternalKey(kv.CFWrite, []byte("a\x00"), 7))
	entKeysT   = append(strs(keyAlpha, 3), kv.InternalKey(kv.CFWrite, []byte("a\x00"), 7), rep('k', 300))
	entVals    = [][]byte{{}, []byte("v"), {0}, {0xff, 0xff}, rep('x', 200), rep('y', 70000)}
	entMetas   = []byte{0, 1, 2, 0x40, 0x7f, 0x80, 0xff}
	entExpires = u64B
)

func entryVal(key, value []byte, meta byte, exp uint64) val {
	mk := func() *kv.Entry {
		return &kv.Entry{Key: append([]byte{}, key...), Value: append([]byte{}, value...), Meta: meta, ExpiresAt: exp}
	}
	return val{
		Label: fmt.Sprintf("entry{key=%s value=%s meta=%#x expires=%s}", hexs(key), hexs(value), meta, u64name(exp)),
		Class: "entry",
		Enc: func() ([]byte, error) {
			var buf bytes.Buffer
			out, err := kv.EncodeEntry(&buf, mk())
			return append([]byte{}, out...), err
		},
		Ref: func() []seg {
			ss := []seg{{"klen", uv(uint64(len(key)))}, {"vlen", uv(uint64(len(value)))}, {"meta", uv(uint64(meta))}, {"expires", uv(exp)}, {"key", key}, {"value", value}}
			return append(ss, seg{"crc", be32(crc32.Checksum(cat(ss), castagnoli))})
		},
		Check: func(enc []byte) string {
			var d differ
			same := func(tag string, e *kv.Entry) {
				d.check(tag+".key", beq(e.Key, key))
				d.check(tag+".value", beq(e.Value, value))
				d.check(tag+".meta", e.Meta == meta)
				d.check(tag+".expires", e.ExpiresAt == exp)
			}
			e, err := kv.DecodeEntry(enc)
			if err != nil {
				d.check("DecodeEntry.err="+err.Error(), false)
			} else {
				same("DecodeEntry", e)
				e.DecrRef()
			}
			// streaming decoder: two records back to back, then EOF
			r := bytes.NewReader(append(append([]byte{}, enc...), enc...))
			for k := 0; k < 2; k++ {
				e, n, err := kv.DecodeEntryFrom(r)
				if err != nil {
					d.check(fmt.Sprintf("DecodeEntryFrom#%d.err=%v", k, err), false)
					break
				}
				same(fmt.Sprintf("DecodeEntryFrom#%d", k), e)
				d.check("DecodeEntryFrom.recordLen", int(n) == len(enc))
				e.DecrRef()
			}
			if _, _, err := kv.DecodeEntryFrom(r); !errors.Is(err, io.EOF) {
				d.check("DecodeEntryFrom.eof", false)
			}
			v, h, err := kv.DecodeValueSlice(enc)
			if err != nil {
				d.check("DecodeValueSlice.err="+err.Error(), false)
			} else {
				d.check("DecodeValueSlice.value", beq(v, value))
				d.check("DecodeValueSlice.header", h.KeyLen == uint32(len(key)) && h.ValueLen == uint32(len(value)) && h.Meta == meta && h.ExpiresAt == exp)
			}
			return d.str()
		},
	}
}

var entryCodec = codec{
	Name: "kv.Entry",
	N: func(th bool) int {
		return space{pick(th, len(entKeysQ), len(entKeysT)), len(entVals), len(entMetas), len(entExpires)}.n()
	},
	At: func(th bool, i int) val {
		keys := entKeysQ
		if th {
			keys = entKeysT
		}
		x := space{len(keys), len(entVals), len(entMetas), len(entExpires)}.at(i)
		return entryVal(keys[x[0]], entVals[x[1]], entMetas[x[2]], entExpires[x[3]])
	},
	Bases: func() []val {
		return []val{
			entryVal([]byte("a"), []byte("v"), 0, 0),
			entryVal(kv.InternalKey(kv.CFDefault, []byte("ab"), 3), rep('x', 20), 2, 1<<63),
			entryVal(nil, nil, 0, 0),
			entryVal([]byte{0xff, 0xff}, []byte{0xff, 0xff}, 0xff, 1<<64-1),
		}
	},
	Decs: []decoder{
		{Name: "kv.DecodeEntry", CRC: true, Prep: func(in []byte) func() error {
			return func() error {
				e, err := kv.DecodeEntry(in)
				if err == nil {
					e.DecrRef()
				}
				return err
			}
		}},
		{Name: "kv.DecodeEntryFrom", CRC: true, Prep: func(in []byte) func() error {
			r := bytes.NewReader(in)
			return func() error {
				e, _, err := kv.DecodeEntryFrom(r)
				if err == nil {
					e.DecrRef()
				}
				return err
			}
		}},
		{Name: "kv.DecodeValueSlice", CRC: true, Prep: func(in []byte) func() error {
			return func() error { _, _, err := kv.DecodeValueSlice(in); return err }
		}},
	},
	Alpha:  []byte{0x00, 0x01, 'a', 0x80, 0xFF},
	ArbLen: func(th bool) int { return pick(th, 5, 7) },
}

// ---------------------------------------------------------------------------------------
// value pointers

func vptrVal(p kv.ValuePtr) val {
	return val{
		Label: fmt.Sprintf("vptr%+v", p), Class: "vptr",
		Enc: func() ([]byte, error) { return p.Encode(), nil },
		Ref: func() []seg {
			return []seg{{"len", be32(p.Len)}, {"offset", be32(p.Offset)}, {"fid", be32(p.Fid)}, {"bucket", be32(p.Bucket)}}
		},
		Check: func(enc []byte) string {
			var q kv.ValuePtr
			q.Decode(enc)
			var d differ
			d.check("len", q.Len == p.Len)
			d.check("offset", q.Offset == p.Offset)
			d.check("fid", q.Fid == p.Fid)
			d.check("bucket", q.Bucket == p.Bucket)
			d.check("iszero", q.IsZero() == (p == kv.ValuePtr{}))
			return d.str()
		},
	}
}

var vptrCodec = codec{
	Name: "kv.ValuePtr",
	N:    func(th bool) int { return space{7, 7, 7, 7}.n() },
	At: func(th bool, i int) val {
		x := space{7, 7, 7, 7}.at(i)
		return vptrVal(kv.ValuePtr{Len: u32B[x[0]], Offset: u32B[x[1]], Fid: u32B[x[2]], Bucket: u32B[x[3]]})
	},
	Bases: func() []val {
		return []val{vptrVal(kv.ValuePtr{Len: 1, Offset: 2, Fid: 3, Bucket: 4}), vptrVal(kv.ValuePtr{Len: 1<<32 - 1, Offset: 1 << 31, Fid: 1<<32 - 1, Bucket: 1<<32 - 1})}
	},
	Decs: []decoder{{Name: "kv.ValuePtr.Decode", Prep: func(in []byte) func() error {
		return func() error { var q kv.ValuePtr; q.Decode(in); return nil }
	}}},
	Alpha:  []byte{0x00, 'a', 0xFF},
	ArbLen: func(th bool) int { return pick(th, 4, 6) },
}

// ---------------------------------------------------------------------------------------
// internal keys

var (
	ikUserQ = append(strs(keyAlpha, 2), []byte{0xff, 'C', 'F', 0}, []byte{0xff, 'C', 'F', 9}, rep('a', 8), rep('a', 9))
	ikUserT = append(strs(keyAlpha, 3), []byte{0xff, 'C', 'F', 0}, []byte{0xff, 'C', 'F', 9}, rep('a', 8), rep('a', 9), rep('z', 300))
	ikCFs   = []kv.ColumnFamily{kv.CFDefault, kv.CFLock, kv.CFWrite}
)

func ikeyVal(cf kv.ColumnFamily, uk []byte, ts uint64) val {
	return val{
		Label: fmt.Sprintf("ikey{cf=%d key=%s ts=%s}", cf, hexs(uk), u64name(ts)), Class: "ikey",
		Enc: func() ([]byte, error) { return kv.InternalKey(cf, uk, ts), nil },
		Ref: func() []seg {
			return []seg{{"marker", []byte{0xff, 'C', 'F'}}, {"cf", []byte{byte(cf)}}, {"userkey", uk}, {"ts", be64(math.MaxUint64 - ts)}}
		},
		Check: func(enc []byte) string {
			var d differ
			c2, k2, t2 := kv.SplitInternalKey(enc)
			d.check("split.cf", c2 == cf)
			d.check("split.key", beq(k2, uk))
			d.check("split.ts", t2 == ts)
			d.check("parsets", kv.ParseTs(enc) == ts)
			base := kv.ParseKey(enc)
			d.check("parsekey", beq(base, kv.EncodeKeyWithCF(cf, uk)))
			c3, k3, ok := kv.DecodeKeyCF(base)
			d.check("decodekeycf", ok && c3 == cf && beq(k3, uk))
			d.check("samekey", kv.SameKey(enc, kv.InternalKey(cf, uk, ts^1)))
			// the plain (cf-less) versioned key helper, for non-empty keys
			if len(uk) > 0 {
				w := kv.KeyWithTs(uk, ts)
				d.check("keywithts.key", beq(kv.ParseKey(w), uk))
				d.check("keywithts.ts", kv.ParseTs(w) == ts)
			}
			return d.str()
		},
	}
}

var ikeyCodec = codec{
	Name: "kv.InternalKey",
	N:    func(th bool) int { return space{3, pick(th, len(ikUserQ), len(ikUserT)), len(u64B)}.n() },
	At: func(th bool, i int) val {
		us := ikUserQ
		if th {
			us = ikUserT
		}
		x := space{3, len(us), len(u64B)}.at(i)
		return ikeyVal(ikCFs[x[0]], us[x[1]], u64B[x[2]])
	},
	Bases: func() []val {
		return []val{ikeyVal(kv.CFDefault, []byte("a"), 1), ikeyVal(kv.CFWrite, nil, 1<<64-1), ikeyVal(kv.CFLock, []byte{0xff, 'C', 'F', 1}, 0)}
	},
	Decs: []decoder{
		{Name: "kv.SplitInternalKey", Prep: func(in []byte) func() error {
			return func() error { kv.SplitInternalKey(in); kv.ParseKey(in); kv.ParseTs(in); return nil }
		}},
		{Name: "kv.DecodeKeyCF", Prep: func(in []byte) func() error {
			return func() error { kv.DecodeKeyCF(in); return nil }
		}},
	},
	Alpha:  []byte{0x00, 'C', 'F', 0x02, 0xFF},
	ArbLen: func(th bool) int { return pick(th, 5, 6) },
}

// ---------------------------------------------------------------------------------------
// value structs (inline value representation inside SST blocks); round trip only

func vstructVal(meta byte, exp uint64, value []byte) val {
	vs := kv.ValueStruct{Meta: meta, ExpiresAt: exp, Value: value}
	return val{
		Label: fmt.Sprintf("valuestruct{meta=%#x expires=%s value=%s}", meta, u64name(exp), hexs(value)), Class: "valuestruct",
		Enc: func() ([]byte, error) {
			buf := make([]byte, vs.EncodedSize())
			n := vs.EncodeValue(buf)
			if int(n) != len(buf) {
				return nil, fmt.Errorf("EncodeValue wrote %d of EncodedSize %d", n, len(buf))
			}
			return buf, nil
		},
		Ref: func() []seg { return []seg{{"meta", []byte{meta}}, {"expires", uv(exp)}, {"value", value}} },
		Check: func(enc []byte) string {
			var out kv.ValueStruct
			out.DecodeValue(enc)
			var d differ
			d.check("meta", out.Meta == meta)
			d.check("expires", out.ExpiresAt == exp)
			d.check("value", beq(out.Value, value))
			return d.str()
		},
	}
}

var vstructVals = [][]byte{{}, []byte("v"), {0x80}, {0xff, 0xff}, rep('x', 200)}

var vstructCodec = codec{
	Name: "kv.ValueStruct",
	N:    func(th bool) int { return space{len(entMetas), len(u64B), len(vstructVals)}.n() },
	At: func(th bool, i int) val {
		x := space{len(entMetas), len(u64B), len(vstructVals)}.at(i)
		return vstructVal(entMetas[x[0]], u64B[x[1]], vstructVals[x[2]])
	},
	Bases: func() []val { return []val{vstructVal(2, 1<<63, []byte("v"))} },
	Decs: []decoder{{Name: "kv.ValueStruct.DecodeValue", Tally: true, Prep: func(in []byte) func() error {
		return func() error { var out kv.ValueStruct; out.DecodeValue(in); return nil }
	}}},
	Alpha:  []byte{0x00, 'a', 0x80, 0xFF},
	ArbLen: func(th bool) int { return 4 },
}

// ---------------------------------------------------------------------------------------
// manifest edits

var (
	mfLevels = []int{0, 1, 6, 128}
	mfKeys   = [][]byte{nil, []byte("a"), kv.InternalKey(kv.CFDefault, []byte("k"), 9), {0xff, 0xff, 0xff}, rep('s', 200)}
	mfPeersQ = peerLists(1)
	mfPeersT = peerLists(2)
	mfStates = []manifest.RegionState{0, 1, 2, 255}
	mfRKeys  = [][]byte{nil, []byte("a"), {0x00}, {0xff, 0xff}}
)

func peerLists(maxLen int) [][]manifest.PeerMeta {
	var alpha []manifest.PeerMeta
	for _, s := range u64S {
		for _, p := range u64S {
			alpha = append(alpha, manifest.PeerMeta{StoreID: s, PeerID: p})
		}
	}
	out := [][]manifest.PeerMeta{nil}
	prev := [][]manifest.PeerMeta{nil}
	for l := 1; l <= maxLen; l++ {
		var next [][]manifest.PeerMeta
		for _, p := range prev {
			for _, a := range alpha {
				next = append(next, append(append([]manifest.PeerMeta{}, p...), a))
			}
		}
		out = append(out, next...)
		prev = next
	}
	return out
}

var editNames = map[manifest.EditType]string{manifest.EditAddFile: "AddFile", manifest.EditDeleteFile: "DeleteFile", manifest.EditLogPointer: "LogPointer",
	manifest.EditValueLogHead: "ValueLogHead", manifest.EditDeleteValueLog: "DeleteValueLog", manifest.EditUpdateValueLog: "UpdateValueLog",
	manifest.EditRaftPointer: "RaftPointer", manifest.EditRegion: "Region"}

func b2(b bool) byte {
	if b {
		return 1
	}
	return 0
}

func editRef(e manifest.Edit) []seg {
	ss := []seg{{"magic", []byte("NoKV")}, {"type", []byte{byte(e.Type)}}}
	lv := func(name string, b []byte) {
		ss = append(ss, seg{name + "Len", uv(uint64(len(b)))}, seg{name, b})
	}
	switch e.Type {
	case manifest.EditAddFile, manifest.EditDeleteFile:
		m := e.File
		ss = append(ss, seg{"level", uv(uint64(m.Level))}, seg{"fileID", uv(m.FileID)}, seg{"size", uv(m.Size)})
		lv("smallest", m.Smallest)
		lv("largest", m.Largest)
		ss = append(ss, seg{"createdAt", uv(m.CreatedAt)}, seg{"valueSize", uv(m.ValueSize)}, seg{"ingest", []byte{b2(m.Ingest)}})
	case manifest.EditLogPointer:
		ss = append(ss, seg{"logSeg", uv(uint64(e.LogSeg))}, seg{"logOffset", uv(e.LogOffset)})
	case manifest.EditValueLogHead:
		if v := e.ValueLog; v != nil {
			ss = append(ss, seg{"bucket", uv(uint64(v.Bucket))}, seg{"fileID", uv(uint64(v.FileID))}, seg{"offset", uv(v.Offset)})
		}
	case manifest.EditDeleteValueLog:
		if v := e.ValueLog; v != nil {
			ss = append(ss, seg{"bucket", uv(uint64(v.Bucket))}, seg{"fileID", uv(uint64(v.FileID))})
		}
	case manifest.EditUpdateValueLog:
		if v := e.ValueLog; v != nil {
			ss = append(ss, seg{"bucket", uv(uint64(v.Bucket))}, seg{"fileID", uv(uint64(v.FileID))}, seg{"offset", uv(v.Offset)}, seg{"valid", []byte{b2(v.Valid)}})
		}
	case manifest.EditRaftPointer:
		if p := e.Raft; p != nil {
			for i, x := range raftPtrFields(p) {
				ss = append(ss, seg{raftPtrNames[i], uv(x)})
			}
		}
	case manifest.EditRegion:
		if r := e.Region; r != nil {
			ss = append(ss, seg{"regionID", uv(r.Meta.ID)}, seg{"delete", []byte{b2(r.Delete)}})
			if !r.Delete {
				lv("startKey", r.Meta.StartKey)
				lv("endKey", r.Meta.EndKey)
				ss = append(ss, seg{"epochVersion", uv(r.Meta.Epoch.Version)}, seg{"epochConfVer", uv(r.Meta.Epoch.ConfVersion)}, seg{"state", []byte{byte(r.Meta.State)}},
					seg{"peersCount", uv(uint64(len(r.Meta.Peers)))})
				for i, p := range r.Meta.Peers {
					ss = append(ss, seg{fmt.Sprintf("peer%d.store", i), uv(p.StoreID)}, seg{fmt.Sprintf("peer%d.id", i), uv(p.PeerID)})
				}
			}
		}
	}
	return append([]seg{{"frameLen", le32(uint32(len(cat(ss))))}}, ss...)
}

var raftPtrNames = []string{"groupID", "segment", "offset", "appliedIndex", "appliedTerm", "committed", "snapshotIndex", "snapshotTerm", "truncatedIndex", "truncatedTerm", "segmentIndex", "truncatedOffset"}

func raftPtrFields(p *manifest.RaftLogPointer) []uint64 {
	return []uint64{p.GroupID, uint64(p.Segment), p.Offset, p.AppliedIndex, p.AppliedTerm, p.Committed, p.SnapshotIndex, p.SnapshotTerm, p.TruncatedIndex, p.TruncatedTerm, p.SegmentIndex, p.TruncatedOffset}
}

func raftPtrFrom(x []uint64) *manifest.RaftLogPointer {
	return &manifest.RaftLogPointer{GroupID: x[0], Segment: uint32(x[1]), Offset: x[2], AppliedIndex: x[3], AppliedTerm: x[4], Committed: x[5], SnapshotIndex: x[6],
		SnapshotTerm: x[7], TruncatedIndex: x[8], TruncatedTerm: x[9], SegmentIndex: x[10], TruncatedOffset: x[11]}
}

// editDiff compares the parts of an edit that its type serialises and demands that nothing else is set.
func editDiff(want, got manifest.Edit) string {
	var d differ
	d.check("type", want.Type == got.Type)
	d.check("file-presence", (want.File == nil) == (got.File == nil))
	d.check("valuelog-presence", (want.ValueLog == nil) == (got.ValueLog == nil))
	d.check("raft-presence", (want.Raft == nil) == (got.Raft == nil))
	d.check("region-presence", (want.Region == nil) == (got.Region == nil))
	d.check("logSeg", want.LogSeg == got.LogSeg)
	d.check("logOffset", want.LogOffset == got.LogOffset)
	if w, g := want.File, got.File; w != nil && g != nil {
		d.check("level", w.Level == g.Level)
		d.check("fileID", w.FileID == g.FileID)
		d.check("size", w.Size == g.Size)
		d.check("smallest", beq(w.Smallest, g.Smallest))
		d.check("largest", beq(w.Largest, g.Largest))
		d.check("createdAt", w.CreatedAt == g.CreatedAt)
		d.check("valueSize", w.ValueSize == g.ValueSize)
		d.check("ingest", w.Ingest == g.Ingest)
	}
	if w, g := want.ValueLog, got.ValueLog; w != nil && g != nil {
		d.check("vlog", *w == *g)
	}
	if w, g := want.Raft, got.Raft; w != nil && g != nil {
		d.check("raftptr", *w == *g)
	}
	if w, g := want.Region, got.Region; w != nil && g != nil {
		d.check("region.delete", w.Delete == g.Delete)
		d.check("region.id", w.Meta.ID == g.Meta.ID)
		d.check("region.start", beq(w.Meta.StartKey, g.Meta.StartKey))
		d.check("region.end", beq(w.Meta.EndKey, g.Meta.EndKey))
		d.check("region.epoch", w.Meta.Epoch == g.Meta.Epoch)
		d.check("region.state", w.Meta.State == g.Meta.State)
		ok := len(w.Meta.Peers) == len(g.Meta.Peers)
		for i := 0; ok && i < len(w.Meta.Peers); i++ {
			ok = w.Meta.Peers[i] == g.Meta.Peers[i]
		}
		d.check("region.peers", ok)
	}
	return d.str()
}

func editVal(e manifest.Edit) val {
	label := editNames[e.Type]
	switch {
	case e.File != nil:
		label += fmt.Sprintf("%+v", *e.File)
	case e.ValueLog != nil:
		label += fmt.Sprintf("%+v", *e.ValueLog)
	case e.Raft != nil:
		label += fmt.Sprintf("%+v", *e.Raft)
	case e.Region != nil:
		label += fmt.Sprintf("%+v", *e.Region)
	case e.Type == manifest.EditLogPointer:
		label += fmt.Sprintf("{seg=%d off=%d}", e.LogSeg, e.LogOffset)
	default:
		label += "{nil}"
	}
	if len(label) > 300 {
		label = label[:300] + ".."
	}
	return val{
		Label: label, Class: editNames[e.Type],
		Enc: func() ([]byte, error) {
			var buf bytes.Buffer
			err := manifest.VerifWriteEdit(&buf, e)
			return buf.Bytes(), err
		},
		Ref: func() []seg { return editRef(e) },
		Check: func(enc []byte) string {
			var parts []string
			r := bufio.NewReader(bytes.NewReader(append(append([]byte{}, enc...), enc...)))
			for k := 0; k < 2; k++ {
				got, err := manifest.VerifReadEdit(r)
				if err != nil {
					return fmt.Sprintf("readEdit#%d.err=%v", k, err)
				}
				if s := editDiff(e, got); s != "" {
					parts = append(parts, fmt.Sprintf("readEdit#%d:%s", k, s))
				}
			}
			if _, err := manifest.VerifReadEdit(r); err == nil {
				parts = append(parts, "readEdit.eof")
			}
			if len(enc) >= 4 {
				got, err := manifest.VerifDecodeEdit(enc[4:])
				if err != nil {
					return "decodeEdit.err=" + err.Error()
				}
				if s := editDiff(e, got); s != "" {
					parts = append(parts, "decodeEdit:"+s)
				}
			}
			if len(parts) > 0 {
				return fmt.Sprint(parts)
			}
			return ""
		},
	}
}

// manifest grammar: a list of sub-spaces, one per edit shape
type sub struct {
	sp space
	mk func(x []int) manifest.Edit
}

func manifestSubs(th bool) []sub {
	ids := u64S
	if th {
		ids = u64B
	}
	peers := mfPeersQ
	if th {
		peers = mfPeersT
	}
	var out []sub
	for _, t := range []manifest.EditType{manifest.EditAddFile, manifest.EditDeleteFile} {
		out = append(out, sub{space{len(mfLevels), len(ids), len(ids), len(mfKeys), len(mfKeys), 2, len(u64S), 2}, func(x []int) manifest.Edit {
			return manifest.Edit{Type: t, File: &manifest.FileMeta{Level: mfLevels[x[0]], FileID: ids[x[1]], Size: ids[x[2]], Smallest: mfKeys[x[3]], Largest: mfKeys[x[4]],
				CreatedAt: []uint64{0, 1 << 63}[x[5]], ValueSize: u64S[x[6]], Ingest: x[7] == 1}}
		}})
	}
	out = append(out, sub{space{len(u32B), len(u64B)}, func(x []int) manifest.Edit {
		return manifest.Edit{Type: manifest.EditLogPointer, LogSeg: u32B[x[0]], LogOffset: u64B[x[1]]}
	}})
	for _, t := range []manifest.EditType{manifest.EditValueLogHead, manifest.EditDeleteValueLog, manifest.EditUpdateValueLog, manifest.EditRaftPointer, manifest.EditRegion} {
		out = append(out, sub{space{1}, func(x []int) manifest.Edit { return manifest.Edit{Type: t} }}) // nil payload
	}
	// non-serialised members take the value the decoder defines for the edit type (head: Valid, delete: Offset=0/!Valid)
	out = append(out, sub{space{len(u32B), len(u32B), len(u64B)}, func(x []int) manifest.Edit {
		return manifest.Edit{Type: manifest.EditValueLogHead, ValueLog: &manifest.ValueLogMeta{Bucket: u32B[x[0]], FileID: u32B[x[1]], Offset: u64B[x[2]], Valid: true}}
	}})
	out = append(out, sub{space{len(u32B), len(u32B)}, func(x []int) manifest.Edit {
		return manifest.Edit{Type: manifest.EditDeleteValueLog, ValueLog: &manifest.ValueLogMeta{Bucket: u32B[x[0]], FileID: u32B[x[1]]}}
	}})
	out = append(out, sub{space{len(u32B), len(u32B), len(u64B), 2}, func(x []int) manifest.Edit {
		return manifest.Edit{Type: manifest.EditUpdateValueLog, ValueLog: &manifest.ValueLogMeta{Bucket: u32B[x[0]], FileID: u32B[x[1]], Offset: u64B[x[2]], Valid: x[3] == 1}}
	}})
	// raft pointer: every field at {0,max} in all combinations, plus each field over the boundary set with the others at 1
	out = append(out, sub{space{2, 2, 2, 2, 2, 2, 2, 2, 2, 2, 2, 2}, func(x []int) manifest.Edit {
		f := make([]uint64, 12)
		for i := range f {
			if x[i] == 1 {
				f[i] = 1<<64 - 1
				if i == 1 {
					f[i] = 1<<32 - 1
				}
			}
		}
		return manifest.Edit{Type: manifest.EditRaftPointer, Raft: raftPtrFrom(f)}
	}})
	out = append(out, sub{space{12, len(u64B)}, func(x []int) manifest.Edit {
		f := []uint64{1, 1, 1, 1, 1, 1, 1, 1, 1, 1, 1, 1}
		f[x[0]] = u64B[x[1]]
		if x[0] == 1 {
			f[1] = uint64(uint32(f[1]))
		}
		return manifest.Edit{Type: manifest.EditRaftPointer, Raft: raftPtrFrom(f)}
	}})
	out = append(out, sub{space{len(u64B)}, func(x []int) manifest.Edit {
		return manifest.Edit{Type: manifest.EditRegion, Region: &manifest.RegionEdit{Meta: manifest.RegionMeta{ID: u64B[x[0]]}, Delete: true}}
	}})
	out = append(out, sub{space{len(u64S), len(mfRKeys), len(mfRKeys), len(u64S), len(u64S), len(mfStates), len(peers)}, func(x []int) manifest.Edit {
		return manifest.Edit{Type: manifest.EditRegion, Region: &manifest.RegionEdit{Meta: manifest.RegionMeta{ID: u64S[x[0]], StartKey: mfRKeys[x[1]], EndKey: mfRKeys[x[2]],
			Epoch: manifest.RegionEpoch{Version: u64S[x[3]], ConfVersion: u64S[x[4]]}, State: mfStates[x[5]], Peers: peers[x[6]]}}}
	}})
	return out
}

var manifestCodec = codec{
	Name: "manifest.Edit",
	N: func(th bool) int {
		n := 0
		for _, s := range manifestSubs(th) {
			n += s.sp.n()
		}
		return n
	},
	At: func(th bool, i int) val {
		for _, s := range manifestSubs(th) {
			if i < s.sp.n() {
				return editVal(s.mk(s.sp.at(i)))
			}
			i -= s.sp.n()
		}
		panic("index")
	},
	Bases: func() []val {
		fm := &manifest.FileMeta{Level: 1, FileID: 7, Size: 100, Smallest: []byte("aa"), Largest: []byte("bbb"), CreatedAt: 5, ValueSize: 9, Ingest: true}
		return []val{
			editVal(manifest.Edit{Type: manifest.EditAddFile, File: fm}),
			editVal(manifest.Edit{Type: manifest.EditDeleteFile, File: &manifest.FileMeta{}}),
			editVal(manifest.Edit{Type: manifest.EditLogPointer, LogSeg: 3, LogOffset: 300}),
			editVal(manifest.Edit{Type: manifest.EditValueLogHead, ValueLog: &manifest.ValueLogMeta{Bucket: 1, FileID: 2, Offset: 3, Valid: true}}),
			editVal(manifest.Edit{Type: manifest.EditDeleteValueLog, ValueLog: &manifest.ValueLogMeta{Bucket: 1, FileID: 2}}),
			editVal(manifest.Edit{Type: manifest.EditUpdateValueLog, ValueLog: &manifest.ValueLogMeta{Bucket: 1, FileID: 2, Offset: 3, Valid: true}}),
			editVal(manifest.Edit{Type: manifest.EditRaftPointer, Raft: raftPtrFrom([]uint64{1, 2, 3, 4, 5, 6, 7, 8, 9, 10, 11, 12})}),
			editVal(manifest.Edit{Type: manifest.EditRaftPointer}),
			editVal(manifest.Edit{Type: manifest.EditRegion, Region: &manifest.RegionEdit{Meta: manifest.RegionMeta{ID: 9}, Delete: true}}),
			editVal(manifest.Edit{Type: manifest.EditRegion, Region: &manifest.RegionEdit{Meta: manifest.RegionMeta{ID: 9, StartKey: []byte("a"), EndKey: []byte("m"),
				Epoch: manifest.RegionEpoch{Version: 2, ConfVersion: 3}, State: 1, Peers: []manifest.PeerMeta{{StoreID: 1, PeerID: 11}, {StoreID: 2, PeerID: 12}}}}}),
		}
	},
	Decs: []decoder{
		{Name: "manifest.decodeEdit", Strip: 4, Prep: func(in []byte) func() error {
			return func() error { _, err := manifest.VerifDecodeEdit(in); return err }
		}},
		// framed input: the codec prefix (payload magic) would be read as a 1.4 GB frame length, and a complete 4-byte
		// length with a large value is fatal by itself (known finding; every death costs a child restart): the quick
		// tier stops short of a complete length, the mutation family covers the length field
		{Name: "manifest.readEdit", Frame: 4, NoPrefix: true, ArbLen: func(th bool) int { return pick(th, 3, 4) }, Prep: func(in []byte) func() error {
			r := bufio.NewReaderSize(bytes.NewReader(in), 16)
			return func() error { _, err := manifest.VerifReadEdit(r); return err }
		}},
	},
	Alpha:    []byte{0x00, 0x01, 0x07, 0x80, 0xFF},
	ArbLen:   func(th bool) int { return pick(th, 4, 5) },
	Prefixes: [][]byte{nil, []byte("NoKV")},
}

// ---------------------------------------------------------------------------------------
// percolator lock / write records

var (
	pcPrimQ = append(strs(keyAlpha, 2), rep('p', 200))
	pcPrimT = append(strs(keyAlpha, 3), rep('p', 200))
	pcKinds = []pb.Mutation_Op{pb.Mutation_Put, pb.Mutation_Delete, pb.Mutation_Lock, pb.Mutation_Rollback}
)

func lockVal(l percolator.Lock) val {
	return val{
		Label: fmt.Sprintf("lock{primary=%s ts=%s ttl=%s kind=%d min=%s}", hexs(l.Primary), u64name(l.Ts), u64name(l.TTL), l.Kind, u64name(l.MinCommitTs)), Class: "lock",
		Enc: func() ([]byte, error) { return percolator.EncodeLock(l), nil },
		Ref: func() []seg {
			return []seg{{"version", []byte{1}}, {"primaryLen", uv(uint64(len(l.Primary)))}, {"primary", l.Primary}, {"ts", uv(l.Ts)}, {"ttl", uv(l.TTL)},
				{"kind", []byte{byte(l.Kind)}}, {"minCommitTs", uv(l.MinCommitTs)}}
		},
		Check: func(enc []byte) string {
			g, err := percolator.DecodeLock(enc)
			if err != nil {
				return "err=" + err.Error()
			}
			var d differ
			d.check("primary", beq(g.Primary, l.Primary))
			d.check("ts", g.Ts == l.Ts)
			d.check("ttl", g.TTL == l.TTL)
			d.check("kind", g.Kind == l.Kind)
			d.check("minCommitTs", g.MinCommitTs == l.MinCommitTs)
			return d.str()
		},
	}
}

var lockCodec = codec{
	Name: "percolator.Lock",
	N: func(th bool) int {
		return space{pick(th, len(pcPrimQ), len(pcPrimT)), len(u64B), len(u64S), len(pcKinds), len(u64B)}.n()
	},
	At: func(th bool, i int) val {
		ps := pcPrimQ
		if th {
			ps = pcPrimT
		}
		x := space{len(ps), len(u64B), len(u64S), len(pcKinds), len(u64B)}.at(i)
		return lockVal(percolator.Lock{Primary: ps[x[0]], Ts: u64B[x[1]], TTL: u64S[x[2]], Kind: pcKinds[x[3]], MinCommitTs: u64B[x[4]]})
	},
	Bases: func() []val {
		return []val{lockVal(percolator.Lock{Primary: []byte("pk"), Ts: 10, TTL: 3000, Kind: pb.Mutation_Put, MinCommitTs: 11}),
			lockVal(percolator.Lock{Primary: nil, Ts: 1<<64 - 1, TTL: 0, Kind: pb.Mutation_Rollback, MinCommitTs: 0})}
	},
	Decs: []decoder{{Name: "percolator.DecodeLock", Prep: func(in []byte) func() error {
		return func() error { _, err := percolator.DecodeLock(in); return err }
	}}},
	Alpha:    []byte{0x00, 0x01, 'a', 0x80, 0xFF},
	ArbLen:   func(th bool) int { return pick(th, 5, 6) },
	Prefixes: [][]byte{nil, {1}},
}

func writeVal(w percolator.Write) val {
	return val{
		Label: fmt.Sprintf("write{kind=%d start=%s short=%s}", w.Kind, u64name(w.StartTs), hexs(w.ShortValue)), Class: "write",
		Enc: func() ([]byte, error) { return percolator.EncodeWrite(w), nil },
		Ref: func() []seg {
			ss := []seg{{"version", []byte{1}}, {"kind", []byte{byte(w.Kind)}}, {"startTs", uv(w.StartTs)}}
			if len(w.ShortValue) > 0 {
				return append(ss, seg{"hasShort", []byte{1}}, seg{"shortLen", uv(uint64(len(w.ShortValue)))}, seg{"short", w.ShortValue})
			}
			return append(ss, seg{"hasShort", []byte{0}})
		},
		Check: func(enc []byte) string {
			g, err := percolator.DecodeWrite(enc)
			if err != nil {
				return "err=" + err.Error()
			}
			var d differ
			d.check("kind", g.Kind == w.Kind)
			d.check("startTs", g.StartTs == w.StartTs)
			d.check("short", beq(g.ShortValue, w.ShortValue))
			return d.str()
		},
	}
}

var writeCodec = codec{
	Name: "percolator.Write",
	N:    func(th bool) int { return space{len(pcKinds), len(u64B), len(pcPrimT)}.n() },
	At: func(th bool, i int) val {
		x := space{len(pcKinds), len(u64B), len(pcPrimT)}.at(i)
		return writeVal(percolator.Write{Kind: pcKinds[x[0]], StartTs: u64B[x[1]], ShortValue: pcPrimT[x[2]]})
	},
	Bases: func() []val {
		return []val{writeVal(percolator.Write{Kind: pb.Mutation_Put, StartTs: 10, ShortValue: []byte("sv")}), writeVal(percolator.Write{Kind: pb.Mutation_Rollback, StartTs: 1 << 63})}
	},
	Decs: []decoder{{Name: "percolator.DecodeWrite", Prep: func(in []byte) func() error {
		return func() error { _, err := percolator.DecodeWrite(in); return err }
	}}},
	Alpha:    []byte{0x00, 0x01, 'a', 0x80, 0xFF},
	ArbLen:   func(th bool) int { return pick(th, 5, 6) },
	Prefixes: [][]byte{nil, {1}},
}

// ---------------------------------------------------------------------------------------
// raft WAL payloads

var raftGroups = []uint64{0, 1, 1 << 63, 1<<64 - 1}

func raftEntryAlpha(th bool) []myraft.Entry {
	terms := []uint64{1, 1<<64 - 1}
	types := []myraft.EntryType{myraft.EntryNormal, myraft.EntryConfChange}
	datas := [][]byte{nil, []byte("d"), rep('D', 200)}
	if th {
		terms = []uint64{0, 1, 1<<64 - 1}
		types = append(types, myraft.EntryConfChangeV2)
		datas = append(datas, []byte{})
	}
	var out []myraft.Entry
	for _, t := range terms {
		for _, i := range terms {
			for _, ty := range types {
				for _, d := range datas {
					out = append(out, myraft.Entry{Term: t, Index: i, Type: ty, Data: d})
				}
			}
		}
	}
	return out
}

func raftEntriesVal(g uint64, es []myraft.Entry) val {
	return val{
		Label: fmt.Sprintf("raftentries{group=%s n=%d %s}", u64name(g), len(es), entriesLabel(es)), Class: "entries",
		Enc: func() ([]byte, error) { return engine.VerifEncodeRaftEntries(g, es) },
		Ref: func() []seg {
			ss := []seg{{"groupID", uv(g)}, {"count", uv(uint64(len(es)))}}
			for i := range es {
				b, _ := es[i].Marshal()
				ss = append(ss, seg{fmt.Sprintf("entry%d.size", i), uv(uint64(len(b)))}, seg{fmt.Sprintf("entry%d.body", i), b})
			}
			return ss
		},
		Check: func(enc []byte) string {
			g2, got, err := engine.VerifDecodeRaftEntries(enc)
			if err != nil {
				return "err=" + err.Error()
			}
			var d differ
			d.check("groupID", g2 == g)
			d.check("count", len(got) == len(es))
			for i := 0; i < len(got) && i < len(es); i++ {
				d.check(fmt.Sprintf("entry%d", i), got[i].Term == es[i].Term && got[i].Index == es[i].Index && got[i].Type == es[i].Type && beq(got[i].Data, es[i].Data))
			}
			return d.str()
		},
	}
}

func entriesLabel(es []myraft.Entry) string {
	s := ""
	for _, e := range es {
		s += fmt.Sprintf("(t=%s i=%s ty=%d data=%s)", u64name(e.Term), u64name(e.Index), e.Type, hexs(e.Data))
	}
	if len(s) > 200 {
		s = s[:200] + ".."
	}
	return s
}

var raftEntriesCodec = codec{
	Name: "raft.Entries",
	N: func(th bool) int {
		a := len(raftEntryAlpha(th))
		return len(raftGroups) * (1 + a + a*a)
	},
	At: func(th bool, i int) val {
		al := raftEntryAlpha(th)
		a := len(al)
		g := raftGroups[i%len(raftGroups)]
		i /= len(raftGroups)
		switch {
		case i == 0:
			return raftEntriesVal(g, nil)
		case i <= a:
			return raftEntriesVal(g, []myraft.Entry{al[i-1]})
		default:
			i -= 1 + a
			return raftEntriesVal(g, []myraft.Entry{al[i/a], al[i%a]})
		}
	},
	Bases: func() []val {
		return []val{raftEntriesVal(1, []myraft.Entry{{Term: 2, Index: 5, Data: []byte("cmd")}, {Term: 2, Index: 6, Type: myraft.EntryConfChange, Data: []byte("cc")}}),
			raftEntriesVal(1<<64-1, nil)}
	},
	Decs: []decoder{{Name: "engine.decodeRaftEntries", Prep: func(in []byte) func() error {
		return func() error { _, _, err := engine.VerifDecodeRaftEntries(in); return err }
	}}},
	Alpha:  []byte{0x00, 0x01, 0x08, 0x80, 0xFF},
	ArbLen: func(th bool) int { return pick(th, 5, 7) },
}

func hardStateVal(g uint64, st myraft.HardState) val {
	return val{
		Label: fmt.Sprintf("hardstate{group=%s term=%s vote=%s commit=%s}", u64name(g), u64name(st.Term), u64name(st.Vote), u64name(st.Commit)), Class: "hardstate",
		Enc: func() ([]byte, error) { return engine.VerifEncodeRaftHardState(g, st) },
		Ref: func() []seg {
			b, _ := st.Marshal()
			return []seg{{"groupID", uv(g)}, {"size", uv(uint64(len(b)))}, {"body", b}}
		},
		Check: func(enc []byte) string {
			g2, got, err := engine.VerifDecodeRaftHardState(enc)
			if err != nil {
				return "err=" + err.Error()
			}
			var d differ
			d.check("groupID", g2 == g)
			d.check("term", got.Term == st.Term)
			d.check("vote", got.Vote == st.Vote)
			d.check("commit", got.Commit == st.Commit)
			return d.str()
		},
	}
}

var hardStateCodec = codec{
	Name: "raft.HardState",
	N:    func(th bool) int { return space{len(raftGroups), len(u64B), len(u64B), len(u64B)}.n() },
	At: func(th bool, i int) val {
		x := space{len(raftGroups), len(u64B), len(u64B), len(u64B)}.at(i)
		return hardStateVal(raftGroups[x[0]], myraft.HardState{Term: u64B[x[1]], Vote: u64B[x[2]], Commit: u64B[x[3]]})
	},
	Bases: func() []val {
		return []val{hardStateVal(1, myraft.HardState{Term: 3, Vote: 2, Commit: 9}), hardStateVal(0, myraft.HardState{})}
	},
	Decs: []decoder{{Name: "engine.decodeRaftHardState", Prep: func(in []byte) func() error {
		return func() error { _, _, err := engine.VerifDecodeRaftHardState(in); return err }
	}}},
	Alpha:  []byte{0x00, 0x01, 0x08, 0x80, 0xFF},
	ArbLen: func(th bool) int { return pick(th, 5, 7) },
}

var (
	snapDatas  = [][]byte{nil, []byte("s"), rep('S', 300)}
	snapVoters = [][]uint64{nil, {1}, {1, 2, 1<<64 - 1}}
	snapLearn  = [][]uint64{nil, {3}}
)

func snapshotVal(g uint64, s myraft.Snapshot) val {
	return val{
		Label: fmt.Sprintf("snapshot{group=%s data=%s idx=%s term=%s voters=%v learners=%v auto=%v}", u64name(g), hexs(s.Data), u64name(s.Metadata.Index), u64name(s.Metadata.Term),
			s.Metadata.ConfState.Voters, s.Metadata.ConfState.Learners, s.Metadata.ConfState.AutoLeave), Class: "snapshot",
		Enc: func() ([]byte, error) { return engine.VerifEncodeRaftSnapshot(g, s) },
		Ref: func() []seg {
			b, _ := s.Marshal()
			return []seg{{"groupID", uv(g)}, {"size", uv(uint64(len(b)))}, {"body", b}}
		},
		Check: func(enc []byte) string {
			g2, got, err := engine.VerifDecodeRaftSnapshot(enc)
			if err != nil {
				return "err=" + err.Error()
			}
			var d differ
			d.check("groupID", g2 == g)
			d.check("data", beq(got.Data, s.Data))
			d.check("index", got.Metadata.Index == s.Metadata.Index)
			d.check("term", got.Metadata.Term == s.Metadata.Term)
			d.check("voters", fmt.Sprint(got.Metadata.ConfState.Voters) == fmt.Sprint(s.Metadata.ConfState.Voters))
			d.check("learners", fmt.Sprint(got.Metadata.ConfState.Learners) == fmt.Sprint(s.Metadata.ConfState.Learners))
			d.check("autoleave", got.Metadata.ConfState.AutoLeave == s.Metadata.ConfState.AutoLeave)
			return d.str()
		},
	}
}

var snapshotCodec = codec{
	Name: "raft.Snapshot",
	N: func(th bool) int {
		return space{len(raftGroups), len(snapDatas), len(u64S), len(u64S), len(snapVoters), len(snapLearn), 2}.n()
	},
	At: func(th bool, i int) val {
		x := space{len(raftGroups), len(snapDatas), len(u64S), len(u64S), len(snapVoters), len(snapLearn), 2}.at(i)
		return snapshotVal(raftGroups[x[0]], myraft.Snapshot{Data: snapDatas[x[1]], Metadata: myraft.SnapshotMetadata{Index: u64S[x[2]], Term: u64S[x[3]],
			ConfState: myraft.ConfState{Voters: snapVoters[x[4]], Learners: snapLearn[x[5]], AutoLeave: x[6] == 1}}})
	},
	Bases: func() []val {
		return []val{snapshotVal(1, myraft.Snapshot{Data: []byte("snap"), Metadata: myraft.SnapshotMetadata{Index: 5, Term: 2, ConfState: myraft.ConfState{Voters: []uint64{1, 2}}}})}
	},
	Decs: []decoder{{Name: "engine.decodeRaftSnapshot", Prep: func(in []byte) func() error {
		return func() error { _, _, err := engine.VerifDecodeRaftSnapshot(in); return err }
	}}},
	Alpha:  []byte{0x00, 0x01, 0x0a, 0x80, 0xFF},
	ArbLen: func(th bool) int { return pick(th, 5, 7) },
}

// ---------------------------------------------------------------------------------------
// raft command frames

func cmdRequests() []*pb.Request {
	return []*pb.Request{
		{CmdType: pb.CmdType_CMD_GET, Cmd: &pb.Request_Get{Get: &pb.GetRequest{Key: []byte("k"), Version: 1<<64 - 1}}},
		{CmdType: pb.CmdType_CMD_GET, Cmd: &pb.Request_Get{Get: &pb.GetRequest{}}},
		{CmdType: pb.CmdType_CMD_PREWRITE, Cmd: &pb.Request_Prewrite{Prewrite: &pb.PrewriteRequest{Mutations: []*pb.Mutation{{Op: pb.Mutation_Put, Key: []byte("a"), Value: rep('v', 100)},
			{Op: pb.Mutation_Delete, Key: []byte{0xff}, AssertionNotExist: true}}, PrimaryLock: []byte("a"), StartVersion: 1 << 63, LockTtl: 3000, TxnSize: 2, MinCommitTs: 1}}},
		{CmdType: pb.CmdType_CMD_COMMIT, Cmd: &pb.Request_Commit{Commit: &pb.CommitRequest{Keys: [][]byte{[]byte("a"), {}}, StartVersion: 5, CommitVersion: 6}}},
		{CmdType: pb.CmdType_CMD_INVALID},
		{CmdType: pb.CmdType_CMD_SCAN},
	}
}

func cmdHeaders() []*pb.CmdHeader {
	return []*pb.CmdHeader{nil, {}, {RegionId: 1, PeerId: 2, RequestId: 1<<64 - 1, ReadQuorum: true, RegionEpoch: &pb.RegionEpoch{ConfVer: 1, Version: 1<<64 - 1}}}
}

func cmdVal(req *pb.RaftCmdRequest) val {
	lbl := req.String()
	if len(lbl) > 300 {
		lbl = lbl[:300] + ".."
	}
	return val{
		Label: "cmd{" + lbl + "}", Class: "cmd",
		Enc: func() ([]byte, error) { return command.Encode(req) },
		Ref: func() []seg {
			b, _ := proto.Marshal(req)
			return []seg{{"prefix", []byte{command.PayloadPrefix}}, {"body", b}}
		},
		Check: func(enc []byte) string {
			got, is, err := command.Decode(enc)
			if err != nil {
				return "err=" + err.Error()
			}
			var d differ
			d.check("isCommand", is)
			d.check("request", got != nil && proto.Equal(got, req))
			return d.str()
		},
	}
}

var cmdCodec = codec{
	Name: "command.Frame",
	N: func(th bool) int {
		a := len(cmdRequests())
		return len(cmdHeaders()) * (1 + a + a*a)
	},
	At: func(th bool, i int) val {
		hs, rs := cmdHeaders(), cmdRequests()
		a := len(rs)
		h := hs[i%len(hs)]
		i /= len(hs)
		req := &pb.RaftCmdRequest{Header: h}
		switch {
		case i == 0:
		case i <= a:
			req.Requests = []*pb.Request{rs[i-1]}
		default:
			i -= 1 + a
			req.Requests = []*pb.Request{rs[i/a], rs[i%a]}
		}
		return cmdVal(req)
	},
	Bases: func() []val {
		hs, rs := cmdHeaders(), cmdRequests()
		return []val{cmdVal(&pb.RaftCmdRequest{Header: hs[2], Requests: []*pb.Request{rs[0], rs[2]}}), cmdVal(&pb.RaftCmdRequest{})}
	},
	Decs: []decoder{{Name: "command.Decode", Prep: func(in []byte) func() error {
		return func() error { _, _, err := command.Decode(in); return err }
	}}},
	Alpha:    []byte{0x00, 0x0a, 0x12, 0x80, 0xFF},
	ArbLen:   func(th bool) int { return pick(th, 4, 6) },
	Prefixes: [][]byte{nil, {command.PayloadPrefix}},
}

// ---------------------------------------------------------------------------------------
// WAL record framing (the container of entry records and raft payloads)

var walTypes = []wal.RecordType{0, 1, 2, 3, 255}

func walVal(t wal.RecordType, payload []byte) val {
	return val{
		Label: fmt.Sprintf("walrecord{type=%d payload=%s}", t, hexs(payload)), Class: "walrecord",
		Enc: func() ([]byte, error) {
			var buf bytes.Buffer
			n, err := wal.EncodeRecord(&buf, t, payload)
			if err == nil && n != buf.Len() {
				err = fmt.Errorf("EncodeRecord reported %d bytes, wrote %d", n, buf.Len())
			}
			return buf.Bytes(), err
		},
		Ref: func() []seg {
			body := append([]byte{byte(t)}, payload...)
			return []seg{{"length", be32(uint32(len(body)))}, {"type", []byte{byte(t)}}, {"payload", payload}, {"crc", be32(crc32.Checksum(body, castagnoli))}}
		},
		Check: func(enc []byte) string {
			r := bytes.NewReader(append(append([]byte{}, enc...), enc...))
			var d differ
			for k := 0; k < 2; k++ {
				t2, p2, n, err := wal.DecodeRecord(r)
				if err != nil {
					return fmt.Sprintf("DecodeRecord#%d.err=%v", k, err)
				}
				d.check("type", t2 == t)
				d.check("payload", beq(p2, payload))
				d.check("length", int(n) == len(payload)+1)
			}
			if _, _, _, err := wal.DecodeRecord(r); !errors.Is(err, io.EOF) {
				d.check("eof", false)
			}
			return d.str()
		},
	}
}

var walCodec = codec{
	Name: "wal.Record",
	N:    func(th bool) int { return space{len(walTypes), len(pcPrimT)}.n() },
	At: func(th bool, i int) val {
		x := space{len(walTypes), len(pcPrimT)}.at(i)
		return walVal(walTypes[x[0]], pcPrimT[x[1]])
	},
	Bases: func() []val { return []val{walVal(0, []byte("payload")), walVal(3, nil)} },
	Decs: []decoder{{Name: "wal.DecodeRecord", CRC: true, Prep: func(in []byte) func() error {
		r := bytes.NewReader(in)
		return func() error { _, _, _, err := wal.DecodeRecord(r); return err }
	}}},
	Alpha: []byte{0x00, 0x01, 'a', 0x80, 0xFF},
	// a complete 4-byte length prefix with a large value is fatal by itself (see the known finding), and every such
	// death costs a child restart: the quick tier stops short of a complete prefix, the mutation family covers the prefix
	ArbLen: func(th bool) int { return pick(th, 3, 4) },
}

var codecs = []*codec{&entryCodec, &vptrCodec, &ikeyCodec, &vstructCodec, &manifestCodec, &lockCodec, &writeCodec, &raftEntriesCodec, &hardStateCodec, &snapshotCodec, &cmdCodec, &walCodec}
