//go:build verif

package main

import (
	"bytes"
	"encoding/binary"
	"fmt"
	"strings"
)

// seg is one field of the reference layout of an encoding.
type seg struct {
	Name string
	B    []byte
}

func cat(ss []seg) []byte {
	var out []byte
	for _, s := range ss {
		out = append(out, s.B...)
	}
	return out
}

// fieldAt names the reference field containing byte offset k ("end" past the last byte).
func fieldAt(ss []seg, k int) string {
	for _, s := range ss {
		if k < len(s.B) {
			return s.Name
		}
		k -= len(s.B)
	}
	return "end"
}

func uv(x uint64) []byte { return binary.AppendUvarint(nil, x) }
func be32(x uint32) []byte {
	var b [4]byte
	binary.BigEndian.PutUint32(b[:], x)
	return b[:]
}
func le32(x uint32) []byte {
	var b [4]byte
	binary.LittleEndian.PutUint32(b[:], x)
	return b[:]
}
func be64(x uint64) []byte {
	var b [8]byte
	binary.BigEndian.PutUint64(b[:], x)
	return b[:]
}

// field-boundary grammar of DESIGN §2.5
var u64B = []uint64{0, 1, 127, 128, 1<<16 - 1, 1 << 31, 1<<32 - 1, 1<<63 - 1, 1 << 63, 1<<64 - 1}
var u64S = []uint64{0, 1, 1<<64 - 1} // short list for wide products
var u32B = []uint32{0, 1, 127, 128, 1<<16 - 1, 1 << 31, 1<<32 - 1}

// strs returns all byte strings over alpha of length 0..maxLen (shortest first).
func strs(alpha []byte, maxLen int) [][]byte {
	out := [][]byte{{}}
	prev := [][]byte{{}}
	for l := 1; l <= maxLen; l++ {
		var next [][]byte
		for _, p := range prev {
			for _, a := range alpha {
				next = append(next, append(append([]byte{}, p...), a))
			}
		}
		out = append(out, next...)
		prev = next
	}
	return out
}

var keyAlpha = []byte{0x00, 'a', 'b', 0xFF}

func rep(b byte, n int) []byte { return bytes.Repeat([]byte{b}, n) }

// space is a mixed-radix index space: value i <-> one choice per dimension.
type space []int

func (s space) n() int {
	n := 1
	for _, d := range s {
		n *= d
	}
	return n
}
func (s space) at(i int) []int {
	out := make([]int, len(s))
	for k := len(s) - 1; k >= 0; k-- {
		out[k] = i % s[k]
		i /= s[k]
	}
	return out
}

func hexs(b []byte) string {
	if len(b) > 48 {
		return fmt.Sprintf("%x..(%d bytes)", b[:48], len(b))
	}
	return fmt.Sprintf("%x", b)
}

func u64name(x uint64) string {
	switch x {
	case 1<<64 - 1:
		return "2^64-1"
	case 1 << 63:
		return "2^63"
	case 1<<63 - 1:
		return "2^63-1"
	case 1<<32 - 1:
		return "2^32-1"
	case 1 << 31:
		return "2^31"
	case 1 << 24:
		return "2^24"
	case 1<<16 - 1:
		return "2^16-1"
	}
	return fmt.Sprint(x)
}

type differ struct{ d []string }

func (d *differ) check(name string, ok bool) {
	if !ok {
		d.d = append(d.d, name)
	}
}
func (d *differ) str() string { return strings.Join(d.d, ",") }

func beq(a, b []byte) bool { return bytes.Equal(a, b) } // nil == empty: no encoding distinguishes them
