//go:build verif

// C12 — clean close and reopen preserve contents (every key, every stored version, expiry
// metadata) and timestamp monotonicity (commits after a reopen get versions larger than
// every version already stored).
// Explicit-state search (seqmc) over sequences of writes (transactional, versioned, plain;
// inline / value-log values, deletes, expiring entries), maintenance steps that decide where
// the data live at close time (rotate, flush, L0->ingest move, ingest drain) and close+reopen
// at any position, on a real DB; after every step the complete internal all-versions scan is
// compared with a map.
package main

import (
	"bytes"
	"errors"
	"fmt"
	"math"
	"os"
	"regexp"
	"sort"
	"strings"

	NoKV "github.com/feichai0017/NoKV"
	"github.com/feichai0017/NoKV/kv"
	"github.com/feichai0017/NoKV/utils"

	"verif/lib/dbh"
	"verif/lib/seqmc"
	"verif/lib/vr"
)

// Client op syntax
//
//	t:<key>:<kind>       one transaction writing key; kind v small, V value-log sized, d delete,
//	                     x already expired (absolute expiry 1), f expires far in the future
//	t2                   one transaction writing a (small) and ab (value-log sized) together
//	vs:<key>:<k>         SetVersionedEntry (k = v|V) at an explicit version = greatest stored
//	                     version + 2 (versions stay monotone with write order; the local
//	                     oracle only learns about them at the next open, so transaction ops
//	                     are disabled between a versioned write and the next reopen)
//	vd:<key>             DeleteVersionedEntry at greatest stored version + 2
//	p:<key>:<kind>       plain (non-transactional) write of the same kinds
type params struct {
	Name       string
	Cfg        dbh.Config
	ClientOps  []string
	MaxClient  int
	MaxMaint   int
	MaxReopen  int
	Plain      bool // history uses the plain API only (no commit-version oracle)
	BaseDir    string
	MaintAllow map[string]bool
	Macro      bool // offer "rf" (rotate + flush everything) instead of separate rotate / flush steps
}

type mkey struct {
	key string
	ver uint64
}

type mval struct {
	del bool
	val []byte
	exp uint64
	seq int
}

type inst struct {
	p        *params
	h        *dbh.H
	dir      string
	model    map[mkey]mval
	keys     []string
	nClient  int
	nMaint   int
	nReopen  int
	seq      int
	lastTs   uint64 // version of the latest successful commit in this process lifetime of the model (never reset)
	floor    uint64 // greatest version stored when the DB was last opened
	floorAt  string // container class that held that version just before the close
	reopened bool   // a reopen happened since the last commit
	dirtyVer bool   // a versioned write happened since the last open
	pending  string
	pendDsc  string
	path     []string
	oos      bool   // an out-of-scope divergence was seen: stop exploring below this state
	control  bool   // this instance is a control run (never starts another control run)
	readAt   uint64 // control run: read at this version (the read ts the real run had) instead of a fresh transaction's
	lastRead uint64 // read ts used by the latest point-read check
}

var dirSeq int
var opCount = map[string]int64{}

const farFuture = uint64(1) << 40

func newInst(p *params) seqmc.Instance {
	dirSeq++
	dir := fmt.Sprintf("%s/x%d", p.BaseDir, dirSeq)
	_ = os.RemoveAll(dir)
	if err := os.MkdirAll(dir, 0o755); err != nil {
		panic(err)
	}
	h, err := dbh.Open(dir, p.Cfg)
	in := &inst{p: p, h: h, dir: dir, model: map[mkey]mval{}}
	if err != nil {
		in.pending, in.pendDsc = "open-failed", err.Error()
	}
	seen := map[string]bool{}
	for _, op := range p.ClientOps {
		f := strings.Split(op, ":")
		ks := []string{}
		if f[0] == "t2" {
			ks = []string{"a", "ab"}
		} else {
			ks = []string{f[1]}
		}
		for _, k := range ks {
			if !seen[k] {
				seen[k] = true
				in.keys = append(in.keys, k)
			}
		}
	}
	sort.Strings(in.keys)
	return in
}

func (in *inst) Close() {
	if in.h != nil {
		_ = in.h.Close()
	}
	_ = os.RemoveAll(in.dir)
}

func isClient(op string) bool {
	return strings.HasPrefix(op, "t:") || op == "t2" || strings.HasPrefix(op, "vs:") || strings.HasPrefix(op, "vd:") || strings.HasPrefix(op, "p:")
}

func (in *inst) Enabled() []string {
	if in.pending != "" || in.oos || in.h == nil || in.h.DB == nil {
		return nil
	}
	var ops []string
	if in.nClient < in.p.MaxClient {
		for _, op := range in.p.ClientOps {
			if in.dirtyVer && (strings.HasPrefix(op, "t:") || op == "t2") {
				continue
			}
			ops = append(ops, op)
		}
	}
	if in.nMaint < in.p.MaxMaint {
		rf := false
		for _, op := range in.h.MaintMenu(false, false) {
			if in.p.Macro && (op == "rotate" || op == "flush") {
				if rf {
					continue
				}
				rf, op = true, "rf"
			}
			cls := op
			if i := strings.IndexByte(op, ':'); i >= 0 {
				cls = op[:i]
			}
			if in.p.MaintAllow[cls] {
				ops = append(ops, op)
			}
		}
	}
	if in.nReopen < in.p.MaxReopen {
		ops = append(ops, "reopen")
	}
	return ops
}

func (in *inst) value(kind byte, key string) []byte {
	v := []byte(fmt.Sprintf("%s#%d", key, in.seq))
	if kind == 'V' {
		for len(v) < 48 {
			v = append(v, '.')
		}
	}
	return v
}

func expiry(kind byte) uint64 {
	switch kind {
	case 'x':
		return 1
	case 'f':
		return farFuture
	}
	return 0
}

type entry struct {
	key  string
	ver  uint64
	del  bool
	val  []byte
	exp  uint64
	meta byte
}

// scan reads every stored version of the default column family through the internal
// iterator; value-log pointers are resolved with an exact-version point read.
func (in *inst) scan() (out []entry, fault string) {
	defer func() {
		if r := recover(); r != nil {
			fault = fmt.Sprintf("panic: %.200v", r)
		}
	}()
	db := in.h.DB
	it := db.NewInternalIterator(&utils.Options{IsAsc: true})
	defer it.Close()
	for it.Rewind(); it.Valid(); it.Next() {
		e := it.Item().Entry()
		cf, uk, ver := kv.SplitInternalKey(e.Key)
		if cf != kv.CFDefault || bytes.HasPrefix(uk, []byte("!NoKV!")) {
			continue
		}
		x := entry{key: string(uk), ver: ver, del: e.Meta&kv.BitDelete != 0, exp: e.ExpiresAt, meta: e.Meta &^ kv.BitValuePointer}
		if e.Meta&kv.BitValuePointer != 0 {
			// resolve the pointer itself (a lookup by version would answer "newest <= ver",
			// which is a different question when versions were written out of order)
			val, err := db.VerifReadValuePtr(e.Value)
			if err != nil {
				return out, fmt.Sprintf("value of %q@%d unreadable: %v", uk, ver, err)
			}
			x.val = val
		} else {
			x.val = append([]byte{}, e.Value...)
		}
		out = append(out, x)
		if len(out) > 500 {
			return out, "internal iterator does not terminate"
		}
	}
	return out, ""
}

func dump(es []entry) string {
	var sb strings.Builder
	for _, e := range es {
		fmt.Fprintf(&sb, "%q@%d del=%v exp=%d val=%q\n", e.key, e.ver, e.del, e.exp, e.val)
	}
	return sb.String()
}

var reContainer = regexp.MustCompile(`^(mem|imm\[\d+\]|L\d+\.t\[\d+\]=\w+|L\d+\.ing\[\d+\]\[\d+\]=\w+):$`)

// locate names the container classes holding key@ver (mem, imm, L0.t, L6.ing, L6.t ...).
func (in *inst) locate(key string, ver uint64) string {
	needle := fmt.Sprintf("  0/%q@%d ", key, ver)
	shape := in.h.DB.VerifLSM().VerifShape(false)
	var cur string
	var out []string
	for _, line := range strings.Split(shape, "\n") {
		if m := reContainer.FindStringSubmatch(line); m != nil {
			cur = m[1]
			continue
		}
		if strings.HasPrefix(line, needle) {
			cls := cur
			if i := strings.IndexAny(cls, "[="); i >= 0 {
				cls = cls[:i]
			}
			out = append(out, cls)
		}
	}
	if len(out) == 0 {
		return "nowhere"
	}
	return strings.Join(out, ",")
}

func (in *inst) fail(sig, format string, a ...any) {
	if in.pending == "" {
		in.pending, in.pendDsc = sig, fmt.Sprintf(format, a...)
	}
}

func (in *inst) Apply(op string) (bool, error) {
	in.path = append(in.path, op)
	if op == "reopen" {
		return in.reopen()
	}
	if !isClient(op) {
		in.nMaint++
		changed, err := in.h.Maint(op)
		var ie *dbh.ImplError
		if err != nil {
			if errors.As(err, &ie) {
				opCount["impl-error"]++
				return true, nil
			}
			if strings.Contains(err.Error(), "panicked") {
				in.fail("maintenance-panic:"+opClass(op), "%v", err)
				return true, nil
			}
			return false, err
		}
		if !changed {
			in.nMaint--
		} else {
			opCount[opClass(op)]++
		}
		return changed, nil
	}
	in.nClient++
	in.seq++
	opCount[opClass(op)]++
	f := strings.Split(op, ":")
	db := in.h.DB
	switch f[0] {
	case "t", "t2":
		type w struct {
			key  string
			kind byte
		}
		ws := []w{}
		if f[0] == "t2" {
			ws = []w{{"a", 'v'}, {"ab", 'V'}}
		} else {
			ws = []w{{f[1], f[2][0]}}
		}
		before, fault := in.scan()
		if fault != "" {
			in.fail("scan-failed", "%s", fault)
			return true, nil
		}
		t := db.NewTransaction(true)
		vals := map[string]mval{}
		for _, x := range ws {
			mv := mval{del: x.kind == 'd', exp: expiry(x.kind), seq: in.seq}
			var err error
			if x.kind == 'd' {
				err = t.Delete([]byte(x.key))
			} else {
				mv.val = in.value(x.kind, x.key)
				e := kv.NewEntry([]byte(x.key), mv.val)
				e.ExpiresAt = mv.exp
				err = t.SetEntry(e)
			}
			if err != nil {
				t.Discard()
				in.fail("write-error:txn-set", "%s: %v", op, err)
				return true, nil
			}
			vals[x.key] = mv
		}
		if err := t.Commit(); err != nil {
			in.fail("write-error:commit", "%s: Commit returned %v", op, err)
			return true, nil
		}
		// the commit's version: the entries that are new or changed since `before`
		after, fault := in.scan()
		if fault != "" {
			in.fail("scan-failed", "%s", fault)
			return true, nil
		}
		old := map[mkey]entry{}
		for _, e := range before {
			old[mkey{e.key, e.ver}] = e
		}
		vers := map[uint64]bool{}
		for _, e := range after {
			o, ok := old[mkey{e.key, e.ver}]
			if !ok || o.del != e.del || !bytes.Equal(o.val, e.val) || o.exp != e.exp {
				if _, mine := vals[e.key]; mine {
					vers[e.ver] = true
				}
			}
		}
		if len(vers) != 1 {
			in.fail("commit-not-at-one-version", "%s: the commit's writes appear at %d versions (before: %s after: %s)", op, len(vers), dump(before), dump(after))
			return true, nil
		}
		var v uint64
		for x := range vers {
			v = x
		}
		for k, mv := range vals {
			in.model[mkey{k, v}] = mv
		}
		// C12 timestamp monotonicity: above every version stored at the last open, and above
		// every earlier commit
		if in.reopened && v <= in.floor {
			in.fail("commit-version-not-above-stored-after-reopen max-was-in="+in.floorAt, "%s committed at version %d after a reopen, but version %d was already stored when the DB was opened (held in %s before the close)", op, v, in.floor, in.floorAt)
		} else if v <= in.lastTs {
			in.fail("commit-version-not-increasing", "%s committed at version %d, the previous commit had version %d", op, v, in.lastTs)
		}
		in.reopened = false
		if v > in.lastTs {
			in.lastTs = v
		}
	case "vs", "vd":
		var ver uint64
		for k := range in.model {
			if k.ver > ver {
				ver = k.ver
			}
		}
		if in.lastTs > ver {
			ver = in.lastTs
		}
		ver += 2
		in.dirtyVer = true
		mv := mval{seq: in.seq}
		var err error
		if f[0] == "vd" {
			mv.del = true
			err = db.DeleteVersionedEntry(kv.CFDefault, []byte(f[1]), ver)
		} else {
			mv.val = in.value(f[2][0], f[1])
			err = db.SetVersionedEntry(kv.CFDefault, []byte(f[1]), ver, mv.val, 0)
		}
		if err != nil {
			in.fail("write-error:versioned", "%s: %v", op, err)
			return true, nil
		}
		in.model[mkey{f[1], ver}] = mv
	case "p":
		kind := f[2][0]
		mv := mval{del: kind == 'd', exp: expiry(kind), seq: in.seq}
		var err error
		switch kind {
		case 'd':
			err = db.Del([]byte(f[1]))
		case 'x', 'f':
			mv.val = in.value(kind, f[1])
			err = db.VerifSetExpiring(kv.CFDefault, []byte(f[1]), mv.val, mv.exp)
		default:
			mv.val = in.value(kind, f[1])
			err = db.Set([]byte(f[1]), mv.val)
		}
		if err != nil {
			in.fail("write-error:plain", "%s: %v", op, err)
			return true, nil
		}
		in.model[mkey{f[1], math.MaxUint64}] = mv
	}
	return true, nil
}

func opClass(op string) string {
	if i := strings.IndexByte(op, ':'); i >= 0 {
		return op[:i]
	}
	return op
}

func (in *inst) reopen() (bool, error) {
	in.nReopen++
	opCount["reopen"]++
	before, fault := in.scan()
	if fault != "" {
		in.fail("scan-failed", "before close: %s", fault)
		return true, nil
	}
	// where does every entry live right before the close (for signatures)
	where := map[mkey]string{}
	var maxVer uint64
	maxAt := "nowhere"
	for _, e := range before {
		where[mkey{e.key, e.ver}] = in.locate(e.key, e.ver)
		if e.ver >= maxVer {
			maxVer, maxAt = e.ver, where[mkey{e.key, e.ver}]
		}
	}
	// point read of every stored version right before the close (differential reference)
	pointBefore := in.pointReads(before)
	if err := in.h.Reopen(); err != nil {
		in.fail("reopen-failed", "clean close + open failed: %v", err)
		return true, nil
	}
	for k, b := range pointBefore {
		if a := in.pointRead(k.key, k.ver); a != b {
			in.fail("reopen-changed-point-read was-in="+where[k], "GetVersionedEntry(%q,%d) = %s before the close and %s after reopen", k.key, k.ver, b, a)
			break
		}
	}
	after, fault := in.scan()
	if fault != "" {
		in.fail("scan-failed-after-reopen", "%s", fault)
		return true, nil
	}
	in.floor, in.floorAt, in.reopened, in.dirtyVer = maxVer, maxAt, true, false
	// differential oracle: identical internal scan before close and after open
	am := map[mkey]entry{}
	for _, e := range after {
		am[mkey{e.key, e.ver}] = e
	}
	bm := map[mkey]entry{}
	for _, e := range before {
		bm[mkey{e.key, e.ver}] = e
		a, ok := am[mkey{e.key, e.ver}]
		w := where[mkey{e.key, e.ver}]
		switch {
		case !ok:
			in.fail("reopen-lost-version was-in="+w, "version %q@%d (in %s before the close) is gone after reopen\n  before: %s  after: %s", e.key, e.ver, w, dump(before), dump(after))
		case a.del != e.del || a.meta != e.meta:
			in.fail("reopen-changed-meta was-in="+w, "%q@%d: meta %d -> %d after reopen", e.key, e.ver, e.meta, a.meta)
		case a.exp != e.exp:
			in.fail("reopen-changed-expiry was-in="+w, "%q@%d: expiry %d -> %d after reopen", e.key, e.ver, e.exp, a.exp)
		case !bytes.Equal(a.val, e.val):
			in.fail("reopen-changed-value was-in="+w, "%q@%d: value %q -> %q after reopen", e.key, e.ver, e.val, a.val)
		}
	}
	for _, e := range after {
		if _, ok := bm[mkey{e.key, e.ver}]; !ok {
			in.fail("reopen-added-version", "version %q@%d exists after reopen but not before the close", e.key, e.ver)
		}
	}
	return true, nil
}

// pointRead asks for exactly one stored version through the point-read API and renders the answer.
func (in *inst) pointRead(key string, ver uint64) string {
	e, err := in.h.DB.GetVersionedEntry(kv.CFDefault, []byte(key), ver)
	switch {
	case errors.Is(err, utils.ErrKeyNotFound):
		return "notfound"
	case err != nil:
		return "error:" + err.Error()
	}
	return fmt.Sprintf("meta=%d exp=%d val=%q", e.Meta&kv.BitDelete, e.ExpiresAt, e.Value)
}

func (in *inst) pointReads(es []entry) map[mkey]string {
	out := map[mkey]string{}
	if in.p.Plain {
		return out
	}
	for _, e := range es {
		out[mkey{e.key, e.ver}] = in.pointRead(e.key, e.ver)
	}
	return out
}

// Check: the stored versions equal the model (absolute oracle), and point reads through a
// new transaction / the plain API return the newest live version.
// outOfScope counts divergences from the absolute model that are not caused by a reopen
// (same divergence with every "reopen" replaced by flushing the queued immutables, or no reopen at all):
// they are the subject of C01/C02/C06/C07, not of C12.
var outOfScope = map[string]int64{}

func absoluteClass(sig string) bool {
	for _, p := range []string{"stored-version-", "written-version-missing", "read-lost", "read-stale", "read-resurrected"} {
		if strings.HasPrefix(sig, p) {
			return true
		}
	}
	return false
}

func stripCtx(sig string) string {
	sig = strings.Replace(sig, " after-reopen", "", 1)
	if i := strings.Index(sig, " in="); i >= 0 {
		sig = sig[:i]
	}
	return sig
}

func (in *inst) Check() (string, string) {
	sig, desc := in.check()
	if sig != "" && absoluteClass(sig) && !in.control {
		// C12 speaks about close+reopen. A divergence from the absolute model is attributed
		// to the reopen only if the same history with "flush every queued immutable" in place
		// of every reopen (the placement a clean close produces, without closing) does NOT show it.
		same := in.nReopen == 0
		if !same {
			same = in.controlShows(stripCtx(sig))
		}
		if same {
			outOfScope[stripCtx(sig)]++
			in.oos = true
			return "", ""
		}
		sig += " (absent without the reopen)"
	}
	if sig != "" && in.p.Cfg.Engine == "art" {
		sig += " engine=art"
	}
	return sig, desc
}

// controlShows replays the path without the reopens on a fresh DB and reports whether
// the absolute oracle fails there in the same way.
func (in *inst) controlShows(want string) bool {
	pp := *in.p
	pp.MaxClient, pp.MaxMaint, pp.MaxReopen = 99, 99, 99
	c := newInst(&pp).(*inst)
	c.control = true
	c.readAt = in.lastRead
	defer c.Close()
	for _, op := range in.path {
		if op == "reopen" {
			// what a clean close does to the placement: queued immutables are flushed, the
			// active memtable stays (it is recovered from the WAL)
			for {
				did, err := c.h.FlushOne()
				if err != nil {
					return false
				}
				if !did {
					break
				}
			}
			continue
		}
		if _, err := c.Apply(op); err != nil {
			return false
		}
		if sig, _ := c.check(); sig != "" {
			return stripCtx(sig) == want
		}
	}
	return false
}

func (in *inst) check() (string, string) {
	if in.pending != "" {
		return in.pending, in.pendDsc
	}
	es, fault := in.scan()
	if fault != "" {
		return "scan-failed", fault
	}
	after := ""
	if in.nReopen > 0 {
		after = " after-reopen"
	}
	seen := map[mkey]bool{}
	for _, e := range es {
		k := mkey{e.key, e.ver}
		seen[k] = true
		m, ok := in.model[k]
		if !ok {
			return "stored-version-never-written" + after, fmt.Sprintf("stored %q@%d = %q was never written; scan: %s", e.key, e.ver, e.val, dump(es))
		}
		if m.del != e.del || m.exp != e.exp || (!m.del && !bytes.Equal(m.val, e.val)) {
			return "stored-version-differs-from-write" + after + " in=" + in.locate(e.key, e.ver), fmt.Sprintf("stored %q@%d: del=%v exp=%d val=%q, written del=%v exp=%d val=%q", e.key, e.ver, e.del, e.exp, e.val, m.del, m.exp, m.val)
		}
	}
	for k, m := range in.model {
		if !seen[k] {
			return "written-version-missing" + after, fmt.Sprintf("written %q@%d (del=%v val=%q) is not stored; scan: %s", k.key, k.ver, m.del, m.val, dump(es))
		}
	}
	// point reads
	db := in.h.DB
	var rt *NoKV.Txn
	readTs := uint64(math.MaxUint64)
	if !in.p.Plain {
		rt = db.NewTransaction(false)
		defer rt.Discard()
		readTs = rt.ReadTs()
		if in.readAt != 0 {
			readTs = in.readAt
		}
		in.lastRead = readTs
	}
	for _, key := range in.keys {
		var best *mval
		var bv uint64
		for k, m := range in.model {
			if k.key == key && (best == nil || k.ver >= bv) && (in.p.Plain || k.ver <= readTs) {
				mm := m
				best, bv = &mm, k.ver
			}
		}
		live := best != nil && !best.del && best.exp != 1
		var got []byte
		var err error
		if in.p.Plain {
			var e *kv.Entry
			if e, err = db.Get([]byte(key)); err == nil {
				got = e.Value
			}
		} else if in.readAt != 0 {
			// control run: the same question ("newest version <= ts") asked at the real run's read ts
			var e *kv.Entry
			if e, err = db.GetVersionedEntry(kv.CFDefault, []byte(key), readTs); err == nil {
				if e.Meta&kv.BitDelete != 0 || e.ExpiresAt == 1 {
					err = utils.ErrKeyNotFound
				} else {
					got = e.Value
				}
			}
		} else {
			var it *NoKV.Item
			if it, err = rt.Get([]byte(key)); err == nil {
				got = it.Entry().Value
			}
		}
		if err != nil && !errors.Is(err, utils.ErrKeyNotFound) {
			return "read-error" + after, fmt.Sprintf("Get(%q): %v", key, err)
		}
		switch {
		case live && err != nil:
			return "read-lost" + after + " in=" + in.locate(key, bv), fmt.Sprintf("Get(%q) = not found, newest live version @%d = %q", key, bv, best.val)
		case !live && err == nil:
			return "read-resurrected" + after, fmt.Sprintf("Get(%q) = %q, model: not found", key, got)
		case live && !bytes.Equal(got, best.val):
			return "read-stale" + after + " in=" + in.locate(key, bv), fmt.Sprintf("Get(%q) = %q, newest live version @%d = %q", key, got, bv, best.val)
		}
	}
	return "", ""
}

func (in *inst) Key() string {
	if in.pending != "" {
		return ""
	}
	var sb strings.Builder
	fmt.Fprintf(&sb, "c%d m%d r%d reopened=%v dirty=%v floor=%d last=%d\n", in.nClient, in.nMaint, in.nReopen, in.reopened, in.dirtyVer, in.floor, in.lastTs)
	ks := make([]mkey, 0, len(in.model))
	for k := range in.model {
		ks = append(ks, k)
	}
	sort.Slice(ks, func(i, j int) bool {
		if ks[i].key != ks[j].key {
			return ks[i].key < ks[j].key
		}
		return ks[i].ver < ks[j].ver
	})
	for _, k := range ks {
		m := in.model[k]
		fmt.Fprintf(&sb, "%s@%d=%v/%q/%d;", k.key, k.ver, m.del, m.val, m.exp)
	}
	sb.WriteString("\n")
	sb.WriteString(in.h.DB.VerifLSM().VerifShape(false))
	fmt.Fprintf(&sb, "next=%d", in.h.DB.VerifNextTxnTs())
	return sb.String()
}

type config struct {
	P     params
	Depth int
}

func configs(quick bool) []config {
	allow := map[string]bool{"rotate": true, "flush": true, "l0-base": true, "ingest-drain": true}

	small := dbh.Config{Engine: "skiplist", DetectConflicts: true}
	art := dbh.Config{Engine: "art", DetectConflicts: true}
	txnCore := []string{"t:a:v", "t:a:d", "vs:a:V", "t2"}
	txnWide := []string{"t:a:v", "t:a:V", "t:a:d", "t:ab:f", "t:a:x", "t2", "vs:a:V", "vs:ab:v", "vd:a"}
	plain := []string{"p:a:v", "p:a:V", "p:a:d", "p:ab:f", "p:ab:x"}
	// the manifest is rewritten on every edit: the reopened catalog comes from a rewrite snapshot
	rewrite := dbh.Config{Engine: "skiplist", DetectConflicts: true, ManifestRewrite: 1}
	if quick {
		am := map[string]bool{"rf": true, "l0-base": true, "ingest-drain": true}
		return []config{
			{params{Name: "txn-core", Cfg: small, ClientOps: txnCore, MaxClient: 3, MaxMaint: 2, MaxReopen: 2, MaintAllow: am, Macro: true}, 5},
			{params{Name: "txn-wide-art", Cfg: art, ClientOps: txnWide, MaxClient: 2, MaxMaint: 1, MaxReopen: 1, MaintAllow: am, Macro: true}, 4},
			{params{Name: "plain", Cfg: small, ClientOps: plain, MaxClient: 2, MaxMaint: 2, MaxReopen: 1, Plain: true, MaintAllow: am, Macro: true}, 4},
			{params{Name: "txn-3reopen", Cfg: small, ClientOps: []string{"t:a:v"}, MaxClient: 3, MaxMaint: 0, MaxReopen: 3, MaintAllow: am, Macro: true}, 6},
			{params{Name: "txn-manifest-rewrite", Cfg: rewrite, ClientOps: []string{"t:a:v", "t:ab:f"}, MaxClient: 2, MaxMaint: 4, MaxReopen: 1, MaintAllow: am, Macro: true}, 7},
		}
	}
	am := map[string]bool{"rf": true, "l0-base": true, "ingest-drain": true}
	return []config{
		{params{Name: "txn-core", Cfg: small, ClientOps: txnCore, MaxClient: 3, MaxMaint: 4, MaxReopen: 3, MaintAllow: allow}, 8},
		{params{Name: "txn-wide", Cfg: small, ClientOps: txnWide, MaxClient: 3, MaxMaint: 2, MaxReopen: 2, MaintAllow: am, Macro: true}, 6},
		{params{Name: "txn-wide-art", Cfg: art, ClientOps: txnWide, MaxClient: 2, MaxMaint: 2, MaxReopen: 2, MaintAllow: am, Macro: true}, 5},
		{params{Name: "plain", Cfg: small, ClientOps: plain, MaxClient: 3, MaxMaint: 3, MaxReopen: 2, Plain: true, MaintAllow: allow}, 7},
		{params{Name: "plain-art", Cfg: art, ClientOps: plain, MaxClient: 2, MaxMaint: 2, MaxReopen: 2, Plain: true, MaintAllow: am, Macro: true}, 5},
		{params{Name: "txn-manifest-rewrite", Cfg: rewrite, ClientOps: txnCore, MaxClient: 3, MaxMaint: 5, MaxReopen: 2, MaintAllow: am, Macro: true}, 9},
	}
}

func main() {
	r := vr.Start("C12")
	cfgs := configs(r.Quick())
	if r.ReplayPath != "" {
		var rp struct {
			Config string
			Path   []string
		}
		r.LoadReplay(&rp)
		replay(r, cfgs, rp.Config, rp.Path)
		return
	}
	base := r.Scratch()
	total := r.RunSharded(vr.Workers(), func(sh vr.ShardInfo, p *vr.Partial) {
		for ci := range cfgs {
			c := cfgs[ci]
			pp := c.P
			pp.BaseDir = fmt.Sprintf("%s/s%d-c%d", base, sh.Index, ci)
			sub := vr.NewPartial()
			seqmc.Explore(seqmc.Config{New: func() seqmc.Instance { return newInst(&pp) }, MaxDepth: c.Depth, Shard: sh, Expired: r.Expired}, sub)
			for i := range sub.Violations {
				sub.Violations[i].Replay = fmt.Sprintf(`{"Config":%q,"Path":%s}`, c.P.Name, sub.Violations[i].Replay)
				sub.Violations[i].Desc = "config=" + c.P.Name + " " + sub.Violations[i].Desc
			}
			p.Merge(sub)
		}
		for k, v := range opCount {
			p.Add("op:"+k, v)
		}
		for k, v := range outOfScope {
			p.Add("oos:"+k, v)
		}
	})
	states := total.Card("states")
	r.RequireOutcomes(states, 10)
	var names []string
	for _, c := range cfgs {
		names = append(names, fmt.Sprintf("%s(client<=%d,maint<=%d,reopen<=%d,depth<=%d,ops=%v)", c.P.Name, c.P.MaxClient, c.P.MaxMaint, c.P.MaxReopen, c.Depth, c.P.ClientOps))
	}
	ops := map[string]int64{}
	oos := map[string]int64{}
	for k, v := range total.Counters {
		if strings.HasPrefix(k, "op:") {
			ops[k[3:]] = v
		}
		if strings.HasPrefix(k, "oos:") {
			oos[k[4:]] = v
		}
	}
	r.Finish(vr.Coverage{
		Level:       "model_checking",
		Evaluations: total.Counters["executions"],
		Distinct:    states,
		Rule:        "DFS over all sequences of writes (transaction commits of inline / value-log values, deletes, expired and far-future entries, two-key transactions; explicit-version writes; plain writes), maintenance steps (rotate, flush-oldest, L0->ingest move, ingest drain) and clean close+reopen at any position (<=3 per path); a state is distinct if (model, LSM shape, next commit ts) differs; after every transition the full internal all-versions scan is compared with the model, reopen additionally compares the scan before close and after open, and every commit after a reopen must get a version above every version stored at open time",
		Samples:     total.SamplesAny(),
		States:      states,
		Transitions: total.Counters["transitions"],
		Validated:   total.Counters["executions"],
		Exhaustive:  !total.TimedOut,
		Outcomes:    states,
		Bounds:      map[string]any{"configs": names, "quick": r.Quick()},
		Extra: map[string]any{"pruned_by_state_key": total.Counters["pruned"], "noop_cut": total.Counters["cut_noop"], "replayed_steps": total.Counters["replayed_steps"],
			"max_depth": total.Counters["max_depth"], "ops_applied": ops,
			"divergences_not_caused_by_reopen_(out_of_scope,_branch_cut)": oos},
		Assumptions: []string{
			"plain (max-version) writes and transactional/versioned writes are explored in separate databases: the code base forbids mixing them (db.go: 'Non-transactional API: do not mix with MVCC/Txn writes'), and the commit-version requirement is stated for databases used through the transactional API",
			"the close is the harness's clean close: the flush gate is opened so queued flushes complete as in an unharnessed DB; background compaction stays paused and is driven by the explorer",
			"the engine-internal key !NoKV!discard is not user data and is ignored; expiry uses absolute timestamps 1 and 2^40",
			"traces_validated_against_impl counts fresh-instance replays of path prefixes",
			"a divergence of stored versions / point reads from the absolute model is reported only when a control run of the same history with 'flush every queued immutable memtable' (what a clean close does to the placement) in place of every reopen does not show it (divergences that exist without any reopen belong to C01/C02/C06/C07; they are counted in the evidence and the branch is cut); the before-close/after-open scan comparison and the commit-version requirement are unconditional",
		},
	})
}

func replay(r *vr.Run, cfgs []config, name string, path []string) {
	for _, c := range cfgs {
		if c.P.Name != name {
			continue
		}
		pp := c.P
		pp.MaxClient, pp.MaxMaint, pp.MaxReopen = 99, 99, 99
		pp.BaseDir = r.Scratch()
		in := newInst(&pp)
		defer in.Close()
		for i, op := range path {
			if _, err := in.Apply(op); err != nil {
				vr.Fatalf("replay step %d %q: %v", i, op, err)
			}
			if sig, desc := in.Check(); sig != "" {
				fmt.Printf("replay: violation after step %d (%s): %s\n", i, op, desc)
				r.Violation(sig, desc, map[string]any{"Config": name, "Path": path[:i+1]})
				break
			}
		}
		r.Finish(vr.Coverage{Level: "model_checking", Evaluations: 1, Distinct: 2, States: 1, Transitions: int64(len(path)), Rule: "replay", Samples: []any{path}})
	}
	vr.Fatalf("unknown config %q", name)
}
