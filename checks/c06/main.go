//go:build verif

// C06 — iterators return exactly the live snapshot in order, honouring options.
// For every data history over byte-prefix-related keys (versions, deletes shadowing older
// versions, expired / far-future entries, pending writes of the iterating transaction) and
// every placement (memtable only / flush between versions / flush + compaction), every
// combination of iterator options is run through Txn.NewIterator, Txn.NewKeyIterator and
// DB.NewIterator and compared with a sorted-slice model.
package main

import (
	"bytes"
	"encoding/json"
	"fmt"
	"os"
	"sort"
	"strings"

	NoKV "github.com/feichai0017/NoKV"
	"github.com/feichai0017/NoKV/kv"
	"github.com/feichai0017/NoKV/utils"

	"verif/lib/dbh"
	"verif/lib/vr"
)

var universe = []string{"a", "a\x00", "a\xff", "ab", "b"}

// probes: bounds / seek targets — every key, a point between neighbours, before all, past the end.
var probes = []string{"A", "a", "a\x00", "a\x01", "a\xff", "ab", "ac", "b", "c"}

const farFuture = uint64(1) << 40

// write kinds: v small inline value, V value-log sized value, d delete, x already expired
// (absolute expiry 1), f expires far in the future.
var patterns1 = []string{"v", "V", "d", "x", "f"}
var patterns2 = []string{"vV", "Vd", "vx", "dV", "xv", "fd", "Vv"}

type hist struct {
	Kind      string   // txn | plain
	Engine    string   // skiplist | art
	Keys      []string // subset of universe
	Pats      []string // per key: 1-2 write kinds, oldest first
	Placement int      // 0 memtable only, 1 flush between the versions, 2 flush both + compaction
}

func (h hist) String() string {
	var sb strings.Builder
	fmt.Fprintf(&sb, "%s/%s/p%d", h.Kind, h.Engine, h.Placement)
	for i, k := range h.Keys {
		fmt.Fprintf(&sb, " %q=%s", k, h.Pats[i])
	}
	return sb.String()
}

type ver struct {
	ts      uint64
	kind    byte
	val     []byte
	exp     uint64
	pending bool
}

func (v ver) live() bool { return v.kind == 'v' || v.kind == 'V' || v.kind == 'f' }

type item struct {
	key string
	ts  uint64
	val []byte
}

// opts is one iterator configuration.
type opts struct {
	API     string // txn | key | db
	Key     string // key iterator: the key
	Reverse bool
	KeyOnly bool
	AllVers bool
	Lower   string // "" = none
	Upper   string
	Prefix  string
	Seek    string // "" = Rewind
	// Prior is an action performed on the SAME iterator before the positioning above (iterator reuse):
	// "" none, "seek:<target>", "rewind", "end" (Rewind + Next until invalid). It must not change the result.
	Prior string `json:",omitempty"`
}

func (o opts) String() string {
	s := fmt.Sprintf("%s key=%q rev=%v keyonly=%v allv=%v lower=%q upper=%q prefix=%q seek=%q", o.API, o.Key, o.Reverse, o.KeyOnly, o.AllVers, o.Lower, o.Upper, o.Prefix, o.Seek)
	if o.Prior != "" {
		s += fmt.Sprintf(" after-on-same-iterator=%q", o.Prior)
	}
	return s
}

// ---------------------------------------------------------------------------------------
// model

type model struct {
	committed map[string][]ver // ascending ts
}

// visible: versions of key visible at ts, newest first, the pending write (if any) first.
func (m *model) visible(key string, ts uint64, pend map[string]ver) []ver {
	var out []ver
	if p, ok := pend[key]; ok {
		p.ts = ts
		p.pending = true
		out = append(out, p)
	}
	vs := m.committed[key]
	for i := len(vs) - 1; i >= 0; i-- {
		if vs[i].ts <= ts {
			out = append(out, vs[i])
		}
	}
	return out
}

func (m *model) allKeys(pend map[string]ver) []string {
	seen := map[string]bool{}
	var ks []string
	for k := range m.committed {
		if !seen[k] {
			seen[k] = true
			ks = append(ks, k)
		}
	}
	for k := range pend {
		if !seen[k] {
			seen[k] = true
			ks = append(ks, k)
		}
	}
	sort.Strings(ks)
	return ks
}

type view struct {
	keys []string
	vis  map[string][]ver
}

// viewOf precomputes, for one snapshot, the sorted key list and each key's visible versions.
func (m *model) viewOf(ts uint64, pend map[string]ver) *view {
	v := &view{keys: m.allKeys(pend), vis: map[string][]ver{}}
	for _, k := range v.keys {
		v.vis[k] = m.visible(k, ts, pend)
	}
	return v
}

// expect computes the exact item list the property demands for o on the snapshot (ts, pend).
func (m *model) expect(o opts, ts uint64, pend map[string]ver) []item {
	return m.viewOf(ts, pend).expect(o)
}

func (vw *view) expect(o opts) []item {
	var full []item // forward order: key ascending, versions newest first
	for _, k := range vw.keys {
		if o.API == "key" && k != o.Key {
			continue
		}
		if o.Lower != "" && k < o.Lower {
			continue
		}
		if o.Upper != "" && k >= o.Upper {
			continue
		}
		if o.Prefix != "" && !strings.HasPrefix(k, o.Prefix) {
			continue
		}
		vis := vw.vis[k]
		if len(vis) == 0 {
			continue
		}
		if o.AllVers || o.API == "key" {
			for _, v := range vis {
				if v.live() {
					full = append(full, item{k, v.ts, v.val})
				}
			}
		} else if vis[0].live() {
			full = append(full, item{k, vis[0].ts, vis[0].val})
		}
	}
	if o.Reverse {
		for i, j := 0, len(full)-1; i < j; i, j = i+1, j-1 {
			full[i], full[j] = full[j], full[i]
		}
	}
	if o.Seek == "" {
		return full
	}
	// seek: forward = first key >= target; reverse = first key <= target. A target outside the
	// bounds on the far side yields nothing; on the near side it is clamped to the bound.
	if !o.Reverse {
		if o.Upper != "" && o.Seek >= o.Upper {
			return nil
		}
		for i, it := range full {
			if it.key >= o.Seek {
				return full[i:]
			}
		}
		return nil
	}
	if o.Lower != "" && o.Seek < o.Lower {
		return nil
	}
	for i, it := range full {
		if it.key <= o.Seek {
			return full[i:]
		}
	}
	return nil
}

// ---------------------------------------------------------------------------------------
// building a history on a real DB

type world struct {
	h     hist
	hd    *dbh.H
	m     *model
	seq   int
	snaps []*snap
	cur   map[string]ver // plain: current state per key
}

type snap struct {
	name string
	txn  *NoKV.Txn
	ts   uint64
	pend map[string]ver
}

func (w *world) value(kind byte, key string) []byte {
	w.seq++
	v := []byte(fmt.Sprintf("%x#%d", key, w.seq))
	if kind == 'V' {
		for len(v) < 48 {
			v = append(v, '.')
		}
	}
	return v
}

func expiry(kind byte) uint64 {
	switch kind {
	case 'x':
		return 1
	case 'f':
		return farFuture
	}
	return 0
}

func (w *world) txnWrite(t *NoKV.Txn, key string, kind byte) (ver, error) {
	v := ver{kind: kind, exp: expiry(kind)}
	if kind == 'd' {
		return v, t.Delete([]byte(key))
	}
	v.val = w.value(kind, key)
	e := kv.NewEntry([]byte(key), v.val)
	e.ExpiresAt = v.exp
	return v, t.SetEntry(e)
}

func (w *world) maint(ops ...string) error {
	for _, op := range ops {
		if op == "compact" {
			if _, err := w.hd.Maint("l0-base"); err != nil {
				return err
			}
			counts := w.hd.DB.VerifLSM().VerifLevelCounts()
			for lvl := 1; lvl < len(counts); lvl++ {
				if counts[lvl][1] > 0 {
					if _, err := w.hd.Maint(fmt.Sprintf("ingest-drain:%d", lvl)); err != nil {
						return err
					}
				}
			}
			continue
		}
		if _, err := w.hd.Maint(op); err != nil {
			return err
		}
	}
	return nil
}

// commitBatch commits round r (0 or 1) of the history in one transaction and records the
// commit version (= read ts of a transaction begun right afterwards).
func (w *world) commitBatch(r int) (bool, error) {
	db := w.hd.DB
	t := db.NewTransaction(true)
	type kvv struct {
		k string
		v ver
	}
	var ws []kvv
	for i, k := range w.h.Keys {
		if r < len(w.h.Pats[i]) {
			v, err := w.txnWrite(t, k, w.h.Pats[i][r])
			if err != nil {
				t.Discard()
				return false, err
			}
			ws = append(ws, kvv{k, v})
		}
	}
	if len(ws) == 0 {
		t.Discard()
		return false, nil
	}
	if err := t.Commit(); err != nil {
		return false, err
	}
	ts := db.VerifNextTxnTs() - 1
	for _, x := range ws {
		x.v.ts = ts
		w.m.committed[x.k] = append(w.m.committed[x.k], x.v)
	}
	return true, nil
}

func (w *world) bump() error {
	t := w.hd.DB.NewTransaction(true)
	if err := t.Delete([]byte("zz")); err != nil {
		return err
	}
	if err := t.Commit(); err != nil {
		return err
	}
	w.m.committed["zz"] = append(w.m.committed["zz"], ver{ts: w.hd.DB.VerifNextTxnTs() - 1, kind: 'd'})
	return nil
}

func build(h hist, dir string) (*world, error) {
	sigEngine = ""
	if h.Engine == "art" {
		sigEngine = " engine=art"
	}
	_ = os.RemoveAll(dir)
	if err := os.MkdirAll(dir, 0o755); err != nil {
		return nil, err
	}
	hd, err := dbh.Open(dir, dbh.Config{Engine: h.Engine, DetectConflicts: true})
	if err != nil {
		return nil, err
	}
	w := &world{h: h, hd: hd, m: &model{committed: map[string][]ver{}}, cur: map[string]ver{}}
	if h.Kind == "plain" {
		return w, w.buildPlain()
	}
	db := hd.DB
	if _, err := w.commitBatch(0); err != nil {
		return w, err
	}
	two := false
	for _, p := range h.Pats {
		two = two || len(p) == 2
	}
	if two {
		r1 := db.NewTransaction(true) // snapshot between the two versions, kept open across everything that follows
		w.snaps = append(w.snaps, &snap{name: "R1", txn: r1, ts: r1.ReadTs()})
	}
	if h.Placement >= 1 {
		if err := w.maint("rf"); err != nil {
			return w, err
		}
	}
	if _, err := w.commitBatch(1); err != nil {
		return w, err
	}
	if err := w.bump(); err != nil {
		return w, err
	}
	if h.Placement >= 2 {
		if err := w.maint("rf", "compact"); err != nil {
			return w, err
		}
	}
	r2 := db.NewTransaction(true)
	w.snaps = append(w.snaps, &snap{name: "R2", txn: r2, ts: r2.ReadTs()})
	return w, nil
}

func (w *world) buildPlain() error {
	db := w.hd.DB
	for r := 0; r < 2; r++ {
		for i, k := range w.h.Keys {
			if r >= len(w.h.Pats[i]) {
				continue
			}
			kind := w.h.Pats[i][r]
			v := ver{kind: kind, exp: expiry(kind), ts: ^uint64(0)}
			var err error
			switch kind {
			case 'd':
				err = db.Del([]byte(k))
			case 'x', 'f':
				v.val = w.value(kind, k)
				err = db.VerifSetExpiring(kv.CFDefault, []byte(k), v.val, v.exp)
			default:
				v.val = w.value(kind, k)
				err = db.Set([]byte(k), v.val)
			}
			if err != nil {
				return err
			}
			w.m.committed[k] = []ver{v} // same internal key: the later write replaces the earlier one
		}
		if r == 0 && w.h.Placement >= 1 {
			if err := w.maint("rf"); err != nil {
				return err
			}
		}
	}
	if w.h.Placement >= 2 {
		return w.maint("rf", "compact")
	}
	return nil
}

func (w *world) close() {
	for _, s := range w.snaps {
		func() {
			defer func() { _ = recover() }()
			s.txn.Discard()
		}()
	}
	if w.hd != nil {
		_ = w.hd.Close()
		_ = os.RemoveAll(w.hd.Dir)
	}
}

// pendingSnap opens a transaction on the newest snapshot with the given pending writes
// ("s:<key>" set, "d:<key>" delete).
func (w *world) pendingSnap(spec []string) (*snap, error) {
	t := w.hd.DB.NewTransaction(true)
	s := &snap{name: "W[" + strings.Join(spec, ",") + "]", txn: t, ts: t.ReadTs(), pend: map[string]ver{}}
	for _, p := range spec {
		kind := byte('v')
		if p[0] == 'd' {
			kind = 'd'
		} else if p[0] == 'S' {
			kind = 'V'
		}
		v, err := w.txnWrite(t, p[2:], kind)
		if err != nil {
			t.Discard()
			return nil, err
		}
		s.pend[p[2:]] = v
	}
	return s, nil
}

// ---------------------------------------------------------------------------------------
// running one iterator configuration

const maxItems = 40

func (w *world) run(s *snap, o opts) (got []item, fault string) {
	defer func() {
		if r := recover(); r != nil {
			fault = fmt.Sprintf("panic: %v", r)
		}
	}()
	if o.API == "db" {
		return w.runDB(o)
	}
	io := NoKV.IteratorOptions{Reverse: o.Reverse, KeyOnly: o.KeyOnly, AllVersions: o.AllVers}
	if o.Lower != "" {
		io.LowerBound = []byte(o.Lower)
	}
	if o.Upper != "" {
		io.UpperBound = []byte(o.Upper)
	}
	if o.Prefix != "" {
		io.Prefix = []byte(o.Prefix)
	}
	var it *NoKV.TxnIterator
	if o.API == "key" {
		it = s.txn.NewKeyIterator([]byte(o.Key), io)
	} else {
		it = s.txn.NewIterator(io)
	}
	defer it.Close()
	doPrior(o, it.Rewind, func(k []byte) { it.Seek(k) }, it.Next, it.Valid)
	if o.Seek == "" {
		it.Rewind()
	} else {
		it.Seek([]byte(o.Seek))
	}
	for ; it.Valid(); it.Next() {
		e := it.Item().Entry()
		if bytes.HasPrefix(e.Key, []byte("!NoKV!")) {
			continue // engine-internal bookkeeping key, not user data
		}
		g := item{key: string(e.Key), ts: e.Version}
		vc, err := it.Item().ValueCopy(nil)
		if err != nil {
			return got, fmt.Sprintf("ValueCopy(%q) error: %v", e.Key, err)
		}
		if !o.KeyOnly && !bytes.Equal(vc, e.Value) {
			return got, fmt.Sprintf("ValueCopy(%q)=%q differs from Entry().Value=%q", e.Key, vc, e.Value)
		}
		g.val = append([]byte{}, vc...)
		got = append(got, g)
		if len(got) > maxItems {
			return got, "iterator does not terminate"
		}
	}
	return got, ""
}

// doPrior performs the reuse action of o on the iterator that is about to be positioned (the two iterator kinds
// differ in the result type of Seek, hence the function values).
func doPrior(o opts, rewind func(), seek func([]byte), next func(), valid func() bool) {
	switch {
	case o.Prior == "rewind":
		rewind()
	case o.Prior == "end":
		rewind()
		for n := 0; valid() && n <= maxItems; n++ {
			next()
		}
	case strings.HasPrefix(o.Prior, "seek:"):
		seek([]byte(o.Prior[5:]))
	}
}

func (w *world) runDB(o opts) (got []item, fault string) {
	uo := &utils.Options{IsAsc: !o.Reverse, OnlyUseKey: o.KeyOnly}
	if o.Lower != "" {
		uo.LowerBound = []byte(o.Lower)
	}
	if o.Upper != "" {
		uo.UpperBound = []byte(o.Upper)
	}
	if o.Prefix != "" {
		uo.Prefix = []byte(o.Prefix)
	}
	it := w.hd.DB.NewIterator(uo)
	defer it.Close()
	doPrior(o, it.Rewind, it.Seek, it.Next, it.Valid)
	if o.Seek == "" {
		it.Rewind()
	} else {
		it.Seek([]byte(o.Seek))
	}
	for ; it.Valid(); it.Next() {
		e := it.Item().Entry()
		if bytes.HasPrefix(e.Key, []byte("!NoKV!")) {
			continue
		}
		g := item{key: string(e.Key), ts: e.Version}
		ni, ok := it.Item().(*NoKV.Item)
		if !ok {
			return got, fmt.Sprintf("item has unexpected type %T", it.Item())
		}
		vc, err := ni.ValueCopy(nil)
		if err != nil {
			return got, fmt.Sprintf("ValueCopy(%q) error: %v", e.Key, err)
		}
		g.val = append([]byte{}, vc...)
		got = append(got, g)
		if len(got) > maxItems {
			return got, "iterator does not terminate"
		}
	}
	return got, ""
}

// pointReads compares Get of every key with the model (run before and after the scans: a
// scan must not disturb stored data).
func (w *world) pointReads(s *snap) (sig string, desc string) {
	defer func() {
		if r := recover(); r != nil {
			sig, desc = "point-read-panic", fmt.Sprintf("point read panicked: %.300v", r)
		}
	}()
	for _, k := range universe {
		var want ver
		var has bool
		if w.h.Kind == "plain" {
			vs := w.m.committed[k]
			if len(vs) > 0 {
				want, has = vs[0], true
			}
			e, err := w.hd.DB.Get([]byte(k))
			if sig, d := cmpPoint("db.Get", k, has && want.live(), want, e, err); sig != "" {
				return sig, d
			}
			continue
		}
		vis := w.m.visible(k, s.ts, s.pend)
		if len(vis) > 0 {
			want, has = vis[0], true
		}
		it, err := s.txn.Get([]byte(k))
		var e *kv.Entry
		if err == nil {
			e = it.Entry()
		}
		if sig, d := cmpPoint("txn.Get", k, has && want.live(), want, e, err); sig != "" {
			return sig, d
		}
	}
	return "", ""
}

// integrity re-reads every stored version through the internal iterator (value-log pointers
// resolved by an exact-version point read) and compares it with what was written.
func (w *world) integrity() (sig string, desc string) {
	defer func() {
		if r := recover(); r != nil {
			sig, desc = "panic", fmt.Sprintf("reading the stored data panicked: %.300v", r)
		}
	}()
	db := w.hd.DB
	it := db.NewInternalIterator(&utils.Options{IsAsc: true})
	defer it.Close()
	found := map[string]bool{}
	n := 0
	for it.Rewind(); it.Valid(); it.Next() {
		e := it.Item().Entry()
		cf, uk, ts := kv.SplitInternalKey(e.Key)
		if bytes.HasPrefix(uk, []byte("!NoKV!")) {
			continue
		}
		if n++; n > 200 {
			return "damaged", "internal iterator does not terminate"
		}
		var mv *ver
		for i := range w.m.committed[string(uk)] {
			if w.m.committed[string(uk)][i].ts == ts {
				mv = &w.m.committed[string(uk)][i]
			}
		}
		if mv == nil || cf != kv.CFDefault {
			return "damaged", fmt.Sprintf("stored entry %q@%d was never written", uk, ts)
		}
		found[fmt.Sprintf("%s@%d", uk, ts)] = true
		if mv.kind == 'd' {
			if e.Meta&kv.BitDelete == 0 {
				return "damaged", fmt.Sprintf("tombstone %q@%d lost its delete mark", uk, ts)
			}
			continue
		}
		val := e.Value
		if e.Meta&kv.BitValuePointer != 0 {
			pe, err := db.GetVersionedEntry(kv.CFDefault, uk, ts)
			if err != nil {
				return "damaged", fmt.Sprintf("value of %q@%d can no longer be read: %v", uk, ts, err)
			}
			val = pe.Value
		}
		if !bytes.Equal(val, mv.val) || e.ExpiresAt != mv.exp {
			return "damaged", fmt.Sprintf("stored %q@%d = %q (expires %d), written %q (expires %d)", uk, ts, val, e.ExpiresAt, mv.val, mv.exp)
		}
	}
	for k, vs := range w.m.committed {
		for _, v := range vs {
			if !found[fmt.Sprintf("%s@%d", k, v.ts)] {
				return "damaged", fmt.Sprintf("stored version %q@%d disappeared", k, v.ts)
			}
		}
	}
	return "", ""
}

func cmpPoint(api, k string, live bool, want ver, e *kv.Entry, err error) (string, string) {
	if err != nil && err != utils.ErrKeyNotFound {
		return "point-read-error", fmt.Sprintf("%s(%q) returned %v", api, k, err)
	}
	if !live {
		if err == nil {
			return "point-read-resurrected", fmt.Sprintf("%s(%q) = %q, model: not found", api, k, e.Value)
		}
		return "", ""
	}
	if err != nil {
		return "point-read-lost", fmt.Sprintf("%s(%q) = not found, model %q", api, k, want.val)
	}
	if !bytes.Equal(e.Value, want.val) {
		return "point-read-wrong-value", fmt.Sprintf("%s(%q) = %q, model %q", api, k, e.Value, want.val)
	}
	return "", ""
}

// ---------------------------------------------------------------------------------------
// comparison and classification

func fmtItems(xs []item) string {
	var sb strings.Builder
	sb.WriteString("[")
	for i, x := range xs {
		if i > 0 {
			sb.WriteString(" ")
		}
		v := x.val
		if len(v) > 10 {
			v = v[:10]
		}
		fmt.Fprintf(&sb, "%q@%d=%s", x.key, x.ts, v)
	}
	sb.WriteString("]")
	return sb.String()
}

// classify names the first deviation of got from want at mechanism level.
func (w *world) classify(o opts, s *snap, want, got []item) string {
	var ts uint64
	var pend map[string]ver
	if s != nil {
		ts, pend = s.ts, s.pend
	}
	i := 0
	for i < len(want) && i < len(got) && want[i].key == got[i].key && want[i].ts == got[i].ts && bytes.Equal(want[i].val, got[i].val) {
		i++
	}
	if i == len(got) {
		// got is a proper prefix of want
		m := want[i]
		if _, ok := pend[m.key]; ok {
			return "misses-key-with-pending-write"
		}
		return "misses-item"
	}
	g := got[i]
	inWant := func(it item) bool {
		for _, x := range want {
			if x.key == it.key && x.ts == it.ts {
				return true
			}
		}
		return false
	}
	seen := false
	for _, x := range got[:i] {
		if x.key == g.key && (x.ts == g.ts || !(o.AllVers || o.API == "key")) {
			seen = true
		}
	}
	switch {
	case o.Lower != "" && g.key < o.Lower:
		return "lower-bound-ignored"
	case o.Upper != "" && g.key >= o.Upper:
		return "upper-bound-ignored"
	case o.Prefix != "" && !strings.HasPrefix(g.key, o.Prefix):
		return "prefix-ignored"
	case o.Seek != "" && ((!o.Reverse && g.key < o.Seek) || (o.Reverse && g.key > o.Seek)):
		return "seek-target-ignored"
	case seen:
		return "duplicate-item"
	}
	if i > 0 {
		p := got[i-1]
		if (!o.Reverse && g.key < p.key) || (o.Reverse && g.key > p.key) {
			return "out-of-order"
		}
	}
	if inWant(g) {
		// a right item at the wrong place: something before it is missing
		if i < len(want) {
			if _, ok := pend[want[i].key]; ok {
				return "misses-key-with-pending-write"
			}
		}
		return "misses-item"
	}
	// g is not expected at all: why?
	var vis []ver
	if w.h.Kind == "plain" {
		vis = w.m.committed[g.key]
	} else {
		vis = w.m.visible(g.key, ts, pend)
	}
	if len(vis) == 0 {
		if len(w.m.committed[g.key]) > 0 {
			return "yields-version-above-read-ts"
		}
		return "yields-unknown-key"
	}
	var match *ver
	for j := range vis {
		if vis[j].ts == g.ts {
			match = &vis[j]
		}
	}
	if match == nil {
		return "yields-unknown-version"
	}
	if !match.live() {
		if match.kind == 'x' {
			return "yields-expired-entry"
		}
		return "yields-tombstone"
	}
	if !bytes.Equal(match.val, g.val) {
		if o.KeyOnly {
			return "wrong-value-keyonly"
		}
		return "wrong-value"
	}
	if !(o.AllVers || o.API == "key") {
		if _, ok := pend[g.key]; ok && !match.pending {
			if !vis[0].live() {
				return "pending-delete-ignored"
			}
			return "pending-write-ignored"
		}
		if !vis[0].live() {
			if vis[0].kind == 'x' {
				return "older-version-behind-expired-entry-yielded"
			}
			return "older-version-behind-tombstone-yielded"
		}
		return "older-version-yielded-instead-of-newest"
	}
	return "unexpected-item"
}

// sigEngine is appended to signatures of histories run on the ART memtable (set per history).
var sigEngine string

func sigFor(o opts, s *snap, reason string) string {
	return sigFor0(o, s, reason) + sigEngine
}

func sigFor0(o opts, s *snap, reason string) string {
	dir := "fwd"
	if o.Reverse {
		dir = "rev"
	}
	sig := o.API + "-iter " + dir
	if o.AllVers && o.API == "txn" {
		sig += " allversions"
	}
	if s != nil && len(s.pend) > 0 {
		sig += " pending"
	}
	if o.Prior != "" {
		kind := o.Prior
		if i := strings.IndexByte(kind, ':'); i > 0 {
			kind = kind[:i]
			t := o.Prior[i+1:]
			switch {
			case o.Lower != "" && t < o.Lower:
				kind += "-below-lower"
			case o.Upper != "" && t >= o.Upper:
				kind += "-at-or-above-upper"
			default:
				kind += "-in-range"
			}
		}
		sig += " reused-after-" + kind
	}
	return sig + " " + reason
}

// ---------------------------------------------------------------------------------------
// enumeration

// genHists: single-key histories use every pattern; histories with several keys use
// multi (nil = every pattern as well).
func genHists(kind string, maxKeys int, engines []string, pats1, pats2, multi []string, placements []int) []hist {
	var out []hist
	allPats := append(append([]string{}, pats1...), pats2...)
	var keysets [][]string
	n := len(universe)
	for mask := 1; mask < 1<<n; mask++ {
		var ks []string
		for i := 0; i < n; i++ {
			if mask&(1<<i) != 0 {
				ks = append(ks, universe[i])
			}
		}
		if len(ks) <= maxKeys {
			keysets = append(keysets, ks)
		}
	}
	for _, ks := range keysets {
		pats := allPats
		if len(ks) > 1 && multi != nil {
			pats = multi
		}
		idx := make([]int, len(ks))
		for {
			ps := make([]string, len(ks))
			two := false
			for i := range ks {
				ps[i] = pats[idx[i]]
				two = two || len(ps[i]) == 2
			}
			for _, pl := range placements {
				if pl == 1 && !two {
					continue // nothing is written after the flush: same as placement 2 without compaction
				}
				for _, eng := range engines {
					out = append(out, hist{Kind: kind, Engine: eng, Keys: ks, Pats: ps, Placement: pl})
				}
			}
			j := len(idx) - 1
			for j >= 0 {
				idx[j]++
				if idx[j] < len(pats) {
					break
				}
				idx[j] = 0
				j--
			}
			if j < 0 {
				break
			}
		}
	}
	return out
}

// candidates: bound and seek values relevant for the key set — every key of the set (and
// of the pending writes), the probe just above each (a point between neighbours or a
// non-existent key), past the end, and (wide) before all keys.
func candidates(keys []string, pend []string, wide bool) []string {
	set := map[string]bool{"c": true}
	if wide {
		set["A"] = true
	}
	ks := append(append([]string{}, keys...), pend...)
	sort.Strings(ks)
	for n, k := range ks {
		set[k] = true
		if !wide && n > 0 {
			continue // narrow: only the smallest key gets its "just above" probe
		}
		for i, p := range probes {
			if p == k && i+1 < len(probes) {
				set[probes[i+1]] = true
			}
		}
	}
	var out []string
	for _, p := range probes {
		if set[p] {
			out = append(out, p)
		}
	}
	return out
}

type runner struct {
	r        *vr.Run
	p        *vr.Partial
	base     string
	reported map[string]bool
	allCand  bool
	prefixes []string
	outcomes map[uint64]struct{}
}

func (rn *runner) optionSpace(h hist, s *snap) []opts {
	var pendKeys []string
	if s != nil {
		for k := range s.pend {
			pendKeys = append(pendKeys, k)
		}
	}
	cand := candidates(h.Keys, pendKeys, rn.allCand)
	bounds := append([]string{""}, cand...)
	var out []opts
	for _, rev := range []bool{false, true} {
		for _, ko := range []bool{false, true} {
			for _, lo := range bounds {
				for _, up := range bounds {
					for _, seek := range bounds {
						if h.Kind == "plain" {
							for _, pf := range rn.prefixes {
								out = append(out, opts{API: "db", Reverse: rev, KeyOnly: ko, Lower: lo, Upper: up, Prefix: pf, Seek: seek})
							}
							continue
						}
						for _, av := range []bool{false, true} {
							for _, pf := range rn.prefixes {
								out = append(out, opts{API: "txn", Reverse: rev, KeyOnly: ko, AllVers: av, Lower: lo, Upper: up, Prefix: pf, Seek: seek})
							}
						}
					}
				}
			}
		}
	}
	if h.Kind == "txn" {
		keyTargets := append(append([]string{}, h.Keys...), pendKeys...)
		keyTargets = append(keyTargets, "ac") // a key that does not exist
		kb := []string{"", "a", "ab", "c"}
		for _, k := range keyTargets {
			for _, rev := range []bool{false, true} {
				for _, ko := range []bool{false, true} {
					for _, lo := range kb {
						for _, up := range kb {
							for _, seek := range []string{"", "A", k, "c"} {
								out = append(out, opts{API: "key", Key: k, Reverse: rev, KeyOnly: ko, Lower: lo, Upper: up, Seek: seek})
							}
						}
					}
				}
			}
		}
	}
	return out
}

// reusePriors: prior actions on the same iterator for a bounded configuration: a seek inside the bounds, one
// below the lower bound, one at and one beyond the upper bound, a Rewind, and a scan to the end.
func reusePriors(o opts) []string {
	out := []string{"rewind", "end"}
	in := o.Lower
	if in == "" {
		in = "A"
	}
	out = append(out, "seek:"+in)
	if o.Lower != "" {
		out = append(out, "seek:A")
	}
	if o.Upper != "" {
		out = append(out, "seek:"+o.Upper)
	}
	return append(out, "seek:c")
}

type replayObj struct {
	Hist    hist
	Snap    string
	Pending []string
	Opt     opts
}

// check runs the whole option space on one snapshot. It reports true when the stored data
// were damaged (the DB instance must not be used any further).
func (rn *runner) check(w *world, s *snap, pendSpec []string, keyOnlyPhase bool) (damaged bool) {
	p := rn.p
	if sig, d := w.pointReads(s); sig != "" {
		rn.report(w, s, pendSpec, opts{API: "point"}, sig+" before-scans"+sigEngine, d)
		return true
	}
	ts := ^uint64(0)
	var pend map[string]ver
	if s != nil {
		ts, pend = s.ts, s.pend
	}
	vw := w.m.viewOf(ts, pend)
	plainFull := vw.expect(opts{API: "txn"})
	var runs, shaped, reuseRuns int64
	defer func() {
		p.Add("reuse_runs", reuseRuns)
		p.Add("iterator_runs", runs)
		p.Add("runs_where_options_shape_the_result", shaped)
	}()
	for _, o := range rn.optionSpace(w.h, s) {
		if o.KeyOnly != keyOnlyPhase {
			continue
		}
		want := vw.expect(o)
		got, fault := w.run(s, o)
		runs++
		if len(want) > 0 && !sameItems(want, plainFull) {
			shaped++
		}
		rn.markOutcome(want)
		if o.KeyOnly {
			// a scan must not disturb stored data: every stored version is re-read after a key-only scan
			if sig, d := w.integrity(); sig != "" {
				rn.report(w, s, pendSpec, o, sigFor(o, s, "keyonly-scan-corrupts-stored-data"), fmt.Sprintf("after the key-only scan below (ValueCopy called on every item) stored data that were intact before are damaged: %s\n  %s\n  history: %s\n  scan returned: %s", d, o, w.h, fmtItems(got)))
				return true
			}
		}
		// iterator reuse: the same positioning after another action on the SAME iterator must give the same result.
		// Only a result that is wrong AND differs from the fresh-iterator result is reported here (a defect that a
		// fresh iterator shows as well is reported once, by the fresh run below).
		if !o.KeyOnly && !o.AllVers && o.Prefix == "" && o.API != "key" && (o.Lower != "" || o.Upper != "") && o.Prior == "" && (o.Seek == "" || o.Seek == o.Lower) {
			for _, pr := range reusePriors(o) {
				o2 := o
				o2.Prior = pr
				got2, fault2 := w.run(s, o2)
				runs++
				reuseRuns++
				if fault2 == "" && (sameItems(got2, want) || sameItems(got2, got)) {
					continue
				}
				reason := fault2
				if fault2 == "" {
					reason = w.classify(o2, s, want, got2)
				} else if i := strings.IndexByte(fault2, ':'); i > 0 {
					reason = fault2[:i]
				}
				desc := fmt.Sprintf("%s\n  history: %s\n  snapshot: %s (read ts %d)\n  got:  %s\n  want: %s\n  a fresh iterator returns: %s", o2, w.h, snapName(s), ts, fmtItems(got2), fmtItems(want), fmtItems(got))
				if fault2 != "" {
					desc = fault2 + "\n  " + desc
				}
				rn.report(w, s, pendSpec, o2, sigFor(o2, s, reason), desc)
			}
		}
		if fault == "" && sameItems(got, want) {
			continue
		}
		reason := fault
		if fault == "" {
			reason = w.classify(o, s, want, got)
		} else if i := strings.IndexByte(fault, ':'); i > 0 {
			reason = fault[:i]
		} else if strings.HasPrefix(fault, "ValueCopy") {
			reason = "valuecopy-mismatch"
		}
		desc := fmt.Sprintf("%s\n  history: %s\n  snapshot: %s (read ts %d)\n  got:  %s\n  want: %s", o, w.h, snapName(s), ts, fmtItems(got), fmtItems(want))
		if fault != "" {
			desc = fault + "\n  " + desc
		}
		rn.report(w, s, pendSpec, o, sigFor(o, s, reason), desc)
	}
	return false
}

func sameItems(a, b []item) bool {
	if len(a) != len(b) {
		return false
	}
	for i := range a {
		if a[i].key != b[i].key || a[i].ts != b[i].ts || !bytes.Equal(a[i].val, b[i].val) {
			return false
		}
	}
	return true
}

// markOutcome records the shape of an expected result (keys and version ranks, not the
// absolute timestamps) in the distinct-outcome set.
func (rn *runner) markOutcome(want []item) {
	h := uint64(1469598103934665603)
	for _, it := range want {
		for i := 0; i < len(it.key); i++ {
			h = (h ^ uint64(it.key[i])) * 1099511628211
		}
		h = (h ^ uint64(len(it.val))) * 1099511628211
		h = (h ^ 0xff) * 1099511628211
	}
	if rn.outcomes == nil {
		rn.outcomes = map[uint64]struct{}{}
	}
	rn.outcomes[h] = struct{}{}
}

func snapName(s *snap) string {
	if s == nil {
		return "current"
	}
	return s.name
}

// report confirms the first occurrence of a signature on a fresh instance of the history.
func (rn *runner) report(w *world, s *snap, pendSpec []string, o opts, sig, desc string) {
	if rn.reported[sig] {
		rn.p.Viol(sig, "", "")
		return
	}
	ro := replayObj{Hist: w.h, Snap: snapName(s), Pending: pendSpec, Opt: o}
	if o.API != "point" {
		for rep := 0; rep < 2; rep++ {
			sig2, _ := replayOne(rn.base+"/confirm", ro)
			if sig2 != sig {
				rn.p.Add("unconfirmed_findings", 1)
				rn.p.Notes = append(rn.p.Notes, fmt.Sprintf("finding %q did not reproduce on a fresh instance (got %q): %s", sig, sig2, desc))
				return
			}
		}
	}
	rn.reported[sig] = true
	blob, _ := json.Marshal(ro)
	rn.p.Viol(sig, desc, string(blob))
}

// replayOne rebuilds the history in a fresh directory and runs the single configuration.
func replayOne(dir string, ro replayObj) (string, string) {
	w, err := build(ro.Hist, dir)
	if w != nil {
		defer w.close()
	}
	if err != nil {
		return "build-error", err.Error()
	}
	var s *snap
	switch {
	case ro.Hist.Kind == "plain":
	case strings.HasPrefix(ro.Snap, "W["):
		s, err = w.pendingSnap(ro.Pending)
		if err != nil {
			return "build-error", err.Error()
		}
		defer discard(s.txn)
	default:
		for _, x := range w.snaps {
			if x.name == ro.Snap {
				s = x
			}
		}
	}
	ts := ^uint64(0)
	var pend map[string]ver
	if s != nil {
		ts, pend = s.ts, s.pend
	}
	want := w.m.expect(ro.Opt, ts, pend)
	if ro.Opt.API == "point" {
		return w.pointReads(s)
	}
	got, fault := w.run(s, ro.Opt)
	if ro.Opt.KeyOnly {
		if sig, d := w.integrity(); sig != "" {
			return sigFor(ro.Opt, s, "keyonly-scan-corrupts-stored-data"), d
		}
	}
	if fault == "" && fmtItems(got) == fmtItems(want) {
		return "", ""
	}
	reason := fault
	if fault == "" {
		reason = w.classify(ro.Opt, s, want, got)
	} else if i := strings.IndexByte(fault, ':'); i > 0 {
		reason = fault[:i]
	} else if strings.HasPrefix(fault, "ValueCopy") {
		reason = "valuecopy-mismatch"
	}
	return sigFor(ro.Opt, s, reason), fmt.Sprintf("%s %s\n  got:  %s\n  want: %s", fault, ro.Opt, fmtItems(got), fmtItems(want))
}

func pendingVariants(h hist, quick bool) [][]string {
	first, last := h.Keys[0], h.Keys[len(h.Keys)-1]
	outside := ""
	for _, k := range universe {
		in := false
		for _, x := range h.Keys {
			in = in || x == k
		}
		if !in {
			outside = k
			break
		}
	}
	v2 := []string{"d:" + last}
	if outside != "" {
		v2 = append(v2, "S:"+outside)
	}
	vs := [][]string{{"s:" + first}, v2}
	if !quick {
		vs = append(vs, []string{"S:" + last}, []string{"d:" + first})
	}
	return vs
}

func main() {
	r := vr.Start("C06")
	if r.ReplayPath != "" {
		var ro replayObj
		r.LoadReplay(&ro)
		sig, desc := replayOne(r.Scratch()+"/replay", ro)
		fmt.Printf("replay %s snapshot=%s pending=%v\n  %s\n", ro.Hist, ro.Snap, ro.Pending, ro.Opt)
		if sig != "" {
			fmt.Printf("  => %s\n  %s\n", sig, desc)
			r.Violation(sig, desc, ro)
		}
		r.Finish(vr.Coverage{Level: "exploration", Evaluations: 1, Distinct: 2, Rule: "replay", Samples: []any{ro.Opt.String()}})
		return
	}
	quick := r.Quick()
	var hists []hist
	if quick {
		multi := []string{"v", "d", "vV", "Vd", "dV"}
		hists = append(hists, genHists("txn", 2, []string{"skiplist"}, patterns1, patterns2, multi, []int{0, 1, 2})...)
		hists = append(hists, genHists("txn", 1, []string{"art"}, patterns1, patterns2, nil, []int{0, 1})...)
		hists = append(hists, genHists("plain", 2, []string{"skiplist"}, patterns1, patterns2, multi, []int{0, 1, 2})...)
		hists = append(hists, genHists("plain", 1, []string{"art"}, patterns1, patterns2, nil, []int{0, 1})...)
	} else {
		hists = append(hists, genHists("txn", 2, []string{"skiplist"}, patterns1, patterns2, nil, []int{0, 1, 2})...)
		hists = append(hists, genHists("plain", 2, []string{"skiplist"}, patterns1, patterns2, nil, []int{0, 1, 2})...)
		multi := []string{"v", "d", "x", "vV", "Vd", "dV"}
		hists = append(hists, genHists("txn", 2, []string{"art"}, patterns1, patterns2, multi, []int{0, 1})...)
		hists = append(hists, genHists("plain", 2, []string{"art"}, patterns1, patterns2, multi, []int{0, 1})...)
		three := []string{"v", "d", "Vd", "vV"}
		for _, h := range genHists("txn", 3, []string{"skiplist"}, patterns1, patterns2, three, []int{0, 1, 2}) {
			if len(h.Keys) == 3 {
				hists = append(hists, h)
			}
		}
		for _, h := range genHists("plain", 3, []string{"skiplist"}, patterns1, patterns2, three, []int{0, 1, 2}) {
			if len(h.Keys) == 3 {
				hists = append(hists, h)
			}
		}
	}
	if f := os.Getenv("VERIF_C06_KIND"); f != "" {
		var hs []hist
		for _, h := range hists {
			if h.Kind == f {
				hs = append(hs, h)
			}
		}
		hists = hs
	}
	base := r.Scratch()
	total := r.RunSharded(vr.Workers(), func(sh vr.ShardInfo, p *vr.Partial) {
		rn := &runner{r: r, p: p, base: fmt.Sprintf("%s/w%d", base, sh.Index), reported: map[string]bool{}, allCand: !quick, prefixes: []string{"", "a", "ab"}}
		if quick {
			rn.prefixes = []string{"", "a"}
		}
		for i, h := range hists {
			if !sh.Owns(i) {
				continue
			}
			if r.Expired() {
				p.TimedOut = true
				break
			}
			if os.Getenv("VERIF_C06_DRY") != "" { // size of the option space without touching a DB
				n := int64(0)
				if h.Kind == "plain" {
					n = int64(len(rn.optionSpace(h, nil)))
				} else {
					n = 2 * int64(len(rn.optionSpace(h, nil)))
					for _, spec := range pendingVariants(h, quick) {
						ps := &snap{pend: map[string]ver{}}
						for _, x := range spec {
							ps.pend[x[2:]] = ver{}
						}
						n += int64(len(rn.optionSpace(h, ps)))
					}
				}
				p.Add("iterator_runs", n)
				p.Add("histories", 1)
				p.Add("histories:"+h.Kind, 1)
				continue
			}
			w, err := build(h, rn.base+"/db")
			if err != nil {
				if w != nil {
					w.close()
				}
				vr.Fatalf("building %s: %v", h, err)
			}
			p.Add("histories", 1)
			p.Add("histories:"+h.Kind, 1)
			type target struct {
				s    *snap
				spec []string
			}
			var targets []target
			if h.Kind == "plain" {
				targets = append(targets, target{nil, nil})
			} else {
				for _, s := range w.snaps {
					targets = append(targets, target{s, nil})
				}
				for _, spec := range pendingVariants(h, quick) {
					s, err := w.pendingSnap(spec)
					if err != nil {
						vr.Fatalf("pending snapshot %v on %s: %v", spec, h, err)
					}
					targets = append(targets, target{s, spec})
				}
			}
			damaged := false
			if sig, d := w.integrity(); sig != "" {
				// the internal all-versions iterator itself disagrees with what was written
				rn.report(w, nil, nil, opts{API: "point"}, "internal-iter stored-data-differ-from-writes"+sigEngine, fmt.Sprintf("before any user iterator ran, DB.NewInternalIterator / exact-version reads disagree with the writes: %s\n  history: %s", d, h))
				damaged = true
			}
			// phase A: every configuration that materialises values; phase B: key-only
			// configurations (each followed by a re-read of all stored data)
			for _, phase := range []bool{false, true} {
				for _, t := range targets {
					if damaged {
						break
					}
					damaged = rn.check(w, t.s, t.spec, phase)
					if !phase {
						p.Add("snapshots", 1)
					}
				}
			}
			if damaged {
				p.Add("histories_abandoned_after_damage", 1)
			}
			for _, t := range targets {
				if t.spec != nil {
					discard(t.s.txn)
				}
			}
			if p.Counters["histories"]%40 == 1 {
				p.Sample(h.String())
			}
			w.close()
		}
		if p.Sets["outcomes"] == nil {
			p.Sets["outcomes"] = map[uint64]struct{}{}
		}
		for h := range rn.outcomes {
			p.Sets["outcomes"][h] = struct{}{}
		}
	})
	if f := os.Getenv("VERIF_SIGS_OUT"); f != "" { // debugging aid: full signature list with counts
		agg := map[string]int{}
		for _, v := range total.Violations {
			agg[v.Sig] += v.Count
		}
		var sb strings.Builder
		for sg, n := range agg {
			fmt.Fprintf(&sb, "%d\t%s\n", n, sg)
		}
		_ = os.WriteFile(f, []byte(sb.String()), 0o644)
	}
	if n := total.Counters["unconfirmed_findings"]; n > 0 {
		vr.Fatalf("%d findings did not reproduce on a fresh instance: %v", n, total.Notes)
	}
	if os.Getenv("VERIF_C06_DRY") != "" {
		fmt.Printf("DRY histories=%d txn=%d plain=%d iterator_runs=%d\n", total.Counters["histories"], total.Counters["histories:txn"], total.Counters["histories:plain"], total.Counters["iterator_runs"])
		os.Exit(0)
	}
	outcomes := total.Card("outcomes")
	r.RequireOutcomes(outcomes, 20)
	r.Finish(vr.Coverage{
		Level:       "exploration",
		Evaluations: total.Counters["iterator_runs"],
		Distinct:    total.Counters["runs_where_options_shape_the_result"],
		Rule:        "every data history (key subsets of {a, a\\x00, a\\xff, ab, b}, 1-2 versions per key from {value, value-log value, delete, expired, far-future}) x placement x snapshot (between the versions / newest / newest with pending writes) x every combination of direction, lower/upper bound, prefix, key-only, all-versions and seek target, for Txn.NewIterator, Txn.NewKeyIterator and DB.NewIterator; non-trivial = runs whose expected result is non-empty and differs from the plain forward scan",
		Samples:     total.SamplesAny(),
		Exhaustive:  !total.TimedOut,
		Outcomes:    outcomes,
		Bounds: map[string]any{"quick": quick, "max_keys_per_history": r.Pick(2, 3), "versions_per_key": 2, "placements": []string{"memtable", "flush-between-versions", "flush+compaction"},
			"engines": "skiplist (all), art (smaller key sets, placements 0-1)", "patterns": append(append([]string{}, patterns1...), patterns2...)},
		Extra: map[string]any{"histories": total.Counters["histories"], "txn_histories": total.Counters["histories:txn"], "plain_histories": total.Counters["histories:plain"],
			"snapshots": total.Counters["snapshots"]},
		Assumptions: []string{
			"the engine-internal key !NoKV!discard (value-log discard statistics, written by the engine itself at version 1) is not live data of the snapshot and is filtered before comparison",
			"DB.NewIterator is exercised on histories written through the plain API only (db.go: 'Non-transactional API: do not mix with MVCC/Txn writes'), in the default column family; transaction iterators on histories written through transactions",
			"expiry uses absolute timestamps 1 (long expired) and 2^40 (far future); behaviour at the exact second boundary is not explored",
			"bounds and seek targets are drawn from each key of the history, the probe just above it, and the extremes; all-versions mode must yield every version <= read ts that is itself live, newest first in forward order",
			"a pending write is presented at version = read ts; a commit after the last data version keeps read ts above every stored version so that this never collides with a stored version",
		},
	})
}

// discard tolerates the "unclosed iterator" panic that follows an iterator constructor panic.
func discard(t *NoKV.Txn) {
	defer func() { _ = recover() }()
	t.Discard()
}
