//go:build verif

// C08 — value-log separation and GC never change or lose a live value.
//
// (a) sequential: bounded-exhaustive exploration (seqmc) of Set/Del histories with value
// sizes around the separation threshold on two keys, a tiny value-log file size (rotation
// after 1-2 values), 1 and 2 buckets, interleaved with every enabled maintenance transition
// including value-log GC of every non-active file through the real doRunGC; after every
// step Get, GetVersionedEntry and the DB iterator (both directions, values materialised)
// must return the model value byte-for-byte; only not-found is a legal error.
//
// (b) coarse concurrency: GC of one file against a concurrent writer and the engine's
// commit worker, every interleaving at the named hook points (see conc.go).
package main

import (
	"encoding/json"
	"fmt"
	"math"
	"os"
	"strings"
	"time"

	NoKV "github.com/feichai0017/NoKV"

	"verif/lib/dbh"
	"verif/lib/kvseq"
	"verif/lib/seqmc"
	"verif/lib/vr"
)

type config struct {
	Name      string
	Cfg       dbh.Config
	Ops       []string
	MaxClient int
	MaxMaint  int
	Depth     int
	GC        bool
	Reopen    bool
	Macro     bool
	HeldIter  bool
}

const threshold = 32

// A value-log record of a threshold-sized value on a one-letter key takes 53-55 bytes after
// the 20-byte file header: 130 makes a file hold exactly two such records (one record of
// 3*threshold), so a non-active file can hold a dead and a live record at once - the case
// in which GC must move the live one before it removes the file.
const vlogFileSize = 130

func sizes(key string, ns ...int) []string {
	var out []string
	for _, n := range ns {
		out = append(out, fmt.Sprintf("set:d:%s:n%d", key, n))
	}
	return out
}

// hotRouted: two value-log buckets with hot/cold routing. The value-log hot ring is a pure
// write counter (dedicated ring, no rotation, decay or sliding window, so nothing depends on
// time): a key's first out-of-line write is cold (bucket 1), from its second write on it is
// hot (bucket 0); a reopen starts the counters afresh. With equal value sizes the stale cold
// record and the live hot record of a key sit at the SAME (fid, offset) in different buckets.
func hotRouted(c dbh.Config) dbh.Config {
	c.Buckets = 2
	c.Tweak = func(o *NoKV.Options) {
		o.HotRingEnabled = true
		o.HotRingRotationInterval, o.HotRingDecayInterval, o.HotRingWindowSlots = 0, 0, 0
		o.ValueLogHotBucketCount = 1
		o.ValueLogHotKeyThreshold = 2
		o.ValueLogHotRingOverride = true
		o.ValueLogHotRingBits = 8
		o.ValueLogHotRingRotationInterval, o.ValueLogHotRingDecayInterval, o.ValueLogHotRingWindowSlots = 0, 0, 0
		o.ValueLogHotRingNodeCap = 0
	}
	return c
}

func seqConfigs(r *vr.Run) []config {
	one := dbh.Config{Engine: "skiplist", Buckets: 1, VlogFileSize: vlogFileSize, ValueThreshold: threshold}
	two := dbh.Config{Engine: "art", Buckets: 2, VlogFileSize: vlogFileSize, ValueThreshold: threshold}
	// all sizes around the threshold on the colliding key, plus a second key that shares
	// value-log files and tables with it
	allSizes := append(sizes("a", threshold-1, threshold, threshold+1, 3*threshold), "del:d:a", "set:d:ab:n32")
	// GC-centred alphabet: out-of-line overwrites/deletes on two keys
	gcCore := []string{"set:d:a:n32", "set:d:ab:n33", "del:d:a", "set:d:a:n31"}
	// hot/cold bucket migration: equal sizes so record offsets coincide across buckets; three
	// keys so the cold bucket can be filled and rotated by keys that are still cold
	hot := hotRouted(one)
	hotOps := []string{"set:d:a:n32", "set:d:ab:n32", "set:d:b:n32", "del:d:a"}
	if r.Quick() {
		return []config{
			{"hot-bucket-migration", hot, hotOps[:3], 4, 2, 6, true, false, false, false},
			{"sizes-1bucket", one, allSizes, 3, 2, 5, true, false, false, false},
			{"gc-core-1bucket", one, gcCore, 3, 4, 7, true, false, false, false},
			{"gc-core-2buckets-art", two, gcCore[:3], 3, 2, 5, true, true, false, false},
			{"gc-macro", one, gcCore[:2], 4, 4, 8, true, false, true, false},
			{"held-iterator", one, gcCore[:2], 4, 2, 8, true, false, false, true},
		}
	}
	return []config{
		{"hot-bucket-migration", hot, hotOps, 5, 4, 9, true, true, false, false},
		{"sizes-1bucket", one, allSizes, 4, 3, 7, true, true, false, false},
		{"sizes-2buckets-art", two, allSizes, 3, 3, 6, true, true, false, false},
		{"gc-core-1bucket", one, gcCore, 5, 5, 10, true, true, false, false},
		{"gc-core-2buckets-art", two, gcCore, 4, 4, 8, true, true, false, false},
		{"gc-macro", one, gcCore, 5, 8, 13, true, true, true, false},
		// a DB iterator held open across maintenance (rotate/flush/compaction/GC) must still
		// return every live value
		{"held-iterator", one, gcCore[:2], 4, 4, 10, true, false, false, true},
	}
}

func params(c config, dir string, budget bool) *kvseq.Params {
	p := &kvseq.Params{Cfg: c.Cfg, ClientOps: c.Ops, MaxClient: c.MaxClient, MaxMaint: c.MaxMaint,
		WithGC: c.GC, WithReopen: c.Reopen, Macro: c.Macro, Dedup: true, BaseDir: dir,
		Versioned: true, ProbeVers: []uint64{math.MaxUint64, 7}, RichSig: true, CheckIter: true, MeasureGC: true, HeldIter: c.HeldIter}
	if !budget {
		p.MaxClient, p.MaxMaint, p.Dedup = 99, 99, false
	}
	return p
}

// concurrency scenarios: prefix (sequential) ; G = GC ; W ops
func concScenarios(r *vr.Run) []scenario {
	one := dbh.Config{Engine: "skiplist", Buckets: 1, VlogFileSize: vlogFileSize, ValueThreshold: threshold}
	// value-log file 0 ends up holding a dead entry of "ab" and the live entry of "a"
	base := []string{"set:ab:32", "set:a:32", "set:ab:32", "set:ab:32"}
	prefixes := map[string][]string{
		"mem":     base,
		"l0":      append(append([]string{}, base...), "rf"),
		"imm":     append(append([]string{}, base...), "rotate"),
		"l6":      append(append([]string{}, base...), "rf", "l0-base", "ingest-drain:6"),
		"big-mem": {"set:ab:32", "set:a:96", "set:ab:32", "set:ab:32"},
	}
	wsets := [][]string{{"set:a:32"}, {"set:a:31"}, {"del:a"}}
	if r.Thorough() {
		wsets = append(wsets, []string{"set:a:96"}, []string{"set:ab:32"}, []string{"set:a:32", "set:a:33"}, []string{"set:a:32", "del:a"}, []string{"del:a", "set:a:32"})
	}
	var names []string
	if r.Quick() {
		names = []string{"mem", "l0"}
	} else {
		names = []string{"mem", "l0", "imm", "l6", "big-mem"}
	}
	var out []scenario
	for _, n := range names {
		for _, ws := range wsets {
			out = append(out, scenario{Name: n + "/" + strings.Join(ws, ","), Cfg: one, Prefix: prefixes[n], GC: "gc:0:0", WOps: ws})
		}
	}
	return out
}

func main() {
	r := vr.Start("C08")
	cfgs := seqConfigs(r)
	scens := concScenarios(r)
	if only := os.Getenv("VERIF_ONLY"); only != "" { // debugging aid: a single configuration / "conc" / "seq"
		var sel []config
		for _, c := range cfgs {
			if c.Name == only || only == "seq" {
				sel = append(sel, c)
			}
		}
		cfgs = sel
		if only != "conc" {
			scens = nil
		}
	}
	if r.ReplayPath != "" {
		var rp struct {
			Config   string
			Scenario *scenario
			Path     []string
		}
		r.LoadReplay(&rp)
		if rp.Scenario != nil {
			replayConc(r, *rp.Scenario, rp.Path)
		}
		replaySeq(r, cfgs, rp.Config, rp.Path)
		return
	}
	base := r.Scratch()
	total := r.RunSharded(vr.Workers(), func(sh vr.ShardInfo, p *vr.Partial) {
		// (b) first: it is cheap and the scenarios are distributed round-robin
		for si, sc := range scens {
			if !sh.Owns(si) {
				continue
			}
			sub := vr.NewPartial()
			dir := fmt.Sprintf("%s/s%d-k%d", base, sh.Index, si)
			st := seqmc.Explore(seqmc.Config{New: func() seqmc.Instance { return mustConc(sc, dir) }, MaxDepth: 40,
				Expired: r.Expired, OnLeaf: func(path []string, in seqmc.Instance) {
					ci := in.(*concInst)
					if len(ci.Enabled()) != 0 {
						vr.Fatalf("schedule %v of scenario %s did not terminate within the depth bound", path, sc.Name)
					}
					if ci.pending == "" && !ci.allDone() {
						vr.Fatalf("schedule %v of scenario %s ended with unfinished threads (G=%d W=%d)", path, sc.Name, ci.gState, ci.wState)
					}
					ci.noteLeaf()
				}}, sub)
			_ = st
			scJSON, _ := json.Marshal(sc)
			for i := range sub.Violations {
				v := &sub.Violations[i]
				if !confirmConc(sc, dir+"-confirm", v) {
					v.Sig = "nondeterministic:" + v.Sig
				}
				v.Replay = fmt.Sprintf(`{"Scenario":%s,"Path":%s}`, scJSON, v.Replay)
			}
			// keep the counters of the two parts apart
			for k, v := range sub.Counters {
				if k != "max_depth" {
					p.Add("conc:"+k, v)
				}
			}
			sub.Counters = map[string]int64{}
			p.Merge(sub)
		}
		for k, v := range concStats {
			p.Add("conc:"+k, v)
		}
		// (a)
		start, budget := time.Now(), r.Remaining()
		for ci, c := range cfgs {
			prm := params(c, fmt.Sprintf("%s/s%d-c%d", base, sh.Index, ci), true)
			sub := vr.NewPartial()
			// time slicing: configuration i may run until (i+1)/n of the remaining budget is used, so
			// a slow early configuration cannot starve the later ones (unused time carries over)
			slice := start.Add(budget * time.Duration(ci+1) / time.Duration(len(cfgs)))
			expired := func() bool { return r.Expired() || time.Now().After(slice) }
			seqmc.Explore(seqmc.Config{New: func() seqmc.Instance { return kvseq.New(prm) }, MaxDepth: c.Depth,
				Shard: sh, Expired: expired}, sub)
			for i := range sub.Violations {
				v := &sub.Violations[i]
				if !confirmSeq(c, fmt.Sprintf("%s/s%d-c%d-confirm", base, sh.Index, ci), v, reruns(i)) {
					v.Sig = "nondeterministic:" + v.Sig
				}
				v.Replay = fmt.Sprintf(`{"Config":%q,"Path":%s}`, c.Name, v.Replay)
				v.Desc = "config=" + c.Name + " " + v.Desc
			}
			if sub.TimedOut {
				p.Add("incomplete:"+c.Name, 1)
			}
			p.Merge(sub)
		}
		for k, v := range kvseq.OpCount {
			p.Add("op:"+k, v)
		}
		for k, v := range kvseq.PointCounts() {
			p.Add("op:point:"+k, v)
		}
	})
	if os.Getenv("VERIF_DUMP_SIGS") != "" { // debugging aid
		for _, v := range total.Violations {
			fmt.Fprintf(os.Stderr, "SIG %4d %s\n", v.Count, v.Sig)
			if os.Getenv("VERIF_DUMP_SIGS") == "2" {
				fmt.Fprintf(os.Stderr, "     %s\n", strings.ReplaceAll(v.Desc, "\n", "\n     "))
			}
		}
	}
	states := total.Card("states")
	ops := opCounts(total, "op:")
	conc := opCounts(total, "conc:")
	if r.ReplayPath == "" && os.Getenv("VERIF_ONLY") == "" && r.Violations() == 0 {
		// non-vacuity (only judged when nothing failed: a violation is reported as such): GC must
		// actually have moved live values and removed files, sequentially and under concurrency.
		// (On the current tree a GC run that moved live values then fails its post-write sanity
		// read - use after release of the pooled entry - so "moved" shows up as error-after-moving-live.)
		var moved, removed int64
		for k, v := range ops {
			if strings.HasPrefix(k, "gc-effect:") && (strings.Contains(k, "moved-live") || strings.Contains(k, "moving-live")) {
				moved += v
			}
			if strings.HasPrefix(k, "gc-effect:") && strings.Contains(k, "removed-file") {
				removed += v
			}
		}
		if moved == 0 || removed == 0 {
			vr.Fatalf("vacuous: sequential GC moved live values %d times, removed files %d times: %v", moved, removed, ops)
		}
		if conc["schedules_gc_removed_file"] == 0 || conc["race_window_entered"] == 0 {
			vr.Fatalf("vacuous: concurrent GC schedules %v", conc)
		}
	}
	r.RequireOutcomes(states+conc["schedules"], 10)
	r.Finish(vr.Coverage{
		Level:       "model_checking",
		Evaluations: total.Counters["executions"] + conc["executions"],
		Distinct:    states,
		Rule:        "(a) DFS over all sequences of Set (value sizes threshold-1, threshold, threshold+1, 3*threshold) / Del on two keys and enabled maintenance transitions (rotate, flush-oldest, L0->base ingest move, L0->L0, ingest drain/merge, value-log GC of every non-active file through the real doRunGC, close+reopen) within per-path budgets, state = (model, LSM shape dump, value-log file set), oracle after every transition: Get, GetVersionedEntry and DB iterator (both directions) byte-for-byte; (b) every interleaving of GC(file) / writer / commit worker at the named hook points per scenario, oracle after every scheduling step",
		Samples:     total.SamplesAny(),
		States:      states,
		Transitions: total.Counters["transitions"] + conc["transitions"],
		Validated:   total.Counters["executions"] + conc["executions"],
		Exhaustive:  !total.TimedOut,
		Outcomes:    states,
		Bounds: map[string]any{"sequential_configs": names(cfgs), "concurrency_scenarios": scenNames(scens),
			"value_threshold": threshold, "vlog_file_size": vlogFileSize, "quick": r.Quick()},
		Extra: map[string]any{"pruned_by_state_key": total.Counters["pruned"], "noop_cut": total.Counters["cut_noop"],
			"incomplete_configs_workers": opCounts(total, "incomplete:"),
			"replayed_steps":             total.Counters["replayed_steps"], "max_depth": total.Counters["max_depth"],
			"ops_applied": ops, "concurrency": conc},
		Assumptions: []string{"background compaction paused and driven by the harness through the real doCompact; flush worker gated",
			"a GC run that returns an error (e.g. the sampled key is deleted) is an implementation-only failure, counted but not judged; the read oracle still runs",
			"(b) one controlled thread runs at a time; code between two named points runs atomically (coarse mode); quiescence is decided from goroutine states in a stop-the-world runtime.Stack snapshot",
			"(b) while a write is in flight (issued, not yet acknowledged) both the previous and the new value are accepted for its key",
			"traces_validated_against_impl counts fresh-instance replays of path prefixes (each replay re-executes the real code and must not diverge)"},
	})
}

func mustConc(sc scenario, dir string) *concInst {
	in := newConc(sc, dir)
	if in.pending == "prefix-failed" || in.pending == "open-failed" {
		vr.Fatalf("scenario %s: %s: %s", sc.Name, in.pending, in.pendDsc)
	}
	if sig, desc := in.Check(); sig != "" {
		// the sequential prefix already violates the read oracle: report that, not a harness error
		in.pending, in.pendDsc = sig, "after the sequential prefix: "+desc
		return in
	}
	ok := false
	for _, op := range in.h.MaintMenu(true, false) {
		if op == sc.GC {
			ok = true
		}
	}
	if !ok {
		vr.Fatalf("scenario %s: %s is not a non-active value-log file after the prefix (menu %v)", sc.Name, sc.GC, in.h.MaintMenu(true, false))
	}
	return in
}

// reruns: the first distinct signatures of a worker are re-run 5 times, the rest once.
func reruns(i int) int {
	if i < 8 {
		return 5
	}
	return 1
}

func confirmSeq(c config, dir string, v *vr.PViolation, n int) bool {
	var path []string
	if err := json.Unmarshal([]byte(v.Replay), &path); err != nil {
		return false
	}
	for i := 0; i < n; i++ {
		in := kvseq.New(params(c, dir, false))
		for _, op := range path {
			if _, err := in.Apply(op); err != nil {
				in.Close()
				return false
			}
		}
		sig, _ := in.Check()
		in.Close()
		if sig != v.Sig {
			return false
		}
	}
	return true
}

func confirmConc(sc scenario, dir string, v *vr.PViolation) bool {
	var path []string
	if err := json.Unmarshal([]byte(v.Replay), &path); err != nil {
		return false
	}
	for i := 0; i < 5; i++ {
		in := mustConc(sc, dir)
		for _, op := range path {
			if _, err := in.Apply(op); err != nil {
				in.Close()
				return false
			}
		}
		sig, _ := in.Check()
		in.Close()
		if sig != v.Sig {
			return false
		}
	}
	return true
}

func names(cs []config) []string {
	var out []string
	for _, c := range cs {
		out = append(out, fmt.Sprintf("%s(ops=%s,client<=%d,maint<=%d,depth<=%d,gc=%v,reopen=%v,macro=%v,buckets=%d)", c.Name, strings.Join(c.Ops, " "), c.MaxClient, c.MaxMaint, c.Depth, c.GC, c.Reopen, c.Macro, c.Cfg.Buckets))
	}
	return out
}

func scenNames(ss []scenario) []string {
	var out []string
	for _, s := range ss {
		out = append(out, fmt.Sprintf("%s: prefix=[%s] G=%s W=[%s]", s.Name, strings.Join(s.Prefix, " "), s.GC, strings.Join(s.WOps, " ")))
	}
	return out
}

func replaySeq(r *vr.Run, cfgs []config, name string, path []string) {
	for _, c := range cfgs {
		if c.Name != name {
			continue
		}
		in := kvseq.New(params(c, r.Scratch(), false))
		defer in.Close()
		for i, op := range path {
			if _, err := in.Apply(op); err != nil {
				vr.Fatalf("replay step %d %q: %v", i, op, err)
			}
			if os.Getenv("VERIF_SHAPE") != "" { // debugging aid: LSM shape after every replayed step
				fmt.Printf("replay: after step %d (%s):\n%s", i, op, in.(*kvseq.Inst).H.DB.VerifLSM().VerifShape(true))
			}
			if os.Getenv("VERIF_CHECK_LAST_ONLY") != "" && i < len(path)-1 {
				continue // as the explorer does when it rebuilds a state: no reads between the steps
			}
			if sig, desc := in.Check(); sig != "" {
				fmt.Printf("replay: violation after step %d (%s): %s\n", i, op, desc)
				r.Violation(sig, desc, map[string]any{"Config": name, "Path": path[:i+1]})
				break
			}
		}
		fmt.Printf("replay: op counts %v\n", kvseq.OpCount)
		r.Finish(vr.Coverage{Level: "model_checking", Evaluations: 1, Distinct: 2, States: 1, Transitions: int64(len(path)), Rule: "replay", Samples: []any{path}})
	}
	vr.Fatalf("unknown config %q", name)
}

func replayConc(r *vr.Run, sc scenario, path []string) {
	in := mustConc(sc, r.Scratch())
	for i, op := range path {
		if _, err := in.Apply(op); err != nil {
			vr.Fatalf("replay step %d %q: %v", i, op, err)
		}
		if sig, desc := in.Check(); sig != "" {
			fmt.Printf("replay: violation after step %d (%s): %s\n", i, op, desc)
			r.Violation(sig, desc, map[string]any{"Scenario": sc, "Path": path[:i+1]})
			break
		}
		fmt.Printf("replay: step %d %s ok; enabled %v; trace %v\n%s", i, op, in.Enabled(), in.trace, in.dump())
	}
	in.Close()
	r.Finish(vr.Coverage{Level: "model_checking", Evaluations: 1, Distinct: 2, States: 1, Transitions: int64(len(path)), Rule: "replay", Samples: []any{path}})
}

func opCounts(p *vr.Partial, prefix string) map[string]int64 {
	out := map[string]int64{}
	for k, v := range p.Counters {
		if strings.HasPrefix(k, prefix) {
			out[k[len(prefix):]] = v
		}
	}
	return out
}
