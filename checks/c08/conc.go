//go:build verif

package main

// Coarse concurrency exploration for C08: value-log GC of one file (thread G) against a
// concurrent writer (thread W) with the engine's commit worker (thread C) as the third
// controlled thread. Scheduling points are the named verifhook points
//
//	G: vlog.gc.sampled, vlog.gc.rewritten, vlog.gc.fileRemoved
//	C: db.commit.vlogWritten   (value log written, LSM not yet updated)
//
// plus the blocking seams "request queued, waiting for the commit worker" (G and W) and
// "commit worker idle". One thread runs at a time; the code between two points runs
// atomically. A step resumes one thread and then waits until every controlled goroutine is
// parked at a point, blocked in request.Wait, idle in commitQueue.acquireItem, or finished.
// That quiescence test reads the goroutine states from a stop-the-world runtime.Stack
// snapshot, so it is a fact about the goroutines, not a timing guess: each accepted state can
// only be left through an action of another controlled goroutine (which would then be seen
// running) or of the scheduler.

import (
	"bytes"
	"errors"
	"fmt"
	"math"
	"os"
	"runtime"
	"sort"
	"strings"
	"sync"
	"time"

	"github.com/feichai0017/NoKV/kv"
	"github.com/feichai0017/NoKV/utils"

	"verif/lib/dbh"
	"verif/lib/seqmc"
)

// scenario: a sequential prefix, then G = gc of one file concurrently with W's operations.
type scenario struct {
	Name   string
	Cfg    dbh.Config
	Prefix []string // set:<key>:<size> | del:<key> | rf | rotate | flush | l0-base
	GC     string   // gc:<bucket>:<fid>
	WOps   []string // set:<key>:<size> | del:<key>
}

type threadState int

const (
	tNew threadState = iota
	tRunning
	tParked
	tWaiting // blocked in request.Wait on the commit worker
	tDone
)

type concInst struct {
	sc      scenario
	h       *dbh.H
	dir     string
	seq     int
	model   map[string][]byte // acknowledged value per key (nil = deleted/absent)
	keys    []string
	pending string
	pendDsc string

	mu       sync.Mutex
	active   bool
	parkCh   map[string]chan struct{}
	parkAt   map[string]string
	gState   threadState
	wState   threadState
	wNext    int    // next W op index
	wKey     string // key of W's in-flight op
	wVal     []byte // value of W's in-flight op (nil = delete)
	wInFl    bool
	gErr     error
	gDone    chan struct{}
	wDone    chan struct{}
	wErr     error
	trace    []string
	raceWin  bool // G's rewrite liveness check ran while a W write to a GC'd key was queued but unapplied
	gMoved   bool
	gRemoved bool
}

var concDirSeq int

// stats shared with the driver (per process)
var concStats = map[string]int64{}

func newConc(sc scenario, base string) *concInst {
	concDirSeq++
	dir := fmt.Sprintf("%s/k%d", base, concDirSeq)
	_ = os.RemoveAll(dir)
	if err := os.MkdirAll(dir, 0o755); err != nil {
		panic(err)
	}
	in := &concInst{sc: sc, dir: dir, model: map[string][]byte{}, parkCh: map[string]chan struct{}{}, parkAt: map[string]string{}}
	h, err := dbh.Open(dir, sc.Cfg)
	in.h = h
	if err != nil {
		in.pending, in.pendDsc = "open-failed", err.Error()
		return in
	}
	h.OnPoint = in.onPoint
	seen := map[string]bool{}
	for _, op := range append(append([]string{}, sc.Prefix...), sc.WOps...) {
		f := strings.Split(op, ":")
		if (f[0] == "set" || f[0] == "del") && !seen[f[1]] {
			seen[f[1]] = true
			in.keys = append(in.keys, f[1])
		}
	}
	sort.Strings(in.keys)
	for _, op := range sc.Prefix {
		if err := in.seqOp(op); err != nil {
			in.pending, in.pendDsc = "prefix-failed", fmt.Sprintf("%s: %v", op, err)
			return in
		}
	}
	in.active = true
	return in
}

func (in *concInst) value(size int) []byte {
	in.seq++
	v := []byte(fmt.Sprintf("V%d|", in.seq))
	for i := 0; len(v) < size; i++ {
		v = append(v, byte('a'+(i+in.seq)%26))
	}
	return v[:size]
}

// seqOp applies one prefix operation synchronously (no thread is controlled yet).
func (in *concInst) seqOp(op string) error {
	f := strings.Split(op, ":")
	switch f[0] {
	case "set":
		var size int
		fmt.Sscanf(f[2], "%d", &size)
		v := in.value(size)
		if err := in.h.DB.Set([]byte(f[1]), v); err != nil {
			return err
		}
		in.model[f[1]] = v
		return nil
	case "del":
		if err := in.h.DB.Del([]byte(f[1])); err != nil {
			return err
		}
		in.model[f[1]] = nil
		return nil
	}
	_, err := in.h.Maint(op)
	var ie *dbh.ImplError
	if errors.As(err, &ie) {
		return nil
	}
	return err
}

// onPoint runs on whichever goroutine passes a named hook point.
func (in *concInst) onPoint(name string) {
	in.mu.Lock()
	if !in.active {
		in.mu.Unlock()
		return
	}
	var th string
	switch name {
	case "vlog.gc.sampled", "vlog.gc.rewritten", "vlog.gc.fileRemoved":
		th = "G"
	case "db.commit.vlogWritten":
		th = "C"
	default:
		in.mu.Unlock()
		return
	}
	ch := make(chan struct{})
	in.parkCh[th] = ch
	in.parkAt[th] = name
	in.mu.Unlock()
	parkHere(ch)
}

//go:noinline
func parkHere(ch chan struct{}) { <-ch }

func (in *concInst) runG() {
	defer close(in.gDone)
	var b, f uint32
	fmt.Sscanf(in.sc.GC, "gc:%d:%d", &b, &f)
	defer func() {
		if r := recover(); r != nil {
			in.gErr = fmt.Errorf("gc panicked: %v", r)
		}
	}()
	in.gErr = in.h.DB.VerifGC(b, f, 0.000001)
}

func (in *concInst) runW(op string, val []byte) {
	defer close(in.wDone)
	f := strings.Split(op, ":")
	if f[0] == "set" {
		in.wErr = in.h.DB.Set([]byte(f[1]), val)
	} else {
		in.wErr = in.h.DB.Del([]byte(f[1]))
	}
}

// goroutine classes found in a runtime.Stack(all) dump
type gInfo struct {
	state string
	stack string
}

func snapshot() (g, w, c *gInfo) {
	buf := make([]byte, 1<<18)
	for {
		n := runtime.Stack(buf, true)
		if n < len(buf) {
			buf = buf[:n]
			break
		}
		buf = make([]byte, 2*len(buf))
	}
	for _, blk := range strings.Split(string(buf), "\n\n") {
		if !strings.HasPrefix(blk, "goroutine ") {
			continue
		}
		nl := strings.IndexByte(blk, '\n')
		if nl < 0 {
			continue
		}
		head := blk[:nl]
		st := ""
		if i := strings.IndexByte(head, '['); i >= 0 {
			st = strings.TrimSuffix(head[i+1:], "]:")
			if j := strings.IndexByte(st, ','); j >= 0 {
				st = st[:j]
			}
		}
		info := &gInfo{state: st, stack: blk}
		switch {
		case strings.Contains(blk, "main.(*concInst).runG("):
			g = info
		case strings.Contains(blk, "main.(*concInst).runW("):
			w = info
		case strings.Contains(blk, ".(*DB).commitWorker("):
			c = info
		}
	}
	return
}

func blockedIn(gi *gInfo, frame string, states ...string) bool {
	if gi == nil || !strings.Contains(gi.stack, frame) {
		return false
	}
	for _, s := range states {
		if gi.state == s {
			return true
		}
	}
	return false
}

// settle waits for quiescence and classifies the controlled threads.
func (in *concInst) settle() error {
	deadline := time.Now().Add(30 * time.Second)
	for {
		g, w, c := snapshot()
		ok := true
		// G
		switch {
		case in.gState == tNew || in.gState == tDone:
		case g == nil:
			select {
			case <-in.gDone:
				in.gState = tDone
			default:
				ok = false // goroutine not yet visible / just exiting
			}
		case blockedIn(g, "main.parkHere(", "chan receive"):
			in.gState = tParked
		case blockedIn(g, ".(*request).Wait(", "sync.WaitGroup.Wait", "semacquire"):
			in.gState = tWaiting
		default:
			ok = false
		}
		// W
		switch {
		case in.wState == tNew || in.wState == tDone:
		case w == nil:
			select {
			case <-in.wDone:
				in.wState = tDone
			default:
				ok = false
			}
		case blockedIn(w, ".(*request).Wait(", "sync.WaitGroup.Wait", "semacquire"):
			in.wState = tWaiting
		default:
			ok = false
		}
		// C
		cParked := blockedIn(c, "main.parkHere(", "chan receive")
		cIdle := blockedIn(c, ".(*commitQueue).acquireItem(", "select")
		if c == nil || !(cParked || cIdle) {
			ok = false
		}
		if ok {
			// a parked goroutine must have registered its channel (it does so before blocking)
			in.mu.Lock()
			_, gReg := in.parkCh["G"]
			_, cReg := in.parkCh["C"]
			in.mu.Unlock()
			if (in.gState == tParked) != gReg || cParked != cReg {
				ok = false
			}
		}
		if ok {
			if in.wState == tDone && in.wInFl {
				// W's operation was acknowledged
				in.wInFl = false
				if in.wErr != nil {
					in.pending, in.pendDsc = "write-error", fmt.Sprintf("concurrent write returned %v", in.wErr)
				} else {
					in.model[in.wKey] = in.wVal
				}
			}
			return nil
		}
		if time.Now().After(deadline) {
			gs, ws, cs := "", "", ""
			if g != nil {
				gs = g.stack
			}
			if w != nil {
				ws = w.stack
			}
			if c != nil {
				cs = c.stack
			}
			return fmt.Errorf("no quiescence within 30s (trace %v)\nG: %s\nW: %s\nC: %s", in.trace, gs, ws, cs)
		}
		runtime.Gosched()
		time.Sleep(10 * time.Microsecond)
	}
}

func (in *concInst) cParked() bool {
	in.mu.Lock()
	defer in.mu.Unlock()
	_, ok := in.parkCh["C"]
	return ok
}

func (in *concInst) resume(th string) string {
	in.mu.Lock()
	ch := in.parkCh[th]
	at := in.parkAt[th]
	delete(in.parkCh, th)
	delete(in.parkAt, th)
	in.mu.Unlock()
	if ch != nil {
		close(ch)
	}
	return at
}

// Enabled: the scheduler's choices in the current quiescent state.
func (in *concInst) Enabled() []string {
	if in.pending != "" || in.h == nil || in.h.DB == nil {
		return nil
	}
	var ops []string
	if in.gState == tNew || in.gState == tParked {
		ops = append(ops, "G")
	}
	if (in.wState == tNew || in.wState == tDone) && in.wNext < len(in.sc.WOps) {
		ops = append(ops, "W")
	}
	if in.cParked() {
		ops = append(ops, "C")
	}
	return ops
}

func (in *concInst) Apply(op string) (bool, error) {
	switch op {
	case "G":
		if in.gState == tNew {
			in.gDone = make(chan struct{})
			in.gState = tRunning
			in.trace = append(in.trace, "G:start")
			go in.runG()
		} else {
			at := in.resume("G")
			in.gState = tRunning
			in.trace = append(in.trace, "G:after-"+strings.TrimPrefix(at, "vlog.gc."))
			if at == "vlog.gc.sampled" && in.wInFl && in.wState == tWaiting {
				// G now runs rewrite(): its liveness checks read the LSM while W's write sits in
				// the commit pipeline (queued before G's rewrite batch, not yet applied)
				in.raceWin = true
				concStats["race_window_entered"]++
			}
		}
	case "W":
		wop := in.sc.WOps[in.wNext]
		in.wNext++
		f := strings.Split(wop, ":")
		in.wKey, in.wVal = f[1], nil
		if f[0] == "set" {
			var size int
			fmt.Sscanf(f[2], "%d", &size)
			in.wVal = in.value(size)
		}
		in.wInFl = true
		in.wDone = make(chan struct{})
		in.wState = tRunning
		in.trace = append(in.trace, "W:"+wop)
		go in.runW(wop, in.wVal)
	case "C":
		in.resume("C")
		in.trace = append(in.trace, "C:apply")
	default:
		return false, fmt.Errorf("unknown schedule choice %q", op)
	}
	if err := in.settle(); err != nil {
		return false, err
	}
	if in.gState == tDone && in.gErr != nil && !errors.Is(in.gErr, utils.ErrNoRewrite) {
		if strings.Contains(in.gErr.Error(), "panicked") {
			in.pending, in.pendDsc = "gc-panic", in.gErr.Error()
		}
		// any other GC error is an implementation-only failure of the background task
	}
	return true, nil
}

func (in *concInst) allDone() bool {
	return (in.gState == tDone) && in.wNext == len(in.sc.WOps) && (in.wState == tDone || in.wState == tNew) && !in.cParked()
}

// Check: every read API returns the acknowledged value of every key byte-for-byte; while a
// write of W is in flight its value is acceptable too. Only not-found is a legal error.
func (in *concInst) Check() (string, string) {
	if in.pending != "" {
		return in.pending, in.pendDsc
	}
	db := in.h.DB
	cls := func() string {
		mech := "other"
		if in.raceWin {
			mech = "gc-liveness-check-while-overwrite-queued"
		}
		return fmt.Sprintf("scen=%s gc=%s mech=%s", in.sc.Name, in.sc.GC, mech)
	}
	okVal := func(key string, got []byte, found bool) bool {
		want := in.model[key]
		if (want == nil && !found) || (want != nil && found && bytes.Equal(got, want)) {
			return true
		}
		if in.wInFl && in.wKey == key {
			if (in.wVal == nil && !found) || (in.wVal != nil && found && bytes.Equal(got, in.wVal)) {
				return true
			}
		}
		return false
	}
	describe := func(api, key string, got []byte, found bool) (string, string) {
		kind := "stale"
		switch {
		case !found:
			kind = "lost"
		case in.model[key] == nil:
			kind = "resurrected"
		}
		g := "not found"
		if found {
			g = fmt.Sprintf("%q", got)
		}
		return fmt.Sprintf("conc-%s-%s key=%s %s", api, kind, key, cls()),
			fmt.Sprintf("%s(%s) = %s, acknowledged value %q (in-flight: %v %q); schedule %v", api, key, g, in.model[key], in.wInFl, in.wVal, in.trace)
	}
	for _, key := range in.keys {
		e, err := db.Get([]byte(key))
		if err != nil && !errors.Is(err, utils.ErrKeyNotFound) {
			return fmt.Sprintf("conc-get-error key=%s %s", key, cls()), fmt.Sprintf("Get(%s) returned %v; schedule %v", key, err, in.trace)
		}
		var got []byte
		if err == nil {
			got = e.Value
		}
		if !okVal(key, got, err == nil) {
			return describe("get", key, got, err == nil)
		}
		ve, err := db.GetVersionedEntry(kv.CFDefault, []byte(key), math.MaxUint64)
		if err != nil && !errors.Is(err, utils.ErrKeyNotFound) {
			return fmt.Sprintf("conc-vget-error key=%s %s", key, cls()), fmt.Sprintf("GetVersionedEntry(%s) returned %v; schedule %v", key, err, in.trace)
		}
		found := err == nil && ve.Meta&kv.BitDelete == 0
		got = nil
		if found {
			got = ve.Value
		}
		if !okVal(key, got, found) {
			return describe("vget", key, got, found)
		}
	}
	for _, asc := range []bool{true, false} {
		api := "iter-fwd"
		if !asc {
			api = "iter-rev"
		}
		it := db.NewIterator(&utils.Options{IsAsc: asc})
		seen := map[string][][]byte{}
		for it.Rewind(); it.Valid(); it.Next() {
			if item := it.Item(); item != nil && item.Entry() != nil {
				e := item.Entry()
				if e.CF == kv.CFDefault && e.Version == math.MaxUint64 && e.Meta&kv.BitDelete == 0 { // tombstone items are not values (C06)
					seen[string(e.Key)] = append(seen[string(e.Key)], append([]byte(nil), e.Value...))
				}
			}
		}
		_ = it.Close()
		for _, key := range in.keys {
			if len(seen[key]) == 0 {
				if !okVal(key, nil, false) {
					return describe(api, key, nil, false)
				}
				continue
			}
			for _, g := range seen[key] {
				if !okVal(key, g, true) {
					return describe(api, key, g, true)
				}
			}
		}
	}
	return "", ""
}

func (in *concInst) Key() string { return "" }

// dump renders the LSM shape and value-log files (replay diagnostics).
func (in *concInst) dump() string {
	files, active := in.h.DB.VerifVlogFiles()
	return fmt.Sprintf("%svlog=%v active=%v\n", in.h.DB.VerifLSM().VerifShape(true), files, active)
}

// Close drains the schedule (every thread runs to completion) and closes the DB.
func (in *concInst) Close() {
	if in.h == nil {
		return
	}
	if in.h.DB != nil && in.pending != "open-failed" && in.pending != "prefix-failed" {
		for i := 0; i < 100; i++ {
			progressed := false
			for _, th := range []string{"C", "G"} {
				in.mu.Lock()
				_, ok := in.parkCh[th]
				in.mu.Unlock()
				if ok {
					in.resume(th)
					if th == "G" {
						in.gState = tRunning
					}
					progressed = true
					if err := in.settle(); err != nil {
						fmt.Fprintf(os.Stderr, "HARNESS-ERROR: drain: %v\n", err)
						os.Exit(2)
					}
					break
				}
			}
			if !progressed {
				break
			}
		}
		in.mu.Lock()
		in.active = false
		in.mu.Unlock()
	}
	_ = in.h.Close()
	_ = os.RemoveAll(in.dir)
}

// leaf statistics (non-vacuity): did G rewrite / remove, did the race window occur
func (in *concInst) noteLeaf() {
	concStats["schedules"]++
	joined := strings.Join(in.trace, " ")
	if strings.Contains(joined, "G:after-rewritten") {
		concStats["schedules_gc_rewrote"]++
	}
	if strings.Contains(joined, "G:after-fileRemoved") {
		concStats["schedules_gc_removed_file"]++
	}
	if in.raceWin {
		concStats["schedules_with_race_window"]++
	}
	if in.gState == tDone && in.gErr != nil {
		if errors.Is(in.gErr, utils.ErrNoRewrite) {
			concStats["schedules_gc_no_rewrite"]++
		} else {
			concStats["schedules_gc_impl_error"]++
		}
	}
}

var _ seqmc.Instance = (*concInst)(nil)
