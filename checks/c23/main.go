//go:build verif

// C23 — only the current leader serves reads and proposals, and reads are linearizable.
// clustermc: explicit-state search of a 3-store cluster of real store.Store / peer.Peer
// objects over a harness-owned network, with ReadCommand/ProposeCommand issued at any point
// of the schedule, partitions and explicit Campaigns.
package main

import (
	"verif/lib/clustermc"
	"verif/lib/vr"
)

func scenarios(r *vr.Run) []*clustermc.Scenario {
	all := clustermc.Faults{Drop: true, Dup: true, Reorder: true, Campaign: true, Partition: true}
	w := func(key, tag string, stores ...int) clustermc.OpSpec {
		return clustermc.OpSpec{Kind: "w", Region: 1, Key: key, Tag: tag, Stores: stores}
	}
	rd := func(key string, stores ...int) clustermc.OpSpec {
		return clustermc.OpSpec{Kind: "r", Region: 1, Key: key, Stores: stores}
	}
	dep := clustermc.Faults{Campaign: true, Partition: true, CampaignAt: []int{2}, IsolateAt: []int{1}}
	quick := []*clustermc.Scenario{
		// stable leader: overlapping writes and reads, a read at a follower
		{Name: "q-stable", Regions: 1, Leaders: []int{1}, Budget: 0, MaxDepth: 80,
			Ops: []clustermc.OpSpec{w("a", "V1", 1), rd("a", 1, 2), w("a", "V2", 1)}},
	}
	// per-store clocks: the follower on store 3 may see a whole election timeout pass (a
	// "leader lease" it keeps for the old leader runs out) while the isolated old leader's
	// clock does not move; then store 2 campaigns, acknowledges a write, and the old leader is read
	// (the old leader is cut off for free: its links are simply never chosen for delivery)
	camp2 := clustermc.Faults{Campaign: true, CampaignAt: []int{2}}
	quick = append(quick, &clustermc.Scenario{Name: "q-deposed-clockskew-d14", Regions: 1, Leaders: []int{1}, Budget: 1, Faults: camp2, LeaseTickAt: []int{3}, MaxDepth: 14, DepthBound: true,
		Ops: []clustermc.OpSpec{w("a", "V1", 2), rd("a", 1)}})
	thorough := []*clustermc.Scenario{
		// the old leader is cut off by a partition, store 2 campaigns and acknowledges a write, the old leader is asked to read
		{Name: "t-deposed-d13", Regions: 1, Leaders: []int{1}, Budget: 2, Faults: dep, MaxDepth: 13, DepthBound: true,
			Ops: []clustermc.OpSpec{w("a", "V1", 2), rd("a", 1)}},
		{Name: "t-deposed-clockskew-partition-d14", Regions: 1, Leaders: []int{1}, Budget: 2, Faults: dep, LeaseTickAt: []int{3}, MaxDepth: 14, DepthBound: true,
			Ops: []clustermc.OpSpec{w("a", "V1", 2), rd("a", 1)}},
		{Name: "t-deposed-clockskew", Regions: 1, Leaders: []int{1}, Budget: 2, Faults: dep, LeaseTickAt: []int{2, 3}, MaxDepth: 120,
			Ops: []clustermc.OpSpec{w("a", "V1", 2), rd("a", 1)}},
		{Name: "t-deposed-clockskew-3ops-d17", Regions: 1, Leaders: []int{1}, Budget: 2, Faults: dep, LeaseTickAt: []int{3}, MaxDepth: 17, DepthBound: true,
			Ops: []clustermc.OpSpec{w("a", "V0", 1), w("a", "V1", 2), rd("a", 1, 2)}},
		{Name: "t-deposed", Regions: 1, Leaders: []int{1}, Budget: 2, Faults: dep, MaxDepth: 120,
			Ops: []clustermc.OpSpec{w("a", "V1", 2), rd("a", 1)}},
		{Name: "t-stable-4ops", Regions: 1, Leaders: []int{1}, Budget: 0, MaxDepth: 120,
			Ops: []clustermc.OpSpec{w("a", "V1", 1), rd("a", 1, 2), w("a", "V2", 1), rd("a", 1)}},
		{Name: "t-deposed-3ops-d16", Regions: 1, Leaders: []int{1}, Budget: 2, Faults: dep, MaxDepth: 16, DepthBound: true,
			Ops: []clustermc.OpSpec{w("a", "V0", 1), w("a", "V1", 2), rd("a", 1, 2)}},
		{Name: "t-read-anyfault", Regions: 1, Leaders: []int{1}, Budget: 1, Faults: all, MaxDepth: 120,
			Ops: []clustermc.OpSpec{w("a", "V1", 1), rd("a", 1, 2)}},
		{Name: "t-read-beat", Regions: 1, Leaders: []int{1}, Budget: 0, MaxBeats: 1, MaxDepth: 120,
			Ops: []clustermc.OpSpec{w("a", "V1", 1), rd("a", 1), rd("a", 1)}},
	}
	if r.ReplayPath != "" || r.Thorough() {
		return append(quick, thorough...)
	}
	return quick
}

func main() {
	clustermc.Main(clustermc.Check{
		Prop:      "C23",
		Oracle:    clustermc.OracleC23,
		Scenarios: scenarios,
		MinStates: 100,
		Rule:      "breadth-first explicit-state search over all schedules of: deliver the head message of any directed peer link, issue the next scripted ProposeCommand/ReadCommand at any allowed store, one heartbeat round at a leader (cost 0) and drop / duplicate / out-of-order delivery / Campaign / isolate-a-store / heal (1 deviation each, bounded per scenario); states canonicalised and deduplicated globally; after every transition: (1) a call accepted by a store whose own raft role was not leader must have been answered NotLeader, (2) the call/return history per key must have a linearization (brute force; unacknowledged writes may take effect at any later time or never)",
		Assumptions: []string{
			"harness-owned parts: in-memory network (FIFO per directed link), recording command applier (register per key), schedule; everything else is the real store/peer/etcd-raft code with the production raft settings (election 10, heartbeat 2, PreVote, ReadOnlySafe)",
			"each execution runs in a testing/synctest bubble: quiescence = every helper goroutine durably blocked; command/read timeouts use the bubble's fake clock and do not fire inside an execution",
			"randomised election timeouts never fire (tick budget < ElectionTick); elections only by explicit Campaign",
			"\"current leader\" is judged by the store's own raft role when the call arrives; a deposed leader that does not know yet may serve only if the history stays linearizable",
			"traces_validated_against_impl counts executions whose replayed prefix reproduced the recorded canonical parent state on a fresh cluster",
		},
	})
}
