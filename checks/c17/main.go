//go:build verif

// C17 — transactional reads return the newest committed value visible at their timestamp.
// Bounded-exhaustive request histories through the real kv.Apply handlers on a real DB;
// after every step GET and SCAN at every interesting timestamp are compared with a
// reference model of Percolator visibility.
package main

import (
	"verif/lib/dbh"
	"verif/lib/percseq"
	"verif/lib/vr"
)

func txns() map[int]percseq.TxnSpec {
	return map[int]percseq.TxnSpec{
		1: {Start: 10, Primary: "a", TTL: 20, Muts: map[string]byte{"a": 'p', "b": 'p'}},
		2: {Start: 20, Primary: "b", TTL: 20, Muts: map[string]byte{"a": 'd', "b": 'p'}},
		3: {Start: 30, Primary: "a", TTL: 20, Muts: map[string]byte{"a": 'l', "b": 'd'}},
	}
}

func main() {
	percseq.Main(percseq.Spec{
		Prop:     "C17",
		Families: []string{"read"},
		Rule:     "explicit-state search over request histories (prewrite put/delete/lock, commit, rollback, resolve-lock, check-txn-status; any request may repeat) applied through kv.Apply; a state is distinct if (reference model, stored entries of all column families incl. tombstones [, LSM shape]) differs; after every transition GET on every key and SCAN over the range at every stored timestamp, the one below it and max are compared with the model",
		Assumptions: []string{
			"timestamps are unique; each transaction uses one commit timestamp (conforming client)",
			"background compaction paused and driven by the harness; flush worker gated",
			"traces_validated_against_impl counts fresh-instance replays of path prefixes plus confirmation replays of violations",
		},
		Configs: func(r *vr.Run) []percseq.Config {
			small := dbh.Config{Engine: "skiplist", Buckets: 1}
			core := []string{
				"pw:1:a", "cm:1:a:15", "rb:1:a",
				"pw:2:a", "cm:2:a:27", "rb:2:a",
				"pw:3:a", "cm:3:a:39", "rb:3:a",
				"pw:1:b", "cm:1:b:15", "pw:2:b", "cm:2:b:27",
				"rs:1:ab:15", "rs:1:ab:0", "rs:3:ab:0",
				"cs:1:30:0:0", "cs:1:29:24:0", "cs:2:40:0:1",
			}
			wide := append(append([]string{}, core...),
				"cm:1:a:25", "cm:1:a:35", "cm:1:b:25", "cm:1:b:35", "pw:1:ab", "cm:1:ab:15", "pw:3:ab", "cm:3:ab:39", "rs:3:ab:39",
				"cs:3:49:0:0", "cs:3:50:44:0", "rb:1:b", "rb:2:b")
			place := []string{"pw:1:a", "cm:1:a:15", "rb:2:a", "pw:3:a", "cm:3:a:39", "pw:2:b", "cm:2:b:27", "pw:2:a", "cm:2:a:27"}
			// placement transactions: T1 writes a value-log sized value
			ptx := txns()
			ptx[1] = percseq.TxnSpec{Start: 10, Primary: "a", TTL: 20, Muts: map[string]byte{"a": 'P', "b": 'p'}}
			if r.Quick() {
				return []percseq.Config{
					{P: percseq.Params{Name: "histories", Cfg: small, Keys: []string{"a", "b"}, Txns: txns(), Ops: core,
						MaxReq: 8, Namespaced: true, NSPerDB: 128, Dedup: true, OneCommitTs: true}, Depth: 8},
					{P: percseq.Params{Name: "placement", Cfg: small, Keys: []string{"a", "b"}, Txns: ptx, Ops: place[:5],
						MaxReq: 4, MaxMaint: 2, Maint: []string{"rf", "l0-base", "reopen"}, Dedup: true, OneCommitTs: true}, Depth: 6},
				}
			}
			return []percseq.Config{
				{P: percseq.Params{Name: "histories", Cfg: small, Keys: []string{"a", "b"}, Txns: txns(), Ops: wide,
					MaxReq: 9, Namespaced: true, NSPerDB: 128, Dedup: true, OneCommitTs: true}, Depth: 9},
				{P: percseq.Params{Name: "placement", Cfg: small, Keys: []string{"a", "b"}, Txns: ptx, Ops: place,
					MaxReq: 4, MaxMaint: 4, Maint: []string{"rf", "l0-base", "ingest-drain", "ingest-keep", "reopen"}, Dedup: true, OneCommitTs: true}, Depth: 8},
				{P: percseq.Params{Name: "placement-art", Cfg: dbh.Config{Engine: "art", Buckets: 2}, Keys: []string{"a", "b"}, Txns: ptx, Ops: place[:5],
					MaxReq: 4, MaxMaint: 4, Maint: []string{"rotate", "flush", "l0-base", "ingest-drain", "reopen"}, Dedup: true, OneCommitTs: true}, Depth: 8},
			}
		},
	})
}
