//go:build verif

// C13 — WAL replays exactly what was appended, tolerating any torn tail.
//
// Part A (enum): every sequence of typed appends / forced rotations up to a depth, over
// payload sizes {0,1,7, segment-fit-1, segment-fit, segment-fit+1} and two segment sizes; the
// WAL is written by the real wal.Manager, then the newest segment is cut at every byte offset
// (reduced cut set inside large payloads, see cutSet) and the directory is recovered with the
// real VerifyDir+Open+Replay, two more records are appended, replayed, and the log is reopened
// once more.
// Part B (crashmc): shorter sequences (with explicit Sync ops and tiny bufio sizes so that
// records reach the OS in pieces) run on lib/crashfs; every vfs crash point incl. torn writes is
// recovered the same way.
//
// Oracle (property text): replay = exactly the records completely on disk, in order, with their
// types (for the un-cut log: all appended records); every record appended before a completed
// Sync/rotation/Close is on disk; after reopening, newly appended records follow the surviving
// ones and nothing is lost.
package main

import (
	"bytes"
	"encoding/json"
	"fmt"
	"os"
	"path/filepath"
	"regexp"
	"runtime/debug"
	"sort"
	"strconv"
	"strings"

	"github.com/feichai0017/NoKV/vfs"
	"github.com/feichai0017/NoKV/wal"

	"verif/lib/crashfs"
	"verif/lib/vr"
)

type Op struct {
	K string `json:"k"`           // a=append r=rotate s=sync
	T uint8  `json:"t,omitempty"` // record type
	N int    `json:"n,omitempty"` // payload size
}

type Hist struct {
	Seg  int64  `json:"seg"`
	Buf  int    `json:"buf"`
	Ops  []Op   `json:"ops"`
	Part string `json:"part"`          // A | B
	Cut  int    `json:"cut,omitempty"` // part A: cut offset of the final segment (-1 = all cuts)
	Pt   string `json:"pt,omitempty"`  // part B: crash point description
	PtN  int    `json:"ptn,omitempty"` // part B: index in the recorded point list (-1 = all)
}

type rec struct {
	Seg      uint32
	Type     uint8
	Payload  []byte
	Off, End int64
}

const minSeg = 64 << 10

func (o Op) label(seg int64) string {
	switch o.K {
	case "r":
		return "rot"
	case "s":
		return "sync"
	}
	fit := int(seg) - 9
	if o.N >= fit-1 && o.N <= fit+1 {
		return fmt.Sprintf("a%d:fit%+d", o.T, o.N-fit)
	}
	return fmt.Sprintf("a%d:%d", o.T, o.N)
}

func (h Hist) String() string {
	var parts []string
	for _, o := range h.Ops {
		parts = append(parts, o.label(h.Seg))
	}
	return fmt.Sprintf("seg=%d buf=%d [%s]", h.Seg, h.Buf, strings.Join(parts, " "))
}

func payload(i, n int) []byte {
	b := make([]byte, n)
	for j := range b {
		b[j] = byte(17*i + 7*j + 1)
	}
	return b
}

func walCfg(dir string, h Hist, fs vfs.FS) wal.Config {
	return wal.Config{Dir: dir, SegmentSize: h.Seg, BufferSize: h.Buf, FS: fs}
}

// build runs the history on a real wal.Manager. before(i) is called ahead of op i, and once
// more with i=len(ops) ahead of Close. durable[i] = number of records that a completed
// Sync/rotation had pushed to the OS before op i started (index len(ops)+1: after Close).
func build(dir string, h Hist, fs vfs.FS, before func(i int)) (recs []rec, durable []int, err error) {
	m, err := wal.Open(walCfg(dir, h, fs))
	if err != nil {
		return nil, nil, err
	}
	dur := 0
	for i, o := range h.Ops {
		durable = append(durable, dur)
		if before != nil {
			before(i)
		}
		switch o.K {
		case "a":
			p := payload(i, o.N)
			infos, err := m.AppendRecords(wal.Record{Type: wal.RecordType(o.T), Payload: p})
			if err != nil {
				return nil, nil, fmt.Errorf("append: %w", err)
			}
			in := infos[0]
			recs = append(recs, rec{Seg: in.SegmentID, Type: o.T, Payload: p, Off: in.Offset, End: in.Offset + int64(in.Length) + 8})
		case "r":
			if err := m.Rotate(); err != nil {
				return nil, nil, fmt.Errorf("rotate: %w", err)
			}
			dur = len(recs)
		case "s":
			if err := m.Sync(); err != nil {
				return nil, nil, fmt.Errorf("sync: %w", err)
			}
			dur = len(recs)
		}
		// an append that rotated the segment flushed everything appended before it
		if o.K == "a" && len(recs) >= 2 && recs[len(recs)-1].Seg != recs[len(recs)-2].Seg {
			dur = len(recs) - 1
		}
	}
	durable = append(durable, dur)
	if before != nil {
		before(len(h.Ops))
	}
	if err := m.Close(); err != nil {
		return nil, nil, fmt.Errorf("close: %w", err)
	}
	durable = append(durable, len(recs))
	return recs, durable, nil
}

func segName(id uint32) string { return fmt.Sprintf("%05d.wal", id) }

// finalSegment returns the highest-numbered segment of the image.
func finalSegment(im *crashfs.Image) (uint32, bool) {
	var ids []int
	for _, n := range im.Names() {
		var id int
		if _, err := fmt.Sscanf(n, "%05d.wal", &id); err == nil && strings.HasSuffix(n, ".wal") {
			ids = append(ids, id)
		}
	}
	if len(ids) == 0 {
		return 0, false
	}
	sort.Ints(ids)
	return uint32(ids[len(ids)-1]), true
}

// onDisk returns the records completely contained in the image (a prefix of recs unless the
// writer is broken) and the classification of the tail of the newest segment.
func onDisk(im *crashfs.Image, recs []rec) (exp []rec, region string, ordered bool) {
	ordered = true
	gap := false
	for _, r := range recs {
		data, ok := im.Files[segName(r.Seg)]
		if ok && int64(len(data)) >= r.End {
			if gap {
				ordered = false
			}
			exp = append(exp, r)
		} else {
			gap = true
		}
	}
	region = "boundary"
	fin, ok := finalSegment(im)
	if !ok {
		return exp, "nofile", ordered
	}
	size := int64(len(im.Files[segName(fin)]))
	for _, r := range recs {
		if r.Seg != fin || size <= r.Off || size >= r.End {
			continue
		}
		have := size - r.Off
		body := int64(len(r.Payload)) + 1
		switch {
		case have < 4:
			region = fmt.Sprintf("hdr:%d", have)
		case have < 4+body:
			region = "body"
			if have == 4 {
				region = "body:0"
			}
		default:
			region = fmt.Sprintf("crc:%d", have-4-body)
		}
	}
	return exp, region, ordered
}

var digits = regexp.MustCompile(`[0-9]+`)

func norm(err error) string {
	s := err.Error()
	if i := strings.LastIndex(s, "/"); i >= 0 && strings.Contains(s, "/dev/shm") {
		s = s[i+1:]
	}
	s = digits.ReplaceAllString(s, "N")
	if len(s) > 80 {
		s = s[:80]
	}
	return strings.ReplaceAll(s, " ", "_")
}

type got struct {
	Seg     uint32
	Type    uint8
	Payload []byte
}

func replayAll(m *wal.Manager) ([]got, error) {
	var out []got
	err := m.Replay(func(info wal.EntryInfo, p []byte) error {
		out = append(out, got{info.SegmentID, uint8(info.Type), append([]byte(nil), p...)})
		return nil
	})
	return out, err
}

// compare classifies the difference between replayed and expected records ("" = equal).
// nOld = number of expected records that predate the reopen.
func compare(g []got, exp []rec, nOld int) string {
	n := len(g)
	if len(exp) < n {
		n = len(exp)
	}
	for i := 0; i < n; i++ {
		if g[i].Type != exp[i].Type || !bytes.Equal(g[i].Payload, exp[i].Payload) {
			which := "old"
			if i >= nOld {
				which = "new"
			}
			return fmt.Sprintf("mismatch-%s", which)
		}
		if exp[i].Seg != 0 && g[i].Seg != exp[i].Seg {
			return "wrong-segment"
		}
	}
	switch {
	case len(g) > len(exp):
		return "extra"
	case len(g) < len(exp):
		if len(g) < nOld {
			return "lost-old"
		}
		return "lost-new"
	}
	return ""
}

type verdict struct{ phase, kind, detail string }

// recoverCheck materializes the image, recovers it with the real code and checks the oracle.
func recoverCheck(dir string, im *crashfs.Image, h Hist, exp []rec, withReopen bool) (v *verdict) {
	_ = os.RemoveAll(dir)
	if err := im.Materialize(dir); err != nil {
		vr.Fatalf("materialize: %v", err)
	}
	defer os.RemoveAll(dir)
	phase := "after-cut"
	defer func() {
		if r := recover(); r != nil {
			v = &verdict{phase, "panic:" + norm(fmt.Errorf("%v", r)), fmt.Sprint(r)}
		}
	}()
	fail := func(kind string, err error) *verdict {
		d := kind
		if err != nil {
			d = err.Error()
			kind += ":" + norm(err)
		}
		return &verdict{phase, kind, d}
	}
	reopen := func() (*wal.Manager, *verdict) {
		if err := wal.VerifyDir(dir, nil); err != nil {
			return nil, fail("verify-error", err)
		}
		m, err := wal.Open(walCfg(dir, h, nil))
		if err != nil {
			return nil, fail("open-error", err)
		}
		return m, nil
	}
	m, bad := reopen()
	if bad != nil {
		return bad
	}
	g, err := replayAll(m)
	if err != nil {
		_ = m.Close()
		return fail("replay-error", err)
	}
	if d := compare(g, exp, len(exp)); d != "" {
		_ = m.Close()
		return &verdict{phase, d, fmt.Sprintf("replayed %d records, expected %d", len(g), len(exp))}
	}
	// append two more records after recovery
	phase = "after-append"
	n1 := rec{Type: 3, Payload: []byte("NEW-1")}
	n2 := rec{Type: 0, Payload: nil}
	infos, err := m.AppendRecords(wal.Record{Type: 3, Payload: n1.Payload}, wal.Record{Type: 0, Payload: nil})
	if err != nil {
		_ = m.Close()
		return fail("append-error", err)
	}
	n1.Seg, n2.Seg = infos[0].SegmentID, infos[1].SegmentID
	exp2 := append(append([]rec(nil), exp...), n1, n2)
	if err := m.Sync(); err != nil {
		_ = m.Close()
		return fail("sync-error", err)
	}
	g, err = replayAll(m)
	if err != nil {
		_ = m.Close()
		return fail("replay-error", err)
	}
	if d := compare(g, exp2, len(exp)); d != "" {
		_ = m.Close()
		return &verdict{phase, d, fmt.Sprintf("replayed %d records, expected %d", len(g), len(exp2))}
	}
	if err := m.Close(); err != nil {
		return fail("close-error", err)
	}
	if !withReopen {
		return nil
	}
	phase = "after-append-reopen"
	m, bad = reopen()
	if bad != nil {
		return bad
	}
	defer m.Close()
	g, err = replayAll(m)
	if err != nil {
		return fail("replay-error", err)
	}
	if d := compare(g, exp2, len(exp)); d != "" {
		return &verdict{phase, d, fmt.Sprintf("replayed %d records, expected %d", len(g), len(exp2))}
	}
	return nil
}

// cutSet returns the cut offsets (number of surviving bytes) of a final segment of the given
// size: every offset when every==true or the segment is small; otherwise every offset within
// 12 bytes of any record start/end, plus every 4093rd byte inside large payloads.
func cutSet(size int64, recs []rec, fin uint32, every bool, edges bool) []int {
	if edges && !every {
		// buffer-edge family: the un-cut log, the empty segment and 2 bytes around every record edge
		set := map[int]bool{0: true, int(size): true}
		for _, r := range recs {
			if r.Seg != fin {
				continue
			}
			for d := int64(-2); d <= 2; d++ {
				for _, b := range []int64{r.Off, r.End} {
					if c := b + d; c >= 0 && c <= size {
						set[int(c)] = true
					}
				}
			}
		}
		out := make([]int, 0, len(set))
		for c := range set {
			out = append(out, c)
		}
		sort.Ints(out)
		return out
	}
	if every || size <= 2048 {
		out := make([]int, 0, size+1)
		for c := int64(0); c <= size; c++ {
			out = append(out, int(c))
		}
		return out
	}
	set := map[int]bool{0: true, int(size): true}
	for _, r := range recs {
		if r.Seg != fin {
			continue
		}
		for d := int64(-12); d <= 12; d++ {
			for _, b := range []int64{r.Off, r.End} {
				if c := b + d; c >= 0 && c <= size {
					set[int(c)] = true
				}
			}
		}
		for c := r.Off; c < r.End; c += 4093 {
			set[int(c)] = true
		}
	}
	out := make([]int, 0, len(set))
	for c := range set {
		out = append(out, c)
	}
	sort.Ints(out)
	return out
}

// confirm re-runs a failing recovery from a fresh copy of the image and demands the same verdict.
func confirm(dir string, im *crashfs.Image, h Hist, exp []rec, v *verdict) {
	for i := 0; i < 2; i++ {
		w := recoverCheck(dir, im, h, exp, true)
		if w == nil || w.phase != v.phase || w.kind != v.kind {
			vr.Fatalf("non-deterministic failure for %s: first %v, again %v", h, *v, w)
		}
	}
}

func report(p *vr.Partial, h Hist, region string, v *verdict) {
	sig := fmt.Sprintf("cut=%s phase=%s got=%s", region, v.phase, v.kind)
	blob, _ := json.Marshal(h)
	p.Viol(sig, fmt.Sprintf("history %s part=%s cut=%d point=%q: %s", h.String(), h.Part, h.Cut, h.Pt, v.detail), string(blob))
}

// partA: cut enumeration for one history. onlyCut>=0 restricts to one cut (replay).
func partA(base string, h Hist, every bool, onlyCut int, p *vr.Partial, expired func() bool, reopenToo bool) {
	bdir := filepath.Join(base, "build")
	_ = os.RemoveAll(bdir)
	recs, _, err := build(bdir, h, nil, nil)
	if err != nil {
		p.Viol("build-error:"+norm(err), h.String()+": "+err.Error(), "")
		return
	}
	im, err := crashfs.Capture(bdir, nil)
	_ = os.RemoveAll(bdir)
	if err != nil {
		vr.Fatalf("capture: %v", err)
	}
	fin, ok := finalSegment(im)
	if !ok {
		vr.Fatalf("no segment written")
	}
	full := im.Files[segName(fin)]
	p.Add("histories_A", 1)
	p.Max("max_final_segment_bytes", int64(len(full)))
	p.Max("max_segments", int64(len(im.Files)))
	for _, c := range cutSet(int64(len(full)), recs, fin, every, h.Part == "C") {
		if onlyCut >= 0 && c != onlyCut {
			continue
		}
		if expired != nil && expired() {
			return
		}
		img := im
		if c < len(full) {
			img = im.With(segName(fin), full[:c])
		}
		exp, region, _ := onDisk(img, recs)
		hc := h
		hc.Cut = c
		if hc.Part != "C" {
			hc.Part = "A"
		}
		p.Add("recoveries", 1)
		if region != "boundary" {
			p.Add("torn_cases", 1)
		}
		v := recoverCheck(filepath.Join(base, "case"), img, h, exp, reopenToo || c%7 == 0)
		out := "ok"
		if v != nil {
			confirm(filepath.Join(base, "case"), img, h, exp, v)
			out = v.phase + "/" + v.kind
			report(p, hc, region, v)
		}
		p.Mark("outcomes", fmt.Sprintf("%s|%d|%s", region, len(exp), out))
		if c == len(full) && len(exp) != len(recs) {
			p.Viol("uncut-log-incomplete", h.String()+": closed log does not hold every appended record", "")
		}
	}
}

// partB: crash points of one history on crashfs. onlyPt>=0 restricts to one point (replay).
func partB(base string, h Hist, onlyPt int, p *vr.Partial) {
	bdir := filepath.Join(base, "buildB")
	_ = os.RemoveAll(bdir)
	_ = os.MkdirAll(bdir, 0o755)
	fs := crashfs.New(bdir, crashfs.Options{Torn: true})
	fs.Start()
	recs, durable, err := build(bdir, h, fs, func(i int) { fs.SetLabel(strconv.Itoa(i)) })
	if err != nil {
		p.Viol("build-error:"+norm(err), h.String()+": "+err.Error(), "")
		return
	}
	fs.SetLabel(strconv.Itoa(len(h.Ops) + 1))
	fs.Mark("closed")
	pts := fs.Stop()
	_ = os.RemoveAll(bdir)
	p.Add("histories_B", 1)
	p.Max("max_points", int64(len(pts)))
	seen := map[string]bool{}
	for i, pt := range pts {
		if onlyPt >= 0 && i != onlyPt {
			continue
		}
		p.Add("points_B", 1)
		li := 0
		if pt.Label != "" {
			li, _ = strconv.Atoi(pt.Label)
		}
		key := pt.Image.Hash + "/" + strconv.Itoa(durable[li])
		if seen[key] {
			continue
		}
		seen[key] = true
		exp, region, ordered := onDisk(pt.Image, recs)
		hc := h
		hc.Part, hc.Pt, hc.PtN = "B", pt.String(), i
		if !ordered {
			report(p, hc, region, &verdict{"image", "hole-in-log", "a later record is on disk while an earlier one is not"})
			continue
		}
		if len(exp) < durable[li] {
			report(p, hc, region, &verdict{"image", "synced-record-not-on-disk", fmt.Sprintf("%d records were flushed by Sync/rotation/Close, only %d are in the OS image", durable[li], len(exp))})
			continue
		}
		p.Add("recoveries", 1)
		if region != "boundary" {
			p.Add("torn_cases", 1)
		}
		v := recoverCheck(filepath.Join(base, "caseB"), pt.Image, h, exp, true)
		out := "ok"
		if v != nil {
			confirm(filepath.Join(base, "caseB"), pt.Image, h, exp, v)
			out = v.phase + "/" + v.kind
			report(p, hc, region, v)
		}
		p.Mark("outcomes", fmt.Sprintf("%s|%d|%s", region, len(exp), out))
		p.Mark("point_classes", pt.Class())
	}
}

// alphabetA: full = sizes {0,1,7} x 4 types (+ an unknown type), else a pairing that still
// uses every size and every type; plus the three segment-filling sizes and a forced rotation.
func alphabetA(seg int64, full bool) []Op {
	var ops []Op
	if full {
		for _, n := range []int{0, 1, 7} {
			for t := uint8(0); t < 4; t++ {
				ops = append(ops, Op{K: "a", T: t, N: n})
			}
		}
		ops = append(ops, Op{K: "a", T: 255, N: 2})
	} else {
		ops = append(ops, Op{K: "a", T: 0, N: 0}, Op{K: "a", T: 3, N: 0}, Op{K: "a", T: 1, N: 1}, Op{K: "a", T: 2, N: 7}, Op{K: "a", T: 0, N: 7})
	}
	fit := int(seg) - 9
	for i, d := range []int{-1, 0, 1} {
		ops = append(ops, Op{K: "a", T: uint8(i + 1), N: fit + d})
	}
	ops = append(ops, Op{K: "r"})
	return ops
}

func alphabetB(seg int64) []Op {
	fit := int(seg) - 9
	return []Op{{K: "a", T: 0, N: 0}, {K: "a", T: 1, N: 1}, {K: "a", T: 2, N: 7}, {K: "a", T: 3, N: 40}, {K: "a", T: 1, N: fit}, {K: "a", T: 2, N: fit + 1}, {K: "r"}, {K: "s"}}
}

type bufFamily struct {
	Buf   int // wal.Config.BufferSize (0 = default 256 KiB)
	Hists [][]Op
}

// bufEdgeFamilies: one record of every payload length in [B-8,B+8] (and 2B-3..2B+3) at each
// position of histories padded with small records, for B = 4096 (Config.BufferSize) and for
// B = 256 KiB (the default writer/reader size, also what VerifyDir always uses).
func bufEdgeFamilies(thorough bool) []bufFamily {
	small := []Op{{K: "a", T: 1, N: 1}, {K: "a", T: 2, N: 7}}
	build := func(b int, shapes int) [][]Op {
		var sizes []int
		for d := -8; d <= 8; d++ {
			sizes = append(sizes, b+d)
		}
		for d := -3; d <= 3; d++ {
			sizes = append(sizes, 2*b+d)
		}
		var out [][]Op
		for i, n := range sizes {
			big := Op{K: "a", T: uint8(i % 4), N: n}
			all := [][]Op{{big}, {small[0], big}, {big, small[1]}, {small[0], big, small[1]}, {big, small[0], small[1]}, {small[0], small[1], big}, {big, big}}
			out = append(out, all[:shapes]...)
		}
		return out
	}
	fams := []bufFamily{{Buf: 4096, Hists: build(4096, 7)}}
	if thorough {
		fams = append(fams, bufFamily{Buf: 0, Hists: build(256<<10, 4)})
	} else {
		fams = append(fams, bufFamily{Buf: 0, Hists: build(256<<10, 2)})
	}
	return fams
}

// sequences enumerates all op sequences of length 1..depth in simplest-first order.
func sequences(alpha []Op, depth int, fn func(idx int, ops []Op)) int {
	idx := 0
	for d := 1; d <= depth; d++ {
		cur := make([]int, d)
		for {
			ops := make([]Op, d)
			for i, a := range cur {
				ops[i] = alpha[a]
			}
			fn(idx, ops)
			idx++
			k := d - 1
			for k >= 0 {
				cur[k]++
				if cur[k] < len(alpha) {
					break
				}
				cur[k] = 0
				k--
			}
			if k < 0 {
				break
			}
		}
	}
	return idx
}

func hasBig(ops []Op) bool {
	for _, o := range ops {
		if o.N > 4096 {
			return true
		}
	}
	return false
}

func main() {
	r := vr.Start("C13")
	if r.ReplayPath != "" {
		var h Hist
		r.LoadReplay(&h)
		p := vr.NewPartial()
		base := r.Scratch()
		if h.Part == "B" {
			partB(base, h, h.PtN, p)
		} else {
			partA(base, h, true, h.Cut, p, nil, true)
		}
		for _, v := range p.Violations {
			fmt.Printf("replay: %s\n  %s\n", v.Sig, v.Desc)
			r.Violation(v.Sig, v.Desc, h)
		}
		r.Finish(vr.Coverage{Level: "fault_enumeration", Evaluations: p.Counters["recoveries"], Distinct: 2, Rule: "replay of one history", Samples: []any{h.String()}})
	}
	type planA struct {
		Full   bool
		Depth  int // on the first segment size
		Depth2 int // on the second segment size (histories with a segment-filling record only)
	}
	plans := []planA{{false, 3, 2}}
	if r.Thorough() {
		plans = []planA{{false, 4, 3}, {true, 3, 3}}
	}
	debug.SetGCPercent(800)
	depthB := r.Pick(3, 4)
	everyDepth := r.Pick(0, 1) // histories up to this length get every-byte cuts even inside 64 KiB payloads
	segs := []int64{minSeg, minSeg + 100}
	bufs := []int{16, 8192}
	if r.Thorough() {
		bufs = []int{16, 64, 8192}
	}
	total := r.RunSharded(vr.Workers(), func(sh vr.ShardInfo, p *vr.Partial) {
		base := r.Scratch()
		item := 0
		seen := map[string]bool{}
		for _, pl := range plans {
			for si, seg := range segs {
				sequences(alphabetA(seg, pl.Full), pl.Depth, func(_ int, ops []Op) {
					if si > 0 && (!hasBig(ops) || len(ops) > pl.Depth2) {
						return // the segment size cannot matter when nothing comes near it; deepest level on the first size only
					}
					h := Hist{Seg: seg, Buf: 4096, Ops: ops, Part: "A", Cut: -1}
					if seen[h.String()] {
						return
					}
					seen[h.String()] = true
					item++
					if !sh.Owns(item) || r.Expired() {
						return
					}
					partA(base, h, len(ops) <= everyDepth, -1, p, r.Expired, r.Thorough())
					if item%97 == 0 {
						p.Sample("A: " + h.String())
					}
				})
			}
		}
		// Part C: payload lengths around the bufio size of the replay reader (Config.BufferSize)
		// and of VerifyDir (always the 256 KiB default), at every position of 1-3 record histories
		for _, fam := range bufEdgeFamilies(r.Thorough()) {
			for _, ops := range fam.Hists {
				item++
				if !sh.Owns(item) || r.Expired() {
					continue
				}
				h := Hist{Seg: minSeg, Buf: fam.Buf, Ops: ops, Part: "C", Cut: -1}
				partA(base, h, false, -1, p, r.Expired, true)
				p.Add("histories_C", 1)
				if item%29 == 0 {
					p.Sample("C: " + h.String())
				}
			}
		}
		for bi, buf := range bufs {
			d := depthB
			if bi > 0 {
				d = depthB - 1
			}
			sequences(alphabetB(minSeg), d, func(_ int, ops []Op) {
				item++
				if !sh.Owns(item) || r.Expired() {
					return
				}
				h := Hist{Seg: minSeg, Buf: buf, Ops: ops, Part: "B", PtN: -1}
				partB(base, h, -1, p)
				if item%89 == 0 {
					p.Sample("B: " + h.String())
				}
			})
		}
	})
	out := total.Card("outcomes")
	r.RequireOutcomes(out, 6)
	var planDesc []string
	for _, pl := range plans {
		planDesc = append(planDesc, fmt.Sprintf("alphabet=%d depth<=%d (second segment size: depth<=%d)", len(alphabetA(minSeg, pl.Full)), pl.Depth, pl.Depth2))
	}
	r.Finish(vr.Coverage{
		Level:       "fault_enumeration",
		Evaluations: total.Counters["recoveries"],
		Distinct:    total.Counters["torn_cases"],
		Rule:        "A: every sequence of typed appends (payload 0/1/7 x record types, 3 segment-filling sizes) and forced rotations up to the depth (second segment size for histories with a segment-filling record); newest segment cut at every byte (inside 64 KiB payloads: every byte within 12 of a record edge + every 4093rd; all bytes for the shortest histories in the thorough tier); B: every vfs crash point incl. torn writes (1, len/2, len-1) of append/rotate/sync histories with small bufio sizes; C: one record of every payload length in [B-8,B+8] and [2B-3,2B+3] around the bufio size B (Config.BufferSize=4096, and the 256 KiB default that VerifyDir always uses) at each position of 1-3 record histories, un-cut plus cuts within 2 bytes of every record edge. Each image: VerifyDir+Open+Replay == records fully on disk; append 2; Sync; Replay; Close; (reopen; Replay). distinct_nontrivial = recoveries whose newest segment ends inside a record",
		Samples:     total.SamplesAny(),
		Exhaustive:  !total.TimedOut,
		Outcomes:    out,
		Bounds:      map[string]any{"plans_A": planDesc, "depth_B": fmt.Sprintf("%d for the first bufio size, %d for the others", depthB, depthB-1), "every_byte_depth": everyDepth, "segment_sizes": segs, "bufio_sizes_B": bufs, "alphabet_B": len(alphabetB(minSeg))},
		Extra: map[string]any{"histories_C_buffer_edge": total.Counters["histories_C"], "histories_A": total.Counters["histories_A"], "histories_B": total.Counters["histories_B"], "crash_points_B": total.Counters["points_B"],
			"max_final_segment_bytes": total.Counters["max_final_segment_bytes"], "max_segments": total.Counters["max_segments"], "point_classes": total.Card("point_classes")},
		Assumptions: []string{"process-crash model: bytes handed to write(2) survive, bufio contents do not", "reopen = wal.VerifyDir followed by wal.Open, as DB.runRecoveryChecks does",
			"only the newest segment is cut (property text); older segments are intact"},
	})
}
