//go:build verif

// C04 — transaction commit is atomic with strictly increasing commit versions; a commit
// (or CommitWith callback) that reports an error leaves none of its writes visible.
// Same executor as C03 (lib/txnh) with the all-versions oracle switched on: after every
// commit verdict, after reopen and at the end of every history the stored versions of the
// history's key namespace (internal iterator, every version) must equal the commit log of
// acknowledged commits.
package main

import (
	"fmt"
	"os"
	"strings"

	"verif/lib/dbh"
	"verif/lib/txnh"
	"verif/lib/vr"
)

var classes = map[string]bool{"atomic": true, "order": true, "failed": true, "visible": true, "error": true}

type family struct {
	F   txnh.Family
	Gen func(emit func(h []txnh.Step)) // nil: script/merge enumeration from F
}

func rep(a []string, n int) [][]string {
	out := make([][]string, n)
	for i := range out {
		out[i] = a
	}
	return out
}

// interleave emits every merge of two step lists (no reduction).
func interleave(a, b []txnh.Step, emit func(h []txnh.Step)) {
	var rec func(i, j int, cur []txnh.Step)
	rec = func(i, j int, cur []txnh.Step) {
		if i == len(a) && j == len(b) {
			emit(append([]txnh.Step{}, cur...))
			return
		}
		if i < len(a) {
			rec(i+1, j, append(cur, a[i]))
		}
		if j < len(b) {
			rec(i, j+1, append(cur, b[j]))
		}
	}
	rec(0, 0, nil)
}

func families(quick bool) []family {
	ends := []string{"commit", "commitwith", "discard"}
	rw := []string{"get:a", "set:a", "set:b", "del:a"}
	var fams []family
	ops2, ops3 := 2, 1
	if !quick {
		ops2, ops3 = 3, 2
	}
	fams = append(fams,
		family{F: txnh.Family{Name: "ns-2txn", Slots: rep(rw, 2), MaxOps: []int{ops2, ops2}, Ends: ends, Reduce: true}},
		family{F: txnh.Family{Name: "ns-3txn", Slots: rep([]string{"get:a", "set:a", "set:b", "del:b"}, 3), MaxOps: []int{ops3, ops3, 1}, Ends: []string{"commit", "commitwith"}, Reduce: true}},
	)
	// --- batch count limit: MaxBatchCount = 4 admits two buffered writes -------------------
	const maxCount = 4
	fams = append(fams, family{F: txnh.Family{Name: "count-limit", Cfg: dbh.Config{MaxBatchCount: maxCount}},
		Gen: func(emit func(h []txnh.Step)) {
			other := txnh.H("2.begin", "2.set:z", "2.commit")
			for _, distinct := range []bool{true, false} {
				for k := 0; k <= maxCount+1; k++ {
					for _, end := range []string{"commit", "commitwith"} {
						t1 := []string{"1.begin"}
						for i := 0; i < k; i++ {
							key := "a"
							if distinct {
								key = fmt.Sprintf("k%d", i)
							}
							t1 = append(t1, "1.set:"+key)
						}
						t1 = append(t1, "1."+end, "1.begin", "1.get:a", "1.get:k0", "1.get:k1", "1.get:k2", "1.set:k0", "1.commit")
						interleave(txnh.H(t1...), other, emit)
					}
				}
			}
		}})
	// --- batch byte limit: tiny MaxBatchSize, value lengths swept through the limit --------
	// Txn.checkSize measures user keys (limit reached => Set fails), sendToWriteCh measures
	// internal keys, 12 bytes longer each (limit reached => Commit fails): sweeping one value
	// length byte by byte crosses "fits", "Commit too big" and "Set too big".
	const maxSize = 90
	fams = append(fams, family{F: txnh.Family{Name: "size-limit", Cfg: dbh.Config{MaxBatchSize: maxSize}},
		Gen: func(emit func(h []txnh.Step)) {
			l1max := 48
			l2s := []int{-1, 0, 10, 31, 40}
			if quick {
				l2s = []int{-1, 10, 40}
			}
			for l1 := 0; l1 <= l1max; l1++ {
				for _, l2 := range l2s {
					for _, l3 := range []int{-1, 5} {
						for _, end := range []string{"commit", "commitwith"} {
							t1 := []string{"1.begin", fmt.Sprintf("1.setn:a:%d", l1)}
							if l2 >= 0 {
								t1 = append(t1, fmt.Sprintf("1.setn:b:%d", l2))
							}
							if l3 >= 0 {
								t1 = append(t1, fmt.Sprintf("1.setn:c:%d", l3))
							}
							t1 = append(t1, "1."+end)
							tail := txnh.H("3.begin", "3.get:a", "3.get:b", "3.get:c", "3.set:a", "3.commit")
							// another transaction commits before, in the middle of, or after T1
							for pos := 0; pos < 3; pos++ {
								other := txnh.H("2.begin", "2.set:z", "2.commit")
								a := txnh.H(t1...)
								var h []txnh.Step
								switch pos {
								case 0:
									h = append(append(h, other...), a...)
								case 1:
									h = append(append(append(h, a[:2]...), other...), a[2:]...)
								case 2:
									h = append(append(h, a...), other...)
								}
								emit(append(h, tail...))
							}
						}
					}
				}
			}
		}})
	// --- throttled: the commit blocks on the write throttle; released => succeeds, DB closed
	//     while it waits => ErrBlockedWrites and nothing of it may exist after reopen ---------
	t1s := [][]string{{"1.set:a"}, {"1.set:a", "1.set:b"}, {"1.del:a"}, {"1.get:a", "1.set:a"}, {"1.set:a", "1.del:b"}}
	if quick {
		t1s = t1s[:3]
	}
	verify := []string{"3.begin", "3.get:a", "3.get:b", "3.scan", "3.set:a", "3.commit", "4.begin", "4.get:a", "4.set:b", "4.commitwith"}
	fams = append(fams, family{F: txnh.Family{Name: "throttled", Fresh: true, Warm: 1},
		Gen: func(emit func(h []txnh.Step)) {
			for _, pre := range [][]string{nil, {"2.begin", "2.set:a", "2.set:b", "2.commit"}} {
				for _, t1 := range t1s {
					for _, how := range []string{"release", "close"} {
						for _, preWhen := range []int{0, 1} { // T2 commits before T1 begins / after T1 buffered its writes
							if pre == nil && preWhen == 1 {
								continue
							}
							var w []string
							if preWhen == 0 {
								w = append(w, pre...)
							}
							w = append(w, "1.begin")
							w = append(w, t1...)
							if preWhen == 1 {
								w = append(w, pre...)
							}
							w = append(w, "0.throttle-on", "1.commitbg")
							if how == "release" {
								w = append(w, "0.throttle-off", "1.join")
							} else {
								w = append(w, "0.close", "1.join", "0.reopen")
							}
							w = append(w, verify...)
							emit(txnh.H(w...))
						}
					}
				}
			}
		}})
	// --- closed DB: Commit / CommitWith after Close ----------------------------------------
	fams = append(fams, family{F: txnh.Family{Name: "closed", Fresh: true, Warm: 1},
		Gen: func(emit func(h []txnh.Step)) {
			for _, pre := range [][]string{nil, {"2.begin", "2.set:a", "2.set:b", "2.commit"}} {
				for _, t1 := range t1s {
					for _, end := range []string{"commit", "commitwith"} {
						for _, two := range []bool{false, true} { // a second open transaction also commits after Close
							w := append([]string{}, pre...)
							w = append(w, "1.begin")
							w = append(w, t1...)
							if two {
								w = append(w, "5.begin", "5.set:b")
							}
							w = append(w, "0.close", "1."+end)
							if two {
								w = append(w, "5.commit")
							}
							w = append(w, "0.reopen")
							w = append(w, verify...)
							emit(txnh.H(w...))
						}
					}
				}
			}
		}})
	// --- maintenance between commit verdicts (fresh DB): versions survive flush/compaction ---
	fams = append(fams, family{F: txnh.Family{Name: "fresh-maint", Slots: rep([]string{"get:a", "set:a", "del:a"}, 2), MaxOps: []int{1, ops2 - 1}, Ends: []string{"commit"},
		Reduce: true, Fresh: true, Warm: 1, EnvSets: [][]string{{"rf"}, {"rf", "compact"}, {"rf", "reopen-if-idle"}}}})
	return fams
}

func main() {
	r := vr.Start("C04")
	fams := families(r.Quick())
	if r.ReplayPath != "" {
		var rp txnh.Replay
		r.LoadReplay(&rp)
		replay(r, fams, rp)
		return
	}
	base := r.Scratch()
	total := r.RunSharded(vr.Workers(), func(sh vr.ShardInfo, p *vr.Partial) {
		d := &txnh.Driver{R: r, P: p, Base: fmt.Sprintf("%s/w%d", base, sh.Index), Classes: classes, ScanAll: true}
		for i := range fams {
			if only := os.Getenv("VERIF_FAMILY"); only != "" && only != fams[i].F.Name {
				continue
			}
			before := p.Counters["histories"]
			if fams[i].Gen != nil {
				d.EnumerateList(&fams[i].F, sh, r.Expired, fams[i].Gen)
			} else {
				d.Enumerate(&fams[i].F, sh, r.Expired)
			}
			p.Add("histories:"+fams[i].F.Name, p.Counters["histories"]-before)
		}
		if only := os.Getenv("VERIF_FAMILY"); only == "" || only == "batch-fault" {
			before := p.Counters["histories"]
			d.Close()
			runBatchFaultFamily(r, sh, p, fmt.Sprintf("%s/w%d", base, sh.Index))
			p.Add("histories:batch-fault", p.Counters["histories"]-before)
		}
	})
	if n := total.Counters["nondeterministic_findings_dropped"]; n > 3 {
		vr.Fatalf("%d batch-fault findings were not reproducible: %v", n, total.Notes)
	}
	if n := total.Counters["unconfirmed_findings"]; n > 0 {
		vr.Fatalf("%d findings did not reproduce on a fresh database (nondeterminism): %v", n, total.Notes)
	}
	var bounds []string
	per := map[string]int64{}
	for _, f := range fams {
		if f.Gen != nil {
			bounds = append(bounds, f.F.Name+"(hand-built family, see checks/c04/main.go)")
		} else {
			bounds = append(bounds, f.F.Bounds())
		}
		per[f.F.Name] = total.Counters["histories:"+f.F.Name]
	}
	bounds = append(bounds, "batch-fault(2-4 commits forced into one commit batch, each 's' (two small values) or 'B' (one value larger than the WAL write buffer), SyncWrites off/on, one injected file write/sync failure at every call index of the batch + fault-free)")
	per["batch-fault"] = total.Counters["histories:batch-fault"]
	verdicts := map[string]int64{}
	for k, v := range total.Counters {
		if strings.HasPrefix(k, "verdict:") {
			verdicts[k[8:]] = v
		}
	}
	// vacuity: every forced error outcome must actually have been observed
	if os.Getenv("VERIF_FAMILY") == "" {
		for _, need := range []string{"commit=nil", "commit=conflict", "commit=toobig", "commit=blocked", "set=!toobig"} {
			if verdicts[need] == 0 {
				vr.Fatalf("vacuous: outcome %q was never observed (verdicts: %v)", need, verdicts)
			}
		}
	}
	// vacuity of the batch-fault family, stated on what was injected (not on verdicts a defect may change)
	if os.Getenv("VERIF_FAMILY") == "" && (total.Counters["batch_fault_injected@apply"] == 0 || total.Counters["batch_fault_injected@sync"] == 0 || total.Counters["batch_fault_free_runs"] == 0) {
		vr.Fatalf("vacuous: batch-fault family injected no fault in the apply or sync phase (%v)", total.Counters)
	}
	outcomes := total.Card("outcomes")
	if os.Getenv("VERIF_FAMILY") == "" {
		r.RequireOutcomes(outcomes, 50)
	}
	r.Finish(vr.Coverage{
		Level:       "exploration",
		Evaluations: total.Counters["histories"],
		Distinct:    outcomes,
		Rule:        "interleavings of 1-3 transactions' API calls ending in Commit or CommitWith, with each error outcome forced: conflict (interleaving), too-big (transaction sizes swept through MaxBatchCount and MaxBatchSize), throttled (commit blocked on the write throttle, then released or the DB closed), closed DB, I/O failure inside a multi-request commit batch (every single file write/sync fault); distinct = distinct observation vectors",
		Samples:     total.SamplesAny(),
		Exhaustive:  !total.TimedOut,
		Outcomes:    outcomes,
		Bounds:      map[string]any{"families": bounds, "quick": r.Quick()},
		Extra: map[string]any{"histories_per_family": per, "api_calls": total.Counters["steps"], "commits_ok": total.Counters["commits"],
			"verdicts_observed": verdicts, "nondeterministic_findings_dropped": total.Counters["nondeterministic_findings_dropped"],
			"batch_fault_runs_repeated_because_batch_split": total.Counters["batch_fault_runs_repeated_because_batch_split"]},
		Assumptions: []string{
			"the stored versions are read through DB.NewInternalIterator (every version, all containers) and GetVersionedEntry; the engine-internal key !NoKV!discard is ignored",
			"'throttled' is exercised through db.applyThrottle (the LSM back-pressure callback): Commit waits in sendToWriteCh and can only fail when the DB is closed meanwhile; the commit runs in one helper goroutine, every other call is sequential",
			"a write whose Set/Delete itself returned ErrTxnTooBig is not part of the transaction; the statement does not say whether it may appear, so it is not compared",
			"batch-fault family: the commit worker is parked at the hook point db.commit.beforeAck of a blocker commit until 2-4 commits are queued (queue length read through an accessor), so they form one commit batch deterministically; exactly one file write/sync call fails (vfs.FaultFS), every call index that occurs while the batch is processed; commits run in helper goroutines, their verdicts are judged one by one; after reopen only 'error => not visible' is judged (whether an acknowledged commit survives a close that follows an I/O error is a durability question)",
			"other I/O failures (value-log writes, manifest, reads) are not injected",
		},
	})
}

func replay(r *vr.Run, fams []family, rp txnh.Replay) {
	if rp.Family == "batch-fault" {
		f := strings.Fields(rp.History)
		c := bfCase{Sizes: strings.Split(f[0], ""), Sync: len(f) > 1 && f[1] == "sync", Fault: rp.Warm}
		res := runBatchFault(r.Scratch()+"/bf", c)
		if res.err != nil {
			vr.Fatalf("replay: %v", res.err)
		}
		fmt.Printf("replay batch-fault %s => %s; fs calls %v\n", c, res.outcome, res.ops)
		if res.sig != "" {
			r.Violation(res.sig, res.desc, rp)
		}
		r.Finish(vr.Coverage{Level: "exploration", Evaluations: 1, Distinct: 2, Rule: "replay", Samples: []any{c.String()}})
	}
	h, err := txnh.Parse(rp.History)
	if err != nil {
		vr.Fatalf("replay: %v", err)
	}
	var cfg dbh.Config
	for _, f := range fams {
		if f.F.Name == rp.Family {
			cfg = f.F.Cfg
		}
	}
	d := &txnh.Driver{R: r, P: vr.NewPartial(), Base: r.Scratch(), Classes: classes, ScanAll: true}
	x, err := d.RunFresh(cfg, rp.Warm, h)
	if err != nil {
		vr.Fatalf("replay: %v", err)
	}
	fmt.Printf("replay: %s\n  observed: %v\n", rp.History, x.Outcome)
	for _, f := range x.Findings {
		fmt.Printf("  finding [%s] %s: %s\n", f.Class, f.Sig, f.Desc)
		if classes[f.Class] {
			r.Violation(f.Sig, f.Desc, rp)
		}
	}
	r.Finish(vr.Coverage{Level: "exploration", Evaluations: 1, Distinct: 2, Rule: "replay", Samples: []any{rp.History}})
}
