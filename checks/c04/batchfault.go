//go:build verif

package main

// Commit-batch fault family: >=2 transaction commits are forced into ONE commit batch of
// the commit worker (the worker is parked at the hook point "db.commit.beforeAck" of a
// preceding blocker commit until the requests are queued), and a single file-system fault
// (FaultFS: one failing file write / sync, every call index that occurs while the batch is
// processed) is injected. Oracle, per transaction independently, exactly as the property
// says: Commit()==nil => all its writes visible at one version; Commit()!=nil => none of
// its writes visible at any version, now and after a clean close + reopen.

import (
	"bytes"
	"errors"
	"fmt"
	"math"
	"os"
	"path/filepath"
	"strings"
	"sync"
	"sync/atomic"
	"time"

	NoKV "github.com/feichai0017/NoKV"
	"github.com/feichai0017/NoKV/kv"
	"github.com/feichai0017/NoKV/utils"
	"github.com/feichai0017/NoKV/vfs"

	"verif/lib/dbh"
	"verif/lib/vr"
)

type bfCase struct {
	Sizes []string // per transaction of the batch: "s" two small values, "B" one value larger than the WAL write buffer
	Sync  bool     // SyncWrites
	Fault int      // 0 = none; k = the k-th file write/sync call after the batch was released fails
}

func (c bfCase) String() string {
	return fmt.Sprintf("batch=%s sync=%v fault=#%d", strings.Join(c.Sizes, ""), c.Sync, c.Fault)
}

type bfResult struct {
	sig, desc string
	ops       []string // file write/sync calls observed while the batch was processed
	outcome   string
	err       error // harness problem
	split     bool  // the commits were not processed as ONE commit batch: the run does not count
}

var errInjected = errors.New("injected file-system fault")

// runBatchFault runs the case; a run in which the commit worker did not process the commits
// as one batch (which the queue handshake is meant to exclude) is repeated.
func runBatchFault(dir string, c bfCase) bfResult {
	for attempt := 0; ; attempt++ {
		res := runBatchFaultOnce(dir, c)
		if !res.split {
			return res
		}
		splitRuns++
		if attempt == 4 {
			res.err = errors.New("the commits could not be forced into one commit batch in 5 attempts")
			return res
		}
	}
}

var splitRuns int64

func runBatchFaultOnce(dir string, c bfCase) (res bfResult) {
	_ = os.RemoveAll(dir)
	if err := os.MkdirAll(dir, 0o755); err != nil {
		res.err = err
		return
	}
	defer os.RemoveAll(dir)
	var armed atomic.Bool
	var mu sync.Mutex
	n := 0
	faultOp := ""
	var applied atomic.Bool // the batch passed "db.commit.lsmApplied": later calls belong to the post-apply WAL sync
	policy := vfs.NewFaultPolicy()
	policy.SetHook(func(op vfs.Op, path string) error {
		if !armed.Load() || (op != vfs.OpFileWrite && op != vfs.OpFileSync) {
			return nil
		}
		mu.Lock()
		defer mu.Unlock()
		n++
		name := string(op) + filepath.Ext(path) + "@apply"
		if applied.Load() {
			name = string(op) + filepath.Ext(path) + "@sync"
		}
		res.ops = append(res.ops, name)
		if n == c.Fault {
			faultOp = name
			return errInjected
		}
		return nil
	})
	cfg := dbh.Config{DetectConflicts: true, SyncWrites: c.Sync, FS: vfs.NewFaultFSWithPolicy(vfs.OSFS{}, policy),
		ValueThreshold: 4 << 20, MemTableSize: 8 << 20}
	h, err := dbh.Open(dir, cfg)
	if err != nil {
		res.err = err
		return
	}
	closed := false
	defer func() {
		armed.Store(false)
		if !closed {
			_ = h.Close()
		}
	}()
	db := h.DB
	// park the commit worker at the end of the blocker's batch
	var hold atomic.Bool
	held := make(chan struct{}, 1)
	release := make(chan struct{})
	var batches atomic.Int32 // commit batches acknowledged while the fault window is open
	h.OnPoint = func(name string) {
		if name == "db.commit.lsmApplied" && armed.Load() {
			applied.Store(true)
		}
		if name == "db.commit.beforeAck" && armed.Load() {
			batches.Add(1)
		}
		if name == "db.commit.beforeAck" && hold.CompareAndSwap(true, false) {
			held <- struct{}{}
			<-release
		}
	}
	type tx struct {
		t    *NoKV.Txn
		keys []string
		vals [][]byte
		done chan error
		err  error
	}
	txs := make([]*tx, len(c.Sizes))
	for i, sz := range c.Sizes {
		x := &tx{t: db.NewTransaction(true), done: make(chan error, 1)}
		if sz == "B" {
			x.keys = []string{fmt.Sprintf("t%d-big", i)}
			x.vals = [][]byte{bytes.Repeat([]byte{byte('A' + i)}, 300<<10)}
		} else {
			x.keys = []string{fmt.Sprintf("t%d-k1", i), fmt.Sprintf("t%d-k2", i)}
			x.vals = [][]byte{[]byte(fmt.Sprintf("v%d.1", i)), []byte(fmt.Sprintf("v%d.2", i))}
		}
		for j, k := range x.keys {
			if err := x.t.Set([]byte(k), x.vals[j]); err != nil {
				res.err = fmt.Errorf("Set: %v", err)
				return
			}
		}
		txs[i] = x
	}
	blocker := db.NewTransaction(true)
	if err := blocker.Set([]byte("blocker"), []byte("x")); err != nil {
		res.err = err
		return
	}
	hold.Store(true)
	bdone := make(chan error, 1)
	go func() { bdone <- blocker.Commit() }()
	select {
	case <-held:
	case <-time.After(20 * time.Second):
		res.err = errors.New("commit worker never reached db.commit.beforeAck")
		return
	}
	for i, x := range txs {
		go func(x *tx) {
			defer func() {
				if r := recover(); r != nil {
					x.done <- fmt.Errorf("panic: %v", r)
				}
			}()
			x.done <- x.t.Commit()
		}(x)
		deadline := time.Now().Add(20 * time.Second)
		// queued AND its wake-up token published: only then does the worker's drain loop
		// (tryAcquireItem) pick it up together with the others
		for db.VerifCommitQueueLen() != int64(i+1) || db.VerifCommitQueueItems() != i+1 {
			if time.Now().After(deadline) {
				res.err = fmt.Errorf("request %d was not queued", i)
				close(release)
				return
			}
			time.Sleep(20 * time.Microsecond)
		}
	}
	armed.Store(true)
	close(release)
	if err := <-bdone; err != nil {
		res.err = fmt.Errorf("blocker commit failed: %v", err)
		return
	}
	for i, x := range txs {
		select {
		case x.err = <-x.done:
		case <-time.After(30 * time.Second):
			res.err = fmt.Errorf("commit %d did not return", i)
			return
		}
	}
	armed.Store(false)
	if batches.Load() != 1 {
		res.split = true // never judged: the premise "one commit batch" does not hold for this run
		return
	}
	var oc []string
	firstFailed := 0
	for i, x := range txs {
		if x.err == nil {
			oc = append(oc, "ok")
		} else {
			oc = append(oc, "err")
			if firstFailed == 0 {
				firstFailed = i + 1
			}
		}
	}
	res.outcome = strings.Join(oc, ",")
	ctx := fmt.Sprintf("batch=%d first-failed-req=%d fault=%s", len(txs), firstFailed, faultOp)
	if c.Sync {
		ctx += " syncwrites"
	}
	// stored versions of a key, through the internal all-versions iterator
	stored := func(d *NoKV.DB, key string) (vers []uint64, vals [][]byte) {
		it := d.NewInternalIterator(&utils.Options{IsAsc: true})
		defer it.Close()
		for it.Seek(kv.InternalKey(kv.CFDefault, []byte(key), math.MaxUint64)); it.Valid(); it.Next() {
			e := it.Item().Entry()
			cf, uk, ver := kv.SplitInternalKey(e.Key)
			if cf != kv.CFDefault || string(uk) != key {
				break
			}
			vers = append(vers, ver)
			vals = append(vals, append([]byte{}, e.Value...))
		}
		return
	}
	judge := func(d *NoKV.DB, stage string, nilMustBeVisible bool) bool {
		rt := d.NewTransaction(false)
		defer rt.Discard()
		for i, x := range txs {
			visible := 0
			versions := map[uint64]bool{}
			for j, k := range x.keys {
				item, gerr := rt.Get([]byte(k))
				vers, vals := stored(d, k)
				if gerr == nil && bytes.Equal(item.Entry().Value, x.vals[j]) {
					visible++
				} else if len(vers) > 0 && bytes.Equal(vals[0], x.vals[j]) {
					visible++ // stored at some version even if this reader does not see it yet
				}
				for _, v := range vers {
					versions[v] = true
				}
			}
			switch {
			case x.err != nil && visible > 0:
				res.sig = fmt.Sprintf("commit-error-but-writes-visible req=%d %s%s", i+1, ctx, stage)
				res.desc = fmt.Sprintf("transaction %d of the commit batch got %q from Commit, but %d/%d of its writes are stored/visible%s (case %s; batch outcomes %s; fs calls during the batch %v)", i+1, x.err, visible, len(x.keys), stage, c, res.outcome, res.ops)
				return false
			case x.err == nil && nilMustBeVisible && visible != len(x.keys):
				res.sig = fmt.Sprintf("commit-nil-but-writes-missing req=%d %s%s", i+1, ctx, stage)
				res.desc = fmt.Sprintf("transaction %d of the commit batch got nil from Commit, but only %d/%d of its writes are visible%s (case %s; batch outcomes %s)", i+1, visible, len(x.keys), stage, c, res.outcome)
				return false
			case x.err == nil && nilMustBeVisible && len(versions) != 1:
				res.sig = fmt.Sprintf("commit-nil-but-split-versions req=%d %s%s", i+1, ctx, stage)
				res.desc = fmt.Sprintf("transaction %d committed at %d different versions (case %s)", i+1, len(versions), c)
				return false
			}
		}
		return true
	}
	if !judge(db, "", true) {
		return
	}
	// "never become visible": also after a clean close + reopen (faults disarmed). Only the
	// error => invisible direction is judged there: whether an acknowledged commit survives
	// a close that follows an I/O error is a durability question (C09/C10), not C04's.
	_ = h.Close()
	closed = true
	h2, err := dbh.Open(dir, cfg)
	if err != nil {
		return // recovery refusing to open after the injected fault is outside C04
	}
	defer h2.Close()
	judge(h2.DB, " after-reopen", false)
	return
}

// batchFaultCases: the fault-free run of each shape tells how many file write/sync calls
// the batch makes; every call index is then failed once.
func batchFaultShapes(quick bool) []bfCase {
	var out []bfCase
	shapes := [][]string{{"s", "s"}, {"s", "B"}, {"B", "s"}, {"B", "B"}, {"s", "s", "B"}, {"s", "B", "s"}}
	if !quick {
		shapes = append(shapes, []string{"B", "s", "B"}, []string{"s", "B", "B"}, []string{"s", "s", "s", "B"}, []string{"B", "B", "B"})
	}
	for _, sh := range shapes {
		for _, sy := range []bool{false, true} {
			out = append(out, bfCase{Sizes: sh, Sync: sy})
		}
	}
	return out
}

func runBatchFaultFamily(r *vr.Run, sh vr.ShardInfo, p *vr.Partial, base string) {
	reported := map[string]bool{}
	item := 0
	defer func() { p.Add("batch_fault_runs_repeated_because_batch_split", splitRuns) }()
	for _, shape := range batchFaultShapes(r.Quick()) {
		item++
		if !sh.Owns(item) {
			continue
		}
		if r.Expired() {
			p.TimedOut = true
			return
		}
		// fault-free run: counts the calls and must itself satisfy the oracle
		probe := runBatchFault(base+"/bf", shape)
		if probe.err != nil {
			vr.Fatalf("batch-fault %s: %v", shape, probe.err)
		}
		total := len(probe.ops)
		for k := 0; k <= total; k++ {
			c := shape
			c.Fault = k
			res := probe
			if k > 0 {
				res = runBatchFault(base+"/bf", c)
				if res.err != nil {
					vr.Fatalf("batch-fault %s: %v", c, res.err)
				}
			}
			p.Add("histories", 1)
			p.Add("batch_fault_cases", 1)
			if k == 0 {
				p.Add("batch_fault_free_runs", 1)
			} else if k <= len(res.ops) {
				p.Add("batch_fault_injected"+res.ops[k-1][strings.IndexByte(res.ops[k-1], '@'):], 1)
			}
			p.Add("verdict:batch:"+res.outcome, 1)
			p.Mark("outcomes", "batchfault "+strings.Join(c.Sizes, "")+fmt.Sprint(c.Sync, k)+res.outcome)
			if k == 1 {
				p.Sample(fmt.Sprintf("batch-fault: %s => %s (fs calls in the batch: %v)", c, res.outcome, res.ops))
			}
			if res.sig == "" {
				continue
			}
			if reported[res.sig] {
				p.Viol(res.sig, "", "")
				continue
			}
			// confirm from scratch: at least 2 of 3 fresh re-runs must show the identical signature
			same := 0
			for rep := 0; rep < 3; rep++ {
				if again := runBatchFault(base+"/bf", c); again.err == nil && again.sig == res.sig {
					same++
				}
			}
			if same < 2 {
				p.Add("nondeterministic_findings_dropped", 1)
				p.Notes = append(p.Notes, fmt.Sprintf("batch-fault finding %q (%s) reproduced in only %d of 3 fresh re-runs and was dropped: %s", res.sig, c, same, res.desc))
				continue
			}
			reported[res.sig] = true
			p.Viol(res.sig, res.desc, fmt.Sprintf(`{"Family":"batch-fault","Warm":%d,"History":%q}`, c.Fault, strings.Join(c.Sizes, "")+map[bool]string{true: " sync", false: " nosync"}[c.Sync]))
		}
	}
}
