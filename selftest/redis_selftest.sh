#!/bin/sh
# usage: redis_selftest.sh CXX <diff> [base.diff ...]   (run from anywhere)
# Applies the property-breaking edit <diff> (after optional base diffs, e.g. pending hooks)
# to a scratch worktree of /repo, runs the touched packages' own tests, then the check;
# expects exit 1 from the check.
set -u
ID=$1; DIFF=$2; shift 2
WT=/dev/shm/wt-redis-st   # fixed path: unchanged packages stay in the build cache
git -C /repo worktree remove --force "$WT" >/dev/null 2>&1
export GOFLAGS=-mod=mod GOPROXY=off GOSUMDB=off GOTOOLCHAIN=local
git -C /repo worktree add --detach "$WT" HEAD >/dev/null 2>&1 || exit 2
trap 'git -C /repo worktree remove --force "$WT" >/dev/null 2>&1' EXIT
for b in "$@"; do (cd "$WT" && git apply "$b") || { echo "base $b does not apply"; exit 2; }; done
(cd "$WT" && git apply "$DIFF") || { echo "diff does not apply"; exit 2; }
PKGS=$(grep '^+++ b/' "$DIFF" | sed 's|^+++ b/||' | xargs -n1 dirname | sort -u | sed 's|^|./|')
echo "== $ID $(basename "$DIFF"): repo tests for $PKGS"
(cd "$WT" && go1.26 test -count=1 $PKGS 2>&1 | grep -E "^(--- FAIL|ok|FAIL|panic:)|build failed|declared and not used" | head -12)
echo "== $ID $(basename "$DIFF"): check"
cd /verif && ./vcheck "$ID" --repo "$WT" > "/dev/shm/st-$ID-$(basename "$DIFF").log" 2>&1
rc=$?
grep -E "^(SUMMARY|VIOLATION|  signature|KNOWN)" "/dev/shm/st-$ID-$(basename "$DIFF").log" | head -12
echo "== $ID $(basename "$DIFF"): check exit=$rc (expected 1)"
