module verif

go 1.26.0

require (
	github.com/anishathalye/porcupine v1.3.0
	github.com/feichai0017/NoKV v0.0.0
)

replace github.com/feichai0017/NoKV => /repo
