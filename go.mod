module verif

go 1.26.0

require (
	github.com/anishathalye/porcupine v1.3.0
	github.com/feichai0017/NoKV v0.0.0
)

require (
	github.com/cespare/xxhash/v2 v2.3.0 // indirect
	github.com/dgraph-io/ristretto/v2 v2.4.0 // indirect
	github.com/dustin/go-humanize v1.0.1 // indirect
	github.com/gogo/protobuf v1.3.2 // indirect
	github.com/golang/protobuf v1.5.4 // indirect
	github.com/panjf2000/ants/v2 v2.11.5 // indirect
	github.com/pkg/errors v0.9.1 // indirect
	go.etcd.io/raft/v3 v3.6.0 // indirect
	golang.org/x/net v0.48.0 // indirect
	golang.org/x/sync v0.19.0 // indirect
	golang.org/x/sys v0.41.0 // indirect
	golang.org/x/text v0.32.0 // indirect
	google.golang.org/genproto/googleapis/rpc v0.0.0-20251202230838-ff82c1b0f217 // indirect
	google.golang.org/grpc v1.79.1 // indirect
	google.golang.org/protobuf v1.36.11 // indirect
)

replace github.com/feichai0017/NoKV => /repo
