//go:build verif

package percseq

import (
	"fmt"
	"sort"
	"strings"
)

// Reference model of Percolator semantics, written from the statements of C17/C18/C19:
// per key one optional lock, a set of write records (commit/rollback) and the
// prewritten values. It never looks at the implementation.

type mlock struct {
	ts      uint64
	primary string
	kind    byte // 'p' put, 'd' delete, 'l' lock-only
	ttl     uint64
	minc    uint64
}

type mrec struct {
	commit uint64
	kind   byte // 'p','d','l' committed; 'r' rollback
	start  uint64
}

type mkey struct {
	lock    *mlock
	recs    []mrec            // sorted by commit descending
	vals    map[uint64]string // start ts -> prewritten value
	removed map[uint64]byte   // lock start ts -> how the lock went away ('c' commit, 'r' rollback)
}

type model struct {
	keys map[string]*mkey
	cts  map[int]uint64 // commit timestamp a transaction has used so far
}

func newModel(keys []string) *model {
	m := &model{keys: map[string]*mkey{}, cts: map[int]uint64{}}
	for _, k := range keys {
		m.keys[k] = &mkey{vals: map[uint64]string{}, removed: map[uint64]byte{}}
	}
	return m
}

func (m *model) clone() *model {
	c := &model{keys: map[string]*mkey{}, cts: map[int]uint64{}}
	for t, v := range m.cts {
		c.cts[t] = v
	}
	for k, mk := range m.keys {
		nk := &mkey{vals: map[uint64]string{}, removed: map[uint64]byte{}}
		if mk.lock != nil {
			l := *mk.lock
			nk.lock = &l
		}
		nk.recs = append([]mrec(nil), mk.recs...)
		for s, v := range mk.vals {
			nk.vals[s] = v
		}
		for s, v := range mk.removed {
			nk.removed[s] = v
		}
		c.keys[k] = nk
	}
	return c
}

func (m *model) sortedKeys() []string {
	ks := make([]string, 0, len(m.keys))
	for k := range m.keys {
		ks = append(ks, k)
	}
	sort.Strings(ks)
	return ks
}

// String is canonical (used in the state key).
func (m *model) String() string {
	var sb strings.Builder
	for _, k := range m.sortedKeys() {
		mk := m.keys[k]
		fmt.Fprintf(&sb, "%s:", k)
		if mk.lock != nil {
			fmt.Fprintf(&sb, "L(%d,%s,%c,%d,%d)", mk.lock.ts, mk.lock.primary, mk.lock.kind, mk.lock.ttl, mk.lock.minc)
		}
		for _, r := range mk.recs {
			fmt.Fprintf(&sb, "W(%d,%c,%d)", r.commit, r.kind, r.start)
		}
		var ss []uint64
		for s := range mk.vals {
			ss = append(ss, s)
		}
		sort.Slice(ss, func(i, j int) bool { return ss[i] < ss[j] })
		for _, s := range ss {
			fmt.Fprintf(&sb, "V(%d)", s)
		}
		sb.WriteString(";")
	}
	var ts []int
	for t := range m.cts {
		ts = append(ts, t)
	}
	sort.Ints(ts)
	for _, t := range ts {
		fmt.Fprintf(&sb, "c%d=%d;", t, m.cts[t])
	}
	return sb.String()
}

func (k *mkey) recByStart(start uint64) *mrec {
	for i := range k.recs {
		if k.recs[i].start == start {
			return &k.recs[i]
		}
	}
	return nil
}

func (k *mkey) addRec(r mrec) {
	k.recs = append(k.recs, r)
	sort.SliceStable(k.recs, func(i, j int) bool { return k.recs[i].commit > k.recs[j].commit })
}

// newestCommittedAtOrAbove: is there a committed (non-rollback) record with commit ts >= ts?
func (k *mkey) committedAtOrAbove(ts uint64) bool {
	for _, r := range k.recs {
		if r.kind != 'r' && r.commit >= ts {
			return true
		}
	}
	return false
}

func (k *mkey) anyRecAtOrAbove(ts uint64) bool {
	for _, r := range k.recs {
		if r.commit >= ts {
			return true
		}
	}
	return false
}

// rollbackKey applies the effect of rolling back (key, start): no effect when the
// transaction already has a commit or rollback record on the key; otherwise its lock
// (only its own) goes away and a rollback record appears.
func (k *mkey) rollback(start uint64) {
	if k.recByStart(start) != nil {
		return
	}
	if k.lock != nil && k.lock.ts == start {
		k.lock = nil
		k.removed[start] = 'r'
	}
	delete(k.vals, start)
	k.addRec(mrec{commit: start, kind: 'r', start: start})
}

func (k *mkey) commit(commitTs uint64) {
	l := k.lock
	k.addRec(mrec{commit: commitTs, kind: l.kind, start: l.ts})
	k.removed[l.ts] = 'c'
	k.lock = nil
}

// ---- expected reads (C17) ----

type readWant struct {
	lockTs uint64 // != 0: lock error expected with this lock version
	found  bool
	value  string
	newest byte // kind of the newest record with commit <= t ('-' none), for signatures
}

func (k *mkey) read(t uint64) readWant {
	w := readWant{newest: '-'}
	for _, r := range k.recs { // descending commit
		if r.commit <= t {
			w.newest = r.kind
			break
		}
	}
	if k.lock != nil && k.lock.ts <= t {
		w.lockTs = k.lock.ts
		return w
	}
	for _, r := range k.recs {
		if r.commit > t || r.kind == 'r' || r.kind == 'l' {
			continue
		}
		if r.kind == 'p' {
			w.found = true
			w.value = k.vals[r.start]
		}
		return w
	}
	return w
}

// interesting timestamps: every timestamp stored in the state, and the one just below.
func (m *model) probeTs() []uint64 {
	set := map[uint64]bool{^uint64(0): true}
	add := func(v uint64) {
		if v > 1 {
			set[v-1] = true
		}
		set[v] = true
	}
	for name, mk := range m.keys {
		if name == "z" { // scan sentinel of namespaced executions
			continue
		}
		if mk.lock != nil {
			add(mk.lock.ts)
		}
		for _, r := range mk.recs {
			add(r.commit)
			add(r.start)
		}
	}
	out := make([]uint64, 0, len(set))
	for v := range set {
		out = append(out, v)
	}
	sort.Slice(out, func(i, j int) bool { return out[i] < out[j] })
	return out
}
