//go:build verif

package percseq

import (
	"fmt"
	"os"
	"runtime/pprof"
	"time"
	"sort"
	"strings"

	"verif/lib/seqmc"
	"verif/lib/vr"
)

// Config is one exploration: an alphabet with budgets on one kind of instance.
type Config struct {
	P         Params
	Depth     int
	LogReplay bool // at every path end re-apply every suffix of the request log (duplicate delivery / log re-application)
}

// Spec describes one property check built on this package.
type Spec struct {
	Prop        string
	Families    []string
	Rule        string
	Assumptions []string
	Configs     func(r *vr.Run) []Config
	MinOutcomes int64
}

// Main runs the check: explore every configuration (sharded over worker processes),
// confirm each violation on fresh instances, write the evidence.
func Main(spec Spec) {
	r := vr.Start(spec.Prop)
	cfgs := spec.Configs(r)
	if only := os.Getenv("VERIF_ONLY_CFG"); only != "" && r.ReplayPath == "" { // development aid
		var keep []Config
		for _, c := range cfgs {
			if c.P.Name == only {
				keep = append(keep, c)
			}
		}
		cfgs = keep
	}
	fam := map[string]bool{}
	for _, f := range spec.Families {
		fam[f] = true
	}
	if r.ReplayPath != "" {
		var rp struct {
			Config string
			Path   []string
		}
		r.LoadReplay(&rp)
		replay(r, spec, cfgs, fam, rp.Config, rp.Path)
		return
	}
	base := r.Scratch()
	if pf := os.Getenv("VERIF_CPUPROFILE"); pf != "" && os.Getenv("VERIF_SHARD") == "" {
		f, err := os.Create(pf)
		if err == nil {
			_ = pprof.StartCPUProfile(f)
			defer pprof.StopCPUProfile()
			go func() { time.Sleep(40 * time.Second); pprof.StopCPUProfile(); _ = f.Close() }()
		}
	}
	workers := vr.Workers()
	if r.Quick() && workers > 8 && os.Getenv("VERIF_WORKERS") == "" {
		workers = 8 // the quick spaces are small: more processes only re-explore shared prefixes
	}
	total := r.RunSharded(workers, func(sh vr.ShardInfo, p *vr.Partial) {
		for ci := range cfgs {
			c := cfgs[ci]
			params := c.P
			params.Families = fam
			params.BaseDir = fmt.Sprintf("%s/s%d-c%d", base, sh.Index, ci)
			sink := NewSink()
			params.Sink = sink
			sub := vr.NewPartial()
			sc := seqmc.Config{New: func() seqmc.Instance { return New(&params) }, MaxDepth: c.Depth, Shard: sh, Expired: r.Expired}
			if c.LogReplay {
				sc.OnLeaf = func(path []string, in seqmc.Instance) { logReplay(in.(*Inst), path) }
			}
			st := seqmc.Explore(sc, sub)
			// every violation must reproduce identically on fresh instances
			sigs := make([]string, 0, len(sink.Viol))
			for s := range sink.Viol {
				sigs = append(sigs, s)
			}
			sort.Strings(sigs)
			for _, s := range sigs {
				f := sink.Viol[s]
				for i := 0; i < 2; i++ {
					if !reproduce(&params, f.Path, s) {
						vr.Fatalf("violation %q of config %s did not reproduce on a fresh instance (path %v)", s, params.Name, f.Path)
					}
					sub.Add("confirm_replays", 1)
				}
			}
			params.Sink = sink
			sink.Flush(params.Name, sub)
			sub.Add("cfg:"+params.Name+":transitions", st.Transitions)
			sub.Add("cfg:"+params.Name+":executions", st.Executions)
			for h := range sub.Sets["states"] {
				_ = h
				sub.Add("cfg:"+params.Name+":states_seen_by_shard", 1)
			}
			p.Merge(sub)
			CloseShared()
		}
	})
	states := total.Card("states")
	outcomes := total.Card("outcomes")
	min := spec.MinOutcomes
	if min == 0 {
		min = 8
	}
	r.RequireOutcomes(outcomes, min)
	var names []string
	perCfg := map[string]any{}
	for _, c := range cfgs {
		names = append(names, fmt.Sprintf("%s(requests<=%d,maintenance<=%d,alphabet=%d%s)", c.P.Name, c.P.MaxReq, c.P.MaxMaint, len(c.P.Ops), map[bool]string{true: ",log-replay", false: ""}[c.LogReplay]))
		perCfg[c.P.Name] = map[string]any{"transitions": total.Counters["cfg:"+c.P.Name+":transitions"], "executions": total.Counters["cfg:"+c.P.Name+":executions"],
			"alphabet": c.P.Ops, "maintenance": c.P.Maint, "dedup": c.P.Dedup}
	}
	extra := map[string]any{"pruned_by_state_key": total.Counters["pruned"], "noop_cut": total.Counters["cut_noop"],
		"replayed_steps": total.Counters["replayed_steps"], "max_depth": total.Counters["max_depth"], "per_config": perCfg}
	ops := map[string]int64{}
	other := map[string]int64{}
	for k, v := range total.Counters {
		switch {
		case strings.HasPrefix(k, "op:"):
			ops[k[3:]] = v
		case strings.HasPrefix(k, "other_family:"), strings.HasPrefix(k, "branch_ended:"), strings.HasPrefix(k, "maint_impl_error:"), strings.HasPrefix(k, "log_replay"), strings.HasPrefix(k, "state_checks"), k == "confirm_replays":
			other[k] = v
		}
	}
	extra["ops_applied"] = ops
	extra["side_counters"] = other
	r.Finish(vr.Coverage{
		Level:       "model_checking",
		Evaluations: total.Counters["executions"],
		Distinct:    states,
		Rule:        spec.Rule,
		Samples:     total.SamplesAny(),
		States:      states,
		Transitions: total.Counters["transitions"],
		Validated:   total.Counters["executions"] + total.Counters["confirm_replays"],
		Exhaustive:  !total.TimedOut,
		Outcomes:    outcomes,
		Bounds:      map[string]any{"configs": names, "tier": r.Tier},
		Extra:       extra,
		Assumptions: spec.Assumptions,
	})
}

// logReplay models duplicate delivery / re-application of the command log: on top of the
// state reached by `path`, every suffix of the request log is applied again, in order,
// with the model stepping along (a repeated request must leave the state where the model
// says it leaves it) and the full oracle after every step.
func logReplay(in *Inst, path []string) {
	var reqs []string
	for _, op := range path {
		if isRequest(op) {
			reqs = append(reqs, op)
		}
	}
	for j := range reqs {
		for _, op := range reqs[j:] {
			if in.dead != "" {
				return
			}
			changed, err := in.Apply(op)
			if err != nil {
				vr.Fatalf("log replay %q: %v", op, err)
			}
			in.P.Sink.Counters["log_replay_steps"]++
			if changed {
				in.P.Sink.Counters["log_replay_steps_changing_state"]++
			}
			in.Check()
		}
	}
}

// reproduce runs path on a fresh instance with a private sink and reports whether sig shows up.
func reproduce(params *Params, path []string, sig string) bool {
	pp := *params
	pp.Sink = NewSink()
	in := New(&pp).(*Inst)
	defer in.Close()
	in.Check()
	for _, op := range path {
		if _, err := in.Apply(op); err != nil {
			vr.Fatalf("reproduce %v: %q: %v", path, op, err)
		}
		in.Check()
	}
	_, ok := pp.Sink.Viol[sig]
	if !ok {
		var got []string
		for s := range pp.Sink.Viol {
			got = append(got, s)
		}
		sort.Strings(got)
		fmt.Fprintf(os.Stderr, "reproduce: wanted %q, got %q (dead=%q, ns=%q)\n", sig, got, in.dead, in.ns)
	}
	return ok
}

func replay(r *vr.Run, spec Spec, cfgs []Config, fam map[string]bool, name string, path []string) {
	for _, c := range cfgs {
		if c.P.Name != name {
			continue
		}
		params := c.P
		params.Families = fam
		params.BaseDir = r.Scratch()
		params.Sink = NewSink()
		in := New(&params).(*Inst)
		in.Check()
		seen := map[string]bool{}
		for i, op := range path {
			changed, err := in.Apply(op)
			if err != nil {
				vr.Fatalf("replay step %d %q: %v", i, op, err)
			}
			in.Check()
			fmt.Printf("replay: step %d %-16s changed=%-5v model: %s\n", i, op, changed, in.m.String())
			var sigs []string
			for s := range params.Sink.Viol {
				if !seen[s] {
					sigs = append(sigs, s)
				}
			}
			sort.Strings(sigs)
			for _, s := range sigs {
				seen[s] = true
				f := params.Sink.Viol[s]
				fmt.Printf("replay:   violation after step %d: %s\n            %s\n", i, s, f.Desc)
				r.Violation(s, f.Desc, map[string]any{"Config": name, "Path": path[:i+1]})
			}
		}
		in.Close()
		CloseShared()
		r.Finish(vr.Coverage{Level: "model_checking", Evaluations: 1, Distinct: 2, States: 1, Transitions: int64(len(path)), Validated: 1, Rule: "replay", Samples: []any{path}})
	}
	vr.Fatalf("unknown config %q", name)
}
