//go:build verif

// Package percseq is the seqmc Instance shared by the Percolator checks (C17 reads,
// C18 outcomes, C19 lock lifetime): request histories are applied through the REAL
// `raftstore/kv.Apply` handlers on a REAL DB (optionally interleaved with maintenance
// transitions of the dbh harness) and compared after every step with a small reference
// model of Percolator semantics (model.go).
//
// Violations are classified into three families, one per property:
//
//	read     (C17)  GET / SCAN answers vs. the model
//	outcome  (C18)  commit/rollback/prewrite/resolve/status answers, write records
//	lock     (C19)  lock column vs. the model, TTL / min_commit_ts rules
//
// A check reports only its own families; a mismatch in another family ends the branch
// (the model no longer describes the implementation) and is only counted.
package percseq

import (
	"bytes"
	"encoding/json"
	"fmt"
	"math"
	"os"
	"sort"
	"strconv"
	"strings"

	"github.com/feichai0017/NoKV/kv"
	"github.com/feichai0017/NoKV/pb"
	"github.com/feichai0017/NoKV/percolator"
	rkv "github.com/feichai0017/NoKV/raftstore/kv"
	"github.com/feichai0017/NoKV/utils"

	"verif/lib/dbh"
	"verif/lib/seqmc"
	"verif/lib/vr"
)

// Request op syntax (T = transaction index into Params.Txns):
//
//	pw:T:<keys>            prewrite of the listed keys (one letter per key) with T's mutations
//	cm:T:<keys>:<commitTs> commit
//	rb:T:<keys>            batch rollback
//	rs:T:<keys>:<commitTs> resolve lock (commitTs 0 = rollback)
//	cs:T:<cur>:<caller>:<rb> check-txn-status on T's primary (current_ts, caller_start_ts, rollback_if_not_exist 0|1)
//
// Everything else is a dbh maintenance op.

type TxnSpec struct {
	Start     uint64
	Primary   string
	TTL       uint64
	MinCommit uint64
	Muts      map[string]byte // key -> 'p' put, 'P' put with a value-log sized value, 'd' delete, 'l' lock-only
}

type Params struct {
	Name        string
	Cfg         dbh.Config
	Keys        []string // user keys, sorted, single letters
	Txns        map[int]TxnSpec
	Ops         []string // request alphabet, simplest first
	MaxReq      int
	MaxMaint    int
	Maint       []string // allowed maintenance op classes (rotate, flush, rf, l0-base, l0-l0, ingest-drain, ingest-keep, reopen)
	Namespaced  bool     // many executions share one DB, each in its own key namespace
	NSPerDB     int
	Dedup       bool
	OneCommitTs bool // a transaction uses a single commit timestamp (conforming clients)
	Families    map[string]bool
	BaseDir     string
	Sink        *Sink

	multiCts map[int]bool // transactions with more than one commit timestamp in the alphabet
}

func (p *Params) prepare() {
	if p.multiCts != nil {
		return
	}
	p.multiCts = map[int]bool{}
	if !p.OneCommitTs {
		return
	}
	first := map[int]string{}
	for _, op := range p.Ops {
		f := strings.Split(op, ":")
		if (f[0] == "cm" || f[0] == "rs") && f[3] != "0" {
			t, _ := strconv.Atoi(f[1])
			if c, ok := first[t]; ok && c != f[3] {
				p.multiCts[t] = true
			}
			if _, ok := first[t]; !ok {
				first[t] = f[3]
			}
		}
	}
}

// Sink collects violations and coverage counters across instances.
type Sink struct {
	Viol     map[string]*Found
	Counters map[string]int64
	Outcomes map[string]struct{}
	seen     map[uint64]struct{} // (sig, path) already counted: prefixes are replayed many times
	checked  map[uint64][][2]string // states whose state-level oracle (locks, records, reads) was already evaluated
}

type Found struct {
	Sig, Desc string
	Path      []string
	Count     int
}

func NewSink() *Sink {
	return &Sink{Viol: map[string]*Found{}, Counters: map[string]int64{}, Outcomes: map[string]struct{}{}, seen: map[uint64]struct{}{}, checked: map[uint64][][2]string{}}
}

func (s *Sink) add(sig, desc string, path []string) {
	h := vr.Hash64(sig + "|" + strings.Join(path, ";"))
	if _, ok := s.seen[h]; ok {
		return
	}
	s.seen[h] = struct{}{}
	f := s.Viol[sig]
	if f == nil {
		s.Viol[sig] = &Found{Sig: sig, Desc: desc, Path: append([]string(nil), path...), Count: 1}
		return
	}
	f.Count++
	if len(path) < len(f.Path) {
		f.Desc, f.Path = desc, append([]string(nil), path...)
	}
}

// Flush moves the collected violations into a partial result.
func (s *Sink) Flush(config string, p *vr.Partial) {
	sigs := make([]string, 0, len(s.Viol))
	for k := range s.Viol {
		sigs = append(sigs, k)
	}
	sort.Strings(sigs)
	for _, k := range sigs {
		f := s.Viol[k]
		pj, _ := json.Marshal(f.Path)
		p.Violations = append(p.Violations, vr.PViolation{Sig: f.Sig,
			Desc:   "config=" + config + " " + f.Desc + "\n  path: " + strings.Join(f.Path, " ; "),
			Replay: fmt.Sprintf(`{"Config":%q,"Path":%s}`, config, pj), Count: f.Count})
	}
	for k, v := range s.Counters {
		p.Add(k, v)
	}
	for k := range s.Outcomes {
		p.Mark("outcomes", k)
	}
}

// ---- shared DB for namespaced mode ----

type sharedDB struct {
	h      *dbh.H
	dir    string
	used   int
	live   int
	serial int
}

var shared sharedDB
var dirSeq int

type Inst struct {
	P      *Params
	h      *dbh.H
	ownDB  bool
	dir    string
	ns     string
	m      *model
	cands  []*model // successor candidates awaiting resolution by the next observation
	path   []string
	nReq   int
	nMaint int
	dead   string
	last   string // last request/maintenance class, for signatures
	lastTs uint64 // start ts of the transaction of the last request (0 for maintenance)
	dump   string
	closed bool

	curState  uint64
	recording bool

	adoptPending bool
	lastObs      *obs
}

func New(p *Params) seqmc.Instance {
	p.prepare()
	in := &Inst{P: p, m: newModel(p.Keys)}
	if p.Namespaced {
		per := p.NSPerDB
		if per <= 0 {
			per = 64
		}
		if shared.h == nil || (shared.used >= per && shared.live == 0) {
			if shared.h != nil {
				_ = shared.h.Close()
				_ = os.RemoveAll(shared.dir)
			}
			shared.serial++
			shared.dir = fmt.Sprintf("%s/shared%d", p.BaseDir, shared.serial)
			_ = os.RemoveAll(shared.dir)
			if err := os.MkdirAll(shared.dir, 0o755); err != nil {
				vr.Fatalf("mkdir: %v", err)
			}
			cfg := p.Cfg
			cfg.MemTableSize = 16 << 20
			h, err := dbh.Open(shared.dir, cfg)
			if err != nil {
				vr.Fatalf("open shared db: %v", err)
			}
			shared.h = h
			shared.used = 0
		}
		shared.used++
		shared.live++
		in.h = shared.h
		// newer namespaces sort first so a scan never walks older executions
		in.ns = fmt.Sprintf("%06d/", 999999-shared.used)
		// sentinel: a committed key after the namespace's keys bounds every scan
		in.m.keys["z"] = &mkey{vals: map[uint64]string{}, removed: map[uint64]byte{}}
		in.rawPrewrite("z", 1, "z", 'p', "Z", 0, 0)
		in.rawCommit("z", 1, 2)
		in.m.keys["z"].vals[1] = "Z"
		in.m.keys["z"].addRec(mrec{commit: 2, kind: 'p', start: 1})
	} else {
		dirSeq++
		in.dir = fmt.Sprintf("%s/x%d", p.BaseDir, dirSeq)
		_ = os.RemoveAll(in.dir)
		if err := os.MkdirAll(in.dir, 0o755); err != nil {
			vr.Fatalf("mkdir: %v", err)
		}
		h, err := dbh.Open(in.dir, p.Cfg)
		if err != nil {
			vr.Fatalf("open db: %v", err)
		}
		in.h, in.ownDB = h, true
	}
	in.dump = in.implDump()
	return in
}

// CloseShared releases the shared namespaced DB (end of a worker).
func CloseShared() {
	if shared.h != nil {
		_ = shared.h.Close()
		_ = os.RemoveAll(shared.dir)
		shared.h = nil
	}
}

func (in *Inst) Close() {
	if in.closed {
		return
	}
	in.closed = true
	if in.ownDB {
		if in.h != nil {
			_ = in.h.Close()
		}
		_ = os.RemoveAll(in.dir)
		return
	}
	shared.live--
}

func (in *Inst) allKeys() []string { return in.m.sortedKeys() }

func (in *Inst) uk(k string) []byte { return []byte(in.ns + k) }

func valueFor(t int, k string, mut byte) string {
	v := fmt.Sprintf("v%d%s", t, k)
	if mut == 'P' {
		for len(v) < 48 {
			v += "."
		}
	}
	return v
}

func mutKind(mut byte) byte {
	if mut == 'P' {
		return 'p'
	}
	return mut
}

func pbOp(kind byte) pb.Mutation_Op {
	switch kind {
	case 'p':
		return pb.Mutation_Put
	case 'd':
		return pb.Mutation_Delete
	case 'l':
		return pb.Mutation_Lock
	}
	panic("bad kind")
}

func kindOf(op pb.Mutation_Op) byte {
	switch op {
	case pb.Mutation_Put:
		return 'p'
	case pb.Mutation_Delete:
		return 'd'
	case pb.Mutation_Lock:
		return 'l'
	case pb.Mutation_Rollback:
		return 'r'
	}
	return '?'
}

func (in *Inst) apply1(r *pb.Request) *pb.Response {
	resp, err := rkv.Apply(in.h.DB, &pb.RaftCmdRequest{Requests: []*pb.Request{r}})
	if err != nil {
		in.kill("apply-error", fmt.Sprintf("kv.Apply returned %v", err))
		return nil
	}
	if len(resp.Responses) != 1 {
		in.kill("apply-error", fmt.Sprintf("kv.Apply returned %d responses", len(resp.Responses)))
		return nil
	}
	return resp.Responses[0]
}

func (in *Inst) rawPrewrite(k string, start uint64, primary string, kind byte, val string, ttl, minc uint64) {
	mut := &pb.Mutation{Op: pbOp(kind), Key: in.uk(k)}
	if kind == 'p' {
		mut.Value = []byte(val)
	}
	r := in.apply1(&pb.Request{CmdType: pb.CmdType_CMD_PREWRITE, Cmd: &pb.Request_Prewrite{Prewrite: &pb.PrewriteRequest{
		Mutations: []*pb.Mutation{mut}, PrimaryLock: in.uk(primary), StartVersion: start, LockTtl: ttl, MinCommitTs: minc}}})
	if r == nil || len(r.GetPrewrite().GetErrors()) != 0 {
		vr.Fatalf("sentinel prewrite failed: %v", r)
	}
}

func (in *Inst) rawCommit(k string, start, commit uint64) {
	r := in.apply1(&pb.Request{CmdType: pb.CmdType_CMD_COMMIT, Cmd: &pb.Request_Commit{Commit: &pb.CommitRequest{
		Keys: [][]byte{in.uk(k)}, StartVersion: start, CommitVersion: commit}}})
	if r == nil || r.GetCommit().GetError() != nil {
		vr.Fatalf("sentinel commit failed: %v", r)
	}
}

// kill ends the branch without a violation (implementation-only failure or harness limit).
func (in *Inst) kill(why, desc string) {
	if in.dead == "" {
		in.dead = why
		in.P.Sink.Counters["branch_ended:"+why]++
		_ = desc
	}
}

// report files a violation of the given family. fatal=true: the model no longer
// describes the implementation state, the branch ends here.
func (in *Inst) report(family, sig, desc string, fatal bool) {
	if in.P.Families[family] {
		in.P.Sink.add(sig, desc, in.path)
		if in.recording {
			in.P.Sink.checked[in.curState] = append(in.P.Sink.checked[in.curState], [2]string{sig, desc})
		}
	} else {
		in.P.Sink.Counters["other_family:"+family]++
	}
	if fatal {
		// The model no longer describes the stored state. Rather than abandoning the branch
		// (which would hide everything behind a known deviation) the model adopts the stored
		// locks and write records at the next observation and the exploration goes on: every
		// later report is again a single-step deviation from an agreed state.
		in.adoptPending = true
		in.P.Sink.Counters["model_adopted_stored_state"]++
	}
}

// adopt makes the model agree with the stored locks and write records.
func (in *Inst) adopt(o *obs) {
	for _, k := range in.m.sortedKeys() {
		mk := in.m.keys[k]
		if mk.lock != nil && o.locks[k] == nil {
			mk.removed[mk.lock.ts] = 'x'
		}
		mk.lock = nil
		if ol := o.locks[k]; ol != nil {
			l := *ol
			mk.lock = &l
			in.fillValue(mk, k, l.ts, l.kind)
		}
		mk.recs = append([]mrec(nil), o.recs[k]...)
		sort.SliceStable(mk.recs, func(i, j int) bool { return mk.recs[i].commit > mk.recs[j].commit })
		for _, r := range mk.recs {
			in.fillValue(mk, k, r.start, r.kind)
		}
	}
	in.adoptPending = false
	for _, k := range in.m.sortedKeys() {
		mk := in.m.keys[k]
		if mk.lock != nil && mk.recByStart(mk.lock.ts) != nil {
			// A lock next to a commit/rollback record of the same transaction is not a state of
			// the reference model (only a reported deviation leads here): nothing is specified
			// for what follows, so the branch ends.
			in.kill("adopted-state-outside-spec", k)
		}
	}
}

func (in *Inst) fillValue(mk *mkey, k string, start uint64, kind byte) {
	if kind != 'p' {
		return
	}
	if _, ok := mk.vals[start]; ok {
		return
	}
	for t, spec := range in.P.Txns {
		if spec.Start == start {
			if mut, ok := spec.Muts[k]; ok && mutKind(mut) == 'p' {
				mk.vals[start] = valueFor(t, k, mut)
			}
		}
	}
}

func isRequest(op string) bool {
	return strings.HasPrefix(op, "pw:") || strings.HasPrefix(op, "cm:") || strings.HasPrefix(op, "rb:") ||
		strings.HasPrefix(op, "rs:") || strings.HasPrefix(op, "cs:")
}

func opClass(op string) string {
	if i := strings.IndexByte(op, ':'); i >= 0 {
		return op[:i]
	}
	return op
}

func (in *Inst) Enabled() []string {
	if in.dead != "" || in.h == nil || in.h.DB == nil {
		return nil
	}
	var ops []string
	if in.nReq < in.P.MaxReq {
		for _, op := range in.P.Ops {
			if in.P.OneCommitTs {
				f := strings.Split(op, ":")
				if f[0] == "cm" || f[0] == "rs" {
					t, _ := strconv.Atoi(f[1])
					c, _ := strconv.ParseUint(f[3], 10, 64)
					if used, ok := in.m.cts[t]; ok && c != 0 && c != used {
						continue
					}
				}
			}
			ops = append(ops, op)
		}
	}
	if in.nMaint < in.P.MaxMaint && len(in.P.Maint) > 0 {
		allowed := map[string]bool{}
		for _, c := range in.P.Maint {
			allowed[c] = true
		}
		menu := in.h.MaintMenu(false, allowed["reopen"])
		rf := false
		for _, op := range menu {
			c := opClass(op)
			if (c == "rotate" || c == "flush") && allowed["rf"] && !rf {
				ops = append(ops, "rf")
				rf = true
			}
			if allowed[c] {
				ops = append(ops, op)
			}
		}
	}
	return ops
}

func (in *Inst) Apply(op string) (bool, error) {
	if in.dead != "" {
		return false, nil
	}
	modelBefore := in.m.String()
	if !isRequest(op) {
		in.nMaint++
		before := in.readAnswers()
		changed, err := in.h.Maint(op)
		if err != nil {
			if _, ok := err.(*dbh.ImplError); ok {
				in.P.Sink.Counters["maint_impl_error:"+opClass(op)]++
			} else if strings.Contains(err.Error(), "panicked") {
				in.path = append(in.path, op)
				in.kill("maintenance-panic:"+opClass(op), err.Error())
				return true, nil
			} else {
				return false, err
			}
			changed = true
		}
		if !changed {
			in.nMaint--
			return false, nil
		}
		in.path = append(in.path, op)
		in.last, in.lastTs = "maint:"+opClass(op), 0
		in.P.Sink.Counters["op:"+opClass(op)]++
		in.dump = in.implDump()
		in.sync()
		// differential oracle: a maintenance transition changes no answer of any read
		if after := in.readAnswers(); in.dead == "" && before != nil && after != nil {
			for i := range before {
				if i < len(after) && before[i] != after[i] {
					k := before[i][:1]
					if before[i][0] == 'S' {
						k = in.allKeys()[0]
					} else {
						k = strings.SplitN(before[i], " ", 3)[1]
					}
					in.report("read", "read-changed-by-maintenance op="+opClass(op)+in.placement(k),
						fmt.Sprintf("before %s: %s; after: %s", op, before[i], after[i]), false)
					break
				}
			}
		}
		return true, nil
	}
	in.nReq++
	in.path = append(in.path, op)
	in.P.Sink.Counters["op:"+opClass(op)]++
	in.step(op)
	if in.dead == "" {
		in.sync()
	}
	if in.dead != "" {
		return true, nil
	}
	d := in.implDump()
	changed := d != in.dump || modelBefore != in.m.String() || len(in.cands) > 0
	in.dump = d
	if !changed {
		// state identical: undo the bookkeeping so the live instance is still "after path"
		in.nReq--
		in.path = in.path[:len(in.path)-1]
	}
	return changed, nil
}

func (in *Inst) Key() string {
	if !in.P.Dedup || in.dead != "" {
		return ""
	}
	k := fmt.Sprintf("m%d\n%s\n%s", in.nMaint, in.m.String(), in.dump)
	return k
}

// implDump is the implementation state: every stored entry of the execution's keys
// (all column families, all versions, tombstones included). With maintenance it is the
// full LSM shape (container order matters for reads).
func (in *Inst) implDump() string {
	if !in.P.Namespaced {
		return in.h.DB.VerifLSM().VerifShape(false)
	}
	var sb strings.Builder
	it := in.h.DB.NewInternalIterator(&utils.Options{IsAsc: true})
	defer func() { _ = it.Close() }()
	nsb := []byte(in.ns)
	for _, cf := range []kv.ColumnFamily{kv.CFDefault, kv.CFLock, kv.CFWrite} {
		it.Seek(kv.InternalKey(cf, nsb, math.MaxUint64))
		for ; it.Valid(); it.Next() {
			e := it.Item().Entry()
			c, uk, ts := kv.SplitInternalKey(e.Key)
			if c != cf || !bytes.HasPrefix(uk, nsb) {
				break
			}
			if cf == kv.CFLock && len(e.Value) > 0 {
				// the lock value embeds the primary key, which carries the namespace
				if l, err := percolator.DecodeLock(e.Value); err == nil {
					fmt.Fprintf(&sb, "%d/%s@%d m%d lock(%s,%d,%d,%d,%d)\n", cf, uk[len(nsb):], ts, e.Meta, bytes.TrimPrefix(l.Primary, nsb), l.Ts, l.TTL, l.Kind, l.MinCommitTs)
					continue
				}
			}
			fmt.Fprintf(&sb, "%d/%s@%d m%d %x\n", cf, uk[len(nsb):], ts, e.Meta, e.Value)
		}
	}
	return sb.String()
}

// ---- requests ----

type reqInfo struct {
	kind   string
	t      int
	spec   TxnSpec
	keys   []string
	commit uint64
	cur    uint64
	caller uint64
	rb     bool
}

func (in *Inst) parse(op string) reqInfo {
	f := strings.Split(op, ":")
	t, _ := strconv.Atoi(f[1])
	spec, ok := in.P.Txns[t]
	if !ok {
		vr.Fatalf("op %q: unknown transaction", op)
	}
	ri := reqInfo{kind: f[0], t: t, spec: spec}
	switch f[0] {
	case "pw", "rb":
		for _, c := range f[2] {
			ri.keys = append(ri.keys, string(c))
		}
	case "cm", "rs":
		for _, c := range f[2] {
			ri.keys = append(ri.keys, string(c))
		}
		ri.commit, _ = strconv.ParseUint(f[3], 10, 64)
	case "cs":
		ri.cur, _ = strconv.ParseUint(f[2], 10, 64)
		ri.caller, _ = strconv.ParseUint(f[3], 10, 64)
		ri.rb = f[4] == "1"
	default:
		vr.Fatalf("bad op %q", op)
	}
	return ri
}

func (in *Inst) ukeys(ks []string) [][]byte {
	out := make([][]byte, len(ks))
	for i, k := range ks {
		out[i] = in.uk(k)
	}
	return out
}

func errClass(e *pb.KeyError) string {
	switch {
	case e == nil:
		return "ok"
	case e.Locked != nil:
		return "locked"
	case e.WriteConflict != nil:
		return "conflict"
	case e.CommitTsExpired != nil:
		return "commit-ts-expired"
	case e.Abort != "":
		return "abort"
	case e.Retryable != "":
		return "retryable"
	case e.AlreadyExists != nil:
		return "already-exists"
	}
	return "empty-error"
}

func (in *Inst) rel(ts uint64) string {
	if in.lastTs == 0 {
		return in.last
	}
	if in.lastTs == ts {
		return in.last + "-own"
	}
	return in.last + "-other"
}

func (in *Inst) outcome(s string) { in.P.Sink.Outcomes[s] = struct{}{} }

// step applies one request to the real handlers and to the model.
func (in *Inst) step(op string) {
	// an unresolved candidate set is resolved by Check; requests are only applied on a resolved model
	if len(in.cands) > 0 || in.adoptPending {
		in.resolve()
		if in.dead != "" {
			return
		}
	}
	ri := in.parse(op)
	S := ri.spec.Start
	in.last, in.lastTs = ri.kind, S
	m := in.m
	switch ri.kind {
	case "pw":
		var muts []*pb.Mutation
		for _, k := range ri.keys {
			mut, ok := ri.spec.Muts[k]
			if !ok {
				vr.Fatalf("op %q: transaction has no mutation for key %s", op, k)
			}
			pm := &pb.Mutation{Op: pbOp(mutKind(mut)), Key: in.uk(k)}
			if mutKind(mut) == 'p' {
				pm.Value = []byte(valueFor(ri.t, k, mut))
			}
			muts = append(muts, pm)
		}
		r := in.apply1(&pb.Request{CmdType: pb.CmdType_CMD_PREWRITE, Cmd: &pb.Request_Prewrite{Prewrite: &pb.PrewriteRequest{
			Mutations: muts, PrimaryLock: in.uk(ri.spec.Primary), StartVersion: S, LockTtl: ri.spec.TTL, MinCommitTs: ri.spec.MinCommit}}})
		if r == nil {
			return
		}
		errs := map[string]*pb.KeyError{}
		for _, e := range r.GetPrewrite().GetErrors() {
			var key []byte
			switch {
			case e.GetLocked() != nil:
				key = e.GetLocked().GetKey()
			case e.GetWriteConflict() != nil:
				key = e.GetWriteConflict().GetKey()
			default:
				in.kill("prewrite-"+errClass(e), fmt.Sprintf("%v", e))
				return
			}
			errs[strings.TrimPrefix(string(key), in.ns)] = e
		}
		for _, k := range ri.keys {
			mk := m.keys[k]
			e := errs[k]
			in.outcome("pw:" + errClass(e))
			switch {
			case e == nil: // accepted
				switch {
				case mk.lock != nil && mk.lock.ts != S:
					in.report("lock", "prewrite-accepted-over-foreign-lock", fmt.Sprintf("%s accepted on key %s although it is locked by start_ts=%d", op, k, mk.lock.ts), true)
					return
				case mk.committedAtOrAbove(S):
					in.report("outcome", "prewrite-accepted-despite-newer-commit", fmt.Sprintf("%s (start_ts=%d) accepted on key %s although a commit record with commit_ts >= start_ts exists: %s", op, S, k, m.String()), true)
					return
				case mk.recByStart(S) != nil:
					in.report("outcome", "prewrite-accepted-after-rollback", fmt.Sprintf("%s (start_ts=%d) accepted on key %s although this transaction was already rolled back there", op, S, k), true)
					return
				}
				if mk.lock == nil {
					mut := ri.spec.Muts[k]
					mk.lock = &mlock{ts: S, primary: ri.spec.Primary, kind: mutKind(mut), ttl: ri.spec.TTL, minc: ri.spec.MinCommit}
					if mutKind(mut) == 'p' {
						mk.vals[S] = valueFor(ri.t, k, mut)
					}
				}
				// own lock already present: a repeated prewrite changes nothing
			case e.GetLocked() != nil:
				lv := e.GetLocked().GetLockVersion()
				if mk.lock == nil {
					sig := "lock-error-without-lock"
					if how, ok := mk.removed[lv]; ok {
						sig = fmt.Sprintf("lock-reappeared removed-by=%c seen-by=prewrite", how)
					}
					in.report("lock", sig, fmt.Sprintf("%s: key %s reported locked by start_ts=%d, model: no lock", op, k, lv), true)
					return
				}
				if mk.lock.ts != lv || lv == S {
					in.report("lock", "lock-error-wrong-owner", fmt.Sprintf("%s: key %s reported locked by start_ts=%d, model lock start_ts=%d", op, k, lv, mk.lock.ts), true)
					return
				}
			default: // write conflict: refusing is always allowed, nothing changes
			}
		}
	case "cm":
		r := in.apply1(&pb.Request{CmdType: pb.CmdType_CMD_COMMIT, Cmd: &pb.Request_Commit{Commit: &pb.CommitRequest{
			Keys: in.ukeys(ri.keys), StartVersion: S, CommitVersion: ri.commit}}})
		if r == nil {
			return
		}
		if in.P.multiCts[ri.t] {
			m.cts[ri.t] = ri.commit
		}
		e := r.GetCommit().GetError()
		if errClass(e) == "retryable" {
			in.kill("commit-retryable", e.GetRetryable())
			return
		}
		// sequential reference: keys in request order, stop at the first key that must fail
		seq := m.clone()
		failAt, why := -1, ""
		for i, k := range ri.keys {
			mk := seq.keys[k]
			switch {
			case mk.lock != nil && mk.lock.ts == S:
				if ri.commit < mk.lock.minc {
					failAt, why = i, "below-min-commit"
				} else {
					mk.commit(ri.commit)
				}
			case mk.lock != nil:
				failAt, why = i, "foreign-lock"
			default:
				rec := mk.recByStart(S)
				switch {
				case rec == nil:
					failAt, why = i, "no-lock"
				case rec.kind == 'r':
					failAt, why = i, "rolled-back"
				}
			}
			if failAt >= 0 {
				break
			}
		}
		in.outcome("cm:" + errClass(e) + ":" + why)
		switch {
		case failAt < 0 && e == nil:
			in.m = seq
		case failAt < 0 && e != nil:
			in.report("outcome", "commit-refused got="+errClass(e), fmt.Sprintf("%s refused (%s) although every key holds this transaction's lock or its commit record: %s", op, errClass(e), m.String()), false)
			in.cands = []*model{m, seq}
		case failAt >= 0 && e != nil:
			// refused as required; the keys before the failing one may or may not have been committed
			if failAt > 0 {
				in.cands = []*model{seq, m}
			} else {
				in.m = seq
			}
		default: // accepted although a key must fail
			fam, sig := "outcome", "commit-accepted-"+why
			if why == "below-min-commit" {
				fam = "lock"
			}
			in.report(fam, sig, fmt.Sprintf("%s answered success although key %s: %s; model: %s", op, ri.keys[failAt], why, m.String()), false)
			// plausible successors: stopped at the failing key, or skipped it and went on
			skip := seq.clone()
			for _, k := range ri.keys[failAt+1:] {
				mk := skip.keys[k]
				if mk.lock != nil && mk.lock.ts == S && ri.commit >= mk.lock.minc {
					mk.commit(ri.commit)
				}
			}
			in.cands = []*model{seq, skip, m}
		}
	case "rb":
		r := in.apply1(&pb.Request{CmdType: pb.CmdType_CMD_BATCH_ROLLBACK, Cmd: &pb.Request_BatchRollback{BatchRollback: &pb.BatchRollbackRequest{
			Keys: in.ukeys(ri.keys), StartVersion: S}}})
		if r == nil {
			return
		}
		e := r.GetBatchRollback().GetError()
		in.outcome("rb:" + errClass(e))
		if e != nil {
			if errClass(e) == "retryable" {
				in.kill("rollback-retryable", e.GetRetryable())
				return
			}
			in.report("outcome", "rollback-refused got="+errClass(e), fmt.Sprintf("%s refused: %v", op, e), true)
			return
		}
		for _, k := range ri.keys {
			m.keys[k].rollback(S)
		}
	case "rs":
		r := in.apply1(&pb.Request{CmdType: pb.CmdType_CMD_RESOLVE_LOCK, Cmd: &pb.Request_ResolveLock{ResolveLock: &pb.ResolveLockRequest{
			Keys: in.ukeys(ri.keys), StartVersion: S, CommitVersion: ri.commit}}})
		if r == nil {
			return
		}
		if ri.commit != 0 && in.P.multiCts[ri.t] {
			m.cts[ri.t] = ri.commit
		}
		e := r.GetResolveLock().GetError()
		if errClass(e) == "retryable" {
			in.kill("resolve-retryable", e.GetRetryable())
			return
		}
		seq := m.clone()
		var want uint64
		fail := ""
		for _, k := range ri.keys {
			mk := seq.keys[k]
			if mk.lock == nil || mk.lock.ts != S {
				continue
			}
			if ri.commit == 0 {
				mk.rollback(S)
			} else {
				if ri.commit < mk.lock.minc {
					fail = "below-min-commit"
					break
				}
				mk.commit(ri.commit)
			}
			want++
		}
		in.outcome(fmt.Sprintf("rs:%s:%s:%d", errClass(e), fail, want))
		switch {
		case fail == "" && e == nil:
			if r.GetResolveLock().GetResolvedLocks() != want {
				in.report("outcome", "resolve-count-mismatch", fmt.Sprintf("%s resolved %d locks, model %d", op, r.GetResolveLock().GetResolvedLocks(), want), false)
			}
			in.m = seq
		case fail == "" && e != nil:
			in.report("outcome", "resolve-refused got="+errClass(e), fmt.Sprintf("%s refused: %v; model: %s", op, e, m.String()), false)
			in.cands = []*model{m, seq}
		case fail != "" && e != nil:
			if want > 0 {
				in.cands = []*model{seq, m}
			} else {
				in.m = seq
			}
		default:
			in.report("lock", "resolve-commit-accepted-below-min-commit", fmt.Sprintf("%s answered success although commit_ts < min_commit_ts of the lock; model: %s", op, m.String()), true)
		}
	case "cs":
		r := in.apply1(&pb.Request{CmdType: pb.CmdType_CMD_CHECK_TXN_STATUS, Cmd: &pb.Request_CheckTxnStatus{CheckTxnStatus: &pb.CheckTxnStatusRequest{
			PrimaryKey: in.uk(ri.spec.Primary), LockTs: S, CurrentTs: ri.cur, CallerStartTs: ri.caller, RollbackIfNotExist: ri.rb}}})
		if r == nil {
			return
		}
		cr := r.GetCheckTxnStatus()
		e := cr.GetError()
		if errClass(e) == "retryable" {
			in.kill("status-retryable", e.GetRetryable())
			return
		}
		mk := m.keys[ri.spec.Primary]
		act := cr.GetAction()
		in.outcome(fmt.Sprintf("cs:%s:%v:%v", errClass(e), act, cr.GetCommitVersion() != 0))
		switch {
		case mk.lock != nil && mk.lock.ts != S:
			if e.GetLocked() == nil || e.GetLocked().GetLockVersion() != mk.lock.ts {
				in.report("lock", "status-ignores-foreign-lock", fmt.Sprintf("%s: primary is locked by start_ts=%d, answer %v", op, mk.lock.ts, cr), true)
			}
		case mk.lock != nil:
			if e != nil {
				sig := "status-error-on-own-lock got=" + errClass(e)
				if e.GetLocked() != nil {
					sig = "lock-error-wrong-owner"
				}
				in.report("lock", sig, fmt.Sprintf("%s: primary holds this transaction's lock, answer %v", op, cr), true)
				return
			}
			// expired relative to the caller's timestamp: at least ttl has elapsed since the lock's
			// start ts (a caller timestamp below the start ts never expires the lock; no wrap-around)
			expired := mk.lock.ttl > 0 && ri.cur >= mk.lock.ts && ri.cur-mk.lock.ts >= mk.lock.ttl
			switch act {
			case pb.CheckTxnStatusAction_CheckTxnStatusTTLExpireRollback, pb.CheckTxnStatusAction_CheckTxnStatusLockNotExistRollback:
				if act == pb.CheckTxnStatusAction_CheckTxnStatusLockNotExistRollback {
					in.report("lock", "status-lock-not-exist-while-locked", fmt.Sprintf("%s: answer %v while the primary lock is present", op, act), true)
					return
				}
				if !expired {
					in.report("lock", "status-rollback-of-unexpired-lock", fmt.Sprintf("%s rolled the transaction back although lock start_ts=%d ttl=%d has not expired at current_ts=%d", op, mk.lock.ts, mk.lock.ttl, ri.cur), false)
				}
				mk.rollback(S)
			case pb.CheckTxnStatusAction_CheckTxnStatusMinCommitTsPushed:
				if ri.caller+1 > mk.lock.minc {
					mk.lock.minc = ri.caller + 1
				}
			default:
				if cr.GetCommitVersion() != 0 {
					in.report("outcome", "status-reports-commit-while-locked", fmt.Sprintf("%s: answer %v while the primary lock is present", op, cr), true)
				}
			}
		default:
			rec := mk.recByStart(S)
			switch {
			case rec != nil && rec.kind == 'r':
				if e != nil || cr.GetCommitVersion() != 0 || act == pb.CheckTxnStatusAction_CheckTxnStatusTTLExpireRollback {
					in.report("outcome", "status-wrong-for-rolled-back-txn", fmt.Sprintf("%s: transaction is rolled back on its primary, answer %v", op, cr), false)
				}
			case rec != nil:
				if e != nil || cr.GetCommitVersion() != rec.commit || act != pb.CheckTxnStatusAction_CheckTxnStatusNoAction {
					in.report("outcome", "status-wrong-for-committed-txn", fmt.Sprintf("%s: transaction committed its primary at %d, answer %v", op, rec.commit, cr), false)
				}
			default:
				if e.GetLocked() != nil {
					lv := e.GetLocked().GetLockVersion()
					sig := "lock-error-without-lock"
					if how, ok := mk.removed[lv]; ok {
						sig = fmt.Sprintf("lock-reappeared removed-by=%c seen-by=status", how)
					}
					in.report("lock", sig, fmt.Sprintf("%s: primary reported locked by start_ts=%d, model: no lock", op, lv), true)
					return
				}
				if act == pb.CheckTxnStatusAction_CheckTxnStatusLockNotExistRollback || act == pb.CheckTxnStatusAction_CheckTxnStatusTTLExpireRollback {
					if !ri.rb {
						in.report("lock", "status-rollback-without-request", fmt.Sprintf("%s: no lock, no record, rollback_if_not_exist=false, answer %v", op, cr), false)
					}
					mk.rollback(S)
				} else if cr.GetCommitVersion() != 0 {
					in.report("outcome", "status-reports-commit-without-record", fmt.Sprintf("%s: answer %v, model has no record", op, cr), true)
				}
			}
		}
	}
}

// ---- observation ----

type obs struct {
	locks map[string]*mlock
	recs  map[string][]mrec
}

func (in *Inst) observe() *obs {
	o := &obs{locks: map[string]*mlock{}, recs: map[string][]mrec{}}
	rd := percolator.NewReader(in.h.DB)
	for _, k := range in.allKeys() {
		l, err := rd.GetLock(in.uk(k))
		if err != nil {
			in.kill("getlock-error", err.Error())
			return nil
		}
		if l != nil {
			o.locks[k] = &mlock{ts: l.Ts, primary: strings.TrimPrefix(string(l.Primary), in.ns), kind: kindOf(l.Kind), ttl: l.TTL, minc: l.MinCommitTs}
		}
	}
	it := in.h.DB.NewInternalIterator(&utils.Options{IsAsc: true})
	defer func() { _ = it.Close() }()
	nsb := []byte(in.ns)
	it.Seek(kv.InternalKey(kv.CFWrite, nsb, math.MaxUint64))
	for ; it.Valid(); it.Next() {
		e := it.Item().Entry()
		c, uk, ts := kv.SplitInternalKey(e.Key)
		if c != kv.CFWrite || !bytes.HasPrefix(uk, nsb) {
			break
		}
		if e.Meta&kv.BitDelete != 0 {
			continue
		}
		w, err := percolator.DecodeWrite(e.Value)
		if err != nil {
			in.kill("decode-write-error", err.Error())
			return nil
		}
		k := string(uk[len(nsb):])
		dup := false
		for _, r := range o.recs[k] {
			if r.commit == ts {
				dup = true
			}
		}
		if !dup {
			o.recs[k] = append(o.recs[k], mrec{commit: ts, kind: kindOf(w.Kind), start: w.StartTs})
		}
	}
	return o
}

// match compares a model with the observed state; "" = equal.
func (in *Inst) match(m *model, o *obs) (family, sig, desc string) {
	for _, k := range m.sortedKeys() {
		mk := m.keys[k]
		ol := o.locks[k]
		switch {
		case mk.lock == nil && ol != nil:
			sig := "lock-unexpected after=" + in.rel(ol.ts)
			if how, ok := mk.removed[ol.ts]; ok {
				sig = fmt.Sprintf("lock-reappeared removed-by=%c after=%s", how, in.rel(ol.ts))
			}
			return "lock", sig + in.placement(k), fmt.Sprintf("key %s: GetLock = {start_ts=%d kind=%c}, model: no lock", k, ol.ts, ol.kind)
		case mk.lock != nil && ol == nil:
			return "lock", "lock-lost after=" + in.rel(mk.lock.ts) + in.placement(k), fmt.Sprintf("key %s: GetLock = none, model: locked by start_ts=%d (not committed, not rolled back)", k, mk.lock.ts)
		case mk.lock != nil:
			ml := mk.lock
			field := ""
			switch {
			case ml.ts != ol.ts:
				field = "start_ts"
			case ml.primary != ol.primary:
				field = "primary"
			case ml.kind != ol.kind:
				field = "kind"
			case ml.ttl != ol.ttl:
				field = "ttl"
			case ml.minc != ol.minc:
				field = "min_commit_ts"
			}
			if field != "" {
				return "lock", "lock-field-mismatch field=" + field + " after=" + in.rel(ml.ts) + in.placement(k), fmt.Sprintf("key %s: GetLock = %+v, model %+v", k, *ol, *ml)
			}
		}
	}
	for _, k := range m.sortedKeys() {
		mk := m.keys[k]
		or := append([]mrec(nil), o.recs[k]...)
		sort.SliceStable(or, func(i, j int) bool { return or[i].commit > or[j].commit })
		for _, r := range or {
			found := false
			for _, w := range mk.recs {
				if w == r {
					found = true
				}
			}
			if !found {
				sig := fmt.Sprintf("write-record-unexpected kind=%c after=%s", r.kind, in.rel(r.start))
				if mr := mk.recByStart(r.start); mr != nil && mr.kind == 'r' && r.kind != 'r' {
					sig = "commit-record-after-rollback after=" + in.rel(r.start)
				}
				return "outcome", sig + in.placement(k), fmt.Sprintf("key %s: write record {commit_ts=%d kind=%c start_ts=%d} exists, model records: %v", k, r.commit, r.kind, r.start, mk.recs)
			}
		}
		for _, w := range mk.recs {
			found := false
			for _, r := range or {
				if w == r {
					found = true
				}
			}
			if !found {
				return "outcome", fmt.Sprintf("write-record-lost kind=%c after=%s", w.kind, in.rel(w.start)) + in.placement(k), fmt.Sprintf("key %s: write record {commit_ts=%d kind=%c start_ts=%d} missing, stored records: %v", k, w.commit, w.kind, w.start, or)
			}
		}
	}
	return "", "", ""
}

// sync runs after every applied operation: it picks the successor candidate that matches
// the stored locks and write records, reports a mismatch, and lets the model adopt the
// stored state after a deviation.
func (in *Inst) sync() {
	o := in.observe()
	if o == nil {
		return
	}
	in.lastObs = o
	if len(in.cands) > 0 {
		picked := false
		if !in.adoptPending {
			for _, c := range in.cands {
				if f, _, _ := in.match(c, o); f == "" {
					in.m, picked = c, true
					break
				}
			}
		}
		if !picked {
			in.m = in.cands[0]
		}
		in.cands = nil
	}
	if in.adoptPending {
		in.adopt(o)
		return
	}
	if f, sig, desc := in.match(in.m, o); f != "" {
		in.report(f, sig, desc, true)
		in.adopt(o)
	}
}

func (in *Inst) resolve() {
	if len(in.cands) > 0 || in.adoptPending {
		in.sync()
	}
}

func (in *Inst) Check() (string, string) {
	if in.dead != "" {
		return "", ""
	}
	if in.lastObs == nil || len(in.cands) > 0 || in.adoptPending {
		in.sync()
		if in.dead != "" || in.lastObs == nil {
			return "", ""
		}
	}
	// The state-level oracle is a function of (model, stored entries): evaluate it once per state.
	sk := vr.Hash64(in.m.String() + "\n" + in.dump)
	if found, done := in.P.Sink.checked[sk]; done {
		in.P.Sink.Counters["state_checks_skipped_same_state"]++
		for _, f := range found { // same state reached by another (maybe shorter) path
			in.P.Sink.add(f[0], f[1], in.path)
		}
		return "", ""
	}
	o := in.lastObs
	in.P.Sink.checked[sk] = nil
	in.curState, in.recording = sk, true
	defer func() { in.recording = false }()
	in.P.Sink.Counters["state_checks"]++
	// invariants on the stored records (C18), independent of the model's bookkeeping
	for _, k := range in.allKeys() {
		rs := o.recs[k]
		for i, a := range rs {
			for _, b := range rs[i+1:] {
				if a.start == b.start {
					in.report("outcome", "two-records-for-one-transaction", fmt.Sprintf("key %s: records %v and %v belong to the same transaction", k, a, b), false)
				}
				if a.kind != 'r' && b.kind != 'r' && a.start < b.commit && b.start < a.commit {
					in.report("outcome", "overlapping-writers-both-committed", fmt.Sprintf("key %s: [%d,%d] and [%d,%d] both committed", k, a.start, a.commit, b.start, b.commit), false)
				}
			}
		}
	}
	in.checkReads()
	return "", ""
}

func (in *Inst) checkReads() {
	keys := in.allKeys()
	for _, t := range in.m.probeTs() {
		// point gets
		for _, k := range keys {
			if k == "z" {
				continue
			}
			want := in.m.keys[k].read(t)
			r := in.apply1(&pb.Request{CmdType: pb.CmdType_CMD_GET, Cmd: &pb.Request_Get{Get: &pb.GetRequest{Key: in.uk(k), Version: t}}})
			if r == nil {
				return
			}
			g := r.GetGet()
			got := classifyGet(g.GetError(), g.GetNotFound(), g.GetValue(), want)
			in.outcome("get:" + got)
			if got != "ok" {
				in.report("read", fmt.Sprintf("get got=%s want=%s newest-record=%c", got, wantClass(want), want.newest),
					fmt.Sprintf("GET(%s, t=%s) = %s, model: %s; state %s", k, tsName(t), getText(g), wantText(want), in.m.String()), false)
			}
		}
		// scan over the whole key range of the execution
		limit := uint32(len(keys) + 1)
		if in.P.Namespaced {
			// The DB holds older executions behind this one. Ask for exactly as many pairs as
			// the model expects up to the sentinel (or up to the first locked key, plus one so
			// that the scan has to step onto it): a correct scan then never leaves the namespace.
			limit = 0
			for _, k := range keys {
				w := in.m.keys[k].read(t)
				if w.lockTs != 0 {
					limit++
					break
				}
				if w.found {
					limit++
				}
			}
		}
		r := in.apply1(&pb.Request{CmdType: pb.CmdType_CMD_SCAN, Cmd: &pb.Request_Scan{Scan: &pb.ScanRequest{
			StartKey: in.uk(keys[0]), IncludeStart: true, Limit: limit, Version: t}}})
		if r == nil {
			return
		}
		sc := r.GetScan()
		gotKV := map[string]*pb.KV{}
		var gotOrder []string
		bad := false
		for _, kvp := range sc.GetKvs() {
			if !strings.HasPrefix(string(kvp.GetKey()), in.ns) {
				// Only a scan that already went wrong leaves the execution's namespace (the limit
				// is reached at the sentinel otherwise); what it meets in older executions is noise.
				break
			}
			k := strings.TrimPrefix(string(kvp.GetKey()), in.ns)
			if _, dup := gotKV[k]; dup {
				in.report("read", "scan-duplicate-key", fmt.Sprintf("SCAN(t=%s) returned key %s twice", tsName(t), k), false)
				bad = true
			}
			gotKV[k] = kvp
			gotOrder = append(gotOrder, k)
		}
		if !bad && !sort.StringsAreSorted(gotOrder) {
			in.report("read", "scan-out-of-order", fmt.Sprintf("SCAN(t=%s) returned keys %v", tsName(t), gotOrder), false)
			bad = true
		}
		lockedKey := ""
		if l := sc.GetError().GetLocked(); l != nil {
			if strings.HasPrefix(string(l.GetKey()), in.ns) {
				lockedKey = strings.TrimPrefix(string(l.GetKey()), in.ns)
			}
		} else if sc.GetError() != nil {
			in.kill("scan-"+errClass(sc.GetError()), "")
			return
		}
		stopped := false
		for _, k := range keys {
			if bad {
				break // one report per scan: the first key that differs
			}
			want := in.m.keys[k].read(t)
			kvp := gotKV[k]
			got := ""
			switch {
			case stopped:
				// after the first lock error the scan has ended; nothing more is expected
				if kvp != nil {
					got = "value-after-lock-error"
				} else {
					continue
				}
			case want.lockTs != 0:
				stopped = true
				switch {
				case lockedKey == k && sc.GetError().GetLocked().GetLockVersion() == want.lockTs:
					got = "ok"
				case lockedKey == k:
					got = "lockerr-wrong-owner"
				case kvp != nil:
					got = "value"
				default:
					got = "no-lock-error"
				}
			case lockedKey == k:
				got = "lockerr"
				stopped = true
			case want.found:
				switch {
				case kvp == nil:
					got = "missing"
				case string(kvp.GetValue()) == want.value:
					got = "ok"
				case len(kvp.GetValue()) == 0:
					got = "empty-value"
				default:
					got = "other-value"
				}
			default:
				switch {
				case kvp == nil:
					got = "ok"
				case len(kvp.GetValue()) == 0:
					got = "empty-value"
				default:
					got = "value"
				}
			}
			in.outcome("scan:" + got)
			if got != "ok" {
				bad = true
				recs := "some"
				if len(in.m.keys[k].recs) == 0 {
					recs = "none"
				}
				in.report("read", fmt.Sprintf("scan got=%s want=%s newest-record=%c records=%s", got, wantClass(want), want.newest, recs),
					fmt.Sprintf("SCAN(from %s, limit=%d, t=%s) for key %s: %s (kvs=%v error=%v), model: %s; state %s", keys[0], limit, tsName(t), k, got, gotOrder, sc.GetError(), wantText(want), in.m.String()), false)
			}
		}
		if !bad {
			for _, k := range gotOrder {
				if _, ok := in.m.keys[k]; !ok {
					in.report("read", "scan-foreign-key", fmt.Sprintf("SCAN(t=%s) returned key %q outside the execution's keys", tsName(t), k), false)
					break
				}
			}
			if _, ok := in.m.keys[lockedKey]; lockedKey != "" && !ok {
				in.report("read", "scan-lock-error-foreign-key", fmt.Sprintf("SCAN(t=%s) lock error names key %q", tsName(t), lockedKey), false)
			}
		}
	}
}

// placement describes, when maintenance transitions are part of the history, in which
// containers the copies of the key's lock / write / default entries live (so that
// distinct storage mechanisms get distinct signatures).
func (in *Inst) placement(k string) string {
	// Only a mismatch that shows up right after a maintenance transition is about placement:
	// requests write to the active memtable (always consulted first), and every state reached
	// by a maintenance transition has already passed the state oracle.
	if in.P.Namespaced || in.nMaint == 0 || !strings.HasPrefix(in.last, "maint:") {
		return ""
	}
	shape := in.h.DB.VerifLSM().VerifShape(false)
	var parts []string
	for cfn, name := range []string{"d", "l", "w"} {
		needle := fmt.Sprintf("  %d/%q@", cfn, in.ns+k)
		cur := ""
		var out []string
		for _, line := range strings.Split(shape, "\n") {
			if !strings.HasPrefix(line, " ") && strings.HasSuffix(line, ":") {
				cur = line
				if i := strings.IndexAny(cur, "[=:"); i >= 0 {
					cur = cur[:i]
				}
				continue
			}
			// lock column: one internal key, so every copy is a version tie and is listed;
			// data/write columns: container classes only
			if strings.HasPrefix(line, needle) && (name == "l" || len(out) == 0 || out[len(out)-1] != cur) {
				out = append(out, cur)
			}
		}
		parts = append(parts, name+"="+strings.Join(out, ","))
	}
	return " placement:" + strings.Join(parts, "/")
}

// readAnswers lists the raw answers of GET on every key and SCAN over the range at every
// probe timestamp (used to compare before/after a maintenance transition).
func (in *Inst) readAnswers() []string {
	if in.dead != "" {
		return nil
	}
	keys := in.allKeys()
	var out []string
	for _, t := range in.m.probeTs() {
		for _, k := range keys {
			r := in.apply1(&pb.Request{CmdType: pb.CmdType_CMD_GET, Cmd: &pb.Request_Get{Get: &pb.GetRequest{Key: in.uk(k), Version: t}}})
			if r == nil {
				return nil
			}
			out = append(out, fmt.Sprintf("GET %s t=%s -> %s", k, tsName(t), getText(r.GetGet())))
		}
		r := in.apply1(&pb.Request{CmdType: pb.CmdType_CMD_SCAN, Cmd: &pb.Request_Scan{Scan: &pb.ScanRequest{
			StartKey: in.uk(keys[0]), IncludeStart: true, Limit: uint32(len(keys) + 1), Version: t}}})
		if r == nil {
			return nil
		}
		var sb strings.Builder
		for _, kvp := range r.GetScan().GetKvs() {
			fmt.Fprintf(&sb, "%s=%q ", kvp.GetKey(), kvp.GetValue())
		}
		out = append(out, fmt.Sprintf("SCAN t=%s -> %serror=%v", tsName(t), sb.String(), r.GetScan().GetError()))
	}
	return out
}

func tsName(t uint64) string {
	if t == math.MaxUint64 {
		return "max"
	}
	return strconv.FormatUint(t, 10)
}

func wantClass(w readWant) string {
	switch {
	case w.lockTs != 0:
		return "lockerr"
	case w.found:
		return "value"
	}
	return "notfound"
}

func wantText(w readWant) string {
	switch {
	case w.lockTs != 0:
		return fmt.Sprintf("lock error (lock start_ts=%d)", w.lockTs)
	case w.found:
		return fmt.Sprintf("value %q", w.value)
	}
	return "not found"
}

func getText(g *pb.GetResponse) string {
	switch {
	case g.GetError() != nil:
		return fmt.Sprintf("error %v", g.GetError())
	case g.GetNotFound():
		return "not found"
	}
	return fmt.Sprintf("value %q", g.GetValue())
}

func classifyGet(e *pb.KeyError, notFound bool, val []byte, want readWant) string {
	switch {
	case e != nil && e.GetLocked() == nil:
		return "error-" + errClass(e)
	case e != nil:
		if want.lockTs == 0 {
			return "lockerr"
		}
		if e.GetLocked().GetLockVersion() != want.lockTs {
			return "lockerr-wrong-owner"
		}
		return "ok"
	case want.lockTs != 0:
		if notFound {
			return "notfound"
		}
		return "value"
	case notFound:
		if want.found {
			return "notfound"
		}
		return "ok"
	default:
		if !want.found {
			if len(val) == 0 {
				return "empty-value"
			}
			return "value"
		}
		if string(val) == want.value {
			return "ok"
		}
		if len(val) == 0 {
			return "empty-value"
		}
		return "other-value"
	}
}
