//go:build verif

// Package crashdb is the DB-level crash-point explorer ("crashmc", DESIGN 2.2) shared by
// C09 (acknowledged writes survive), C10 (prefix-consistent readable recovery) and
// C11 (contents change only through new writes).
//
// A history (client writes interleaved with harness-driven maintenance) is executed ONCE on
// a real NoKV.DB whose Options.FS is a crashfs.FS. While the LAST operation of the history
// runs, every mutating vfs call (before and after), every named verifhook point and the
// acknowledgement instant is a crash point whose image is the work directory as the OS
// sees it (process-crash model: page cache, MAP_SHARED stores, renames and truncates
// survive, user-space buffers do not). Torn write(2)s come from crashfs; torn mmap stores
// are synthesized here from the byte range that changed between two consecutive images.
// Afterwards every distinct image is materialized, reopened with the real NoKV.Open and
// judged by the property's oracle. Histories are the nodes of a DFS tree, so the crash
// points of a prefix are explored exactly once (at the node of that prefix).
package crashdb

import (
	"bytes"
	"errors"
	"fmt"
	"hash/crc32"
	"os"
	"regexp"
	"runtime/debug"
	"sort"
	"strings"
	"time"

	NoKV "github.com/feichai0017/NoKV"
	"github.com/feichai0017/NoKV/kv"
	"github.com/feichai0017/NoKV/utils"
	"github.com/feichai0017/NoKV/utils/verifhook"

	"verif/lib/crashfs"
	"verif/lib/dbh"
)

// Spec is one explored configuration.
//
// Client op syntax (plain mode: DB.Set/DB.Del; txn mode: NewTransaction/Set/Delete/Commit):
//
//	s:<key>  small inline value      b:<key>  value-log sized value
//	h:<key>  huge inline value (HugeSize bytes; needs a ValueThreshold above it)
//	d:<key>  delete
//	t:<key>=<s|b|h|d>[,<key>=<kind>...]   one transaction writing all listed keys
//
// Maintenance kinds (state dependent, taken from dbh.MaintMenu): rotate, flush, rf,
// l0-base, ingest-drain, gc, reopen.
type Spec struct {
	Name      string
	Cfg       dbh.Config
	Mode      string   // plain | txn
	Client    []string // client alphabet, simplest first
	Maint     []string // allowed maintenance kinds
	MaxClient int
	MaxMaint  int
	Depth     int
	HugeSize  int
	ShardAt   int
	RecOpen   bool // also record the very first Open of an empty directory (root node)
	// Prefix is a fixed set-up history executed before the explored part of every history
	// (its ops count towards MaxClient/MaxMaint; Depth bounds the explored suffix only).
	Prefix []string

	// C11: maintenance schedules run on every recovered image.
	PostDepth int
	PostCrash bool // include "crash" (second crash+reopen) in the schedules
	PostPut   bool // include one client write of the fresh key PostKey (value-log sized: seals the active value-log file so that GC can scan it)
}

// PostKey is the fresh key written by the "put" step of a C11 schedule.
const PostKey = "z"

func (s *Spec) readKeys() []string {
	if s.PostPut {
		return append(s.Keys(), PostKey)
	}
	return s.Keys()
}

func (s *Spec) Keys() []string {
	seen := map[string]bool{}
	var out []string
	for _, op := range append(append([]string{}, s.Client...), s.Prefix...) {
		for _, w := range parseClient(op) {
			if !seen[w.key] {
				seen[w.key] = true
				out = append(out, w.key)
			}
		}
	}
	sort.Strings(out)
	return out
}

type write struct {
	key  string
	kind byte // s b h d
}

func parseClient(op string) []write {
	f := strings.SplitN(op, ":", 2)
	if len(f) != 2 {
		return nil
	}
	switch f[0] {
	case "s", "b", "h", "d":
		return []write{{f[1], f[0][0]}}
	case "t":
		var out []write
		for _, part := range strings.Split(f[1], ",") {
			kvp := strings.SplitN(part, "=", 2)
			if len(kvp) != 2 || len(kvp[1]) != 1 {
				panic("bad txn op " + op)
			}
			out = append(out, write{kvp[0], kvp[1][0]})
		}
		return out
	}
	return nil
}

func IsClient(op string) bool { return parseClient(op) != nil }

// Batch is one accepted write batch of the model: key -> value (nil = deleted).
type Batch map[string][]byte

// Model is the reference: the ordered list of accepted batches.
type Model struct {
	Batches []Batch
	Written map[string]map[string]bool // key -> set of values ever written
}

func (m *Model) add(b Batch) {
	m.Batches = append(m.Batches, b)
	if m.Written == nil {
		m.Written = map[string]map[string]bool{}
	}
	for k, v := range b {
		if v == nil {
			continue
		}
		if m.Written[k] == nil {
			m.Written[k] = map[string]bool{}
		}
		m.Written[k][string(v)] = true
	}
}

// After returns key -> value after the first j batches (absent = not found).
func (m *Model) After(j int) map[string][]byte {
	out := map[string][]byte{}
	for i := 0; i < j && i < len(m.Batches); i++ {
		for k, v := range m.Batches[i] {
			if v == nil {
				delete(out, k)
			} else {
				out[k] = v
			}
		}
	}
	return out
}

func (s *Spec) value(kind byte, n int, key string) []byte {
	switch kind {
	case 's':
		return []byte(fmt.Sprintf("v%d%s", n, key))
	case 'b':
		v := []byte(fmt.Sprintf("V%d%s", n, key))
		for len(v) < 48 {
			v = append(v, '.')
		}
		return v
	case 'h':
		v := []byte(fmt.Sprintf("H%d%s|", n, key))
		for i := 0; len(v) < s.HugeSize; i++ {
			v = append(v, byte('a'+i%23))
		}
		return v
	case 'd':
		return nil
	}
	panic("bad kind")
}

// applyClient performs one client op on the real DB and returns the batch it wrote.
func (s *Spec) applyClient(h *dbh.H, op string, n int) (Batch, error) {
	ws := parseClient(op)
	b := Batch{}
	for _, w := range ws {
		b[w.key] = s.value(w.kind, n, w.key)
	}
	db := h.DB
	if s.Mode == "plain" {
		if len(ws) != 1 {
			return b, fmt.Errorf("plain mode: multi-key op %q", op)
		}
		w := ws[0]
		if w.kind == 'd' {
			return b, db.Del([]byte(w.key))
		}
		return b, db.Set([]byte(w.key), b[w.key])
	}
	txn := db.NewTransaction(true)
	for _, w := range ws {
		var err error
		if w.kind == 'd' {
			err = txn.Delete([]byte(w.key))
		} else {
			err = txn.Set([]byte(w.key), b[w.key])
		}
		if err != nil {
			txn.Discard()
			return b, err
		}
	}
	return b, txn.Commit()
}

// ---- reading the recovered state -------------------------------------------------

type KeyRead struct {
	Found bool
	Val   []byte
	Err   string
}

type IterEnt struct {
	CF  int
	Key string
	Ver uint64
	Val []byte
	Err string
}

type State struct {
	Gets map[string]KeyRead
	Iter []IterEnt
	Fail string // reading itself panicked
}

func short(v []byte) string {
	if len(v) <= 56 {
		return fmt.Sprintf("%q", v)
	}
	return fmt.Sprintf("%q..(len=%d,crc=%08x)", v[:12], len(v), crc32.ChecksumIEEE(v))
}

func (k KeyRead) String() string {
	switch {
	case k.Err != "":
		return "error(" + k.Err + ")"
	case !k.Found:
		return "notfound"
	}
	return short(k.Val)
}

// Canon is the canonical rendering used by the differential (C11) comparison.
func (st *State) Canon() string {
	var sb strings.Builder
	if st.Fail != "" {
		fmt.Fprintf(&sb, "FAIL %s\n", st.Fail)
	}
	keys := make([]string, 0, len(st.Gets))
	for k := range st.Gets {
		keys = append(keys, k)
	}
	sort.Strings(keys)
	for _, k := range keys {
		fmt.Fprintf(&sb, "get %s = %s\n", k, st.Gets[k])
	}
	for _, e := range st.Iter {
		if e.Err != "" {
			fmt.Fprintf(&sb, "iter %d/%s@%d error(%s)\n", e.CF, e.Key, e.Ver, e.Err)
		} else {
			fmt.Fprintf(&sb, "iter %d/%s@%d = %s\n", e.CF, e.Key, e.Ver, short(e.Val))
		}
	}
	return sb.String()
}

var reNum = regexp.MustCompile(`[0-9]+`)
var rePath = regexp.MustCompile(`/[^ :"']*`)

// Classify turns an error/panic text into a stable class (no paths, no numbers).
func Classify(msg string) string {
	msg = rePath.ReplaceAllString(msg, "<path>")
	msg = reNum.ReplaceAllString(msg, "N")
	if i := strings.IndexByte(msg, '\n'); i >= 0 {
		msg = msg[:i]
	}
	if len(msg) > 140 {
		msg = msg[:140]
	}
	return msg
}

// ReadState reads every key of the universe through the mode's point-read API and walks
// the DB iterator in key-only mode resolving every value explicitly, so that a dangling
// value-log pointer shows up as an error instead of being skipped silently.
func (s *Spec) ReadState(h *dbh.H) (st *State) {
	st = &State{Gets: map[string]KeyRead{}}
	defer func() {
		if r := recover(); r != nil {
			st.Fail = Classify(fmt.Sprint(r))
			if os.Getenv("VERIF_CRASHDB_VERBOSE") != "" {
				fmt.Fprintf(os.Stderr, "ReadState panic: %v\n%s\n", r, debug.Stack())
			}
		}
	}()
	db := h.DB
	for _, k := range s.readKeys() {
		var kr KeyRead
		if s.Mode == "plain" {
			e, err := db.Get([]byte(k))
			switch {
			case err == nil:
				kr = KeyRead{Found: true, Val: append([]byte{}, e.Value...)}
			case errors.Is(err, utils.ErrKeyNotFound):
			default:
				kr.Err = Classify(err.Error())
			}
		} else {
			_ = db.View(func(txn *NoKV.Txn) error {
				item, err := txn.Get([]byte(k))
				switch {
				case err == nil:
					kr = KeyRead{Found: true, Val: append([]byte{}, item.Entry().Value...)}
				case errors.Is(err, utils.ErrKeyNotFound):
				default:
					kr.Err = Classify(err.Error())
				}
				return nil
			})
		}
		st.Gets[k] = kr
	}
	// Pass 1: eager iterator (values materialized; an entry whose value-log pointer does not
	// resolve is skipped silently by the engine). Pass 2: key-only iterator (lists every
	// live entry without touching the value log). An entry of pass 2 missing from pass 1 is
	// a key that reads as present but has no readable value. (Item.ValueCopy is deliberately
	// not used: after a key-only scan it appends into memtable memory.)
	type ik struct {
		cf  int
		key string
		ver uint64
	}
	full := map[ik]bool{}
	it := db.NewIterator(&utils.Options{IsAsc: true})
	for it.Rewind(); it.Valid(); it.Next() {
		e := it.Item().Entry()
		if bytes.HasPrefix(e.Key, []byte("!NoKV!")) || e.Meta&kv.BitDelete != 0 {
			continue // internal key / tombstone surfaced by the DB iterator: not "present"
		}
		st.Iter = append(st.Iter, IterEnt{CF: int(e.CF), Key: string(e.Key), Ver: e.Version, Val: append([]byte{}, e.Value...)})
		full[ik{int(e.CF), string(e.Key), e.Version}] = true
	}
	_ = it.Close()
	ko := db.NewIterator(&utils.Options{IsAsc: true, OnlyUseKey: true})
	for ko.Rewind(); ko.Valid(); ko.Next() {
		e := ko.Item().Entry()
		if bytes.HasPrefix(e.Key, []byte("!NoKV!")) || e.Meta&kv.BitDelete != 0 {
			continue // internal key / tombstone surfaced by the DB iterator: not "present"
		}
		if !full[ik{int(e.CF), string(e.Key), e.Version}] {
			st.Iter = append(st.Iter, IterEnt{CF: int(e.CF), Key: string(e.Key), Ver: e.Version, Err: "value-does-not-resolve"}) // listed by the key-only iterator, skipped by the value iterator
		}
	}
	_ = ko.Close()
	return st
}

var reContainer = regexp.MustCompile(`^(mem|imm\[\d+\]|L\d+\.t\[\d+\]=\w+|L\d+\.ing\[\d+\]\[\d+\]=\w+):$`)

// Locate lists, per key of the universe, the container classes of the recovered LSM that
// hold some version of it: "a:L6.ing;b:" (b has no copy anywhere).
func (s *Spec) Locate(h *dbh.H) (out string) {
	defer func() {
		if r := recover(); r != nil {
			out = "unknown"
		}
	}()
	shape := h.DB.VerifLSM().VerifShape(false)
	found := map[string][]string{}
	lastC := map[string]int{} // container index of the last recorded copy per key
	cur, curIdx := "", 0
	for _, line := range strings.Split(shape, "\n") {
		if m := reContainer.FindStringSubmatch(line); m != nil {
			cur = m[1]
			curIdx++
			if i := strings.IndexAny(cur, "[="); i >= 0 {
				cur = cur[:i]
			}
			continue
		}
		for _, k := range s.Keys() {
			if strings.HasPrefix(line, fmt.Sprintf("  0/%q@", k)) {
				if lastC[k] != curIdx { // several versions inside one container count once
					lastC[k] = curIdx
					found[k] = append(found[k], cur)
				}
			}
		}
	}
	var parts []string
	for _, k := range s.Keys() {
		var cls []string
		for i := 0; i < len(found[k]); {
			j := i
			for j < len(found[k]) && found[k][j] == found[k][i] {
				j++
			}
			if j-i > 1 {
				cls = append(cls, fmt.Sprintf("%s*%d", found[k][i], j-i)) // copies in several containers of one class
			} else {
				cls = append(cls, found[k][i])
			}
			i = j
		}
		parts = append(parts, k+":"+strings.Join(cls, "+"))
	}
	return strings.Join(parts, ";")
}

// ---- crash images ----------------------------------------------------------------

// Cand is one candidate crash image of a node with the model bounds valid at that instant.
type Cand struct {
	Img      *crashfs.Image
	Class    string // stable class of the crash point (no counters)
	Desc     string // human readable (with counters)
	Acked    int    // batches acknowledged before the point
	Accepted int    // batches accepted (acknowledged + in flight) at the point
	Kind     string // point | torn-write | torn-mmap
}

func skipLock(rel string) bool { return rel == "LOCK" }

func cuts(n int) []int {
	var c []int
	for _, k := range []int{1, n / 2, n - 1} {
		if k > 0 && k < n && (len(c) == 0 || c[len(c)-1] < k) {
			c = append(c, k)
		}
	}
	return c
}

// tornMmap synthesizes the torn images of the stores that happened between two consecutive
// real images a -> b through a path invisible to the vfs (MAP_SHARED memcpy): for every file
// present in both with equal size and different content, the changed byte range is the
// store; a forward memcpy dies with a prefix written. When several files changed, each is
// torn with the others either all-before or all-after (the bucket order inside one request
// is a map iteration).
func tornMmap(a, b *crashfs.Image) (out []*crashfs.Image, files []string, ns []int) {
	var changed []string
	for _, name := range b.Names() {
		x, ok := a.Files[name]
		y := b.Files[name]
		if !ok || len(x) != len(y) || bytes.Equal(x, y) {
			continue
		}
		changed = append(changed, name)
	}
	for _, name := range changed {
		x, y := a.Files[name], b.Files[name]
		lo, hi := 0, len(x)
		for lo < hi && x[lo] == y[lo] {
			lo++
		}
		for hi > lo && x[hi-1] == y[hi-1] {
			hi--
		}
		for _, n := range cuts(hi - lo) {
			t := append([]byte{}, x...)
			copy(t[lo:lo+n], y[lo:lo+n])
			out = append(out, a.With(name, t))
			files, ns = append(files, name), append(ns, n)
			if len(changed) > 1 {
				out = append(out, b.With(name, t))
				files, ns = append(files, name+"(others-done)"), append(ns, n)
			}
		}
	}
	return
}

// openQuiet opens a DB through dbh and waits until the start-up stats collection (a
// goroutine that walks the memtable index once right after Open) has finished, so that it
// is never concurrent with the first write.
func openQuiet(dir string, cfg dbh.Config) (*dbh.H, error) {
	before := NoKV.VerifStatsEpoch()
	h, err := dbh.Open(dir, cfg)
	if err != nil {
		return h, err
	}
	waitStats(before)
	return h, nil
}

func waitStats(before *NoKV.StatsSnapshot) {
	if verifhook.Paused("stats") {
		return // the harness disabled stats collection altogether
	}
	deadline := time.Now().Add(5 * time.Second)
	for NoKV.VerifStatsEpoch() == before && time.Now().Before(deadline) {
		time.Sleep(20 * time.Microsecond)
	}
}

// NodeResult is what executing one history yields.
type NodeResult struct {
	Valid    bool // false: some op of the path was a no-op or failed (branch cut)
	CutWhy   string
	Model    *Model
	Cands    []Cand
	Points   int      // recorded crash points (before/after/torn/mark)
	Children []string // ops enabled after the path
	Trace    []string
	NClient  int
	NMaint   int
}

type Runner struct {
	Spec    *Spec
	BaseDir string
	seq     int
	// OnFSPoint, if set, is installed as crashfs OnPoint while the last op runs
	// (literal-crash child processes exit there).
	OnFSPoint func(p *crashfs.Point)
	NoImages  bool
}

func (r *Runner) freshDir(tag string) string {
	r.seq++
	d := fmt.Sprintf("%s/%s%d", r.BaseDir, tag, r.seq)
	_ = os.RemoveAll(d)
	if err := os.MkdirAll(d, 0o755); err != nil {
		panic(err)
	}
	return d
}

func (r *Runner) dbConfig() dbh.Config {
	cfg := r.Spec.Cfg
	prev := cfg.Tweak
	cfg.Tweak = func(o *NoKV.Options) {
		o.DiscardStatsFlushThreshold = 1 << 30 // no internal discard-stats writes in short histories
		if prev != nil {
			prev(o)
		}
	}
	return cfg
}

// maintOp resolves an abstract maintenance kind against the live menu.
func (s *Spec) maintMenu(h *dbh.H) []string {
	allowed := map[string]bool{}
	for _, m := range s.Maint {
		allowed[m] = true
	}
	var out []string
	menu := h.MaintMenu(allowed["gc"], false)
	if allowed["rf"] {
		l := h.DB.VerifLSM()
		if !l.VerifActiveEmpty() || l.VerifNumImmutables() > 0 {
			out = append(out, "rf")
		}
	}
	for _, op := range menu {
		kind := op
		if i := strings.IndexByte(op, ':'); i >= 0 {
			kind = op[:i]
		}
		if allowed[kind] {
			out = append(out, op)
		}
	}
	if allowed["reopen"] {
		out = append(out, "reopen")
	}
	return out
}

// RunNode executes path on a fresh DB, recording crash images during the last op only
// (for the empty path with Spec.RecOpen: during the initial Open).
func (r *Runner) RunNode(path []string) (res *NodeResult, err error) {
	s := r.Spec
	res = &NodeResult{Model: &Model{}}
	dir := r.freshDir("run")
	defer func() { _ = os.RemoveAll(dir) }()
	fs := crashfs.New(dir, crashfs.Options{Torn: true, Before: true, Skip: skipLock, NoImages: r.NoImages})
	cfg := r.dbConfig()
	cfg.FS = fs
	recordOpen := len(path) == 0 && s.RecOpen
	if recordOpen {
		fs.OnPoint = r.OnFSPoint
		fs.SetLabel("m")
		fs.Start()
	}
	h, oerr := openQuiet(dir, cfg)
	if oerr != nil {
		return nil, fmt.Errorf("initial open failed: %v", oerr)
	}
	h.OnPoint = func(name string) { fs.Mark(name) }
	closed := false
	defer func() {
		if !closed {
			_ = h.Close()
		}
	}()
	if recordOpen {
		fs.Mark("opened")
	}
	for i, op := range path {
		last := i == len(path)-1
		if last {
			fs.OnPoint = r.OnFSPoint
			fs.SetLabel("m")
			fs.Start()
		}
		if IsClient(op) {
			res.NClient++
			if last {
				fs.SetLabel("i") // in flight
			}
			b, cerr := s.applyClient(h, op, res.NClient)
			if cerr != nil {
				res.CutWhy = fmt.Sprintf("client op %q returned %v", op, cerr)
				return res, nil
			}
			res.Model.add(b)
			if last {
				fs.SetLabel("a")
				fs.Mark("acked")
			}
			continue
		}
		res.NMaint++
		epoch := NoKV.VerifStatsEpoch()
		changed, merr := h.Maint(op)
		if op == "reopen" && merr == nil {
			waitStats(epoch)
		}
		if os.Getenv("VERIF_CRASHDB_VERBOSE") != "" {
			fmt.Fprintf(os.Stderr, "MAINT %s -> changed=%v err=%v\n", op, changed, merr)
		}
		if merr != nil {
			var ie *dbh.ImplError
			if !errors.As(merr, &ie) {
				res.CutWhy = fmt.Sprintf("maintenance %q: %v", op, merr)
				return res, nil
			}
			// implementation-level failure of background work: the history continues
		} else if !changed {
			res.CutWhy = "noop " + op
			return res, nil
		}
		if last {
			fs.Mark("done")
		}
	}
	pts := fs.Stop()
	res.Trace = fs.Trace()
	res.Points = len(pts)
	if h.DB != nil {
		if res.NClient < s.MaxClient {
			res.Children = append(res.Children, s.Client...)
		}
		if res.NMaint < s.MaxMaint {
			res.Children = append(res.Children, s.maintMenu(h)...)
		}
	}
	closed = true
	if cerr := h.Close(); cerr != nil {
		// a failing clean close is not what these properties are about; just note it
		res.CutWhy = ""
	}
	res.Valid = true
	if r.NoImages {
		return res, nil
	}
	nb := len(res.Model.Batches)
	lastIsClient := len(path) > 0 && IsClient(path[len(path)-1])
	bounds := func(label string) (acked, accepted int) {
		switch {
		case !lastIsClient:
			return nb, nb
		case label == "a":
			return nb, nb
		case label == "i":
			return nb - 1, nb
		default: // "m": before the client op was issued
			return nb - 1, nb - 1
		}
	}
	var prevReal *crashfs.Point
	for i := range pts {
		p := &pts[i]
		if p.Image == nil {
			continue
		}
		acked, accepted := bounds(p.Label)
		kind := "point"
		if p.Phase == "torn" {
			kind = "torn-write"
		}
		if p.Phase != "torn" {
			// stores that bypassed the vfs between the previous real image and this one
			// The difference between the "before" and the "after" image of a vfs call is the
			// (atomic or separately torn) effect of that call itself; only what changed
			// BETWEEN two calls — i.e. up to a "before" point or a named mark — is a store
			// that went through a mapping.
			isCallAfter := p.Phase == "after" && p.Op != "mark"
			if prevReal != nil && !isCallAfter && prevReal.Image.Hash != p.Image.Hash {
				imgs, files, ns := tornMmap(prevReal.Image, p.Image)
				pa, pc := bounds(prevReal.Label)
				for k, im := range imgs {
					res.Cands = append(res.Cands, Cand{Img: im, Kind: "torn-mmap", Acked: pa, Accepted: pc,
						Class: fmt.Sprintf("mmap-torn:%s<%s", crashfs.Generic(files[k]), p.Class()),
						Desc:  fmt.Sprintf("store into %s torn after %d bytes, before %s", files[k], ns[k], p.String())})
				}
			}
			prevReal = p
		}
		res.Cands = append(res.Cands, Cand{Img: p.Image, Kind: kind, Acked: acked, Accepted: accepted, Class: p.Class(), Desc: p.String()})
	}
	return res, nil
}

// Distinct merges candidates with identical images: the recovered state of one image must
// satisfy the bounds of every instant at which that image is the crash image, i.e.
// max(acked) <= j <= min(accepted). The first candidate supplies class/description.
func Distinct(cs []Cand, skipHash string) []Cand {
	idx := map[string]int{}
	var out []Cand
	for _, c := range cs {
		if c.Img.Hash == skipHash {
			continue
		}
		if i, ok := idx[c.Img.Hash]; ok {
			if c.Acked > out[i].Acked {
				// the instant with the stricter bound names the crash point
				out[i].Acked, out[i].Class, out[i].Desc, out[i].Kind = c.Acked, c.Class, c.Desc, c.Kind
			}
			if c.Accepted < out[i].Accepted {
				out[i].Accepted = c.Accepted
			}
			continue
		}
		idx[c.Img.Hash] = len(out)
		out = append(out, c)
	}
	return out
}

// Recovered is a reopened crash image.
type Recovered struct {
	H       *dbh.H
	Dir     string
	OpenErr string
	State   *State
}

// Recover materializes img and reopens it with the real Open on the plain OS filesystem.
func (r *Runner) Recover(img *crashfs.Image) *Recovered {
	t0 := time.Now()
	dir := r.freshDir("rec")
	rec := &Recovered{Dir: dir}
	if err := img.Materialize(dir); err != nil {
		panic(err)
	}
	t1 := time.Now()
	cfg := r.dbConfig()
	cfg.FS = nil
	h, err := openQuiet(dir, cfg)
	if err != nil {
		rec.OpenErr = err.Error()
		return rec
	}
	t2 := time.Now()
	rec.H = h
	rec.State = r.Spec.ReadState(h)
	t3 := time.Now()
	Timing[0] += t1.Sub(t0)
	Timing[1] += t2.Sub(t1)
	Timing[2] += t3.Sub(t2)
	return rec
}

// Timing accumulates materialize / open / read / close durations (diagnostics).
var Timing [4]time.Duration

func (rec *Recovered) Close() {
	t0 := time.Now()
	defer func() { Timing[3] += time.Since(t0) }()
	if rec.H != nil {
		_ = rec.H.Close()
		rec.H = nil
	}
	_ = os.RemoveAll(rec.Dir)
}

func OpClass(op string) string {
	if IsClient(op) {
		// keep the kinds, drop nothing: client ops are already canonical
		return op
	}
	if i := strings.IndexByte(op, ':'); i >= 0 {
		return op[:i]
	}
	return op
}

// ---- oracles ---------------------------------------------------------------------

func eqVal(kr KeyRead, want []byte, ok bool) bool {
	if kr.Err != "" {
		return false
	}
	if !ok {
		return !kr.Found
	}
	return kr.Found && bytes.Equal(kr.Val, want)
}

// CheckC09: reopen succeeded (checked by the caller); every key reads as after the
// acknowledged batches, or as written by the batch in flight.
func (s *Spec) CheckC09(m *Model, st *State, acked, accepted int) (kind, desc string, outcome string) {
	if st.Fail != "" {
		return "read-panic", "reading the recovered DB panicked: " + st.Fail, ""
	}
	base := m.After(acked)
	var inflight Batch
	if accepted > acked {
		inflight = m.Batches[acked]
	}
	applied, notApplied := 0, 0
	for _, k := range s.Keys() {
		got := st.Gets[k]
		want, ok := base[k]
		if inflight != nil {
			if nv, touched := inflight[k]; touched {
				if eqVal(got, nv, nv != nil) && !eqVal(got, want, ok) {
					applied++
					continue
				}
				if eqVal(got, want, ok) {
					if !eqVal(got, nv, nv != nil) {
						notApplied++
					}
					continue
				}
				return "ack-lost key=" + k, fmt.Sprintf("key %s reads %s; acknowledged value %s (in-flight value %s)", k, got, vs(want, ok), vs(nv, nv != nil)), ""
			}
		}
		if !eqVal(got, want, ok) {
			return "ack-lost key=" + k, fmt.Sprintf("key %s reads %s; acknowledged value %s", k, got, vs(want, ok)), ""
		}
	}
	switch {
	case inflight == nil:
		outcome = "quiescent"
	case applied > 0 && notApplied > 0:
		outcome = "inflight-mixed"
	case applied > 0:
		outcome = "inflight-present"
	case notApplied > 0:
		outcome = "inflight-absent"
	default:
		outcome = "inflight-invisible"
	}
	return "", "", outcome
}

func vs(v []byte, ok bool) string {
	if !ok {
		return "notfound"
	}
	return short(v)
}

// CheckC10: the recovered contents equal the model after the first j accepted batches for
// some lo <= j <= hi; every present key is readable; no value that was never written.
func (s *Spec) CheckC10(m *Model, st *State, lo, hi int) (kind, desc, outcome string) {
	if st.Fail != "" {
		return "read-panic", "reading the recovered DB panicked: " + st.Fail, ""
	}
	keys := s.Keys()
	for _, k := range keys {
		if g := st.Gets[k]; g.Err != "" {
			return "unreadable key=" + k + " err=" + strings.ReplaceAll(g.Err, " ", "_"), fmt.Sprintf("point read of %s fails: %s", k, g.Err), ""
		}
	}
	for _, e := range st.Iter {
		if e.Err != "" {
			return "iter-unreadable key=" + e.Key, fmt.Sprintf("iterator yields %s@%d but its value does not resolve: %s", e.Key, e.Ver, e.Err), ""
		}
		if !m.Written[e.Key][string(e.Val)] {
			return "iter-unknown-value key=" + e.Key, fmt.Sprintf("iterator yields %s@%d = %s which was never written", e.Key, e.Ver, short(e.Val)), ""
		}
	}
	match := func(j int) bool {
		want := m.After(j)
		for _, k := range keys {
			v, ok := want[k]
			if !eqVal(st.Gets[k], v, ok) {
				return false
			}
		}
		return true
	}
	for j := hi; j >= lo; j-- {
		if match(j) {
			return "", "", fmt.Sprintf("lost-suffix=%d", hi-j)
		}
	}
	// classify the failure
	var got []string
	for _, k := range keys {
		got = append(got, k+"="+st.Gets[k].String())
	}
	state := strings.Join(got, " ")
	for _, k := range keys {
		if g := st.Gets[k]; g.Found && !m.Written[k][string(g.Val)] {
			return "unknown-value key=" + k, fmt.Sprintf("key %s reads %s which was never written (%s)", k, g, state), ""
		}
	}
	for j := 0; j < lo; j++ {
		if match(j) {
			return fmt.Sprintf("acked-batch-lost lost=%d", lo-j), fmt.Sprintf("recovered state equals the model after %d batches but %d were acknowledged (%s)", j, lo, state), ""
		}
	}
	for j := 0; j < hi && j < len(m.Batches); j++ {
		if len(m.Batches[j]) < 2 {
			continue
		}
		a, b := m.After(j), m.After(j+1)
		all, mixedA, mixedB := true, false, false
		for _, k := range keys {
			va, oka := a[k]
			vb, okb := b[k]
			ea, eb := eqVal(st.Gets[k], va, oka), eqVal(st.Gets[k], vb, okb)
			if !ea && !eb {
				all = false
			}
			if ea && !eb {
				mixedA = true
			}
			if eb && !ea {
				mixedB = true
			}
		}
		if all && mixedA && mixedB {
			return "partial-batch", fmt.Sprintf("batch %d (%d keys) is partially applied: %s", j+1, len(m.Batches[j]), state), ""
		}
	}
	return "not-a-prefix", fmt.Sprintf("recovered state %s equals no prefix j in [%d,%d] of the %d accepted batches", state, lo, hi, len(m.Batches)), ""
}
