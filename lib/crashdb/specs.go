//go:build verif

package crashdb

import (
	"fmt"
	"os"
	"runtime/debug"
	"runtime/pprof"
	"strconv"
	"strings"
	"time"

	"verif/lib/dbh"
	"verif/lib/vr"
)

const tinyVlog = 120 // one value-log sized value per file: every such write after the first rotates
const pairVlog = 200 // two value-log sized values per file: GC of a sealed file finds live and stale entries side by side

// gcSpec: value-log GC that has to REWRITE live entries (b:a; b:b; b:a seals file 0 holding a stale
// a and a live b), crash points inside sample / rewrite batch / manifest delete / file removal.
func gcSpec(name string, sync bool, depth, post int) *Spec {
	return &Spec{Name: name, Cfg: dbh.Config{Engine: "skiplist", Buckets: 1, VlogFileSize: pairVlog, SyncWrites: sync},
		Mode: "plain", Client: []string{"b:a", "b:b", "d:b"}, Maint: []string{"gc", "rf"}, MaxClient: 3, MaxMaint: depth - 3, Depth: depth,
		PostDepth: post, PostCrash: post > 0, PostPut: post > 0}
}

func plainOps() []string { return []string{"s:a", "b:a", "d:a", "b:b"} }
func txnOps() []string {
	return []string{"t:x=s", "t:x=b", "t:x=d", "t:x=s,y=b", "t:x=b,y=b"}
}

// Specs returns the configurations explored for a property and tier.
func Specs(o Oracle, quick bool) []*Spec {
	var out []*Spec
	add := func(s *Spec) { out = append(out, s) }
	allMaint := []string{"rf", "rotate", "flush", "l0-base", "ingest-drain", "gc"}
	macro := []string{"rf", "l0-base", "ingest-drain", "gc"}
	hugeTweak := dbh.Config{Engine: "skiplist", Buckets: 1, VlogFileSize: tinyVlog, ValueThreshold: 1 << 20}
	switch o {
	case C09:
		// SyncWrites only.
		add(flushOrderSpec(true)) // first: tiny
		if quick {
			add(&Spec{Name: "plain-skiplist-b1", Cfg: dbh.Config{Engine: "skiplist", Buckets: 1, VlogFileSize: tinyVlog, SyncWrites: true},
				Mode: "plain", Client: plainOps(), Maint: macro, MaxClient: 3, MaxMaint: 3, Depth: 4, RecOpen: true})
			add(&Spec{Name: "txn-art-b2-rewrite", Cfg: dbh.Config{Engine: "art", Buckets: 2, VlogFileSize: tinyVlog, SyncWrites: true, ManifestRewrite: 1},
				Mode: "txn", Client: txnOps(), Maint: macro, MaxClient: 3, MaxMaint: 2, Depth: 3})
			add(&Spec{Name: "txn-huge-walbuf", Cfg: withSync(hugeTweak, true), Mode: "txn", HugeSize: 150 << 10,
				Client: []string{"t:x=s", "t:x=h,y=h"}, Maint: []string{"rf"}, MaxClient: 2, MaxMaint: 1, Depth: 2})
			add(gcSpec("plain-gc-rewrite", true, 4, 0))
		} else {
			add(gcSpec("plain-gc-rewrite", true, 6, 0))
			add(&Spec{Name: "plain-skiplist-b1", Cfg: dbh.Config{Engine: "skiplist", Buckets: 1, VlogFileSize: tinyVlog, SyncWrites: true},
				Mode: "plain", Client: plainOps(), Maint: allMaint, MaxClient: 4, MaxMaint: 3, Depth: 5, RecOpen: true, ShardAt: 3})
			add(&Spec{Name: "plain-art-b2-rewrite", Cfg: dbh.Config{Engine: "art", Buckets: 2, VlogFileSize: tinyVlog, SyncWrites: true, ManifestRewrite: 1},
				Mode: "plain", Client: plainOps(), Maint: append(macro, "reopen"), MaxClient: 3, MaxMaint: 2, Depth: 5, ShardAt: 3})
			add(&Spec{Name: "txn-art-b2-rewrite", Cfg: dbh.Config{Engine: "art", Buckets: 2, VlogFileSize: tinyVlog, SyncWrites: true, ManifestRewrite: 1},
				Mode: "txn", Client: txnOps(), Maint: macro, MaxClient: 3, MaxMaint: 3, Depth: 5, ShardAt: 3})
			add(&Spec{Name: "txn-skiplist-b1", Cfg: dbh.Config{Engine: "skiplist", Buckets: 1, VlogFileSize: tinyVlog, SyncWrites: true},
				Mode: "txn", Client: txnOps(), Maint: allMaint, MaxClient: 3, MaxMaint: 2, Depth: 4, ShardAt: 3})
			add(&Spec{Name: "txn-huge-walbuf", Cfg: withSync(hugeTweak, true), Mode: "txn", HugeSize: 150 << 10,
				Client: []string{"t:x=s", "t:x=h,y=h", "t:x=h"}, Maint: []string{"rf"}, MaxClient: 3, MaxMaint: 1, Depth: 3})
		}
	case C10:
		add(flushOrderSpec(false)) // first: tiny
		if quick {
			add(&Spec{Name: "plain-skiplist-b1-nosync", Cfg: dbh.Config{Engine: "skiplist", Buckets: 1, VlogFileSize: tinyVlog},
				Mode: "plain", Client: plainOps(), Maint: macro, MaxClient: 3, MaxMaint: 3, Depth: 4, RecOpen: true})
			add(&Spec{Name: "txn-art-b2-sync-rewrite", Cfg: dbh.Config{Engine: "art", Buckets: 2, VlogFileSize: tinyVlog, SyncWrites: true, ManifestRewrite: 1},
				Mode: "txn", Client: txnOps(), Maint: macro, MaxClient: 3, MaxMaint: 2, Depth: 3})
			add(&Spec{Name: "txn-skiplist-b1-nosync", Cfg: dbh.Config{Engine: "skiplist", Buckets: 1, VlogFileSize: tinyVlog},
				Mode: "txn", Client: txnOps(), Maint: []string{"rotate", "flush"}, MaxClient: 3, MaxMaint: 2, Depth: 3})
			add(&Spec{Name: "txn-huge-walbuf-nosync", Cfg: hugeTweak, Mode: "txn", HugeSize: 150 << 10,
				Client: []string{"t:x=s", "t:x=h,y=h"}, Maint: []string{"rf"}, MaxClient: 2, MaxMaint: 1, Depth: 2})
			add(gcSpec("plain-gc-rewrite-sync", true, 4, 0))
		} else {
			add(gcSpec("plain-gc-rewrite-sync", true, 6, 0))
			add(gcSpec("plain-gc-rewrite-nosync", false, 6, 0))
			for _, sync := range []bool{false, true} {
				add(&Spec{Name: fmt.Sprintf("plain-skiplist-b1-sync=%v", sync), Cfg: dbh.Config{Engine: "skiplist", Buckets: 1, VlogFileSize: tinyVlog, SyncWrites: sync},
					Mode: "plain", Client: plainOps(), Maint: allMaint, MaxClient: 4, MaxMaint: 3, Depth: 5, RecOpen: true, ShardAt: 3})
				add(&Spec{Name: fmt.Sprintf("txn-art-b2-rewrite-sync=%v", sync), Cfg: dbh.Config{Engine: "art", Buckets: 2, VlogFileSize: tinyVlog, SyncWrites: sync, ManifestRewrite: 1},
					Mode: "txn", Client: txnOps(), Maint: macro, MaxClient: 3, MaxMaint: 3, Depth: 5, ShardAt: 3})
				add(&Spec{Name: fmt.Sprintf("txn-huge-walbuf-sync=%v", sync), Cfg: withSync(hugeTweak, sync), Mode: "txn", HugeSize: 150 << 10,
					Client: []string{"t:x=s", "t:x=h,y=h", "t:x=h"}, Maint: []string{"rf"}, MaxClient: 3, MaxMaint: 1, Depth: 3})
			}
			add(&Spec{Name: "plain-art-b2-rewrite-reopen-nosync", Cfg: dbh.Config{Engine: "art", Buckets: 2, VlogFileSize: tinyVlog, ManifestRewrite: 1},
				Mode: "plain", Client: plainOps(), Maint: append(macro, "reopen"), MaxClient: 3, MaxMaint: 2, Depth: 5, ShardAt: 3})
			add(&Spec{Name: "txn-skiplist-b1-nosync", Cfg: dbh.Config{Engine: "skiplist", Buckets: 1, VlogFileSize: tinyVlog},
				Mode: "txn", Client: txnOps(), Maint: allMaint, MaxClient: 3, MaxMaint: 2, Depth: 4, ShardAt: 3})
		}
	case C11:
		if quick {
			add(ingestRewriteSpec(true)) // first: small, and must not fall victim to the budget on a loaded machine
			add(&Spec{Name: "plain-skiplist-b1-sync", Cfg: dbh.Config{Engine: "skiplist", Buckets: 1, VlogFileSize: tinyVlog, SyncWrites: true},
				Mode: "plain", Client: []string{"s:a", "b:a", "d:a"}, Maint: []string{"rf", "gc"}, MaxClient: 2, MaxMaint: 1, Depth: 3, PostDepth: 2, PostCrash: true, PostPut: true})
			add(&Spec{Name: "txn-art-b2-sync", Cfg: dbh.Config{Engine: "art", Buckets: 2, VlogFileSize: tinyVlog, SyncWrites: true},
				Mode: "txn", Client: []string{"t:x=b", "t:x=d", "t:x=s,y=b"}, Maint: []string{"rf"}, MaxClient: 2, MaxMaint: 1, Depth: 2, PostDepth: 2, PostCrash: true, PostPut: true})
			g := gcSpec("plain-gc-rewrite-nosync", false, 4, 2)
			g.Client = []string{"b:a", "b:b"}
			add(g)
			add(&Spec{Name: "txn-gc-orphan-sync", Cfg: dbh.Config{Engine: "skiplist", Buckets: 1, VlogFileSize: pairVlog, SyncWrites: true},
				Mode: "txn", Client: []string{"t:x=b", "t:x=d"}, Maint: []string{"rf"}, MaxClient: 2, MaxMaint: 1, Depth: 2, PostDepth: 3, PostCrash: false, PostPut: true})
		} else {
			add(&Spec{Name: "txn-gc-orphan-sync", Cfg: dbh.Config{Engine: "skiplist", Buckets: 1, VlogFileSize: pairVlog, SyncWrites: true},
				Mode: "txn", Client: []string{"t:x=b", "t:x=d", "t:x=b,y=b"}, Maint: []string{"rf"}, MaxClient: 3, MaxMaint: 1, Depth: 3, PostDepth: 3, PostCrash: true, PostPut: true})
			add(ingestRewriteSpec(false))
			add(gcSpec("plain-gc-rewrite-nosync", false, 5, 3))
			add(gcSpec("plain-gc-rewrite-sync", true, 5, 2))
			add(&Spec{Name: "plain-skiplist-b1-nosync", Cfg: dbh.Config{Engine: "skiplist", Buckets: 1, VlogFileSize: tinyVlog},
				Mode: "plain", Client: plainOps(), Maint: macro, MaxClient: 3, MaxMaint: 2, Depth: 4, PostDepth: 3, PostCrash: true, PostPut: true, ShardAt: 3})
			add(&Spec{Name: "plain-art-b2-sync", Cfg: dbh.Config{Engine: "art", Buckets: 2, VlogFileSize: tinyVlog, SyncWrites: true},
				Mode: "plain", Client: plainOps(), Maint: macro, MaxClient: 3, MaxMaint: 2, Depth: 4, PostDepth: 2, PostCrash: true, PostPut: true, ShardAt: 3})
			add(&Spec{Name: "txn-art-b2-sync-rewrite", Cfg: dbh.Config{Engine: "art", Buckets: 2, VlogFileSize: tinyVlog, SyncWrites: true, ManifestRewrite: 1},
				Mode: "txn", Client: txnOps(), Maint: macro, MaxClient: 3, MaxMaint: 1, Depth: 3, PostDepth: 3, PostCrash: true, PostPut: true})
			add(&Spec{Name: "txn-skiplist-b1-nosync", Cfg: dbh.Config{Engine: "skiplist", Buckets: 1, VlogFileSize: tinyVlog},
				Mode: "txn", Client: txnOps(), Maint: macro, MaxClient: 3, MaxMaint: 1, Depth: 3, PostDepth: 3, PostCrash: true, PostPut: true})
		}
	}
	return out
}

// ingestRewriteSpec: the manifest is REWRITTEN on every edit (threshold 1 byte) while tables
// with overlapping key ranges but disjoint keys ({a,c} and {b}) travel L0 -> base-level ingest
// buffer -> level; every crash point of those steps (including the ones inside the rewrite:
// new MANIFEST written, CURRENT.tmp written, renamed, old MANIFEST removed) is recovered, and
// the post schedules (flush, L0->base move, ingest merge/drain, second crash+reopen at any
// position) must leave all reads unchanged: what a rewritten manifest says about levels and
// ingest buffers has to reload to the same visible contents.
func ingestRewriteSpec(quick bool) *Spec {
	s := &Spec{Name: "plain-ingest-manifest-rewrite", Cfg: dbh.Config{Engine: "skiplist", Buckets: 1, VlogFileSize: tinyVlog, SyncWrites: true, ManifestRewrite: 1},
		Mode: "plain", PostDepth: 3, PostCrash: true}
	if quick {
		s.Prefix = []string{"s:a", "s:c", "rf"}
		s.Client, s.Maint = []string{"s:b"}, []string{"rf", "l0-base", "ingest-keep", "ingest-drain"}
		s.MaxClient, s.MaxMaint, s.Depth = 3, 4, 3
	} else {
		s.Client, s.Maint = []string{"s:a", "s:c", "s:b", "d:b"}, []string{"rf", "l0-base", "ingest-keep", "ingest-drain"}
		s.MaxClient, s.MaxMaint, s.Depth, s.ShardAt = 3, 3, 5, 3
	}
	return s
}

// flushOrderSpec: two sealed memtables wait for their flush; every flush transition the code
// under test offers is taken and crashed at every point. The unchanged tree runs one flush
// worker, so the only transition is "flush" (oldest first); if the code under test runs several
// workers the harness also offers "flush:1" (the newer memtable's flush completes first), which
// is where a WAL checkpoint that assumes seal order loses the older, unflushed segment.
func flushOrderSpec(sync bool) *Spec {
	return &Spec{Name: fmt.Sprintf("plain-flush-order-sync=%v", sync), Cfg: dbh.Config{Engine: "skiplist", Buckets: 1, VlogFileSize: tinyVlog, SyncWrites: sync},
		Mode: "plain", Prefix: []string{"s:a", "rotate", "s:b", "rotate"}, Client: []string{"s:a"}, Maint: []string{"rotate", "flush"},
		MaxClient: 3, MaxMaint: 4, Depth: 2} // the per-path budgets include the prefix (2 writes, 2 rotations)
}

func withSync(c dbh.Config, sync bool) dbh.Config {
	c.SyncWrites = sync
	return c
}

// Main is the shared main() of the three checks.
func Main(o Oracle) {
	// literal-crash children need the spec list of either tier
	all := append(Specs(o, true), Specs(o, false)...)
	// Every Open allocates (and zeroes) several MiB of arena/buffers. Collect rarely and keep
	// the freed spans mapped: page faults dominate otherwise. Worker processes inherit the env.
	if os.Getenv("GOMEMLIMIT") == "" {
		_ = os.Setenv("GOMEMLIMIT", "768MiB")
		_ = os.Setenv("GOGC", "off")
		debug.SetMemoryLimit(768 << 20)
		debug.SetGCPercent(-1)
	}
	MaybeChild(all)
	r := vr.Start(string(o))
	if pf := os.Getenv("VERIF_CRASHDB_PROF"); pf != "" && os.Getenv("VERIF_SHARD") == "" {
		if f, err := os.Create(pf); err == nil {
			_ = pprof.StartCPUProfile(f)
			defer pprof.StopCPUProfile()
		}
	}
	if n, err := strconv.Atoi(os.Getenv("VERIF_CRASHDB_DUMP_AFTER")); err == nil && n > 0 {
		go func() { // debugging aid for hangs: dump all goroutines after n seconds and exit
			time.Sleep(time.Duration(n) * time.Second)
			_ = pprof.Lookup("goroutine").WriteTo(os.Stderr, 1)
			os.Exit(2)
		}()
	}
	specs := Specs(o, r.Quick())
	if only := os.Getenv("VERIF_CRASHDB_ONLY"); only != "" { // debugging aid: run the configurations whose name contains the value
		var keep []*Spec
		for _, s := range specs {
			if strings.Contains(s.Name, only) {
				keep = append(keep, s)
			}
		}
		specs = keep
	}
	if r.ReplayPath != "" {
		replay(r, o, all)
		return
	}
	base := r.Scratch()
	total := r.RunSharded(vr.Workers(), func(sh vr.ShardInfo, p *vr.Partial) {
		for ci, s := range specs {
			e := &Explorer{Spec: s, Oracle: o, Shard: sh, P: p, Expired: r.Expired,
				R: &Runner{Spec: s, BaseDir: fmt.Sprintf("%s/s%d-c%d", base, sh.Index, ci)}}
			if r.Thorough() {
				e.CrossEvery = 40
			}
			if n, err := strconv.Atoi(os.Getenv("VERIF_CRASHDB_CROSS")); err == nil && n > 0 {
				e.CrossEvery = n
			}
			e.Run()
		}
	})
	c := total.Counters
	for _, v := range total.Violations { // every failing signature (vr prints details for the first few new ones only)
		fmt.Printf("FAILING-SIGNATURE cases=%d %s\n", v.Count, v.Sig)
	}
	if os.Getenv("VERIF_CRASHDB_COUNT") != "" {
		for k, v := range c {
			if strings.HasPrefix(k, "histories") {
				fmt.Printf("COUNT %s = %d\n", k, v)
			}
		}
		fmt.Printf("COUNT crash_points = %d timed_out=%v\n", c["crash_points"], total.TimedOut)
		os.Exit(0)
	}
	r.RequireOutcomes(total.Card("outcomes"), 3)
	var bounds []string
	for _, s := range specs {
		b := fmt.Sprintf("%s(mode=%s,engine=%s,buckets=%d,sync=%v,manifestRewrite=%d,client=%v<=%d,maint=%v<=%d,depth<=%d", s.Name, s.Mode, s.Cfg.Engine, s.Cfg.Buckets, s.Cfg.SyncWrites, s.Cfg.ManifestRewrite, s.Client, s.MaxClient, s.Maint, s.MaxMaint, s.Depth)
		if o == C11 {
			b += fmt.Sprintf(",post-schedules<=%d,second-crash=%v", s.PostDepth, s.PostCrash)
		}
		bounds = append(bounds, b+")")
	}
	if c["crossval_mismatch"] > 0 {
		vr.Fatalf("%d literal-crash cross-validations disagreed with the in-process snapshots: %v", c["crossval_mismatch"], total.Notes)
	}
	post := ""
	if o == C11 {
		post = "; C11: on every distinct recovered image every schedule up to the post bound over {rotate+flush, L0->base, ingest drain, GC of every sealed value-log file, one new client write of a fresh key, second crash+reopen} is run and all reads of the old keys are compared with the reads right after reopen"
	}
	rule := "DFS over all histories of client writes (plain Set/Del or transactions: inline, value-log sized, huge, delete, 2-key) interleaved with enabled maintenance (rotate/flush, L0->base, ingest drain, value-log GC per file, reopen) within the per-path budgets; while the last op of each history runs, every mutating vfs call (before/after), torn write(2) prefixes {1,len/2,len-1}, every named hook point, the ack instant and synthesized torn mmap stores are crash points; each distinct directory image (content hash) is reopened with the real Open and judged" + post
	r.Finish(vr.Coverage{
		Level:       "fault_enumeration",
		Evaluations: c["images_recovered"],
		Distinct:    total.Card("images"),
		Rule:        rule,
		Samples:     total.SamplesAny(),
		Validated:   c["crossval_points_identical"],
		Exhaustive:  !total.TimedOut,
		Outcomes:    total.Card("outcomes"),
		Bounds:      map[string]any{"configs": bounds, "tier": r.Tier},
		Extra: map[string]any{
			"histories": c["histories"], "histories_cut_noop": c["cut_histories"], "histories_aborted": c["aborted_histories"],
			"crash_points_recorded": c["crash_points"], "crash_images_recovered": c["images_recovered"],
			"distinct_images_by_content_hash": total.Card("images"), "distinct_crash_point_classes": total.Card("classes"),
			"images_differing_from_both_neighbours": c["images_differ_from_both_neighbours"],
			"candidates_point":                      c["cand_point"], "candidates_torn_write": c["cand_torn-write"], "candidates_torn_mmap": c["cand_torn-mmap"],
			"recovered_point": c["recovered_point"], "recovered_torn_write": c["recovered_torn-write"], "recovered_torn_mmap": c["recovered_torn-mmap"],
			"max_history_depth": c["max_depth"], "nondeterministic_failures_dropped": c["nondeterministic_failures"],
			"post_schedules": c["post_schedules"], "post_maintenance_steps": c["post_steps"], "post_duplicate_images_skipped": c["post_skipped_duplicate_image"],
			"post_impl_errors": c["post_impl_errors"], "literal_crash_histories": c["crossval_histories"], "literal_crash_points_identical": c["crossval_points_identical"], "literal_crash_points_identical_modulo_manifest_timestamps": c["crossval_points_identical_modulo_manifest_timestamps"], "ms_run_node": c["ms_run_node"], "ms_recover": c["us_recover"] / 1000,
		},
		Assumptions: []string{
			"process-crash model: the crash image is the directory as the OS sees it (crashfs snapshot taken synchronously inside the vfs call / hook); fsync omissions are invisible by construction",
			"background work serialized: compaction paused and harness-driven, flush worker gated, one client op at a time (the commit worker is the goroutine executing the point)",
			"torn mmap stores are synthesized as prefixes of the byte range that changed between two consecutive images",
			"traces_validated_against_impl counts crash points re-executed literally (child process SIGKILLed at the point) with a byte-identical directory tree (manifest AddFile CreatedAt seconds excepted; thorough tier only)",
			"engine-internal map iteration order (which record of a 2-key batch is appended first) is not controlled: a failure is reported only if it reproduces on two fresh re-executions of its history",
		},
	})
}

func replay(r *vr.Run, o Oracle, all []*Spec) {
	var rp Replay
	r.LoadReplay(&rp)
	for _, s := range all {
		if s.Name != rp.Config {
			continue
		}
		p := vr.NewPartial()
		e := &Explorer{Spec: s, Oracle: o, Shard: vr.ShardInfo{Index: 0, Count: 1}, P: p, R: &Runner{Spec: s, BaseDir: r.Scratch()}, seenPost: map[string]bool{}}
		res, err := e.R.RunNode(rp.Path)
		if err != nil || !res.Valid {
			vr.Fatalf("replay: history %v invalid: %v %s", rp.Path, err, res.CutWhy)
		}
		for _, v := range e.judge(rp.Path, res, true) {
			fmt.Printf("replay: %s\n  %s\n", v.sig, v.desc)
			r.Violation(v.sig, v.desc, v.replay)
		}
		pprof.StopCPUProfile()
		fmt.Printf("timing materialize=%v open=%v read=%v close=%v\n", Timing[0], Timing[1], Timing[2], Timing[3])
		r.Finish(vr.Coverage{Level: "fault_enumeration", Evaluations: p.Counters["images_recovered"], Distinct: p.Card("images"), Rule: "replay", Samples: []any{rp.Path}})
	}
	vr.Fatalf("replay: unknown config %q", rp.Config)
}
