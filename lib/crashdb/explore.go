//go:build verif

package crashdb

import (
	"encoding/json"
	"fmt"
	"os"
	"os/exec"
	"strings"
	"syscall"
	"time"

	"verif/lib/crashfs"
	"verif/lib/dbh"
	"verif/lib/seqmc"
	"verif/lib/vr"
)

// Oracle selects the property judged on every recovered image.
type Oracle string

const (
	C09 Oracle = "C09"
	C10 Oracle = "C10"
	C11 Oracle = "C11"
)

type Explorer struct {
	Spec    *Spec
	Oracle  Oracle
	Shard   vr.ShardInfo
	P       *vr.Partial
	Expired func() bool
	R       *Runner

	subtree  int
	node     int
	seenPost map[string]bool // C11: images whose maintenance schedules were already explored
	// CrossEvery > 0: re-execute every CrossEvery-th explored history literally (child
	// process killed at a crash point) and compare directory trees.
	CrossEvery int
}

// Replay is the replay artefact of a violation.
type Replay struct {
	Config string
	Path   []string
	Class  string   `json:",omitempty"`
	Post   []string `json:",omitempty"`
}

func (e *Explorer) Run() {
	if e.seenPost == nil {
		e.seenPost = map[string]bool{}
	}
	e.dfs(append([]string{}, e.Spec.Prefix...))
}

func (e *Explorer) dfs(path []string) {
	if e.Expired != nil && e.Expired() {
		e.P.TimedOut = true
		return
	}
	s := e.Spec
	shardAt := s.ShardAt
	if shardAt <= 0 {
		shardAt = 2
	}
	// Ownership: whole subtrees below depth shardAt are distributed round-robin; the few
	// nodes above are executed by every shard (to learn the menus) but judged by one.
	rel := len(path) - len(s.Prefix) // depth of the explored suffix
	owned := true
	if rel < shardAt {
		e.node++
		owned = e.Shard.Owns(e.node)
	}
	var res *NodeResult
	var err error
	if owned && os.Getenv("VERIF_CRASHDB_COUNT") != "" {
		// sizing aid: count the histories of the bounded space without recovering anything
		saved := e.R.NoImages
		e.R.NoImages = true
		res, err = e.R.RunNode(path)
		e.R.NoImages = saved
		if err != nil {
			vr.Fatalf("%s: path %v: %v", s.Name, path, err)
		}
		if res.Valid {
			e.P.Add("histories", 1)
			e.P.Add("histories:"+s.Name, 1)
			e.P.Add("crash_points", int64(res.Points))
			e.P.Mark("outcomes", fmt.Sprint(len(path)))
		}
	} else if owned {
		res = e.exploreNode(path)
	} else {
		saved := e.R.NoImages
		e.R.NoImages = true
		res, err = e.R.RunNode(path)
		e.R.NoImages = saved
		if err != nil {
			vr.Fatalf("%s: path %v: %v", s.Name, path, err)
		}
	}
	if res == nil || !res.Valid || rel >= s.Depth {
		return
	}
	for _, op := range res.Children {
		child := append(append([]string{}, path...), op)
		if len(child)-len(s.Prefix) == shardAt {
			e.subtree++
			if !e.Shard.Owns(e.subtree) {
				continue
			}
		}
		e.dfs(child)
	}
}

func pathStr(path []string) string { return strings.Join(path, " ; ") }

// trace writes the action about to be performed to a per-shard file when
// VERIF_CRASHDB_TRACE names a directory (debugging aid for process-level crashes).
func (e *Explorer) trace(format string, a ...any) {
	dir := os.Getenv("VERIF_CRASHDB_TRACE")
	if dir == "" {
		return
	}
	_ = os.WriteFile(fmt.Sprintf("%s/shard-%d.txt", dir, e.Shard.Index), []byte(e.Spec.Name+": "+fmt.Sprintf(format, a...)+"\n"), 0o644)
}

// exploreNode executes the history, recovers every distinct crash image and judges it.
func (e *Explorer) exploreNode(path []string) *NodeResult {
	s, p := e.Spec, e.P
	t0 := time.Now()
	e.trace("run [%s]", pathStr(path))
	res, err := e.R.RunNode(path)
	p.Add("ms_run_node", time.Since(t0).Milliseconds())
	if err != nil {
		vr.Fatalf("%s: path %v: %v", s.Name, path, err)
	}
	if !res.Valid {
		p.Add("cut_histories", 1)
		if !strings.HasPrefix(res.CutWhy, "noop ") {
			p.Add("aborted_histories", 1)
			if len(p.Notes) < 1 {
				p.Notes = append(p.Notes, fmt.Sprintf("%s: history %q aborted: %s", s.Name, pathStr(path), res.CutWhy))
			}
		}
		return res
	}
	p.Add("histories", 1)
	p.Max("max_depth", int64(len(path)))
	p.Add("crash_points", int64(res.Points))
	p.Sample(fmt.Sprintf("%s: %s (%d crash points)", s.Name, pathStr(path), res.Points))
	viols := e.judge(path, res, true)
	if len(viols) > 0 {
		// re-run from scratch: only failures that reproduce identically are reported
		for round := 0; round < 2 && len(viols) > 0; round++ {
			res2, err := e.R.RunNode(path)
			if err != nil || !res2.Valid {
				viols = nil
				break
			}
			again := e.judge(path, res2, false)
			keep := viols[:0]
			for _, v := range viols {
				for _, w := range again {
					if v.sig == w.sig {
						keep = append(keep, v)
						break
					}
				}
			}
			if len(keep) < len(viols) {
				p.Add("nondeterministic_failures", int64(len(viols)-len(keep)))
				for _, v := range viols {
					found := false
					for _, k := range keep {
						found = found || k.sig == v.sig
					}
					if !found && len(p.Notes) < 1 {
						p.Notes = append(p.Notes, fmt.Sprintf("failure not reproduced identically on re-execution (engine-internal map iteration order decides which record of a batch reaches the file first), dropped: %s [%s]", v.sig, pathStr(path)))
					}
				}
			}
			viols = keep
		}
		for _, v := range viols {
			blob, _ := json.Marshal(v.replay)
			p.Viol(v.sig, v.desc, string(blob))
		}
	}
	if e.CrossEvery > 0 && len(path) > 0 && deterministic(path) {
		if n := addGet(p, "crossval_candidates"); n%int64(e.CrossEvery) == 0 {
			e.crossValidate(path)
		}
	}
	return res
}

// deterministic reports whether two executions of the history produce identical files: a
// multi-key transaction is laid out in the engine's map iteration order (pending writes,
// value-log buckets), so such histories are not comparable byte by byte across processes.
func deterministic(path []string) bool {
	for _, op := range path {
		if len(parseClient(op)) > 1 {
			return false
		}
	}
	return true
}

func addGet(p *vr.Partial, name string) int64 {
	p.Add(name, 1)
	return p.Counters[name]
}

type viol struct {
	sig, desc string
	replay    Replay
}

func (e *Explorer) judge(path []string, res *NodeResult, count bool) []viol {
	s, p := e.Spec, e.P
	var out []viol
	lastOp := "open"
	if len(path) > 0 {
		lastOp = OpClass(path[len(path)-1])
	}
	// The start image (point 0) was judged at the parent node with the bounds valid there; it is
	// judged again only if it is also the crash image of a later instant with a stricter
	// bound (e.g. nothing reached the OS before the acknowledgement).
	skip, skipAcked := "", 0
	if len(path) > 0 && len(res.Cands) > 0 {
		skip, skipAcked = res.Cands[0].Img.Hash, res.Cands[0].Acked
	}
	if count {
		// images that differ from both neighbours in the recorded order
		for i := range res.Cands {
			h := res.Cands[i].Img.Hash
			if (i == 0 || res.Cands[i-1].Img.Hash != h) && (i == len(res.Cands)-1 || res.Cands[i+1].Img.Hash != h) {
				p.Add("images_differ_from_both_neighbours", 1)
			}
			p.Add("cand_"+res.Cands[i].Kind, 1)
		}
	}
	var cands []Cand
	for _, c := range Distinct(res.Cands, "") {
		if c.Img.Hash == skip && c.Acked <= skipAcked {
			continue
		}
		cands = append(cands, c)
	}
	sync := s.Cfg.SyncWrites
	gcInPath := false
	for _, op := range path {
		gcInPath = gcInPath || strings.HasPrefix(op, "gc:")
	}
	for _, c := range cands {
		if count {
			p.Add("images_recovered", 1)
			p.Add("recovered_"+c.Kind, 1)
			p.Mark("images", s.Name+c.Img.Hash)
			p.Mark("classes", c.Class)
		}
		t0 := time.Now()
		e.trace("recover [%s] at %s", pathStr(path), c.Desc)
		rec := e.R.Recover(c.Img)
		if count {
			p.Add("us_recover", time.Since(t0).Microseconds())
		}
		if os.Getenv("VERIF_CRASHDB_VERBOSE") != "" {
			fmt.Fprintf(os.Stderr, "CAND %s kind=%s acked=%d accepted=%d image={%s}\n  openErr=%q\n", c.Desc, c.Kind, c.Acked, c.Accepted, c.Img.Describe(), rec.OpenErr)
			if rec.State != nil {
				fmt.Fprintf(os.Stderr, "  %s\n", strings.ReplaceAll(rec.State.Canon(), "\n", "\n  "))
			}
		}
		where := fmt.Sprintf("config=%s history=[%s] crash at %s (acked=%d accepted=%d); image: %s", s.Name, pathStr(path), c.Desc, c.Acked, c.Accepted, c.Img.Describe())
		add := func(kind, desc string, post []string) {
			sig := fmt.Sprintf("%s op=%s at=%s mode=%s sync=%v", kind, lastOp, c.Class, s.Mode, sync)
			if gcInPath && (strings.HasPrefix(kind, "ack") || kind == "not-a-prefix" || strings.HasPrefix(kind, "unreadable") || strings.HasPrefix(kind, "iter-unreadable")) {
				sig += " hist=gc" // a value-log GC ran earlier in the history (it re-inserts old versions)
			}
			if rec.H != nil && rec.H.DB != nil && (strings.HasPrefix(kind, "ack") || kind == "not-a-prefix") {
				// where the recovered LSM holds copies of each key: separates "data is there but
				// not read" from "data is gone" (distinct mechanisms get distinct signatures)
				sig += " copies=" + s.Locate(rec.H)
			}
			out = append(out, viol{sig, desc + "\n  " + where, Replay{Config: s.Name, Path: path, Class: c.Class, Post: post}})
		}
		if rec.OpenErr != "" {
			// "reopening succeeds" is part of C09 and C10; C11 presupposes a reopened DB.
			if e.Oracle != C11 {
				add("reopen-failed:"+Classify(rec.OpenErr), "reopening the crash image failed: "+rec.OpenErr, nil)
			}
			rec.Close()
			continue
		}
		lo := 0
		if sync {
			lo = c.Acked
		}
		switch e.Oracle {
		case C09:
			kind, desc, outcome := s.CheckC09(res.Model, rec.State, c.Acked, c.Accepted)
			if kind != "" {
				add(kind, desc, nil)
			} else if count {
				p.Mark("outcomes", outcome+"/"+c.Kind)
			}
			rec.Close()
		case C10:
			kind, desc, outcome := s.CheckC10(res.Model, rec.State, lo, c.Accepted)
			if kind != "" {
				add(kind, desc, nil)
			} else if count {
				p.Mark("outcomes", fmt.Sprintf("%s/inflight=%d/%s", outcome, c.Accepted-c.Acked, c.Kind))
			}
			rec.Close()
		case C11:
			base := rec.State
			// A recovered memtable whose WAL segment id equals the file id of an installed table
			// will be flushed into that very file (flush names the SST after the segment): the
			// schedules below would then truncate/unlink a mapped SST (SIGBUS, not recoverable in
			// process). The precondition itself is reported instead of running them.
			if seg, ok := dupFid(rec.H); ok {
				add("recovered-memtable-segment-equals-live-table-fid", fmt.Sprintf("after reopen WAL segment %d is replayed into a memtable although table %d built from it is installed; the next flush rewrites the file of a live table", seg, seg), nil)
				rec.Close()
				continue
			}
			rec.Close()
			key := s.Name + c.Img.Hash
			if count { // (verification re-runs of a failing history judge every image again)
				if e.seenPost[key] {
					p.Add("post_skipped_duplicate_image", 1)
					continue
				}
				e.seenPost[key] = true
			}
			if count {
				p.Mark("outcomes", fmt.Sprintf("%x", vr.Hash64(base.Canon())))
			}
			// Values are classified relative to the prefix j of accepted batches that recovery
			// actually produced (the largest j whose model state equals the recovered reads).
			model := res.Model
			jrec := c.Acked
			for j := c.Accepted; j >= 0; j-- {
				want, all := model.After(j), true
				for _, k := range s.Keys() {
					v, ok := want[k]
					if !eqVal(base.Gets[k], v, ok) {
						all = false
						break
					}
				}
				if all {
					jrec = j
					break
				}
			}
			classify := func(key string, val []byte) string {
				if !model.Written[key][string(val)] {
					return "never-written-value"
				}
				if cur, ok := model.After(jrec)[key]; ok && string(cur) == string(val) {
					return "recovered-value"
				}
				for j := jrec; j < len(model.Batches); j++ {
					if v, ok := model.Batches[j][key]; ok && string(v) == string(val) {
						return "unrecovered-write" // written by a batch beyond the recovered prefix (lost or never acknowledged)
					}
				}
				return "overwritten-value"
			}
			for _, v := range e.post(c.Img, base, count, classify) {
				add(v.sig, v.desc, v.replay.Post)
			}
		}
	}
	return out
}

func dupFid(h *dbh.H) (uint32, bool) {
	if h == nil || h.DB == nil {
		return 0, false
	}
	segs, tables := h.DB.VerifLSM().VerifSegmentsAndTables()
	for _, s := range segs {
		for _, t := range tables {
			if uint64(s) == t {
				return s, true
			}
		}
	}
	return 0, false
}

// ---- C11: maintenance schedules on a recovered image --------------------------------

type postInst struct {
	e        *Explorer
	img      *crashfs.Image
	rec      *Recovered
	base     string
	sig      string
	desc     string
	depth    int
	last     string
	hist     []string
	put      []byte // value written by the "put" step (nil: not yet)
	crashed  bool   // a "crash" step happened after the put
	baseSt   *State
	classify func(key string, val []byte) string
}

// stateDiff names the first difference between the state right after reopen and now:
// "get:x:acked-value->never-acknowledged-value", "iter:x:absent->overwritten-value".
func (pi *postInst) stateDiff(now *State) string {
	cls := func(k string, kr KeyRead) string {
		switch {
		case kr.Err != "":
			return "error:" + strings.ReplaceAll(kr.Err, " ", "_")
		case !kr.Found:
			return "notfound"
		}
		return pi.classify(k, kr.Val)
	}
	for _, k := range pi.e.Spec.Keys() {
		a, b := pi.baseSt.Gets[k], now.Gets[k]
		if a.String() != b.String() {
			return fmt.Sprintf("get:%s:%s->%s", k, cls(k, a), cls(k, b))
		}
	}
	type ik struct {
		key string
		ver uint64
	}
	am, bm := map[ik]IterEnt{}, map[ik]IterEnt{}
	for _, e := range pi.baseSt.Iter {
		am[ik{e.Key, e.Ver}] = e
	}
	for _, e := range now.Iter {
		if e.Key == PostKey {
			continue
		}
		bm[ik{e.Key, e.Ver}] = e
		if o, ok := am[ik{e.Key, e.Ver}]; !ok {
			return fmt.Sprintf("iter:%s:absent->%s", e.Key, cls(e.Key, KeyRead{Found: e.Err == "", Val: e.Val, Err: e.Err}))
		} else if string(o.Val) != string(e.Val) || o.Err != e.Err {
			return fmt.Sprintf("iter:%s:%s->%s", e.Key, cls(e.Key, KeyRead{Found: o.Err == "", Val: o.Val, Err: o.Err}), cls(e.Key, KeyRead{Found: e.Err == "", Val: e.Val, Err: e.Err}))
		}
	}
	for _, e := range pi.baseSt.Iter {
		if e.Key == PostKey {
			continue
		}
		if _, ok := bm[ik{e.Key, e.Ver}]; !ok {
			return fmt.Sprintf("iter:%s:%s->absent", e.Key, cls(e.Key, KeyRead{Found: e.Err == "", Val: e.Val, Err: e.Err}))
		}
	}
	return "other"
}

func (pi *postInst) Enabled() []string {
	if pi.sig != "" || pi.rec == nil || pi.rec.H == nil || pi.rec.H.DB == nil {
		return nil
	}
	h := pi.rec.H
	var ops []string
	l := h.DB.VerifLSM()
	if !l.VerifActiveEmpty() || l.VerifNumImmutables() > 0 {
		ops = append(ops, "rf")
	}
	for _, op := range h.MaintMenu(true, false) {
		if op == "rotate" || op == "flush" {
			continue
		}
		ops = append(ops, op)
	}
	if pi.e.Spec.PostPut && pi.put == nil {
		ops = append(ops, "put")
	}
	if pi.e.Spec.PostCrash {
		ops = append(ops, "crash")
	}
	return ops
}

func (pi *postInst) Apply(op string) (bool, error) {
	pi.last = op
	pi.hist = append(pi.hist, op)
	pi.e.trace("post schedule %v on image {%s}", pi.hist, pi.img.Describe())
	h := pi.rec.H
	if op == "crash" {
		// second process crash at a quiescent instant: the directory as it is now
		img, err := crashfs.Capture(pi.rec.Dir, skipLock)
		if err != nil {
			return false, err
		}
		// one DB per process at a time (process-global hook handlers): the abandoned
		// instance is shut down before the image is reopened; the image is already taken
		pi.rec.Close()
		nrec := pi.e.R.Recover(img)
		pi.rec = nrec
		if pi.put != nil {
			pi.crashed = true
		}
		if nrec.OpenErr != "" {
			pi.sig, pi.desc = "post-reopen-failed:"+Classify(nrec.OpenErr), "reopen after a second crash failed: "+nrec.OpenErr
		}
		return true, nil
	}
	if op == "put" {
		// a NEW client write: the only thing allowed to change the visible contents
		sp := pi.e.Spec
		val := sp.value('b', 99, PostKey)
		var err error
		if sp.Mode == "plain" {
			err = h.DB.Set([]byte(PostKey), val)
		} else {
			txn := h.DB.NewTransaction(true)
			if err = txn.Set([]byte(PostKey), val); err == nil {
				err = txn.Commit()
			} else {
				txn.Discard()
			}
		}
		if err != nil {
			pi.e.P.Add("post_put_errors", 1)
			return false, nil
		}
		pi.put = val
		return true, nil
	}
	changed, err := h.Maint(op)
	if err != nil {
		var ie *dbh.ImplError
		if asImpl(err, &ie) {
			pi.e.P.Add("post_impl_errors", 1)
			return true, nil
		}
		if strings.Contains(err.Error(), "panicked") {
			pi.sig, pi.desc = "post-maint-panic:"+OpClass(op), err.Error()
			return true, nil
		}
		if strings.Contains(err.Error(), "flush did not complete") {
			// the flush task failed inside the engine (background work giving up): not a
			// statement about contents; the reads are compared as usual
			pi.e.P.Add("post_impl_errors", 1)
			return true, nil
		}
		return false, err
	}
	return changed, nil
}

func (pi *postInst) Check() (string, string) {
	if pi.sig != "" {
		return pi.sig, pi.desc
	}
	if pi.rec == nil || pi.rec.H == nil {
		return "", ""
	}
	st := pi.e.Spec.ReadState(pi.rec.H)
	now := withoutKey(st.Canon(), PostKey)
	if pi.put != nil {
		// the new write itself (it may legitimately be lost by a later crash without SyncWrites)
		if g := st.Gets[PostKey]; !eqVal(g, pi.put, true) && !(pi.crashed && !pi.e.Spec.Cfg.SyncWrites) {
			return "post-put-not-readable after=" + OpClass(pi.last), fmt.Sprintf("key %s written after reopen reads %s after step %q", PostKey, g, pi.last)
		}
	}
	if now != pi.base {
		return "contents-changed after=" + OpClass(pi.last) + " " + pi.stateDiff(st) + " copies=" + pi.e.Spec.Locate(pi.rec.H), fmt.Sprintf("visible contents changed without a client write after maintenance step %q\n--- after reopen\n%s--- now\n%s", pi.last, pi.base, now)
	}
	return "", ""
}

func (pi *postInst) Key() string { return "" }

// withoutKey drops the lines of a canonical state that speak about key k.
func withoutKey(canon, k string) string {
	var sb strings.Builder
	for _, l := range strings.Split(canon, "\n") {
		if l == "" || strings.HasPrefix(l, "get "+k+" = ") || strings.HasPrefix(l, "iter 0/"+k+"@") {
			continue
		}
		sb.WriteString(l)
		sb.WriteByte('\n')
	}
	return sb.String()
}
func (pi *postInst) Close() {
	if pi.rec != nil {
		pi.rec.Close()
		pi.rec = nil
	}
}

func asImpl(err error, target **dbh.ImplError) bool {
	for err != nil {
		if ie, ok := err.(*dbh.ImplError); ok {
			*target = ie
			return true
		}
		u, ok := err.(interface{ Unwrap() error })
		if !ok {
			return false
		}
		err = u.Unwrap()
	}
	return false
}

func (e *Explorer) post(img *crashfs.Image, base *State, count bool, classify func(string, []byte) string) []viol {
	sub := vr.NewPartial()
	baseCanon := withoutKey(base.Canon(), PostKey)
	seqmc.Explore(seqmc.Config{
		New: func() seqmc.Instance {
			rec := e.R.Recover(img)
			pi := &postInst{e: e, img: img, rec: rec, base: baseCanon, baseSt: base, classify: classify}
			if rec.OpenErr != "" {
				pi.sig, pi.desc = "post-reopen-failed:"+Classify(rec.OpenErr), rec.OpenErr
			}
			return pi
		},
		MaxDepth: e.Spec.PostDepth,
		Shard:    vr.ShardInfo{Index: 0, Count: 1},
		Expired:  e.Expired,
	}, sub)
	if count {
		e.P.Add("post_schedules", sub.Counters["executions"])
		e.P.Add("post_steps", sub.Counters["transitions"])
		e.P.Add("post_checks", sub.Counters["checks"])
	}
	if sub.TimedOut {
		e.P.TimedOut = true
	}
	var out []viol
	for _, v := range sub.Violations {
		var post []string
		_ = json.Unmarshal([]byte(v.Replay), &post)
		out = append(out, viol{v.Sig, v.Desc, Replay{Post: post}})
	}
	return out
}

// ---- literal crash cross-validation ---------------------------------------------------

const childEnv = "VERIF_CRASHDB_CHILD"

type childReq struct {
	Spec  string
	Path  []string
	Dir   string
	Seq   int
	Phase string
}

// MaybeChild must be called first thing in main(): in a literal-crash child process it runs
// the history and kills the process (SIGKILL) at the requested crash point.
func MaybeChild(specs []*Spec) {
	blob := os.Getenv(childEnv)
	if blob == "" {
		return
	}
	var req childReq
	if err := json.Unmarshal([]byte(blob), &req); err != nil {
		vr.Fatalf("child request: %v", err)
	}
	for _, s := range specs {
		if s.Name != req.Spec {
			continue
		}
		r := &Runner{Spec: s, BaseDir: req.Dir, NoImages: true}
		r.OnFSPoint = func(p *crashfs.Point) {
			if p.Seq == req.Seq && p.Phase == req.Phase {
				_ = syscall.Kill(syscall.Getpid(), syscall.SIGKILL)
				select {}
			}
		}
		_, _ = r.RunNode(req.Path)
		os.Exit(3) // the crash point was not reached
	}
	vr.Fatalf("child: unknown spec %q", req.Spec)
}

// treeDiff returns "" when two trees are identical except for at most 5 bytes per SST of
// equal-length MANIFEST files (the CreatedAt seconds of AddFile edits).
func treeDiff(a, b *crashfs.Image) string {
	an, bn := a.Names(), b.Names()
	if strings.Join(an, " ") != strings.Join(bn, " ") {
		return "file sets differ"
	}
	ssts := 0
	for _, n := range an {
		if strings.HasSuffix(n, ".sst") {
			ssts++
		}
	}
	for _, n := range an {
		x, y := a.Files[n], b.Files[n]
		if string(x) == string(y) {
			continue
		}
		if !strings.HasPrefix(n, "MANIFEST-") || len(x) != len(y) {
			return "file " + n + " differs"
		}
		d := 0
		for i := range x {
			if x[i] != y[i] {
				d++
			}
		}
		if d > 5*(ssts+1) {
			return fmt.Sprintf("file %s differs in %d bytes", n, d)
		}
	}
	return ""
}

// crossValidate re-executes the history in child processes that are killed (SIGKILL) at
// chosen crash points and requires the surviving directory tree to be byte-identical to the
// image the in-process snapshot recorded for that point.
func (e *Explorer) crossValidate(path []string) {
	p := e.P
	for attempt := 0; attempt < 4; attempt++ {
		mism := e.crossOnce(path)
		if mism == "" {
			return
		}
		if mism == "skip" {
			return
		}
		if attempt == 3 {
			p.Add("crossval_mismatch", 1)
			p.Notes = append(p.Notes, fmt.Sprintf("literal-crash cross-validation mismatch for [%s]: %s", pathStr(path), mism))
		}
	}
}

func (e *Explorer) crossOnce(path []string) string {
	p := e.P
	var pts []crashfs.Point
	saved := e.R.OnFSPoint
	e.R.OnFSPoint = func(pt *crashfs.Point) {
		if pt.Phase != "torn" && pt.Image != nil {
			pts = append(pts, *pt)
		}
	}
	res, err := e.R.RunNode(path)
	e.R.OnFSPoint = saved
	if err != nil || !res.Valid || len(pts) < 2 {
		return "skip"
	}
	// pick up to 4 points spread over the recorded range whose image differs from the previous one
	var pick []crashfs.Point
	var cand []crashfs.Point
	for i := 1; i < len(pts); i++ {
		if pts[i].Image.Hash != pts[i-1].Image.Hash {
			cand = append(cand, pts[i])
		}
	}
	if len(cand) == 0 {
		return "skip"
	}
	for k := 0; k < 4 && k < len(cand); k++ {
		pick = append(pick, cand[(k*len(cand))/min(4, len(cand))])
	}
	for _, pt := range pick {
		dir := e.R.freshDir("kid")
		req := childReq{Spec: e.Spec.Name, Path: path, Dir: dir, Seq: pt.Seq, Phase: pt.Phase}
		blob, _ := json.Marshal(req)
		cmd := exec.Command(os.Args[0])
		cmd.Env = append(os.Environ(), childEnv+"="+string(blob), "VERIF_SHARD=", "GOMAXPROCS=2")
		err := cmd.Run()
		killed := false
		if ee, ok := err.(*exec.ExitError); ok {
			if ws, ok := ee.Sys().(syscall.WaitStatus); ok && ws.Signaled() && ws.Signal() == syscall.SIGKILL {
				killed = true
			}
		}
		if !killed {
			_ = os.RemoveAll(dir)
			p.Add("crossval_child_not_killed", 1)
			return fmt.Sprintf("child for point %s did not die at the crash point (%v)", pt.String(), err)
		}
		// the child's Runner numbers its directories like ours: the single run dir is run1
		got, cerr := crashfs.Capture(dir+"/run1", skipLock)
		_ = os.RemoveAll(dir)
		if cerr != nil {
			return cerr.Error()
		}
		if got.Hash != pt.Image.Hash {
			// The only wall-clock dependent bytes of a work directory are the CreatedAt stamps
			// (unix seconds, varint) inside manifest AddFile edits: a MANIFEST file of equal
			// length differing in a few bytes is accepted and counted separately.
			if d := treeDiff(pt.Image, got); d != "" {
				return fmt.Sprintf("point %s: in-process image {%s} != killed child's tree {%s}: %s", pt.String(), pt.Image.Describe(), got.Describe(), d)
			}
			p.Add("crossval_points_identical_modulo_manifest_timestamps", 1)
		}
		p.Add("crossval_points_identical", 1)
	}
	p.Add("crossval_histories", 1)
	return ""
}
