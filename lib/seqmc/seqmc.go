// Package seqmc is a bounded-exhaustive explorer of operation sequences on a real
// object. Objects cannot be cloned, so a sibling branch is reached by replaying the
// path on a fresh instance; the leftmost child continues on the live instance.
// With a canonical state key, (key, remaining depth) pruning makes it an
// explicit-state search: a state is not re-expanded if it was already expanded with
// at least as much remaining depth.
package seqmc

import (
	"strings"

	"verif/lib/vr"
)

// Instance is one live object under exploration.
type Instance interface {
	// Enabled lists the operations enabled in the current state, simplest first,
	// in a deterministic order.
	Enabled() []string
	// Apply performs op. changed=false means "nothing to do" (state identical to
	// before): the branch is cut. A returned error is a harness error (exit 2).
	Apply(op string) (changed bool, err error)
	// Check evaluates the oracle in the current state; sig=="" means it holds.
	Check() (sig, desc string)
	// Key returns a canonical state key whose equality implies equal futures, or ""
	// to disable deduplication.
	Key() string
	Close()
}

type Config struct {
	New      func() Instance
	MaxDepth int
	Shard    vr.ShardInfo
	ShardAt  int // prefix depth at which subtrees are distributed (default 2)
	Expired  func() bool
	// OnLeaf is called at every path end (depth bound or no enabled op) with the path.
	OnLeaf func(path []string, in Instance)
	// Iterative: explore depth 1, 2, ... MaxDepth in turn (shortest counterexamples first; the
	// deepest bound completed before the budget ran out is reported as "max_completed_depth").
	Iterative bool
}

type Stats struct {
	Executions  int64 // fresh instances built (replays)
	Transitions int64 // Apply calls that changed state, outside replays
	Replayed    int64 // Apply calls made while replaying prefixes
	Checks      int64
	Pruned      int64
	Cut         int64 // "nothing to do" transitions
	MaxDepth    int
	Incomplete  bool
}

type explorer struct {
	cfg     Config
	p       *vr.Partial
	st      *Stats
	seen    map[uint64]int // state key hash -> max remaining depth already expanded
	subtree int
}

// Explore runs the search, recording violations, states and samples into p.
func Explore(cfg Config, p *vr.Partial) Stats {
	if cfg.Iterative {
		var total Stats
		cfg.Iterative = false
		max := cfg.MaxDepth
		for d := 1; d <= max; d++ {
			cfg.MaxDepth = d
			st := Explore(cfg, p)
			total.Executions += st.Executions
			total.Transitions += st.Transitions
			if st.Incomplete {
				total.Incomplete = true
				break
			}
			p.Max("max_completed_depth", int64(d))
			// keep deepening even after a violation: the shallow one may be a listed known
			// finding while a deeper, different one is not
		}
		return total
	}
	if cfg.ShardAt <= 0 {
		cfg.ShardAt = 2
	}
	st := Stats{}
	e := &explorer{cfg: cfg, p: p, st: &st, seen: map[uint64]int{}}
	in := e.build(nil)
	if in != nil {
		e.dfs(in, nil)
	}
	p.Add("executions", st.Executions)
	p.Add("transitions", st.Transitions)
	p.Add("replayed_steps", st.Replayed)
	p.Add("checks", st.Checks)
	p.Add("pruned", st.Pruned)
	p.Add("cut_noop", st.Cut)
	p.Max("max_depth", int64(st.MaxDepth))
	if st.Incomplete {
		p.TimedOut = true
	}
	return st
}

func (e *explorer) build(path []string) Instance {
	in := e.cfg.New()
	e.st.Executions++
	for _, op := range path {
		if _, err := in.Apply(op); err != nil {
			vr.Fatalf("replay of %v diverged at %q: %v", path, op, err)
		}
		e.st.Replayed++
	}
	return in
}

// dfs explores from the live instance `in` positioned after `path`. It owns `in`.
func (e *explorer) dfs(in Instance, path []string) {
	depth := len(path)
	if depth > e.st.MaxDepth {
		e.st.MaxDepth = depth
	}
	e.st.Checks++
	if sig, desc := in.Check(); sig != "" {
		e.p.Viol(sig, desc+"\n  path: "+strings.Join(path, " ; "), pathJSON(path))
		in.Close()
		return // do not explore below a violating state: shortest counterexamples only
	}
	remaining := e.cfg.MaxDepth - depth
	if k := in.Key(); k != "" {
		e.p.Mark("states", k)
		h := vr.Hash64(k)
		if r, ok := e.seen[h]; ok && r >= remaining {
			e.st.Pruned++
			in.Close()
			return
		}
		e.seen[h] = remaining
	}
	ops := in.Enabled()
	if remaining <= 0 || len(ops) == 0 {
		if e.cfg.OnLeaf != nil {
			e.cfg.OnLeaf(path, in)
		}
		e.p.Sample(strings.Join(path, " ; "))
		in.Close()
		return
	}
	live := in // instance positioned exactly after path, or nil once consumed
	for _, op := range ops {
		if e.cfg.Expired != nil && e.cfg.Expired() {
			e.st.Incomplete = true
			break
		}
		child := append(append([]string{}, path...), op)
		if len(child) == e.cfg.ShardAt {
			e.subtree++
			if !e.cfg.Shard.Owns(e.subtree) {
				continue
			}
		}
		cur := live
		if cur == nil {
			cur = e.build(path)
		}
		live = nil
		changed, err := cur.Apply(op)
		if err != nil {
			vr.Fatalf("apply %q after %v: %v", op, path, err)
		}
		if !changed {
			e.st.Cut++
			live = cur // contract: state identical to before, so cur is still "after path"
			continue
		}
		e.st.Transitions++
		e.dfs(cur, child)
	}
	if live != nil {
		live.Close()
	}
}

func pathJSON(path []string) string {
	var sb strings.Builder
	sb.WriteString("[")
	for i, s := range path {
		if i > 0 {
			sb.WriteString(",")
		}
		sb.WriteString(quote(s))
	}
	sb.WriteString("]")
	return sb.String()
}

func quote(s string) string {
	var sb strings.Builder
	sb.WriteByte('"')
	for _, c := range []byte(s) {
		switch {
		case c == '"' || c == '\\':
			sb.WriteByte('\\')
			sb.WriteByte(c)
		case c < 0x20 || c >= 0x7f:
			sb.WriteString("\\u00")
			sb.WriteByte("0123456789abcdef"[c>>4])
			sb.WriteByte("0123456789abcdef"[c&15])
		default:
			sb.WriteByte(c)
		}
	}
	sb.WriteByte('"')
	return sb.String()
}
