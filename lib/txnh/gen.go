//go:build verif

package txnh

import "strings"

// Script is the op list of one transaction, without the leading begin; the last op is
// commit | commitwith | discard.
type Script []string

func (s Script) String() string { return strings.Join(s, ",") }

func isWrite(op string) bool {
	return strings.HasPrefix(op, "set") || strings.HasPrefix(op, "del")
}

// Scripts enumerates every script of 0..maxOps ops over the alphabet followed by an end
// op. A script without writes ends in "commit" only (Commit of a write-free transaction
// and Discard are the same code path apart from the early return); a script with writes
// ends in each of ends.
func Scripts(alphabet []string, maxOps int, ends []string) []Script {
	var out []Script
	var rec func(cur []string)
	rec = func(cur []string) {
		hasW := false
		for _, o := range cur {
			hasW = hasW || isWrite(o)
		}
		if hasW {
			for _, e := range ends {
				out = append(out, append(append(Script{}, cur...), e))
			}
		} else {
			out = append(out, append(append(Script{}, cur...), "commit"))
		}
		if len(cur) == maxOps {
			return
		}
		for _, o := range alphabet {
			rec(append(cur, o))
		}
	}
	rec(nil)
	return out
}

// swapAB exchanges the keys a and b in a script (key symmetry).
func swapAB(s Script) Script {
	out := make(Script, len(s))
	for i, o := range s {
		switch {
		case strings.HasSuffix(o, ":a"):
			out[i] = o[:len(o)-1] + "b"
		case strings.HasSuffix(o, ":b"):
			out[i] = o[:len(o)-1] + "a"
		default:
			out[i] = o
		}
	}
	return out
}

// CanonicalTuple reports whether the script tuple is the representative of its class under
// (a) permutation of transaction slots (all merges are enumerated, so the tuple order is
// irrelevant) and (b) the exchange of keys a and b.
func CanonicalTuple(t []Script) bool {
	key := func(t []Script) string {
		ss := make([]string, len(t))
		for i, s := range t {
			ss[i] = s.String()
		}
		// sorted multiset
		for i := 1; i < len(ss); i++ {
			for j := i; j > 0 && ss[j] < ss[j-1]; j-- {
				ss[j], ss[j-1] = ss[j-1], ss[j]
			}
		}
		return strings.Join(ss, "|")
	}
	for i := 1; i < len(t); i++ {
		if t[i].String() < t[i-1].String() {
			return false // not sorted: a permutation of it is
		}
	}
	sw := make([]Script, len(t))
	for i, s := range t {
		sw[i] = swapAB(s)
	}
	return key(t) <= key(sw)
}

// class of a step for the independence relation used to prune equivalent merges.
const (
	clsGlobal = iota // begin, commit, discard: ordered against every other global step and against reads
	clsRead          // get, scan: depends on other transactions' commits only
	clsWrite         // set, del: purely local to the Txn object
)

func stepClass(op string) int {
	switch {
	case isWrite(op):
		return clsWrite
	case strings.HasPrefix(op, "get") || op == "scan" || op == "scank":
		return clsRead
	}
	return clsGlobal
}

// independent: steps of two different transactions commute (same observable behaviour in
// either order). Buffered writes touch only their own Txn; reads touch the DB read-only and
// their own read set, so they commute with everything of another transaction except a
// commit (which changes what is stored). begin/commit/discard are kept totally ordered.
func independent(a, b string) bool {
	ca, cb := stepClass(a), stepClass(b)
	if ca == clsWrite || cb == clsWrite {
		return true
	}
	if ca == clsRead && cb == clsRead {
		return true
	}
	if ca == clsRead && cb == clsGlobal {
		return !strings.HasPrefix(b, "commit")
	}
	if cb == clsRead && ca == clsGlobal {
		return !strings.HasPrefix(a, "commit")
	}
	return false
}

// Merges enumerates the interleavings of the scripts (each prefixed by begin). With
// reduce=true an interleaving is skipped when it contains two adjacent independent steps
// of transactions i>j in that order — its neighbour with the two steps swapped is
// equivalent and is enumerated instead (every equivalence class keeps its
// lexicographically least member, which has no such adjacent pair).
func Merges(scripts []Script, reduce bool, visit func(h []Step)) {
	n := len(scripts)
	full := make([][]string, n)
	total := 0
	for i, s := range scripts {
		if len(s) > 0 && s[0] == "~" {
			full[i] = s[1:] // continues a transaction begun by the family's prelude
		} else if len(s) > 0 && strings.HasPrefix(s[0], "begin") {
			full[i] = s // the script names its own begin op (beginro)
		} else {
			full[i] = append([]string{"begin"}, s...)
		}
		total += len(full[i])
	}
	pos := make([]int, n)
	h := make([]Step, 0, total)
	var rec func()
	rec = func() {
		if len(h) == total {
			visit(h)
			return
		}
		for i := 0; i < n; i++ {
			if pos[i] >= len(full[i]) {
				continue
			}
			op := full[i][pos[i]]
			if reduce && len(h) > 0 {
				last := h[len(h)-1]
				if last.T-1 > i && independent(last.Op, op) {
					continue
				}
			}
			h = append(h, Step{i + 1, op})
			pos[i]++
			rec()
			pos[i]--
			h = h[:len(h)-1]
		}
	}
	rec()
}

// InsertEnv returns, for every position 1..len(h) (never before the first step), a copy of
// h with the environment steps inserted there.
func InsertEnv(h []Step, env []string, visit func(h []Step)) {
	for p := 1; p <= len(h); p++ {
		out := make([]Step, 0, len(h)+len(env))
		out = append(out, h[:p]...)
		for _, e := range env {
			out = append(out, Step{0, e})
		}
		out = append(out, h[p:]...)
		visit(out)
	}
}
