//go:build verif

package txnh

import (
	"encoding/json"
	"fmt"
	"os"
	"sort"
	"strings"

	"verif/lib/dbh"
	"verif/lib/vr"
)

// Family is one bounded space of histories.
type Family struct {
	Name     string
	Slots    [][]string // per transaction slot: its op alphabet
	MaxOps   []int      // per slot: max ops before the end op
	Ends     []string   // end ops for scripts with writes
	SlotEnds [][]string // optional per-slot override of Ends
	ReadOnly []bool     // optional per slot: the transaction is opened read-only (NewTransaction(false))
	// Prelude is a fixed sequential history executed (inside the same execution and
	// namespace) before every enumerated interleaving; Fixed, when set, gives each slot's
	// exact script list instead of generating it from Slots/MaxOps. A script whose first
	// element is "~" continues a transaction that the prelude already began.
	Prelude  string
	Fixed    [][]Script
	Reduce   bool       // prune merges equivalent under commuting independent steps
	Symmetry bool       // all slots identical and alphabet closed under a<->b: enumerate canonical tuples only
	Fresh    bool       // every history on a fresh DB (else: long-lived DB, one key namespace per history)
	Warm     int        // Fresh: prelude before the history: 0 none (empty DB, read ts 0), 1|2 that many committed transactions, 3 one commit followed by begin+discard (the next begin reuses a finished read ts)
	EnvSets  [][]string // environment step lists inserted at every position (nil: none)
	Cfg      dbh.Config
}

func (f Family) Bounds() string {
	if f.Fixed != nil {
		return fmt.Sprintf("%s(prelude=%q,scripts=%v,fresh=%v,por=%v)", f.Name, f.Prelude, f.Fixed, f.Fresh, f.Reduce)
	}
	return fmt.Sprintf("%s(txns=%d,ops<=%v,alphabet=%v,ends=%v,fresh=%v,warm=%d,env=%v,por=%v)", f.Name, len(f.Slots), f.MaxOps, f.Slots[0], f.Ends, f.Fresh, f.Warm, f.EnvSets, f.Reduce)
}

// Replay identifies one failing history.
type Replay struct {
	Family  string
	Warm    int
	History string
}

// Driver runs families inside one worker process.
type Driver struct {
	R        *vr.Run
	P        *vr.Partial
	Base     string          // scratch dir of this worker
	Classes  map[string]bool // finding classes this check reports
	ScanAll  bool
	env      *Env
	envName  string
	nsCount  int
	dirSeq   int
	reported map[string]bool
	PerDB    int // histories per long-lived DB before it is recycled
}

func (d *Driver) freshEnv(cfg dbh.Config) (*Env, error) {
	d.dirSeq++
	dir := fmt.Sprintf("%s/db%d", d.Base, d.dirSeq)
	_ = os.RemoveAll(dir)
	if err := os.MkdirAll(dir, 0o755); err != nil {
		return nil, err
	}
	h, err := dbh.Open(dir, cfg)
	if err != nil {
		return nil, err
	}
	return &Env{H: h, ScanAll: d.ScanAll}, nil
}

func (d *Driver) closeEnv(e *Env) {
	if e == nil || e.H == nil {
		return
	}
	_ = e.H.Close()
	_ = os.RemoveAll(e.H.Dir)
}

// Close releases the long-lived DB.
func (d *Driver) Close() {
	d.closeEnv(d.env)
	d.env = nil
}

// cfgWithConflicts: conflict detection on; the long-lived DB gets a memtable large enough
// that it never rotates by itself (it is recycled after PerDB histories). Fresh DBs keep
// the small default: a large memtable makes every open/close expensive.
func cfgWithConflicts(c dbh.Config, longLived bool) dbh.Config {
	c.DetectConflicts = true
	if c.MemTableSize == 0 && longLived {
		c.MemTableSize = 32 << 20
	}
	return c
}

// warmUp commits n single-key transactions in a side namespace so that the oracle has
// history (read timestamps > 0) before the history under test starts.
func warmUp(e *Env, kind int) ([]Finding, error) {
	n := kind
	if kind == 3 {
		n = 1
	}
	var finds []Finding
	for i := 0; i < n; i++ {
		e.NS = fmt.Sprintf("~warm%d/", i)
		x, err := Run(e, []Step{{1, "begin"}, {1, "set:w"}, {1, "commit"}})
		if err != nil {
			return nil, err
		}
		for _, f := range x.Findings { // the implementation fails on the trivial prelude already
			f.Sig = "prelude " + f.Sig
			finds = append(finds, f)
		}
	}
	if kind == 3 {
		e.NS = "~warmro/"
		if _, err := Run(e, []Step{{1, "begin"}, {1, "discard"}}); err != nil {
			return nil, err
		}
	}
	return finds, nil
}

// RunFresh executes h on a brand-new DB.
func (d *Driver) RunFresh(cfg dbh.Config, warm int, h []Step) (*Exec, error) {
	e, err := d.freshEnv(cfgWithConflicts(cfg, false))
	if err != nil {
		return nil, err
	}
	defer d.closeEnv(e)
	pre, err := warmUp(e, warm)
	if err != nil {
		return nil, err
	}
	e.NS = "n00000/" // same length as the namespaces of the long-lived mode (sizes depend on key length)
	x, err := Run(e, h)
	if x != nil {
		x.Findings = append(pre, x.Findings...)
	}
	return x, err
}

func (d *Driver) runNS(name string, cfg dbh.Config, h []Step) (*Exec, error) {
	if d.PerDB == 0 {
		d.PerDB = 20000
	}
	if d.env == nil || d.nsCount >= d.PerDB || d.envName != name {
		d.Close()
		e, err := d.freshEnv(cfgWithConflicts(cfg, true))
		if err != nil {
			return nil, err
		}
		d.env, d.envName, d.nsCount = e, name, 0
	}
	d.nsCount++
	d.env.NS = fmt.Sprintf("%06d/", d.nsCount)
	return Run(d.env, h)
}

func sigsOf(x *Exec, classes map[string]bool) []Finding {
	var out []Finding
	seen := map[string]bool{}
	for _, f := range x.Findings {
		if classes[f.Class] && !seen[f.Sig] {
			seen[f.Sig] = true
			out = append(out, f)
		}
	}
	return out
}

// Execute runs one history of the family, records statistics and confirmed findings.
func (d *Driver) Execute(f *Family, h []Step) {
	if d.reported == nil {
		d.reported = map[string]bool{}
	}
	var x *Exec
	var err error
	if f.Fresh {
		x, err = d.RunFresh(f.Cfg, f.Warm, h)
	} else {
		x, err = d.runNS(f.Name, f.Cfg, h)
	}
	if err != nil {
		vr.Fatalf("family %s history %q: %v", f.Name, Format(h), err)
	}
	p := d.P
	p.Add("histories", 1)
	p.Add("steps", int64(len(h)))
	p.Add("commits", int64(x.Commits))
	p.Add("conflicts", int64(x.Conflicts))
	p.Add("spurious_conflicts", int64(x.SpuriousConflicts))
	p.Add("must_conflict_cases", int64(x.MustConflicts))
	p.Add("reads", int64(x.Reads))
	if x.ConcurrentCommit {
		p.Add("histories_with_concurrent_commit", 1)
	}
	for _, o := range x.Outcome {
		if i := strings.Index(o, ".commit="); i >= 0 {
			p.Add("verdict:"+o[i+1:], 1)
		} else if i := strings.Index(o, ".set=!"); i >= 0 {
			p.Add("verdict:"+o[i+1:], 1)
		}
	}
	p.Mark("outcomes", strings.Join(x.Outcome, " "))
	if p.Counters["histories"]%997 == 1 {
		p.Sample(f.Name + ": " + Format(h) + "  =>  " + strings.Join(x.Outcome, " "))
	}
	finds := sigsOf(x, d.Classes)
	if len(finds) == 0 {
		return
	}
	for _, fd := range finds {
		if d.reported[fd.Sig] {
			p.Viol(fd.Sig, "", "") // count only
			continue
		}
		// confirm on fresh databases: identical signature three times
		warms := []int{f.Warm}
		if !f.Fresh {
			warms = []int{0, 1, 2, 3}
		}
		d.Close() // one DB per process at a time
		confirmedWarm := -1
		for _, w := range warms {
			ok := true
			for rep := 0; rep < 3 && ok; rep++ {
				y, err := d.RunFresh(f.Cfg, w, h)
				ok = err == nil && hasSig(sigsOf(y, d.Classes), fd.Sig)
			}
			if ok {
				confirmedWarm = w
				break
			}
		}
		if confirmedWarm < 0 {
			p.Add("unconfirmed_findings", 1)
			p.Notes = append(p.Notes, fmt.Sprintf("finding %q of history %q (family %s) did not reproduce on a fresh DB: %s", fd.Sig, Format(h), f.Name, fd.Desc))
			continue
		}
		d.reported[fd.Sig] = true
		rp, _ := json.Marshal(Replay{Family: f.Name, Warm: confirmedWarm, History: Format(h)})
		p.Viol(fd.Sig, fmt.Sprintf("%s\n  history (family %s, prelude %d): %s\n  observed: %s", fd.Desc, f.Name, confirmedWarm, Format(h), strings.Join(x.Outcome, " ")), string(rp))
	}
}

func hasSig(fs []Finding, sig string) bool {
	for _, f := range fs {
		if f.Sig == sig {
			return true
		}
	}
	return false
}

// Enumerate walks every history of the family that belongs to this shard.
func (d *Driver) Enumerate(f *Family, sh vr.ShardInfo, expired func() bool) {
	var prelude []Step
	if f.Prelude != "" {
		var err error
		if prelude, err = Parse(f.Prelude); err != nil {
			vr.Fatalf("family %s: %v", f.Name, err)
		}
	}
	nslots := len(f.Slots)
	if f.Fixed != nil {
		nslots = len(f.Fixed)
	}
	lists := make([][]Script, nslots)
	for i := 0; i < nslots; i++ {
		if f.Fixed != nil {
			lists[i] = f.Fixed[i]
			continue
		}
		ends := f.Ends
		if f.SlotEnds != nil {
			ends = f.SlotEnds[i]
		}
		lists[i] = Scripts(f.Slots[i], f.MaxOps[i], ends)
		if f.ReadOnly != nil && f.ReadOnly[i] {
			for j, sc := range lists[i] {
				lists[i][j] = append(Script{"beginro"}, sc...)
			}
		}
	}
	idx := make([]int, len(lists))
	item := 0
	tuple := make([]Script, len(lists))
	var rec func(slot int)
	stop := false
	rec = func(slot int) {
		if stop {
			return
		}
		if slot == len(lists) {
			if f.Symmetry && !CanonicalTuple(tuple) {
				return
			}
			if sh.Index == 0 {
				d.P.Add("script_tuples", 1)
			}
			Merges(tuple, f.Reduce, func(h []Step) {
				visit := func(hh []Step) {
					if len(prelude) > 0 {
						hh = append(append(make([]Step, 0, len(prelude)+len(hh)), prelude...), hh...)
					}
					item++
					if stop || !sh.Owns(item) {
						return
					}
					if expired() {
						stop = true
						d.P.TimedOut = true
						return
					}
					d.Execute(f, hh)
				}
				if len(f.EnvSets) == 0 {
					visit(h)
					return
				}
				for _, es := range f.EnvSets {
					InsertEnv(h, es, visit)
				}
			})
			return
		}
		for i := range lists[slot] {
			idx[slot] = i
			tuple[slot] = lists[slot][i]
			rec(slot + 1)
		}
	}
	rec(0)
	d.Close()
}

// SortedKeys is a small helper for deterministic map iteration in reports.
func SortedKeys(m map[string]int64) []string {
	out := make([]string, 0, len(m))
	for k := range m {
		out = append(out, k)
	}
	sort.Strings(out)
	return out
}

// EnumerateList runs the histories produced by gen (a hand-built family) that belong to
// this shard.
func (d *Driver) EnumerateList(f *Family, sh vr.ShardInfo, expired func() bool, gen func(emit func(h []Step))) {
	item := 0
	stop := false
	gen(func(h []Step) {
		item++
		if stop || !sh.Owns(item) {
			return
		}
		if expired() {
			stop = true
			d.P.TimedOut = true
			return
		}
		d.Execute(f, h)
	})
	d.Close()
}

// H builds a history from "T.op" words.
func H(words ...string) []Step {
	h, err := Parse(strings.Join(words, " "))
	if err != nil {
		panic(err)
	}
	return h
}
