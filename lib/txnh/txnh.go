//go:build verif

// Package txnh executes one interleaved history of transaction API calls
// (begin/get/scan/set/delete/commit/discard of several concurrently open Txn objects,
// plus maintenance and environment steps) on a real NoKV.DB and judges it against a
// commit-log model. It is shared by C03 (snapshot reads, conflicts, serializability)
// and C04 (commit atomicity, version order, failed commits leave no trace).
//
// A history is a sequential program: every API call returns before the next one is
// made, so all interleavings at API-call granularity are enumerated in one goroutine.
// The only helper goroutine is the one that runs a commit which is expected to block
// on the write throttle ("commitbg"/"join").
package txnh

import (
	"bytes"
	"errors"
	"fmt"
	"math"
	"sort"
	"strconv"
	"strings"
	"time"

	NoKV "github.com/feichai0017/NoKV"
	"github.com/feichai0017/NoKV/kv"
	"github.com/feichai0017/NoKV/utils"

	"verif/lib/dbh"
)

// Step is one API call. T>=1: a call on transaction slot T. T==0: an environment step.
//
//	transaction ops:  begin | beginro (read-only) | get:<k> | scan | scank (key-only scan) | set:<k> | setn:<k>:<len> | del:<k> |
//	                  commit | commitwith | commitbg | join | discard
//	environment ops:  rf (rotate + flush all) | compact (L0->base move + ingest drain) |
//	                  throttle-on | throttle-off | close | reopen
type Step struct {
	T  int
	Op string
}

func (s Step) String() string { return strconv.Itoa(s.T) + "." + s.Op }

func Format(h []Step) string {
	parts := make([]string, len(h))
	for i, s := range h {
		parts[i] = s.String()
	}
	return strings.Join(parts, " ")
}

func Parse(s string) ([]Step, error) {
	var out []Step
	for _, f := range strings.Fields(s) {
		i := strings.IndexByte(f, '.')
		if i <= 0 {
			return nil, fmt.Errorf("bad step %q", f)
		}
		t, err := strconv.Atoi(f[:i])
		if err != nil {
			return nil, fmt.Errorf("bad step %q", f)
		}
		out = append(out, Step{t, f[i+1:]})
	}
	return out, nil
}

// Finding is one oracle failure. Class selects which property it belongs to:
//
//	read      C03 (1): a Get/scan did not return the snapshot at the read ts + own writes
//	conflict  C03 (2): commit succeeded although a read key was overwritten after the read ts
//	serial    C03 (3): replaying the successful commits in commit-ts order changes a read
//	atomic    C04: a successful commit is not entirely present at exactly one version
//	order     C04: commit version not greater than every earlier commit version
//	failed    C04: a commit that reported an error left a write behind
//	visible   C04: a transaction begun after an acknowledged commit cannot see it
//	error     an API call returned an error the model has no explanation for
type Finding struct{ Class, Sig, Desc string }

// Env is the database a history runs against plus the model state that outlives one
// history when many histories share one long-lived DB (key namespaces).
type Env struct {
	H           *dbh.H
	NS          string // key namespace of this execution ("" allowed)
	LastVersion uint64 // greatest commit version observed so far in this DB
	ScanAll     bool   // internal all-versions scan of the namespace after every commit and at the end
}

type wr struct {
	val []byte // nil = delete
	by  string // "T.n": writer txn slot and op number, for messages
}

type commitRec struct {
	ts     uint64
	t      int
	writes map[string]*wr
}

type txnState struct {
	t        *NoKV.Txn
	open     bool
	readTs   uint64
	pending  map[string]*wr
	rejected map[string]bool   // keys whose Set/Delete returned an error in this txn
	readKeys map[string]string // keys read from the snapshot -> "get" | "scan"
	observed map[string]bool   // keys whose snapshot state (live value or absence) a read depended on
	nOps     int
	// untracked: when the transaction began, the oracle's read watermark had already
	// passed its read ts, so the watermark cannot hold conflict-history pruning back for
	// it (used only to classify a missed conflict, never to judge)
	untracked  bool
	bg         chan error
	bgStart    uint64
	histBefore []uint64 // oracle's retained conflict history (commit ts) just before Commit was called
}

type Exec struct {
	Env      *Env
	txns     map[int]*txnState
	log      []commitRec
	universe []string
	Findings []Finding
	Outcome  []string          // normalised observations (vacuity / distinct-outcome accounting)
	failedW  map[string]string // value written by a commit that reported an error -> error class
	maint    bool              // a maintenance step happened
	reopened bool
	closed   bool
	// statistics
	Commits, Conflicts, SpuriousConflicts, MustConflicts, Reads int
	ConcurrentCommit                                            bool // some commit landed inside another txn's lifetime
}

func (x *Exec) addf(class, sig, format string, a ...any) {
	x.Findings = append(x.Findings, Finding{class, sig, fmt.Sprintf(format, a...)})
}

func (x *Exec) db() *NoKV.DB { return x.Env.H.DB }

func (x *Exec) key(k string) []byte { return []byte(x.Env.NS + k) }

// snap returns the newest committed write to k with commit ts <= ts.
func (x *Exec) snap(k string, ts uint64) (*wr, uint64) {
	var best *wr
	var bts uint64
	for i := range x.log {
		c := &x.log[i]
		if c.ts <= ts {
			if w, ok := c.writes[k]; ok && (best == nil || c.ts > bts) {
				best, bts = w, c.ts
			}
		}
	}
	return best, bts
}

func live(w *wr) bool { return w != nil && w.val != nil }

func sameState(a, b *wr) bool {
	if !live(a) && !live(b) {
		return true
	}
	if live(a) != live(b) {
		return false
	}
	return bytes.Equal(a.val, b.val)
}

// Universe collects the user keys mentioned in a history.
func Universe(h []Step) []string {
	seen := map[string]bool{}
	var out []string
	for _, s := range h {
		f := strings.Split(s.Op, ":")
		if len(f) >= 2 && (f[0] == "get" || f[0] == "set" || f[0] == "del" || f[0] == "setn") {
			if !seen[f[1]] {
				seen[f[1]] = true
				out = append(out, f[1])
			}
		}
	}
	sort.Strings(out)
	return out
}

// Run executes the history and returns the executor with findings and statistics.
// A returned error is a harness problem (never a property violation).
func Run(env *Env, h []Step) (*Exec, error) {
	x := &Exec{Env: env, txns: map[int]*txnState{}, universe: Universe(h)}
	defer x.cleanup()
	for i, s := range h {
		var err error
		if s.T == 0 {
			err = x.envStep(s.Op)
		} else {
			err = x.txnStep(s.T, s.Op)
		}
		if err != nil {
			return x, fmt.Errorf("step %d (%s): %w", i, s, err)
		}
	}
	if x.Env.ScanAll && !x.closed {
		x.scanAll("end", nil, 0)
	}
	return x, nil
}

func (x *Exec) cleanup() {
	for _, t := range x.txns {
		if t.bg != nil {
			select {
			case <-t.bg:
			case <-time.After(5 * time.Second):
			}
			t.bg = nil
		}
		if t.open && t.t != nil && !x.closed {
			func() {
				defer func() { _ = recover() }()
				t.t.Discard()
			}()
		}
		t.open = false
	}
}

func (x *Exec) envStep(op string) error {
	h := x.Env.H
	switch op {
	case "rf":
		x.maint = true
		_, err := h.Maint("rf")
		return ignoreImpl(err)
	case "compact":
		x.maint = true
		if _, err := h.Maint("l0-base"); ignoreImpl(err) != nil {
			return err
		}
		counts := h.DB.VerifLSM().VerifLevelCounts()
		for lvl := 1; lvl < len(counts); lvl++ {
			if counts[lvl][1] > 0 {
				if _, err := h.Maint(fmt.Sprintf("ingest-drain:%d", lvl)); ignoreImpl(err) != nil {
					return err
				}
			}
		}
		return nil
	case "throttle-on":
		h.DB.VerifSetThrottle(true)
		return nil
	case "throttle-off":
		h.DB.VerifSetThrottle(false)
		return nil
	case "close":
		x.closed = true
		return h.Close()
	case "reopen-if-idle":
		for _, t := range x.txns {
			if t.open {
				return nil
			}
		}
		return x.envStep("reopen")
	case "reopen":
		for _, t := range x.txns {
			if t.open && !x.closed {
				return errors.New("reopen with an open transaction")
			}
		}
		err := h.Reopen()
		x.closed = false
		x.reopened = true
		if err == nil && x.Env.ScanAll {
			x.scanAll("reopen", nil, 0)
		}
		return err
	}
	return fmt.Errorf("unknown environment op %q", op)
}

func ignoreImpl(err error) error {
	var ie *dbh.ImplError
	if err != nil && errors.As(err, &ie) {
		return nil // background work giving up is not constrained by C03/C04
	}
	return err
}

func (x *Exec) txnStep(ti int, op string) (err error) {
	defer func() {
		if r := recover(); r != nil {
			x.addf("error", "panic:"+opClass(op), "transaction %d op %s panicked: %v", ti, op, r)
			err = nil
		}
	}()
	t := x.txns[ti]
	f := strings.Split(op, ":")
	if f[0] == "begin" || f[0] == "beginro" {
		if t != nil && t.open {
			return errors.New("begin on an open slot")
		}
		t = &txnState{pending: map[string]*wr{}, rejected: map[string]bool{}, readKeys: map[string]string{}, observed: map[string]bool{}}
		x.txns[ti] = t
		t.t = x.db().NewTransaction(f[0] == "begin") // beginro: read-only transaction
		t.open = true
		t.readTs = t.t.ReadTs()
		if _, readDone, _, _, _ := x.db().VerifOracleInfo(); readDone >= t.readTs {
			t.untracked = true
		}
		if t.readTs < x.Env.LastVersion {
			x.addf("visible", "begin-readts-behind-acked-commit", "transaction %d began with read ts %d after a commit at version %d had been acknowledged", ti, t.readTs, x.Env.LastVersion)
		}
		return nil
	}
	if t == nil || !t.open {
		return fmt.Errorf("op on a transaction slot that is not open")
	}
	t.nOps++
	switch f[0] {
	case "get":
		x.doGet(ti, t, f[1])
	case "scan":
		x.doScan(ti, t, false)
	case "scank":
		x.doScan(ti, t, true)
	case "set", "setn", "del":
		k := f[1]
		w := &wr{by: fmt.Sprintf("%d.%d", ti, t.nOps)}
		var e error
		switch f[0] {
		case "set":
			w.val = []byte("v" + w.by)
			e = t.t.Set(x.key(k), w.val)
		case "setn":
			n, _ := strconv.Atoi(f[2])
			w.val = bytes.Repeat([]byte{'x'}, n)
			copy(w.val, "V"+w.by+"_")
			e = t.t.Set(x.key(k), w.val)
		case "del":
			e = t.t.Delete(x.key(k))
		}
		if e != nil {
			t.rejected[k] = true
			x.Outcome = append(x.Outcome, fmt.Sprintf("%d.set=!%s", ti, errClass(e)))
			if !errors.Is(e, utils.ErrTxnTooBig) {
				x.addf("error", "write-error:"+errClass(e), "transaction %d %s returned %v", ti, op, e)
			}
		} else {
			t.pending[k] = w
		}
	case "discard":
		t.t.Discard()
		t.open = false
		x.Outcome = append(x.Outcome, fmt.Sprintf("%d.discard", ti))
	case "commit":
		if !x.closed {
			_, _, _, _, t.histBefore = x.db().VerifOracleInfo()
		}
		x.finishCommit(ti, t, t.t.Commit())
	case "commitwith":
		if !x.closed {
			_, _, _, _, t.histBefore = x.db().VerifOracleInfo()
		}
		ch := make(chan error, 1)
		t.t.CommitWith(func(e error) { ch <- e })
		select {
		case e := <-ch:
			x.finishCommit(ti, t, e)
		case <-time.After(20 * time.Second):
			return errors.New("CommitWith callback did not run within 20s")
		}
	case "commitbg":
		_, _, _, _, t.histBefore = x.db().VerifOracleInfo()
		t.bg = make(chan error, 1)
		t.bgStart = x.db().VerifNextTxnTs()
		go func(tt *NoKV.Txn, ch chan error) {
			defer func() {
				if r := recover(); r != nil {
					ch <- fmt.Errorf("panic: %v", r)
				}
			}()
			ch <- tt.Commit()
		}(t.t, t.bg)
		// wait until the commit has been given its timestamp (it then sits in the throttle loop) or has finished
		deadline := time.Now().Add(10 * time.Second)
		for x.db().VerifNextTxnTs() == t.bgStart && len(t.bg) == 0 {
			if time.Now().After(deadline) {
				return errors.New("background commit made no progress within 10s")
			}
			time.Sleep(50 * time.Microsecond)
		}
	case "join":
		if t.bg == nil {
			return errors.New("join without commitbg")
		}
		select {
		case e := <-t.bg:
			t.bg = nil
			x.finishCommit(ti, t, e)
		case <-time.After(20 * time.Second):
			return errors.New("background commit did not return within 20s")
		}
	default:
		return fmt.Errorf("unknown transaction op %q", op)
	}
	return nil
}

func opClass(op string) string {
	if i := strings.IndexByte(op, ':'); i >= 0 {
		return op[:i]
	}
	return op
}

func errClass(e error) string {
	switch {
	case e == nil:
		return "nil"
	case errors.Is(e, utils.ErrConflict):
		return "conflict"
	case errors.Is(e, utils.ErrTxnTooBig):
		return "toobig"
	case errors.Is(e, utils.ErrBlockedWrites):
		return "blocked"
	case errors.Is(e, utils.ErrDBClosed):
		return "closed"
	case errors.Is(e, utils.ErrKeyNotFound):
		return "notfound"
	case errors.Is(e, utils.ErrDiscardedTxn):
		return "discarded"
	}
	return "other"
}

// expectGet is the model answer for a read of k by t: own pending write, else snapshot.
func (x *Exec) expect(t *txnState, k string) (w *wr, fromPending bool) {
	if p, ok := t.pending[k]; ok {
		return p, true
	}
	w, _ = x.snap(k, t.readTs)
	return w, false
}

func (x *Exec) ctx(t *txnState) string {
	if x.maint {
		return " maint"
	}
	return ""
}

func (x *Exec) doGet(ti int, t *txnState, k string) {
	x.Reads++
	want, fromPending := x.expect(t, k)
	if !fromPending {
		t.readKeys[k] = "get"
		t.observed[k] = true
	}
	item, err := t.t.Get(x.key(k))
	if err != nil && !errors.Is(err, utils.ErrKeyNotFound) {
		x.addf("error", "get-error:"+errClass(err), "transaction %d Get(%s) returned %v", ti, k, err)
		return
	}
	var got []byte
	found := err == nil
	if found {
		got = append([]byte{}, item.Entry().Value...)
	}
	x.Outcome = append(x.Outcome, fmt.Sprintf("%d.get:%s=%s", ti, k, x.describe(got, found)))
	if !live(want) && !found {
		return
	}
	if live(want) && found && bytes.Equal(got, want.val) {
		return
	}
	reason := x.classify(t, k, got, found, want, fromPending)
	x.addf("read", "get-"+reason+x.ctx(t), "transaction %d (read ts %d) Get(%s) = %s, model: %s", ti, t.readTs, k, x.describe(got, found), x.describeW(want))
}

func (x *Exec) describe(v []byte, found bool) string {
	if !found {
		return "notfound"
	}
	if len(v) > 12 {
		return fmt.Sprintf("%s..(%d)", v[:12], len(v))
	}
	return string(v)
}

func (x *Exec) describeW(w *wr) string {
	if w == nil {
		return "absent"
	}
	if w.val == nil {
		return "deleted by " + w.by
	}
	return x.describe(w.val, true) + " by " + w.by
}

// classify names the way a read deviates from the model (stable, mechanism-level).
func (x *Exec) classify(t *txnState, k string, got []byte, found bool, want *wr, fromPending bool) string {
	if fromPending {
		if !found {
			return "pending-write-lost"
		}
		if want.val == nil {
			return "pending-delete-ignored"
		}
		return "pending-write-ignored"
	}
	if found {
		// whose value is it?
		for i := range x.log {
			c := &x.log[i]
			if w, ok := c.writes[k]; ok && w.val != nil && bytes.Equal(w.val, got) {
				if c.ts > t.readTs {
					return "future-commit-visible"
				}
				if want != nil && want.val == nil {
					return "deleted-key-visible"
				}
				return "stale-version"
			}
		}
		for _, o := range x.txns {
			if o != t {
				if w, ok := o.pending[k]; ok && w.val != nil && bytes.Equal(w.val, got) {
					return "uncommitted-write-visible"
				}
			}
		}
		return "unknown-value"
	}
	return "committed-value-lost"
}

type kvPair struct {
	k string
	v []byte
}

// doScan: forward scan of the namespace; keyOnly uses IteratorOptions{KeyOnly: true} and
// obtains the values through Item.ValueCopy.
func (x *Exec) doScan(ti int, t *txnState, keyOnly bool) {
	x.Reads++
	how, opName := "scan", "scan"
	if keyOnly {
		how, opName = "scank", "scank"
	}
	// model: every key of the universe, in order, live under (snapshot overlaid with pending)
	var want []kvPair
	for _, k := range x.universe {
		w, fromPending := x.expect(t, k)
		if !fromPending {
			t.observed[k] = true // the scan's result depends on k's snapshot state (present or absent)
		}
		if live(w) {
			want = append(want, kvPair{k, w.val})
			if !fromPending {
				t.readKeys[k] = how
			}
		}
	}
	ns := []byte(x.Env.NS)
	it := t.t.NewIterator(NoKV.IteratorOptions{KeyOnly: keyOnly})
	var got []kvPair
	n := 0
	if len(ns) > 0 {
		it.Seek(ns)
	} else {
		it.Rewind()
	}
	for ; it.Valid() && it.ValidForPrefix(ns); it.Next() {
		e := it.Item().Entry()
		uk := string(e.Key[len(ns):])
		if strings.HasPrefix(string(e.Key), "!NoKV!") {
			continue
		}
		val := e.Value
		if keyOnly {
			vc, err := it.Item().ValueCopy(nil)
			if err != nil {
				x.addf("error", "scan-valuecopy-error", "transaction %d key-only scan: ValueCopy(%s) returned %v", ti, uk, err)
			}
			val = vc
		}
		got = append(got, kvPair{uk, append([]byte{}, val...)})
		if n++; n > 64 {
			break
		}
	}
	it.Close()
	var sb strings.Builder
	for _, p := range got {
		fmt.Fprintf(&sb, "%s=%s,", p.k, x.describe(p.v, true))
	}
	x.Outcome = append(x.Outcome, fmt.Sprintf("%d.%s=[%s]", ti, opName, sb.String()))
	if reason, detail := x.diffScan(t, want, got); reason != "" {
		x.addf("read", how+"-"+reason+x.ctx(t), "transaction %d (read ts %d) forward %s returned [%s]; %s", ti, t.readTs, opName, sb.String(), detail)
	}
}

func (x *Exec) diffScan(t *txnState, want, got []kvPair) (string, string) {
	wm := map[string][]byte{}
	for _, p := range want {
		wm[p.k] = p.v
	}
	gm := map[string]int{}
	for i, p := range got {
		gm[p.k]++
		if i > 0 && got[i-1].k >= p.k {
			if got[i-1].k == p.k {
				return "duplicate-key", fmt.Sprintf("key %s yielded twice", p.k)
			}
			return "out-of-order", fmt.Sprintf("key %s yielded after %s", p.k, got[i-1].k)
		}
	}
	for _, p := range got {
		wv, ok := wm[p.k]
		if !ok {
			w, fromPending := x.expect(t, p.k)
			return x.classify(t, p.k, p.v, true, w, fromPending), fmt.Sprintf("key %s = %s yielded, model: %s", p.k, x.describe(p.v, true), x.describeW(w))
		}
		if !bytes.Equal(wv, p.v) {
			w, fromPending := x.expect(t, p.k)
			return x.classify(t, p.k, p.v, true, w, fromPending), fmt.Sprintf("key %s = %s yielded, model: %s", p.k, x.describe(p.v, true), x.describeW(w))
		}
	}
	for _, p := range want {
		if gm[p.k] == 0 {
			w, fromPending := x.expect(t, p.k)
			return x.classify(t, p.k, nil, false, w, fromPending), fmt.Sprintf("key %s missing, model: %s", p.k, x.describeW(w))
		}
	}
	return "", ""
}

// finishCommit judges the result of Commit / CommitWith's callback.
func (x *Exec) finishCommit(ti int, t *txnState, err error) {
	t.open = false
	hasWrites := len(t.pending) > 0
	// C03 (2): which read keys were overwritten by a commit after the read ts?
	var overwritten []string
	retained := map[uint64]bool{}
	for _, ts := range t.histBefore {
		retained[ts] = true
	}
	allPruned := true // every conflicting commit had already been dropped from the oracle's conflict history
	for k, how := range t.readKeys {
		hit := false
		for i := range x.log {
			c := &x.log[i]
			if c.ts > t.readTs {
				if _, ok := c.writes[k]; ok {
					if !hit {
						overwritten = append(overwritten, how+":"+k)
					}
					hit = true
					if retained[c.ts] {
						allPruned = false
					}
				}
			}
		}
	}
	sort.Strings(overwritten)
	must := hasWrites && len(overwritten) > 0
	if must {
		x.MustConflicts++
	}
	for _, o := range x.txns {
		if o != t && o.open {
			x.ConcurrentCommit = x.ConcurrentCommit || hasWrites
		}
	}
	x.Outcome = append(x.Outcome, fmt.Sprintf("%d.commit=%s", ti, errClass(err)))
	switch {
	case err == nil && !hasWrites:
		if len(t.rejected) == 0 && x.Env.ScanAll {
			x.scanAll("commit-readonly", nil, 0)
		}
		return
	case err == nil:
		x.Commits++
		if must {
			how := overwritten[0][:strings.IndexByte(overwritten[0], ':')] // get | scan | scank
			untr := ""
			if allPruned {
				// mechanism: the commit it conflicts with was pruned from the conflict history
				untr = " conflict-history-pruned"
				if t.untracked {
					untr += " reader-untracked-by-read-watermark"
				}
			}
			x.addf("conflict", "missed-conflict read="+how+untr+x.ctx(t), "transaction %d (read ts %d) committed although %v was overwritten by a commit after its read ts", ti, t.readTs, overwritten)
		}
		v := x.scanAll("commit-ok", t, ti)
		if v == 0 {
			return
		}
		rec := commitRec{ts: v, t: ti, writes: t.pending}
		// C03 (3): serial replay in commit-ts order must reproduce what this txn observed
		var changed []string
		for k := range t.observed {
			a, _ := x.snap(k, t.readTs)
			b, _ := x.snap(k, v-1)
			if !sameState(a, b) {
				changed = append(changed, k)
			}
		}
		sort.Strings(changed)
		if len(changed) > 0 && !must {
			x.addf("serial", "not-serializable scan-phantom"+x.ctx(t), "transaction %d read at ts %d and committed at ts %d, but keys %v (observed absent by a scan) were created by commits in between; replaying the commits in commit-ts order changes its scan result", ti, t.readTs, v, changed)
		}
		x.log = append(x.log, rec)
		if v > x.Env.LastVersion {
			x.Env.LastVersion = v
		}
	default:
		cls := errClass(err)
		if x.failedW == nil {
			x.failedW = map[string]string{}
		}
		for k, w := range t.pending {
			x.failedW[k+"="+string(w.val)] = cls
		}
		if cls == "conflict" {
			x.Conflicts++
			if !must {
				x.SpuriousConflicts++
			}
			if !hasWrites {
				x.addf("error", "commit-error-readonly:conflict", "transaction %d without writes got %v from Commit", ti, err)
			}
		} else if !(cls == "toobig" || cls == "blocked" || cls == "closed") {
			x.addf("error", "commit-error:"+cls, "transaction %d Commit returned %v", ti, err)
		}
		if !x.closed {
			if x.Env.ScanAll {
				x.barrier()
			}
			x.scanAll("commit-failed:"+cls, nil, 0)
		}
	}
}

type verEntry struct {
	k    string
	ver  uint64
	del  bool
	val  []byte
	isVP bool
}

// scanAll walks every stored version of the namespace through the internal iterator and
// compares it with the commit log. When committing != nil the new entries must be exactly
// that transaction's accepted writes at one version greater than every earlier version;
// the version is returned (0 when it cannot be determined).
func (x *Exec) scanAll(when string, committing *txnState, ti int) uint64 {
	db := x.db()
	ns := []byte(x.Env.NS)
	it := db.NewInternalIterator(&utils.Options{IsAsc: true})
	var got []verEntry
	it.Seek(kv.InternalKey(kv.CFDefault, ns, math.MaxUint64))
	for ; it.Valid(); it.Next() {
		e := it.Item().Entry()
		cf, uk, ver := kv.SplitInternalKey(e.Key)
		if cf != kv.CFDefault || !bytes.HasPrefix(uk, ns) {
			break
		}
		if bytes.HasPrefix(uk, []byte("!NoKV!")) {
			continue
		}
		ve := verEntry{k: string(uk[len(ns):]), ver: ver, del: e.Meta&kv.BitDelete != 0, isVP: e.Meta&kv.BitValuePointer != 0}
		if !ve.isVP {
			ve.val = append([]byte{}, e.Value...)
		}
		got = append(got, ve)
		if len(got) > 4096 {
			break
		}
	}
	_ = it.Close()
	for i := range got {
		if got[i].isVP {
			if e, err := db.GetVersionedEntry(kv.CFDefault, x.key(got[i].k), got[i].ver); err == nil && e.Version == got[i].ver {
				got[i].val = e.Value
			}
		}
	}
	// model entries
	type mk struct {
		k   string
		ver uint64
	}
	model := map[mk]*wr{}
	for i := range x.log {
		for k, w := range x.log[i].writes {
			model[mk{k, x.log[i].ts}] = w
		}
	}
	var fresh []verEntry
	seen := map[mk]bool{}
	for _, g := range got {
		w, ok := model[mk{g.k, g.ver}]
		if !ok {
			fresh = append(fresh, g)
			continue
		}
		seen[mk{g.k, g.ver}] = true
		if (w.val == nil) != g.del || (w.val != nil && !bytes.Equal(w.val, g.val)) {
			x.addf("atomic", "stored-version-changed", "%s: stored %s@%d = %s (deleted=%v), model: %s", when, g.k, g.ver, x.describe(g.val, true), g.del, x.describeW(w))
		}
	}
	for m, w := range model {
		if !seen[m] {
			x.addf("atomic", "committed-version-lost", "%s: version %s@%d (%s) of an acknowledged commit is no longer stored", when, m.k, m.ver, x.describeW(w))
		}
	}
	if committing == nil {
		if len(fresh) > 0 {
			sig := "unexplained-version-appeared"
			for _, g := range fresh {
				if cls, ok := x.failedW[g.k+"="+string(g.val)]; ok {
					sig = "failed-commit-left-writes error=" + cls
					break
				}
			}
			if i := strings.IndexByte(when, ':'); i >= 0 {
				when = when[:i]
			}
			sig += " seen-at=" + when
			x.addf("failed", sig, "%s: stored versions not explained by any acknowledged commit: %s", when, fmtVers(fresh))
		}
		return 0
	}
	// successful commit: fresh must be exactly the accepted writes at one version
	vers := map[uint64]bool{}
	byKey := map[string]verEntry{}
	for _, g := range fresh {
		if committing.rejected[g.k] {
			if _, mine := committing.pending[g.k]; !mine {
				continue // a write the API rejected: the statement does not say whether it may appear
			}
		}
		vers[g.ver] = true
		if _, dup := byKey[g.k]; dup {
			x.addf("atomic", "commit-wrote-key-twice", "transaction %d: key %s stored at two new versions: %s", ti, g.k, fmtVers(fresh))
		}
		byKey[g.k] = g
	}
	var v uint64
	for ver := range vers {
		if ver > v {
			v = ver
		}
	}
	if len(vers) > 1 {
		x.addf("atomic", "commit-split-across-versions", "transaction %d committed successfully but its writes are stored at %d different versions: %s", ti, len(vers), fmtVers(fresh))
	}
	for k, w := range committing.pending {
		g, ok := byKey[k]
		if !ok {
			x.addf("atomic", "commit-write-missing", "transaction %d committed successfully but its write to %s (%s) is not stored; new versions: %s", ti, k, x.describeW(w), fmtVers(fresh))
			continue
		}
		if (w.val == nil) != g.del || (w.val != nil && !bytes.Equal(w.val, g.val)) {
			x.addf("atomic", "commit-write-wrong-value", "transaction %d: stored %s@%d = %s (deleted=%v), written: %s", ti, k, g.ver, x.describe(g.val, true), g.del, x.describeW(w))
		}
	}
	for k := range byKey {
		if _, ok := committing.pending[k]; !ok {
			x.addf("atomic", "commit-wrote-unwritten-key", "transaction %d: new version of %s appeared which it did not write: %s", ti, k, fmtVers(fresh))
		}
	}
	if v != 0 && v <= x.Env.LastVersion {
		sig := "commit-version-not-increasing"
		if x.reopened {
			sig += " after-reopen"
		}
		x.addf("order", sig, "transaction %d committed at version %d, but version %d had already been committed", ti, v, x.Env.LastVersion)
	}
	// visibility: a fresh reader must see every write
	if v != 0 && x.Env.ScanAll { // C04 only: the probe transaction changes the oracle's read watermark
		rt := db.NewTransaction(false)
		if rt.ReadTs() < v {
			x.addf("visible", "commit-not-visible-to-new-txn", "commit of transaction %d at version %d was acknowledged but a new transaction got read ts %d", ti, v, rt.ReadTs())
		}
		rt.Discard()
	}
	return v
}

func fmtVers(vs []verEntry) string {
	var sb strings.Builder
	for _, g := range vs {
		if g.del {
			fmt.Fprintf(&sb, "%s@%d=<del> ", g.k, g.ver)
		} else {
			v := g.val
			if len(v) > 10 {
				v = v[:10]
			}
			fmt.Fprintf(&sb, "%s@%d=%s ", g.k, g.ver, v)
		}
	}
	return sb.String()
}

// barrier pushes one more committed write (side key, outside every namespace) through the
// single FIFO commit pipeline: when it is acknowledged, anything a failed commit may have
// left in the queue has been applied too, so the following scan is deterministic.
func (x *Exec) barrier() {
	db := x.db()
	bt := db.NewTransaction(true)
	key := []byte("~barrier")
	if err := bt.Set(key, []byte("x")); err != nil {
		bt.Discard()
		return
	}
	if err := bt.Commit(); err != nil {
		return
	}
	// sequential program: the barrier received the last timestamp handed out
	if v := db.VerifNextTxnTs() - 1; v > x.Env.LastVersion {
		x.Env.LastVersion = v
	}
}
