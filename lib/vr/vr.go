// Package vr is the shared runner support for every check under /verif/checks:
// flag/env parsing, budget, violation reporting with known-finding matching,
// replay artefacts and the evidence file.
package vr

import (
	"crypto/sha1"
	"encoding/hex"
	"encoding/json"
	"flag"
	"fmt"
	"os"
	"path/filepath"
	"regexp"
	"runtime/pprof"
	"sort"
	"strconv"
	"strings"
	"sync"
	"time"
)

// Run is one invocation of a check.
type Run struct {
	Prop       string
	Tier       string // quick | thorough
	Seed       int64
	ReplayPath string // non-empty: replay this artefact instead of exploring
	Root       string // /verif
	Repo       string // /repo (or VERIF_REPO)
	start      time.Time
	deadline   time.Time
	mu         sync.Mutex
	viol       map[string]*violation
	violOrder  []string
	known      []finding
	knownHit   map[int]int
	scratch    string
	timedOut   bool
	notes      []string
	maxReports int
	prof       bool
}

type violation struct {
	Sig    string
	Desc   string
	Replay string
	Count  int
}

type finding struct {
	Status      string `json:"status"` // known | fixed
	Property    string `json:"property"`
	Signature   string `json:"signature,omitempty"`
	SignatureRe string `json:"signature_re,omitempty"`
	Commit      string `json:"commit,omitempty"`
	What        string `json:"what"`
	re          *regexp.Regexp
}

// Coverage mirrors EVIDENCE.schema.json's coverage object.
type Coverage struct {
	Level       string         // exploration | fault_enumeration | model_checking | ...
	Evaluations int64          // executions / cases
	Distinct    int64          // distinct non-trivial cases (measured)
	Rule        string         // how cases are enumerated / what non-trivial means
	Samples     []any          // actual cases
	States      int64          // model_checking
	Transitions int64          // model_checking
	Validated   int64          // traces_validated_against_impl
	Exhaustive  bool           // finite space fully enumerated within the stated bounds
	Bounds      map[string]any // the bounds completed
	Outcomes    int64          // distinct observed outcomes (vacuity guard)
	Extra       map[string]any
	Assumptions []string
}

// Start parses the command line (--tier, --replay) and environment
// (VERIF_TIER, VERIF_SEED, VERIF_ROOT, VERIF_REPO, VERIF_BUDGET_S).
func Start(prop string) *Run {
	r := &Run{Prop: prop, start: time.Now(), viol: map[string]*violation{}, knownHit: map[int]int{}, maxReports: 10}
	fs := flag.NewFlagSet(prop, flag.ContinueOnError)
	tier := fs.String("tier", "", "quick|thorough")
	replay := fs.String("replay", os.Getenv("VERIF_REPLAY"), "replay artefact path")
	budget := fs.Int("budget", 0, "internal wall-clock budget in seconds (0 = tier default)")
	if !strings.HasSuffix(os.Args[0], ".test") {
		_ = fs.Parse(os.Args[1:])
	}
	r.Tier = *tier
	if r.Tier == "" {
		r.Tier = os.Getenv("VERIF_TIER")
	}
	if r.Tier != "thorough" {
		r.Tier = "quick"
	}
	if s := os.Getenv("VERIF_SEED"); s != "" {
		r.Seed, _ = strconv.ParseInt(s, 10, 64)
	}
	r.ReplayPath = *replay
	r.Root = os.Getenv("VERIF_ROOT")
	if r.Root == "" {
		r.Root = "/verif"
	}
	r.Repo = os.Getenv("VERIF_REPO")
	if r.Repo == "" {
		r.Repo = "/repo"
	}
	b := *budget
	if b == 0 {
		if s := os.Getenv("VERIF_BUDGET_S"); s != "" {
			b, _ = strconv.Atoi(s)
		}
	}
	if b == 0 {
		if r.Tier == "quick" {
			b = 150
		} else {
			b = 2400
		}
	}
	r.deadline = r.start.Add(time.Duration(b) * time.Second)
	r.loadFindings()
	if pf := os.Getenv("VERIF_CPUPROFILE"); pf != "" && os.Getenv("VERIF_SHARD") == "" {
		if f, err := os.Create(pf); err == nil {
			_ = pprof.StartCPUProfile(f)
			r.prof = true
		}
	}
	return r
}

func (r *Run) Quick() bool    { return r.Tier == "quick" }
func (r *Run) Thorough() bool { return r.Tier == "thorough" }

// Pick returns q in the quick tier and t in the thorough tier.
func (r *Run) Pick(q, t int) int {
	if r.Quick() {
		return q
	}
	return t
}

// Expired reports whether the internal wall-clock budget is used up. A check
// that stops because of it must report Exhaustive=false; it is never a violation.
func (r *Run) Expired() bool {
	if time.Now().After(r.deadline) {
		r.mu.Lock()
		r.timedOut = true
		r.mu.Unlock()
		return true
	}
	return false
}

// Share returns an "expired" predicate for the i-th of n work items (0-based) that gives
// every remaining item an equal share of what is left of the budget, so that one large
// item cannot starve the ones after it. Hitting a share marks the run as not exhaustive.
func (r *Run) Share(i, n int) func() bool {
	left := n - i
	if left < 1 {
		left = 1
	}
	deadline := time.Now().Add(r.Remaining() / time.Duration(left))
	return func() bool {
		if time.Now().After(deadline) {
			r.mu.Lock()
			r.timedOut = true
			r.mu.Unlock()
			return true
		}
		return r.Expired()
	}
}

// Remaining budget.
func (r *Run) Remaining() time.Duration { return time.Until(r.deadline) }

// TimedOut reports whether Expired ever returned true.
func (r *Run) TimedOut() bool { r.mu.Lock(); defer r.mu.Unlock(); return r.timedOut }

// Note adds a free-text remark to the evidence file.
func (r *Run) Note(format string, a ...any) {
	r.mu.Lock()
	r.notes = append(r.notes, fmt.Sprintf(format, a...))
	r.mu.Unlock()
}

// Scratch returns a per-run scratch directory on tmpfs, removed by Finish.
func (r *Run) Scratch() string {
	r.mu.Lock()
	defer r.mu.Unlock()
	if r.scratch != "" {
		return r.scratch
	}
	base := "/dev/shm"
	if st, err := os.Stat(base); err != nil || !st.IsDir() {
		base = filepath.Join(r.Root, ".build", "scratch")
		_ = os.MkdirAll(base, 0o755)
	}
	d, err := os.MkdirTemp(base, "verif-"+r.Prop+"-")
	if err != nil {
		Fatalf("scratch: %v", err)
	}
	r.scratch = d
	return d
}

// Fatalf reports a harness error (exit 2): never a violation.
func Fatalf(format string, a ...any) {
	fmt.Fprintf(os.Stderr, "HARNESS-ERROR: "+format+"\n", a...)
	os.Exit(2)
}

func (r *Run) loadFindings() {
	data, err := os.ReadFile(filepath.Join(r.Root, "known_findings.jsonl"))
	if err != nil {
		return
	}
	for _, line := range strings.Split(string(data), "\n") {
		line = strings.TrimSpace(line)
		if line == "" || strings.HasPrefix(line, "#") {
			continue
		}
		var f finding
		if err := json.Unmarshal([]byte(line), &f); err != nil {
			Fatalf("known_findings.jsonl: %v: %s", err, line)
		}
		if f.Property != r.Prop || f.Status != "known" {
			continue // fixed entries suppress nothing
		}
		if f.SignatureRe != "" {
			f.re = regexp.MustCompile(f.SignatureRe)
		}
		r.known = append(r.known, f)
	}
}

// Violation records one failing case. sig is the canonical signature of the
// failing input/history/schedule (stable across runs); replay is any
// JSON-marshalable description sufficient to re-run the case.
// It returns true if the violation is new (not a listed known finding).
func (r *Run) Violation(sig, desc string, replay any) bool {
	r.mu.Lock()
	defer r.mu.Unlock()
	for i, f := range r.known {
		if (f.Signature != "" && f.Signature == sig) || (f.re != nil && f.re.MatchString(sig)) {
			r.knownHit[i]++
			return false
		}
	}
	v := r.viol[sig]
	if v != nil {
		v.Count++
		return true
	}
	v = &violation{Sig: sig, Desc: desc, Count: 1}
	r.viol[sig] = v
	r.violOrder = append(r.violOrder, sig)
	if len(r.violOrder) <= r.maxReports {
		h := sha1.Sum([]byte(sig))
		dir := filepath.Join(r.Root, "replays")
		_ = os.MkdirAll(dir, 0o755)
		p := filepath.Join(dir, r.Prop+"-"+hex.EncodeToString(h[:6])+".json")
		blob, _ := json.MarshalIndent(map[string]any{"property": r.Prop, "signature": sig, "description": desc, "replay": replay}, "", " ")
		_ = os.WriteFile(p, blob, 0o644)
		v.Replay = p
	}
	return true
}

// Violations returns the number of distinct new violations so far.
func (r *Run) Violations() int { r.mu.Lock(); defer r.mu.Unlock(); return len(r.violOrder) }

// LoadReplay decodes the "replay" member of a replay artefact into out.
func (r *Run) LoadReplay(out any) {
	data, err := os.ReadFile(r.ReplayPath)
	if err != nil {
		Fatalf("replay: %v", err)
	}
	var w struct {
		Replay json.RawMessage `json:"replay"`
	}
	if err := json.Unmarshal(data, &w); err != nil {
		Fatalf("replay: %v", err)
	}
	if err := json.Unmarshal(w.Replay, out); err != nil {
		Fatalf("replay: %v", err)
	}
}

// Finish writes evidence/<prop>.json, prints KNOWN-FINDING / VIOLATION lines and exits.
func (r *Run) Finish(c Coverage) {
	if r.prof {
		pprof.StopCPUProfile()
	}
	if r.scratch != "" {
		_ = os.RemoveAll(r.scratch)
	}
	wall := time.Since(r.start).Seconds()
	if r.TimedOut() {
		c.Exhaustive = false
	}
	cov := map[string]any{}
	for k, v := range c.Extra {
		cov[k] = v
	}
	cov["evaluations"] = c.Evaluations
	cov["distinct_nontrivial"] = c.Distinct
	cov["rule"] = c.Rule
	if len(c.Samples) == 0 {
		c.Samples = []any{"(none)"}
	}
	if len(c.Samples) > 8 {
		c.Samples = c.Samples[:8]
	}
	cov["samples"] = c.Samples
	cov["exhaustive"] = c.Exhaustive
	cov["distinct_outcomes"] = c.Outcomes
	if c.Bounds != nil {
		cov["bounds"] = c.Bounds
	}
	if c.Level == "model_checking" {
		cov["states"] = c.States
		cov["transitions"] = c.Transitions
		cov["traces_validated_against_impl"] = c.Validated
	} else {
		if c.States > 0 {
			cov["states"] = c.States
		}
		if c.Transitions > 0 {
			cov["transitions"] = c.Transitions
		}
		if c.Validated > 0 {
			cov["traces_validated_against_impl"] = c.Validated
		}
	}
	cov["budget_hit"] = r.TimedOut()
	if len(r.notes) > 0 {
		cov["notes"] = r.notes
	}
	var kf []string
	idx := make([]int, 0, len(r.knownHit))
	for i := range r.knownHit {
		idx = append(idx, i)
	}
	sort.Ints(idx)
	for _, i := range idx {
		f := r.known[i]
		line := fmt.Sprintf("KNOWN-FINDING: property=%s %s (cases=%d)", r.Prop, f.What, r.knownHit[i])
		fmt.Println(line)
		kf = append(kf, line)
	}
	if len(kf) > 0 {
		cov["known_findings_hit"] = kf
	}
	ev := map[string]any{
		"property_id": r.Prop,
		"tier":        r.Tier,
		"seed":        r.Seed,
		"level":       c.Level,
		"coverage":    cov,
		"assumptions": c.Assumptions,
		"wall_s":      wall,
		"violations":  len(r.violOrder),
	}
	if c.Assumptions == nil {
		ev["assumptions"] = []string{}
	}
	if r.ReplayPath == "" {
		dir := filepath.Join(r.Root, "evidence")
		if r.Repo != "/repo" {
			// a run against a scratch worktree (self-test, seeded change) must not replace the
			// evidence of the registered repository
			dir = filepath.Join(r.Root, ".build", "evidence-scratch")
		}
		_ = os.MkdirAll(dir, 0o755)
		blob, _ := json.MarshalIndent(ev, "", " ")
		if err := os.WriteFile(filepath.Join(dir, r.Prop+".json"), append(blob, '\n'), 0o644); err != nil {
			Fatalf("evidence: %v", err)
		}
	}
	fmt.Printf("SUMMARY property=%s tier=%s level=%s evaluations=%d distinct=%d states=%d transitions=%d outcomes=%d exhaustive=%v violations=%d wall=%.1fs\n",
		r.Prop, r.Tier, c.Level, c.Evaluations, c.Distinct, c.States, c.Transitions, c.Outcomes, c.Exhaustive, len(r.violOrder), wall)
	if len(r.violOrder) > 0 {
		for i, sig := range r.violOrder {
			if i >= r.maxReports {
				fmt.Printf("... %d more distinct violation signatures\n", len(r.violOrder)-r.maxReports)
				break
			}
			v := r.viol[sig]
			fmt.Printf("VIOLATION property=%s replay=%s\n  signature: %s\n  cases: %d\n  %s\n", r.Prop, v.Replay, v.Sig, v.Count, v.Desc)
		}
		os.Exit(1)
	}
	os.Exit(0)
}

// Vacuity guard: a check whose executions all produced the same single outcome
// explored nothing that collided. Reported as a harness error, never a violation.
func (r *Run) RequireOutcomes(n int64, min int64) {
	if r.ReplayPath != "" || r.TimedOut() {
		return
	}
	if n < min {
		Fatalf("vacuous exploration for %s: %d distinct outcomes (< %d)", r.Prop, n, min)
	}
}
