package vr

import (
	"encoding/gob"
	"fmt"
	"hash/fnv"
	"os"
	"os/exec"
	"runtime"
	"sort"
	"strconv"
	"strings"
	"sync"
	"time"
)

// Partial is what one worker process reports back to the parent.
type Partial struct {
	Counters   map[string]int64
	Sets       map[string]map[uint64]struct{} // named sets of 64-bit hashes (distinct states, outcomes, ...)
	Samples    []string
	Violations []PViolation
	Notes      []string
	TimedOut   bool
}

type PViolation struct {
	Sig, Desc string
	Replay    string // JSON
	Count     int
}

func NewPartial() *Partial {
	return &Partial{Counters: map[string]int64{}, Sets: map[string]map[uint64]struct{}{}}
}

func Hash64(s string) uint64 {
	h := fnv.New64a()
	_, _ = h.Write([]byte(s))
	return h.Sum64()
}

func (p *Partial) Add(name string, n int64) { p.Counters[name] += n }
func (p *Partial) Max(name string, n int64) {
	if n > p.Counters[name] {
		p.Counters[name] = n
	}
}

// Mark adds s to the named set; reports whether it was new.
func (p *Partial) Mark(set, s string) bool {
	m := p.Sets[set]
	if m == nil {
		m = map[uint64]struct{}{}
		p.Sets[set] = m
	}
	h := Hash64(s)
	if _, ok := m[h]; ok {
		return false
	}
	m[h] = struct{}{}
	return true
}

func (p *Partial) Card(set string) int64 { return int64(len(p.Sets[set])) }

func (p *Partial) Sample(s string) {
	if len(p.Samples) < 6 {
		p.Samples = append(p.Samples, s)
	}
}

func (p *Partial) Merge(o *Partial) {
	for k, v := range o.Counters {
		if strings.HasPrefix(k, "max_") {
			p.Max(k, v)
		} else {
			p.Counters[k] += v
		}
	}
	for name, s := range o.Sets {
		m := p.Sets[name]
		if m == nil {
			m = map[uint64]struct{}{}
			p.Sets[name] = m
		}
		for h := range s {
			m[h] = struct{}{}
		}
	}
	for _, s := range o.Samples {
		p.Sample(s)
	}
	p.Violations = append(p.Violations, o.Violations...)
	p.Notes = append(p.Notes, o.Notes...)
	p.TimedOut = p.TimedOut || o.TimedOut
}

// ShardInfo identifies this process among the workers (0/1 when not sharded).
type ShardInfo struct{ Index, Count int }

// Owns reports whether work item i belongs to this shard.
func (s ShardInfo) Owns(i int) bool { return s.Count <= 1 || i%s.Count == s.Index }

// Workers returns the default number of worker processes.
func Workers() int {
	if s := os.Getenv("VERIF_WORKERS"); s != "" {
		if n, err := strconv.Atoi(s); err == nil && n > 0 {
			return n
		}
	}
	n := runtime.NumCPU()
	if n > 16 {
		n = 16
	}
	// On an oversubscribed machine more workers only add contention: scale down with the
	// 1-minute load average (the explored space does not depend on the worker count).
	if data, err := os.ReadFile("/proc/loadavg"); err == nil {
		var load float64
		if _, err := fmt.Sscan(string(data), &load); err == nil && load > float64(2*n) {
			n = n / 4
		}
	}
	if n < 1 {
		n = 1
	}
	return n
}

// RunSharded runs worker in n child processes (re-executing this binary with
// VERIF_SHARD=i/n) and merges their partial results. In a child it runs worker
// for its shard, writes the partial result and exits. With n<=1, or when
// replaying, it runs worker in-process.
//
// Violations reported by workers are funnelled into r.Violation by the parent
// (so known-finding matching and replay artefacts happen once).
func (r *Run) RunSharded(n int, worker func(sh ShardInfo, p *Partial)) *Partial {
	if spec := os.Getenv("VERIF_SHARD"); spec != "" {
		var i, c int
		if _, err := fmt.Sscanf(spec, "%d/%d", &i, &c); err != nil {
			Fatalf("bad VERIF_SHARD %q", spec)
		}
		p := NewPartial()
		if dn, err := os.OpenFile(os.DevNull, os.O_WRONLY, 0); err == nil {
			os.Stdout = dn // the engine prints diagnostics with fmt.Printf; workers report through the partial only
		}
		worker(ShardInfo{i, c}, p)
		p.Max(fmt.Sprintf("max_shard_wall_ms_%02d", i), time.Since(r.start).Milliseconds())
		p.TimedOut = p.TimedOut || r.TimedOut()
		if r.scratch != "" {
			_ = os.RemoveAll(r.scratch)
		}
		f, err := os.Create(os.Getenv("VERIF_SHARD_OUT"))
		if err != nil {
			Fatalf("shard out: %v", err)
		}
		if err := gob.NewEncoder(f).Encode(p); err != nil {
			Fatalf("shard encode: %v", err)
		}
		_ = f.Close()
		os.Exit(0)
	}
	total := NewPartial()
	if n <= 1 || r.ReplayPath != "" {
		worker(ShardInfo{0, 1}, total)
		r.absorb(total)
		return total
	}
	dir := r.Scratch()
	var wg sync.WaitGroup
	parts := make([]*Partial, n)
	errs := make([]error, n)
	for i := 0; i < n; i++ {
		wg.Add(1)
		go func(i int) {
			defer wg.Done()
			out := fmt.Sprintf("%s/shard-%d.gob", dir, i)
			cmd := exec.Command(os.Args[0], os.Args[1:]...)
			cmd.Env = append(os.Environ(), fmt.Sprintf("VERIF_SHARD=%d/%d", i, n), "VERIF_SHARD_OUT="+out, "GOMAXPROCS=2")
			cmd.Stdout = os.Stderr // workers must not print VIOLATION lines themselves
			cmd.Stderr = os.Stderr
			if err := cmd.Run(); err != nil {
				errs[i] = fmt.Errorf("shard %d: %v", i, err)
				return
			}
			f, err := os.Open(out)
			if err != nil {
				errs[i] = err
				return
			}
			defer f.Close()
			p := NewPartial()
			if err := gob.NewDecoder(f).Decode(p); err != nil {
				errs[i] = err
				return
			}
			parts[i] = p
		}(i)
	}
	wg.Wait()
	for _, e := range errs {
		if e != nil {
			Fatalf("worker failed: %v", e)
		}
	}
	for _, p := range parts {
		total.Merge(p)
	}
	r.absorb(total)
	return total
}

func (r *Run) absorb(p *Partial) {
	sort.SliceStable(p.Violations, func(i, j int) bool { return p.Violations[i].Sig < p.Violations[j].Sig })
	for _, v := range p.Violations {
		if r.Violation(v.Sig, v.Desc, rawJSON(v.Replay)) && v.Count > 1 {
			r.mu.Lock()
			if vv := r.viol[v.Sig]; vv != nil {
				vv.Count += v.Count - 1
			}
			r.mu.Unlock()
		} else if v.Count > 1 {
			r.mu.Lock()
			for i, f := range r.known {
				if (f.Signature != "" && f.Signature == v.Sig) || (f.re != nil && f.re.MatchString(v.Sig)) {
					r.knownHit[i] += v.Count - 1
					break
				}
			}
			r.mu.Unlock()
		}
	}
	for _, n := range p.Notes {
		r.Note("%s", n)
	}
	if p.TimedOut {
		r.mu.Lock()
		r.timedOut = true
		r.mu.Unlock()
	}
}

type rawJSON string

func (j rawJSON) MarshalJSON() ([]byte, error) {
	if j == "" {
		return []byte("null"), nil
	}
	return []byte(j), nil
}

// Viol records a violation in a partial result (worker side).
func (p *Partial) Viol(sig, desc, replayJSON string) {
	for i := range p.Violations {
		if p.Violations[i].Sig == sig {
			p.Violations[i].Count++
			return
		}
	}
	p.Violations = append(p.Violations, PViolation{Sig: sig, Desc: desc, Replay: replayJSON, Count: 1})
}

// SamplesAny converts collected samples for Coverage.Samples.
func (p *Partial) SamplesAny() []any {
	out := make([]any, 0, len(p.Samples))
	for _, s := range p.Samples {
		out = append(out, s)
	}
	return out
}
