//go:build verif

// Package dbh is the shared harness around a real NoKV.DB: it owns every source of
// background nondeterminism (compaction paused, flush worker gated, tickers disabled)
// and offers the maintenance transitions used by the sequence/crash explorers.
// One DB per process at a time (the hook handlers are process-global).
package dbh

import (
	"errors"
	"fmt"
	"io"
	"log"
	"strings"
	"sync"
	"sync/atomic"
	"time"

	NoKV "github.com/feichai0017/NoKV"
	"github.com/feichai0017/NoKV/utils"
	"github.com/feichai0017/NoKV/utils/verifhook"
	"github.com/feichai0017/NoKV/vfs"
)

func init() {
	log.SetOutput(io.Discard) // the engine logs every compaction
}

type Config struct {
	Engine          string // skiplist | art
	Buckets         int
	ValueThreshold  int64
	VlogFileSize    int
	SyncWrites      bool
	DetectConflicts bool
	FS              vfs.FS
	ManifestRewrite int64
	MemTableSize    int64
	MaxBatchCount   int64
	MaxBatchSize    int64
	QueueCap        int64 // commit queue capacity (0 = engine default 1024)
	Tweak           func(*NoKV.Options)
}

type H struct {
	DB  *NoKV.DB
	Dir string
	Cfg Config

	OnPoint func(name string) // extra observer for named points (crash explorer)

	gateOpen atomic.Bool
	permits  chan struct{}
	mu       sync.Mutex
}

var current atomic.Pointer[H]

func (c Config) Options(dir string) *NoKV.Options {
	opt := NoKV.NewDefaultOptions()
	opt.WorkDir = dir
	opt.FS = c.FS
	opt.MemTableSize = 1 << 20
	if c.MemTableSize > 0 {
		opt.MemTableSize = c.MemTableSize
	}
	if c.Engine != "" {
		opt.MemTableEngine = NoKV.MemTableEngine(c.Engine)
	}
	opt.SSTableMaxSz = 1 << 20
	opt.ValueThreshold = 32
	if c.ValueThreshold > 0 {
		opt.ValueThreshold = c.ValueThreshold
	}
	opt.ValueLogFileSize = 1 << 16
	if c.VlogFileSize > 0 {
		opt.ValueLogFileSize = c.VlogFileSize
	}
	opt.ValueLogBucketCount = 1
	if c.Buckets > 0 {
		opt.ValueLogBucketCount = c.Buckets
	}
	opt.ValueLogHotBucketCount = 0
	opt.ValueLogHotKeyThreshold = 0
	opt.ValueLogGCInterval = 0
	opt.ValueLogGCSampleSizeRatio = 1
	opt.ValueLogGCSampleCountRatio = 1
	opt.ValueLogGCSampleFromHead = true
	opt.HotRingEnabled = false
	opt.WriteHotKeyLimit = 0
	opt.HotWriteBurstThreshold = 0
	opt.WriteBatchWait = 0
	opt.EnableWALWatchdog = false
	opt.NumCompactors = 1
	opt.SyncWrites = c.SyncWrites
	opt.DetectConflicts = c.DetectConflicts
	opt.ManifestRewriteThreshold = c.ManifestRewrite
	opt.BlockCacheSize = 64
	opt.BloomCacheSize = 64
	if c.MaxBatchCount > 0 {
		opt.MaxBatchCount = c.MaxBatchCount
	}
	if c.MaxBatchSize > 0 {
		opt.MaxBatchSize = c.MaxBatchSize
	}
	if c.Tweak != nil {
		c.Tweak(opt)
	}
	return opt
}

// Open opens a DB in dir with the flush worker gated and compaction paused.
func Open(dir string, cfg Config) (h *H, err error) {
	h = &H{Dir: dir, Cfg: cfg, permits: make(chan struct{}, 1024)}
	h.install()
	defer func() {
		if r := recover(); r != nil {
			err = fmt.Errorf("open panicked: %v", r)
			h.gateOpen.Store(true)
		}
	}()
	h.DB = NoKV.Open(cfg.Options(dir))
	return h, nil
}

func (h *H) install() {
	current.Store(h)
	// background activities owned by the harness: the compaction loop (driven through
	// Maint instead) and the periodic stats collection (it walks the memtable index from
	// its own goroutine at start-up and every 5 s, concurrently with client writes).
	verifhook.SetPausedHandler(func(name string) bool { return name == "compaction" || name == "stats" })
	verifhook.SetInt64Handler(func(name string) int64 {
		if name == "lsm.arenaSize" {
			return 1 << 20 // one 1 MiB chunk instead of 64 MiB: the arena still grows chunk by chunk
		}
		if name == "db.commitQueueCap" {
			if cur := current.Load(); cur != nil {
				return cur.Cfg.QueueCap
			}
		}
		return 0
	})
	verifhook.SetPointHandler(func(name string) {
		cur := current.Load()
		if cur == nil {
			return
		}
		if name == "lsm.flush.begin" && !cur.gateOpen.Load() {
			for !cur.gateOpen.Load() {
				select {
				case <-cur.permits:
					goto out
				case <-time.After(200 * time.Microsecond):
				}
			}
		}
	out:
		if f := cur.OnPoint; f != nil {
			f(name)
		}
	})
}

// Close opens the flush gate (queued flushes run, as in a real clean close) and closes the DB.
func (h *H) Close() (err error) {
	if h.DB == nil {
		return nil
	}
	h.gateOpen.Store(true)
	defer func() {
		if r := recover(); r != nil {
			err = fmt.Errorf("close panicked: %v", r)
		}
	}()
	err = h.DB.Close()
	h.DB = nil
	return err
}

// Reopen = clean close + open of the same directory.
func (h *H) Reopen() error {
	if err := h.Close(); err != nil {
		return err
	}
	h.gateOpen.Store(false)
	for len(h.permits) > 0 {
		<-h.permits
	}
	h.install()
	var err error
	func() {
		defer func() {
			if r := recover(); r != nil {
				err = fmt.Errorf("open panicked: %v", r)
				h.gateOpen.Store(true)
			}
		}()
		h.DB = NoKV.Open(h.Cfg.Options(h.Dir))
	}()
	return err
}

// FlushOne lets the flush worker flush the oldest immutable memtable and waits for it.
func (h *H) FlushOne() (bool, error) {
	l := h.DB.VerifLSM()
	if l.VerifNumImmutables() == 0 {
		return false, nil
	}
	before := l.FlushMetrics().Completed
	h.permits <- struct{}{}
	deadline := time.Now().Add(20 * time.Second)
	for l.FlushMetrics().Completed == before {
		if time.Now().After(deadline) {
			return false, errors.New("flush did not complete within 20s")
		}
		time.Sleep(20 * time.Microsecond)
	}
	return true, nil
}

// MaintMenu lists the maintenance transitions that can do something in the current state.
func (h *H) MaintMenu(withGC, withReopen bool) []string {
	l := h.DB.VerifLSM()
	var ops []string
	if !l.VerifActiveEmpty() {
		ops = append(ops, "rotate")
	}
	if l.VerifNumImmutables() > 0 {
		ops = append(ops, "flush")
	}
	counts := l.VerifLevelCounts()
	if counts[0][0] > 0 {
		ops = append(ops, "l0-base")
	}
	if counts[0][0] >= 4 {
		ops = append(ops, "l0-l0")
	}
	for lvl := 1; lvl < len(counts); lvl++ {
		if counts[lvl][1] > 0 {
			ops = append(ops, fmt.Sprintf("ingest-drain:%d", lvl))
		}
		if counts[lvl][1] >= 2 {
			ops = append(ops, fmt.Sprintf("ingest-keep:%d", lvl))
		}
	}
	if withGC {
		files, active := h.DB.VerifVlogFiles()
		for b := uint32(0); int(b) < len(files); b++ {
			for _, f := range files[b] {
				if f < active[b] {
					ops = append(ops, fmt.Sprintf("gc:%d:%d", b, f))
				}
			}
		}
	}
	if withReopen {
		ops = append(ops, "reopen")
	}
	return ops
}

// Maint applies one maintenance transition. changed=false: nothing to do.
func (h *H) Maint(op string) (changed bool, err error) {
	defer func() {
		if r := recover(); r != nil {
			err = fmt.Errorf("maintenance %q panicked: %v", op, r)
		}
	}()
	l := h.DB.VerifLSM()
	switch {
	case op == "rotate":
		return h.DB.VerifRotate(), nil
	case op == "flush":
		return h.FlushOne()
	case op == "rf": // macro: seal the active memtable and flush every immutable
		rotated := h.DB.VerifRotate()
		flushed := false
		for {
			did, err := h.FlushOne()
			if err != nil {
				return true, err
			}
			if !did {
				break
			}
			flushed = true
		}
		return rotated || flushed, nil
	case op == "reopen":
		return true, h.Reopen()
	case op == "l0-base":
		return compactResult(l.VerifCompact("l0-base", 0))
	case op == "l0-l0":
		l.VerifAgeTables(time.Hour)
		return compactResult(l.VerifCompact("l0-l0", 0))
	case strings.HasPrefix(op, "ingest-drain:"):
		var lvl int
		fmt.Sscanf(op, "ingest-drain:%d", &lvl)
		return compactResult(l.VerifCompact("ingest-drain", lvl))
	case strings.HasPrefix(op, "ingest-keep:"):
		var lvl int
		fmt.Sscanf(op, "ingest-keep:%d", &lvl)
		return compactResult(l.VerifCompact("ingest-keep", lvl))
	case strings.HasPrefix(op, "regular:"):
		var lvl int
		fmt.Sscanf(op, "regular:%d", &lvl)
		return compactResult(l.VerifCompact("regular", lvl))
	case strings.HasPrefix(op, "gc:"):
		var b, f uint32
		fmt.Sscanf(op, "gc:%d:%d", &b, &f)
		err := h.DB.VerifGC(b, f, 0.000001)
		if errors.Is(err, utils.ErrNoRewrite) {
			return false, nil
		}
		if err != nil {
			return true, &ImplError{Op: op, Err: err}
		}
		return true, nil
	}
	return false, fmt.Errorf("unknown maintenance op %q", op)
}

// ImplError is an error returned by the implementation during a maintenance step
// (as opposed to a harness failure). Explorers may treat it as a property violation
// or as an implementation-only failure depending on the property.
type ImplError struct {
	Op  string
	Err error
}

func (e *ImplError) Error() string { return fmt.Sprintf("%s: %v", e.Op, e.Err) }

func compactResult(err error) (bool, error) {
	if err == nil {
		return true, nil
	}
	if errors.Is(err, utils.ErrFillTables) {
		return false, nil
	}
	return true, &ImplError{Op: "compaction", Err: err}
}
